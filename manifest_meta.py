HOOK_COMMITS = []
NOT_BUILT_REASON = {}
META = {
    "C19": {
        "technique": "property-based testing (rapid) with an exact-rational oracle and inverse round trips, plus exhaustive sweep of the dense decimal range",
        "design_ref": "DESIGN.md §4 C19",
        "level_text": "Generated-input search: scaled numbers are compared in exact rational arithmetic against the decimal k*10^-d (and a 1e-4 bound for arbitrary floats), durations/instants by inverse round trip, relative-end periods through JSON within 1 s. Thorough enumerates all k in +-300000 x d in 0..4 and all n*100ms up to 55 h; beyond that random. Exploration, not proof: values outside the enumerated ranges are sampled.",
        "level_note": "Trusted: math/big, strconv.ParseFloat as the meaning of a decimal literal, rapid. Durations above 3276 days (period type's exact range) are outside the domain.",
    },
}
