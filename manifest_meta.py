HOOK_COMMITS = ["5f3d420", "2632a98"]
NOT_BUILT_REASON = {}
META = {
    "C19": {
        "technique": "property-based testing (rapid) with an exact-rational oracle and inverse round trips, plus exhaustive sweep of the dense decimal range",
        "design_ref": "DESIGN.md §4 C19",
        "level_text": "Generated-input search: scaled numbers are compared in exact rational arithmetic against the decimal k*10^-d (and a 1e-4 bound for arbitrary floats), durations/instants by inverse round trip, relative-end periods through JSON within 1 s. Thorough enumerates all k in +-300000 x d in 0..4 and all n*100ms up to 55 h; beyond that random. Exploration, not proof: values outside the enumerated ranges are sampled.",
        "level_note": "Trusted: math/big, strconv.ParseFloat as the meaning of a decimal literal, rapid. Durations above 3276 days (period type's exact range) are outside the domain.",
    },
    "C02": {
        "technique": "property-based testing (rapid histories per list type) against a reference fold of the cmdOption rules, plus idempotence as a metamorphic relation and a per-type shape sweep",
        "design_ref": "DESIGN.md §4 C02",
        "level_text": "Generated histories of updates in all eight filter shapes are applied to the real stores (wire reply/notify into a remote feature; UpdateData/SetData on a local feature) and DataCopy is compared after every step with an independent ~80-line reference fold; uniqueness, ordering and idempotence are checked in the same step. Thorough covers all 83 Updater types. Exploration over small identifier domains; not a proof.",
        "level_note": "Trusted: the reference fold, rapid, JSON canonicalisation of items. Outside the asserted domain (DESIGN §4 C02 NA): multi-match selectors, selectors on non-key/struct fields, duplicate identifiers in one update, unsorted filter-less replaces, key-less partial merges.",
    },
    "C18": {
        "technique": "exhaustive (function x shape) grid with rapid-generated values and a JSON round-trip oracle; native go fuzzing of decode/encode stability in the thorough tier",
        "design_ref": "DESIGN.md §4 C18",
        "level_text": "Every registered function is exercised in every command shape through ReadCmdType / ReplyCmdType / NotifyOrWriteCmdType and through the feature API on the wire; after encode+decode the function, payload type, partial/delete filters and the generated selectors and elements must come back deep-equal (nothing silently dropped). The grid is complete; values per cell are sampled (5 quick / 300 thorough). All CmdType/FilterType member types round-trip with reflectively generated values.",
        "level_note": "Trusted: reflect-based equivalence (nil==empty list; relative periods +-1.2 s), the JSON naming convention as the independent association of selectors/elements to functions. cmd.Function's content is not asserted (the statement does not fix it).",
    },
    "C04": {
        "technique": "property-based testing (rapid) with a validity predicate over (before, write, result, after) and a metamorphic independence relation; exhaustive sweep over small lists x flag states x shapes",
        "design_ref": "DESIGN.md §4 C04",
        "level_text": "Every write shape a peer can send is generated against lists mixing changeable, unchangeable and flag-less elements, sent over the wire by a bound peer and judged from the result datagram and DataCopy: protected elements deep-equal afterwards, flags never altered, error => data byte-identical, success => all addressed changeable elements show the change, unaddressed elements neither change nor influence the verdict (re-executed on two variant worlds). Exhaustive for lists up to 3 (quick) / 4 (thorough) elements with fixed field values; random beyond.",
        "level_note": "Trusted: reference fold for P4, the harness's notion of 'addressed' (DESIGN §4 C04). Finding F03 (full write replaces protected elements) was repaired in /repo (cda48ec); its entry is 'fixed' and suppresses nothing.",
    },
    "C11": {
        "technique": "property-based testing (rapid histories): retained snapshots compared with their recorded encoding after every later update; before/after equality for failed and non-persisting updates",
        "design_ref": "DESIGN.md §4 C11",
        "level_text": "Snapshots (DataCopy of local and remote features, event payloads, use-case data) are retained and re-encoded after each of up to 5 later updates of all shapes and origins; any difference from the text recorded when the snapshot was taken is a violation. Failed remote writes and persist=false updates must leave DataCopy unchanged. Exploration over generated histories.",
        "level_note": "Trusted: JSON encoding as the observation of a value. The concurrent-read clause is explored by the -race campaign of C17 (readers encoding snapshots against updaters), not by this check.",
    },
    "C08": {
        "technique": "model-based property testing (rapid state machine) against a reference registry, with the complete outbound trace of every peer as the fan-out oracle",
        "design_ref": "DESIGN.md §4 C08",
        "level_text": "Histories of subscription management calls and data changes by three peers with overlapping numbering are compared step by step with a reference set: call verdicts, Subscriptions(peer), ids, events, and after every data change the exact multiset of notifications on every connection (source, destination, function, payload = stored data, nobody else). Exploration over generated histories of ~20-40 steps.",
        "level_note": "Trusted: the grant rule as written in the statement (special accepted), canonical JSON for payload equality. Registry concurrency is not explored here (C17).",
    },
    "C09": {
        "technique": "model-based property testing (rapid state machine) against a reference registry; exhaustive enumeration of request interleavings over a build-tag yield point; free-running stress",
        "design_ref": "DESIGN.md §4 C09, Appendix A.4",
        "level_text": "Sequential histories of bind/unbind calls by three peers are compared with a reference registry (verdicts, Bindings(peer), BindingsOnFeature<=1, ids, events). The schedule clause is decided by enumerating every merge order of 2 and 3 concurrent bind requests around the check-then-insert window (controlled through the verif yield point) and by free-running rounds on real goroutines.",
        "level_note": "Trusted: the sched engine (goroutine parking at yield points, 30 ms quiescence to detect lock waits). Interleavings outside the instrumented window are only reached by stress.",
    },
    "C03": {
        "technique": "model-based property testing (rapid state machine); each write judged by a validity predicate relative to the binding registry and announced operations read immediately before it",
        "design_ref": "DESIGN.md §4 C03",
        "level_text": "Interleaved histories of bind, unbind, reconnect, entity removal, subscription and write operations by three peers; every write is checked for the full set of observable effects (data, notifications on every connection, events, results) against the authorisation that held at that moment, including the immediacy clauses (accepted right after a granted binding; rejected right after unbind, reconnect, entity removal and re-addition).",
        "level_note": "Trusted: reference fold for the effect of accepted writes; acceptance of authorised partial writes is not predicted (C04 owns protection), only its consistency; full writes must be accepted.",
    },
    "C10": {
        "technique": "model-based property testing (rapid state machine) with before/after isolation snapshots per peer and a silence watch on removed connections",
        "design_ref": "DESIGN.md §4 C10",
        "level_text": "Histories in which several peers with overlapping numbering build up registry entries, pending approvals and client-side bookkeeping, and connections or entities are removed at arbitrary points (also re-entrantly from another peer's writer). Isolation is decided by comparing complete per-peer snapshots before and after, counting removal events, probing the survivors with a read, and watching the removed writer past the approval time-out.",
        "level_note": "Trusted: snapshot helpers over the public registry API. Concurrent removal (real goroutines) is C17's subject.",
    },
    "C14": {
        "technique": "model-based property testing (rapid state machine) with a reference callback table; concurrent registrations judged by linearisation intervals",
        "design_ref": "DESIGN.md §4 C14",
        "level_text": "Registrations and deliveries are generated over several features, counters, peers and callback sites; the invocation log (count, reference, remote feature, data) is compared with a reference table consumed on first accepted delivery. Exploration over generated histories; the concurrent windows accept exactly the outcomes a linearisation allows.",
        "level_note": "Trusted: the goroutine barrier (all callback goroutines finished before judging). Callbacks on NodeManagement for replies are outside the asserted domain (DESIGN §4 C14 NA).",
    },
    "C15": {
        "technique": "property-based testing of operation histories on the event bus with an interval (linearisation-window) oracle and a deadlock watchdog",
        "design_ref": "DESIGN.md §4 C15",
        "level_text": "Histories of subscribe/unsubscribe/publish with re-entrant handlers and parallel publishers are judged per (handler, event) pair from start/end stamps: exactly once when subscribed throughout, never when unsubscribed throughout, at most once when overlapping. Core-before-application ordering is observed through the stamps of the peer's capture writer, and directly with harness handlers subscribed on both levels through the build-tag hook spine.VerifSubscribe (a subscription is a (level, handler) pair: one delivery per level in force, core ones on the publishing goroutine and first). Exploration; schedules are whatever the Go scheduler produces.",
        "level_note": "Trusted: one atomic stamp counter orders the log. Publishing from inside a core-level handler is not exercised (only the stack's own handler runs there).",
    },
    "C20": {
        "technique": "model-based property testing (rapid state machine) against a reference registry; exhaustive enumeration of read-modify-write interleavings over a build-tag yield point; free-running stress",
        "design_ref": "DESIGN.md §4 C20, Appendix A.4",
        "level_text": "Sequential histories are compared after every step with a reference map through three observations (Has for every triple, DataCopy, a peer's read). The concurrent clause is decided by enumerating all merge orders of the copy/store segments of operations on different entities (yield point UseCase.afterCopy) and by free-running goroutines.",
        "level_note": "Trusted: sched engine; commutativity of operations on different entities. Interleavings inside the model helpers themselves are only reached by stress.",
    },
    "C12": {
        "technique": "property-based testing (rapid) of the verdict matrix in real time with per-write outcome oracle; deterministic placement of the time-out inside the approval window through a build-tag yield point",
        "design_ref": "DESIGN.md §4 C12",
        "level_text": "Generated verdict matrices over several callbacks, pending writes, peers, delivery orders and late deliveries; every write must show exactly one outcome consistent with its own row. The approval-versus-time-out race, unreachable by timing, is decided by parking the deciding delivery at the yield point until the time-out result is on the wire - all placements enumerated.",
        "level_note": "Trusted: the 25 ms time-out with generous event-driven waits (cases where the harness itself was slow are discarded); the yield point placement. Interleavings of ApproveOrDenyWrite with itself from several goroutines are C17's subject.",
    },
    "C13": {
        "technique": "model-based property testing (rapid state machine) with the complete wire log as reference model; enumerated cache-window scenarios; concurrent rounds on real goroutines",
        "design_ref": "DESIGN.md §4 C13",
        "level_text": "Histories of sender calls and responses are judged against the harness's complete log of what was written, so the oracle is sound for any eviction policy; boundedness is asserted behaviourally; the notify cache is probed with lookups between notifies (205 enumerated scenarios plus generated ones); uniqueness of counters under concurrent use on 8-16 goroutines.",
        "level_note": "Trusted: capture writer order as issue order for non-overlapping calls. Concurrent failures are not shrinkable (the message carries both colliding datagrams).",
    },
    "C01": {
        "technique": "property-based testing (rapid state machine) over the classifier x function x ack x destination matrix with a validity predicate on the complete outbound trace plus acceptance-consistency checks",
        "design_ref": "DESIGN.md §4 C01",
        "level_text": "Sequences of datagrams from two peers against randomly configured local devices; after every datagram all connections are drained and every reply/result is checked for reference, destination, source (local device address + addressed entity/feature), connection, and the number of responses prescribed by the classifier rules; reads of announced readable functions must return the stored data; acceptance is checked for consistency with the observable effect rather than predicted.",
        "level_note": "Trusted: canonical JSON equality for payloads; the harness's notion of well-formed datagram. Asynchronous approval outcomes are C12's subject (no approval callbacks here).",
    },
    "C07": {
        "technique": "model-based property testing (rapid state machine) against a harness-side configuration model; exhaustive enumeration of GetOrAddFeature interleavings over a build-tag yield point; stress",
        "design_ref": "DESIGN.md §4 C07, Appendix A.4",
        "level_text": "Generated configuration histories are checked through every discovery reply and every entity notification on every connection against a model of the local tree; uniqueness of feature numbers over the whole history; all merge orders of 2-3 concurrent GetOrAddFeature calls are enumerated around the lookup/create window.",
        "level_note": "Trusted: sched engine; set comparison of announced operations. Concurrent AddFeature/AddFunctionType races are C17's subject.",
    },
    "C05": {
        "technique": "structure-aware mutation fuzzing driven by rapid (uniform JSON-node mutations of valid datagrams of every kind) with a crash / wedge / still-served oracle inside the target; native coverage-guided go fuzzing of raw bytes in the thorough tier",
        "design_ref": "DESIGN.md §4 C05, Appendix A.2",
        "level_text": "Mutated and hostile datagrams are delivered through the SHIP reader entry point in sequences of 1-5, before and after discovery, from two peers; the target recovers panics, watches for non-returning handling, checks the application's approval goroutine and then requires a valid discovery read from every peer to be answered exactly once. Thorough adds raw-byte coverage-guided fuzzing (3 min, 16 workers) with the semantic oracle inside the target. Exploration: absence of crashes is not established.",
        "level_note": "Trusted: recover + 10 s watchdog as crash/wedge detection; the driver's attribution of process aborts. Native fuzzing cannot be seed-pinned; its saved input is the reproducible unit.",
    },
    "C06": {
        "technique": "model-based property testing (rapid state machine) against a reference device tree with event-delta and removal-cascade oracles",
        "design_ref": "DESIGN.md §4 C06",
        "level_text": "Histories of discovery replies and partial / full add / remove notifications from two peers are applied to a reference tree; after every message the API's view of both peers, the entity events and (after removals) the exact set of vanished registry entries and client-side references are compared. Exploration over generated histories up to 8 (quick) / 15 (thorough) messages.",
        "level_note": "Trusted: reference tree model (reply: additions only; full: replace; partial: entries in order). Regions where the statement is silent are not generated (NA list).",
    },
    "C16": {
        "technique": "real-time property-based testing (rapid histories) with a history invariant; enumeration of start/stop interleavings over two build-tag yield points; free-running hammer",
        "design_ref": "DESIGN.md §4 C16, Appendix A.4, A.6",
        "level_text": "Heartbeat behaviour is observed through the subscribers' connections and sampled data over generated start/stop/remove histories and judged by an invariant with calibrated tolerances; the concurrent clause (no panic, no unstoppable second stream) is decided by enumerating the merge orders of Start and Stop around their check/close and stop/create windows and watching four periods after a final Stop.",
        "level_note": "Trusted: wall-clock tolerances (mean gap, refresh count) with a self-check that discards cases where the harness was descheduled; sched engine. Timing outside the tolerances' resolution (e.g. a doubled period at 100 ms) is not decided.",
    },
    "C17": {
        "technique": "randomised concurrent workload generation (rapid) executed under the Go race detector, with classification of race reports by unsynchronised state and a lock-wait watchdog",
        "design_ref": "DESIGN.md §4 C17, Appendix A.5",
        "level_text": "Generated multi-goroutine workloads over the whole public API and inbound message handling run free in a -race build; each race report is classified, open states (Feature.operations, Feature.description, Device.address) are reported as KNOWN-FINDING, any other pair is a violation. Deadlocks are detected by a 60 s watchdog with goroutine-dump analysis. Exploration of schedules the Go scheduler happens to produce.",
        "level_note": "Trusted: the Go race detector (no false positives), the frame-pair classifier. Residual risk: a rarer race class may first appear in a later run; schedule-dependent findings cannot be replayed, the replay artefact is the race report itself.",
    },
}
