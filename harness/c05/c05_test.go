// Package c05: no inbound byte sequence can crash or wedge the stack.
package c05

import (
	"encoding/json"
	"fmt"
	"os"
	"path/filepath"
	"reflect"
	"runtime"
	"runtime/debug"
	"sort"
	"strings"
	"sync"
	"testing"
	"time"

	"github.com/enbility/spine-go/api"
	"github.com/enbility/spine-go/model"
	"github.com/enbility/spine-go/util"
	"pgregory.net/rapid"

	"verifharness/gen"
	"verifharness/listgen"
	"verifharness/refmodel"
	"verifharness/world"
)

func TestMain(m *testing.M) { world.Main(m) }

// ---------------------------------------------------------------------------------------------
// world

type env struct {
	w       *world.World
	meas    api.FeatureLocalInterface // Measurement server
	lc      api.FeatureLocalInterface // LoadControl server with auto-approving approval callback
	cli     api.FeatureLocalInterface // Measurement client
	cbPanic chan string               // panics inside the application's approval callback
	wg      sync.WaitGroup
}

var peerTree = []world.EntSpec{
	{Addr: []uint{1}, Type: model.EntityTypeTypeCEM, Feats: []world.FeatSpec{
		{ID: 1, Type: model.FeatureTypeTypeMeasurement, Role: model.RoleTypeClient},
		{ID: 2, Type: model.FeatureTypeTypeLoadControl, Role: model.RoleTypeClient},
		{ID: 3, Type: model.FeatureTypeTypeMeasurement, Role: model.RoleTypeServer, Funcs: []world.FuncSpec{{Fn: model.FunctionTypeMeasurementListData, Read: true}, {Fn: model.FunctionTypeMeasurementDescriptionListData, Read: true}}},
	}},
	{Addr: []uint{2}, Type: model.EntityTypeTypeEVSE, Feats: []world.FeatSpec{
		{ID: 1, Type: model.FeatureTypeTypeLoadControl, Role: model.RoleTypeClient},
	}},
	// a sub-entity: it is still known when its parent is announced as removed
	{Addr: []uint{2, 1}, Type: model.EntityTypeTypeEV, Feats: []world.FeatSpec{
		{ID: 1, Type: model.FeatureTypeTypeMeasurement, Role: model.RoleTypeClient},
	}},
}

func newEnv(connectOnly bool) *env { return newEnvBoth(connectOnly, false) }

// newEnvBoth: with both set neither peer has announced itself when the messages arrive (their
// client addresses are equal as far as the stack knows: :[0]:0).
func newEnvBoth(connectOnly, both bool) *env {
	e := &env{w: world.New(), cbPanic: make(chan string, 16)}
	le := e.w.AddLocalEntity([]uint{1}, model.EntityTypeTypeCEM, time.Second)
	e.meas = e.w.AddLocalFeature(le, world.FeatSpec{Type: model.FeatureTypeTypeMeasurement, Role: model.RoleTypeServer, Funcs: []world.FuncSpec{
		{Fn: model.FunctionTypeMeasurementListData, Read: true, Write: true}, {Fn: model.FunctionTypeMeasurementDescriptionListData, Read: true}}})
	e.lc = e.w.AddLocalFeature(le, world.FeatSpec{Type: model.FeatureTypeTypeLoadControl, Role: model.RoleTypeServer, Funcs: []world.FuncSpec{
		{Fn: model.FunctionTypeLoadControlLimitListData, Read: true, Write: true}}})
	e.cli = e.w.AddLocalFeature(le, world.FeatSpec{Type: model.FeatureTypeTypeMeasurement, Role: model.RoleTypeClient})
	e.lc.SetWriteApprovalTimeout(20 * time.Millisecond)
	_ = e.lc.AddWriteApprovalCallback(func(msg *api.Message) {
		// the application approves every write; a panic here is a crash of the application caused by the message
		defer func() {
			if r := recover(); r != nil {
				e.cbPanic <- fmt.Sprintf("%v\n%s", r, debug.Stack())
			}
		}()
		e.lc.ApproveOrDenyWrite(msg, model.ErrorType{ErrorNumber: 0})
	})
	f := gen.ByFunction(model.FunctionTypeMeasurementListData)
	e.meas.SetData(f.Fn, refmodel.Payload(f, []reflect.Value{mkItem(f, 0), mkItem(f, 1)}))
	lf := gen.ByFunction(model.FunctionTypeLoadControlLimitListData)
	e.lc.SetData(lf.Fn, refmodel.Payload(lf, []reflect.Value{mkItem(lf, 0), mkItem(lf, 1)}))
	for i := 0; i < 2; i++ {
		if (connectOnly && i == 0) || both {
			e.w.Connect(fmt.Sprintf("ski-%d", i+1), fmt.Sprintf("d:_r:peer%d", i+1)) // the first messages arrive before discovery
			continue
		}
		p := e.w.AddPeer(fmt.Sprintf("ski-%d", i+1), fmt.Sprintf("d:_r:peer%d", i+1), peerTree)
		p.CallOK(world.SubscribeCall(p.FA([]uint{1}, 1), e.meas.Address(), model.FeatureTypeTypeMeasurement))
		if i == 1 || !connectOnly {
			p.CallOK(world.BindCall(p.FA([]uint{1}, 2), e.lc.Address(), model.FeatureTypeTypeLoadControl))
		}
	}
	return e
}

// wear: long-lived connections - before the messages of the case arrive, the connections of the announced
// (subscribed) peers have carried 100 notifications already (the application changed its measurement data 100 times).
func (e *env) wear() {
	f := gen.ByFunction(model.FunctionTypeMeasurementListData)
	for i := 0; i < 100; i++ {
		e.meas.SetData(f.Fn, refmodel.Payload(f, []reflect.Value{mkItem(f, uint64(i%2)), mkItem(f, 2)}))
	}
	e.meas.SetData(f.Fn, refmodel.Payload(f, []reflect.Value{mkItem(f, 0), mkItem(f, 1)}))
	e.w.Sync()
	for _, p := range e.w.Peers {
		p.Cap.Drain()
	}
	e.w.Events.Drain()
}

func mkItem(f *gen.Func, id uint64) reflect.Value {
	it := reflect.New(f.ItemType).Elem()
	for _, k := range f.KeyFields {
		gen.SetKey(it, k, id)
	}
	if f.WriteCheck != "" {
		b := true
		it.FieldByName(f.WriteCheck).Set(reflect.ValueOf(&b))
	}
	return it
}

// ---------------------------------------------------------------------------------------------
// templates: one valid datagram of every kind

type template struct {
	name string
	make func(t *rapid.T, e *env, p *world.Peer) model.DatagramType
}

func listCmd(t *rapid.T, fn model.FunctionType, shapes []string, label string) model.CmdType {
	f := gen.ByFunction(fn)
	state := []reflect.Value{mkItem(f, 0), mkItem(f, 1)}
	shape := rapid.SampledFrom(shapes).Draw(t, label+".shape")
	return listgen.Cmd(f, listgen.Update(t, f, state, shape, gen.Opt{}, label))
}

func discoveryNotify(p *world.Peer, ents []world.EntSpec, change *model.NetworkManagementStateChangeType, partial bool) model.CmdType {
	cmd := model.CmdType{NodeManagementDetailedDiscoveryData: p.DiscoveryData(ents, change)}
	if partial {
		cmd.Function = util.Ptr(model.FunctionTypeNodeManagementDetailedDiscoveryData)
		cmd.Filter = []model.FilterType{*model.NewFilterTypePartial()}
	}
	return cmd
}

var (
	added   = model.NetworkManagementStateChangeTypeAdded
	removed = model.NetworkManagementStateChangeTypeRemoved
)

var templates = []template{
	{"discovery-reply", func(t *rapid.T, e *env, p *world.Peer) model.DatagramType {
		return p.Msg(model.CmdClassifierTypeReply, p.NM(), world.LocalNM(), false, p.DiscoveryRef, model.CmdType{NodeManagementDetailedDiscoveryData: p.DiscoveryData(world.WithDeviceInfo(peerTree), nil)})
	}},
	{"discovery-notify-partial-add", func(t *rapid.T, e *env, p *world.Peer) model.DatagramType {
		ent := world.EntSpec{Addr: []uint{3}, Type: model.EntityTypeTypeEV, Feats: []world.FeatSpec{{ID: 1, Type: model.FeatureTypeTypeMeasurement, Role: model.RoleTypeClient}}}
		d := p.Msg(model.CmdClassifierTypeNotify, p.NM(), world.LocalNM(), false, nil, discoveryNotify(p, []world.EntSpec{ent}, &added, true))
		// the address of the new entity: as it should be, present but empty, or oddly deep
		switch rapid.IntRange(0, 5).Draw(t, "newEntityAddress") {
		case 0:
			if data := d.Payload.Cmd[0].NodeManagementDetailedDiscoveryData; data != nil && len(data.EntityInformation) > 0 && data.EntityInformation[0].Description != nil && data.EntityInformation[0].Description.EntityAddress != nil {
				data.EntityInformation[0].Description.EntityAddress.Entity = []model.AddressEntityType{}
			}
		case 1:
			if data := d.Payload.Cmd[0].NodeManagementDetailedDiscoveryData; data != nil && len(data.EntityInformation) > 0 && data.EntityInformation[0].Description != nil && data.EntityInformation[0].Description.EntityAddress != nil {
				data.EntityInformation[0].Description.EntityAddress.Entity = []model.AddressEntityType{3, 0, 0, 0, 0, 0, 7}
			}
		}
		return d
	}},
	{"discovery-notify-partial-remove", func(t *rapid.T, e *env, p *world.Peer) model.DatagramType {
		ent := world.EntSpec{Addr: []uint{2}, Type: model.EntityTypeTypeEVSE}
		return p.Msg(model.CmdClassifierTypeNotify, p.NM(), world.LocalNM(), false, nil, discoveryNotify(p, []world.EntSpec{ent}, &removed, true))
	}},
	{"discovery-notify-full", func(t *rapid.T, e *env, p *world.Peer) model.DatagramType {
		return p.Msg(model.CmdClassifierTypeNotify, p.NM(), world.LocalNM(), false, nil, discoveryNotify(p, world.WithDeviceInfo(peerTree[:1]), nil, false))
	}},
	{"discovery-read", func(t *rapid.T, e *env, p *world.Peer) model.DatagramType {
		return p.Msg(model.CmdClassifierTypeRead, p.NM(), world.LocalNM(), false, nil, model.CmdType{NodeManagementDetailedDiscoveryData: &model.NodeManagementDetailedDiscoveryDataType{}})
	}},
	{"discovery-read-filtered", func(t *rapid.T, e *env, p *world.Peer) model.DatagramType {
		// a restricted read: partial filter with an entity / feature selector and / or elements
		flt := model.NewFilterTypePartial()
		sel := &model.NodeManagementDetailedDiscoveryDataSelectorsType{}
		switch rapid.IntRange(0, 3).Draw(t, "selectorKind") {
		case 0:
			addr := rapid.SampledFrom([][]model.AddressEntityType{{0}, {1}, {2}, {1, 1}, {7}}).Draw(t, "entity")
			sel.EntityInformation = &model.NetworkManagementEntityDescriptionListDataSelectorsType{EntityAddress: &model.EntityAddressType{Entity: addr}}
			if rapid.Bool().Draw(t, "withDevice") {
				sel.EntityInformation.EntityAddress.Device = world.LocalNM().Device
			}
		case 1:
			sel.EntityInformation = &model.NetworkManagementEntityDescriptionListDataSelectorsType{EntityType: util.Ptr(rapid.SampledFrom([]model.EntityTypeType{model.EntityTypeTypeDeviceInformation, model.EntityTypeTypeCEM, model.EntityTypeTypeEVSE, model.EntityTypeTypeEV, model.EntityTypeTypeHeatPumpAppliance}).Draw(t, "entityType"))}
		case 2:
			sel.FeatureInformation = &model.NetworkManagementFeatureDescriptionListDataSelectorsType{FeatureAddress: e.meas.Address()}
		default:
			sel.DeviceInformation = &model.NetworkManagementDeviceDescriptionListDataSelectorsType{}
		}
		flt.NodeManagementDetailedDiscoveryDataSelectors = sel
		if rapid.Bool().Draw(t, "withElements") {
			flt.NodeManagementDetailedDiscoveryDataElements = &model.NodeManagementDetailedDiscoveryDataElementsType{EntityInformation: &model.NodeManagementDetailedDiscoveryEntityInformationElementsType{}}
		}
		return p.Msg(model.CmdClassifierTypeRead, p.NM(), world.LocalNM(), false, nil,
			model.CmdType{Function: util.Ptr(model.FunctionTypeNodeManagementDetailedDiscoveryData), Filter: []model.FilterType{*flt}, NodeManagementDetailedDiscoveryData: &model.NodeManagementDetailedDiscoveryDataType{}})
	}},
	{"usecase-reply", func(t *rapid.T, e *env, p *world.Peer) model.DatagramType {
		data := gen.Ptr(t, reflect.TypeOf(model.NodeManagementUseCaseDataType{}), gen.Opt{Dense: true}, "usecase").Interface().(*model.NodeManagementUseCaseDataType)
		return p.Msg(model.CmdClassifierTypeReply, p.NM(), world.LocalNM(), false, p.DiscoveryRef, model.CmdType{NodeManagementUseCaseData: data})
	}},
	{"usecase-read", func(t *rapid.T, e *env, p *world.Peer) model.DatagramType {
		return p.Msg(model.CmdClassifierTypeRead, p.NM(), world.LocalNM(), false, nil, model.CmdType{NodeManagementUseCaseData: &model.NodeManagementUseCaseDataType{}})
	}},
	{"subscription-request", func(t *rapid.T, e *env, p *world.Peer) model.DatagramType {
		return p.Msg(model.CmdClassifierTypeCall, p.NM(), world.LocalNM(), true, nil, world.SubscribeCall(p.FA([]uint{2}, 1), e.lc.Address(), model.FeatureTypeTypeLoadControl))
	}},
	{"subscription-delete", func(t *rapid.T, e *env, p *world.Peer) model.DatagramType {
		return p.Msg(model.CmdClassifierTypeCall, p.NM(), world.LocalNM(), true, nil, world.UnsubscribeCall(p.FA([]uint{1}, 1), e.meas.Address()))
	}},
	{"binding-request", func(t *rapid.T, e *env, p *world.Peer) model.DatagramType {
		return p.Msg(model.CmdClassifierTypeCall, p.NM(), world.LocalNM(), true, nil, world.BindCall(p.FA([]uint{1}, 1), e.meas.Address(), model.FeatureTypeTypeMeasurement))
	}},
	{"binding-delete", func(t *rapid.T, e *env, p *world.Peer) model.DatagramType {
		return p.Msg(model.CmdClassifierTypeCall, p.NM(), world.LocalNM(), true, nil, world.UnbindCall(p.FA([]uint{1}, 2), e.lc.Address()))
	}},
	// all a peer can ask for before it has announced itself: node management to node management
	{"nm-subscription-request", func(t *rapid.T, e *env, p *world.Peer) model.DatagramType {
		return p.Msg(model.CmdClassifierTypeCall, p.NM(), world.LocalNM(), true, nil, world.SubscribeCall(p.NM(), world.LocalNM(), model.FeatureTypeTypeNodeManagement))
	}},
	{"nm-subscription-delete", func(t *rapid.T, e *env, p *world.Peer) model.DatagramType {
		return p.Msg(model.CmdClassifierTypeCall, p.NM(), world.LocalNM(), true, nil, world.UnsubscribeCall(p.NM(), world.LocalNM()))
	}},
	{"nm-binding-request", func(t *rapid.T, e *env, p *world.Peer) model.DatagramType {
		return p.Msg(model.CmdClassifierTypeCall, p.NM(), world.LocalNM(), true, nil, world.BindCall(p.NM(), world.LocalNM(), model.FeatureTypeTypeNodeManagement))
	}},
	{"nm-binding-delete", func(t *rapid.T, e *env, p *world.Peer) model.DatagramType {
		return p.Msg(model.CmdClassifierTypeCall, p.NM(), world.LocalNM(), true, nil, world.UnbindCall(p.NM(), world.LocalNM()))
	}},
	{"read", func(t *rapid.T, e *env, p *world.Peer) model.DatagramType {
		return p.Msg(model.CmdClassifierTypeRead, p.FA([]uint{1}, 1), e.meas.Address(), false, nil, model.CmdType{MeasurementListData: &model.MeasurementListDataType{}})
	}},
	{"read-filtered", func(t *rapid.T, e *env, p *world.Peer) model.DatagramType {
		f := gen.ByFunction(model.FunctionTypeMeasurementListData)
		flt := model.NewFilterTypePartial()
		flt.MeasurementListDataSelectors = listgen.SelectorFor(f, []uint64{1, 0}).Interface().(*model.MeasurementListDataSelectorsType)
		flt.MeasurementDataElements = &model.MeasurementDataElementsType{Value: &model.ElementTagType{}}
		return p.Msg(model.CmdClassifierTypeRead, p.FA([]uint{1}, 1), e.meas.Address(), false, nil,
			model.CmdType{Function: util.Ptr(model.FunctionTypeMeasurementListData), Filter: []model.FilterType{*flt}, MeasurementListData: &model.MeasurementListDataType{}})
	}},
	{"reply", func(t *rapid.T, e *env, p *world.Peer) model.DatagramType {
		return p.Msg(model.CmdClassifierTypeReply, p.FA([]uint{1}, 3), e.cli.Address(), false, p.DiscoveryRef, listCmd(t, model.FunctionTypeMeasurementListData, listgen.AllShapes, "reply"))
	}},
	{"notify", func(t *rapid.T, e *env, p *world.Peer) model.DatagramType {
		return p.Msg(model.CmdClassifierTypeNotify, p.FA([]uint{1}, 3), e.cli.Address(), rapid.Bool().Draw(t, "ack"), nil, listCmd(t, model.FunctionTypeMeasurementListData, listgen.AllShapes, "notify"))
	}},
	{"write-approval", func(t *rapid.T, e *env, p *world.Peer) model.DatagramType {
		return p.Msg(model.CmdClassifierTypeWrite, p.FA([]uint{1}, 2), e.lc.Address(), true, nil, listCmd(t, model.FunctionTypeLoadControlLimitListData, listgen.AllShapes, "write"))
	}},
	{"write", func(t *rapid.T, e *env, p *world.Peer) model.DatagramType {
		return p.Msg(model.CmdClassifierTypeWrite, p.FA([]uint{1}, 1), e.meas.Address(), true, nil, listCmd(t, model.FunctionTypeMeasurementListData, listgen.AllShapes, "write"))
	}},
	{"result", func(t *rapid.T, e *env, p *world.Peer) model.DatagramType {
		no := model.ErrorNumberType(rapid.SampledFrom([]int{0, 1, 7}).Draw(t, "errorNumber"))
		return p.Msg(model.CmdClassifierTypeResult, p.FA([]uint{1}, 3), e.cli.Address(), false, p.DiscoveryRef, model.CmdType{ResultData: &model.ResultDataType{ErrorNumber: &no, Description: util.Ptr(model.DescriptionType("x"))}})
	}},
	{"write-filter-without-matching-payload", func(t *rapid.T, e *env, p *world.Peer) model.DatagramType {
		// (d) filters and payload that do not fit: a selector / delete filter with an empty list, or
		// with items that carry no identifiers - well-typed, approved by the application, not applicable
		f := gen.ByFunction(model.FunctionTypeLoadControlLimitListData)
		cmd := model.CmdType{Function: util.Ptr(model.FunctionTypeLoadControlLimitListData), LoadControlLimitListData: &model.LoadControlLimitListDataType{}}
		switch rapid.IntRange(0, 2).Draw(t, "filters") {
		case 0:
			flt := model.NewFilterTypePartial()
			flt.LoadControlLimitListDataSelectors = listgen.SelectorFor(f, []uint64{uint64(rapid.IntRange(0, 2).Draw(t, "sel"))}).Interface().(*model.LoadControlLimitListDataSelectorsType)
			cmd.Filter = []model.FilterType{*flt}
		case 1:
			flt := &model.FilterType{CmdControl: &model.CmdControlType{Delete: &model.ElementTagType{}}}
			flt.LoadControlLimitListDataSelectors = listgen.SelectorFor(f, []uint64{uint64(rapid.IntRange(0, 2).Draw(t, "sel"))}).Interface().(*model.LoadControlLimitListDataSelectorsType)
			cmd.Filter = []model.FilterType{*flt, *model.NewFilterTypePartial()}
		default:
			cmd.Filter = []model.FilterType{*model.NewFilterTypePartial()}
		}
		if rapid.Bool().Draw(t, "itemWithoutIdentifier") {
			cmd.LoadControlLimitListData.LoadControlLimitData = []model.LoadControlLimitDataType{{IsLimitActive: util.Ptr(true)}}
		}
		return p.Msg(model.CmdClassifierTypeWrite, p.FA([]uint{1}, 2), e.lc.Address(), rapid.Bool().Draw(t, "ack"), nil, cmd)
	}},
	{"write-hostile-values", func(t *rapid.T, e *env, p *world.Peer) model.DatagramType {
		// (c) a write the stack accepts (bound writer, changeable limit, well-formed) whose values are
		// legal JSON strings / numbers with a text or magnitude the stack cannot convert: they end up
		// in the stored data and are encoded again for subscribers and readers
		times := []string{"2035-01-01T12:00:00+02:00", "never", "", "P", "PT", "-PT5M", "2024-13-45T00:00:00Z", "PT1.5S", "P1Y2M3DT4H5M6S", "0001-01-01T00:00:00Z", "9999-12-31T23:59:59Z", "PT2H"}
		it := model.LoadControlLimitDataType{LimitId: util.Ptr(model.LoadControlLimitIdType(rapid.IntRange(0, 1).Draw(t, "limit")))}
		tp := &model.TimePeriodType{EndTime: model.NewAbsoluteOrRelativeTimeType(rapid.SampledFrom(times).Draw(t, "endTime"))}
		if rapid.IntRange(0, 2).Draw(t, "withStart") == 0 {
			tp.StartTime = model.NewAbsoluteOrRelativeTimeType(rapid.SampledFrom(times).Draw(t, "startTime"))
		}
		if rapid.IntRange(0, 3).Draw(t, "withPeriod") != 0 {
			it.TimePeriod = tp
		}
		if rapid.Bool().Draw(t, "withValue") {
			it.Value = &model.ScaledNumberType{
				Number: util.Ptr(model.NumberType(rapid.SampledFrom([]int64{0, 1, -1, 9007199254740993, 9223372036854775807, -9223372036854775808}).Draw(t, "number"))),
				Scale:  util.Ptr(model.ScaleType(rapid.SampledFrom([]int{0, 1, -1, 127, -128, 19, -19}).Draw(t, "scale"))),
			}
		}
		cmd := model.CmdType{Function: util.Ptr(model.FunctionTypeLoadControlLimitListData), Filter: []model.FilterType{*model.NewFilterTypePartial()},
			LoadControlLimitListData: &model.LoadControlLimitListDataType{LoadControlLimitData: []model.LoadControlLimitDataType{it}}}
		return p.Msg(model.CmdClassifierTypeWrite, p.FA([]uint{1}, 2), e.lc.Address(), true, nil, cmd)
	}},
	{"hostile-typed", func(t *rapid.T, e *env, p *world.Peer) model.DatagramType {
		// (b) semantic hostility: a well-typed but arbitrary command (any payload field, any filter)
		cmd := gen.Ptr(t, reflect.TypeOf(model.CmdType{}), gen.Opt{MaxDepth: 3, MaxSlice: 1}, "cmd").Interface().(*model.CmdType)
		cl := rapid.SampledFrom([]model.CmdClassifierType{model.CmdClassifierTypeRead, model.CmdClassifierTypeReply, model.CmdClassifierTypeNotify, model.CmdClassifierTypeWrite, model.CmdClassifierTypeCall, model.CmdClassifierTypeResult}).Draw(t, "classifier")
		dst := rapid.SampledFrom([]*model.FeatureAddressType{e.meas.Address(), e.lc.Address(), e.cli.Address(), world.LocalNM()}).Draw(t, "dst")
		src := rapid.SampledFrom([]*model.FeatureAddressType{p.FA([]uint{1}, 1), p.FA([]uint{1}, 2), p.FA([]uint{1}, 3), p.NM()}).Draw(t, "src")
		return p.Msg(cl, src, dst, rapid.Bool().Draw(t, "ack"), p.DiscoveryRef, *cmd)
	}},
}

// ---------------------------------------------------------------------------------------------
// JSON mutator (uniform over the nodes of the JSON tree)

type node struct {
	parent any // map[string]any or []any
	key    string
	idx    int
	depth  int
}

func collect(v any, parent any, key string, idx int, out *[]node) {
	collectD(v, parent, key, idx, 0, out)
}

func collectD(v any, parent any, key string, idx int, depth int, out *[]node) {
	if parent != nil {
		*out = append(*out, node{parent, key, idx, depth})
	}
	switch x := v.(type) {
	case map[string]any:
		keys := make([]string, 0, len(x))
		for k := range x {
			keys = append(keys, k)
		}
		sort.Strings(keys)
		for _, k := range keys {
			collectD(x[k], x, k, -1, depth+1, out)
		}
	case []any:
		for i := range x {
			collectD(x[i], x, "", i, depth+1, out)
		}
	}
}

var replacements = []any{"", "x", float64(0), float64(1), float64(-1), true, 1e11, "read", "server", "Measurement", "measurementListData", "PT1S", "2035-01-01T12:00:00+02:00", "never", map[string]any{}, []any{}, nil, []any{float64(1)}, "\u0000"}

// mutate applies k in 0..3 mutations to the JSON text.
func mutate(t *rapid.T, raw []byte, label string) ([]byte, []string) {
	k := rapid.IntRange(0, 3).Draw(t, label+".mutations")
	if k == 0 {
		return raw, nil
	}
	var tree any
	if err := json.Unmarshal(raw, &tree); err != nil {
		return raw, nil
	}
	var paths []string
	for i := 0; i < k; i++ {
		var nodes []node
		collect(tree, nil, "", -1, &nodes)
		if len(nodes) == 0 {
			break
		}
		// half of the mutations: uniform over all nodes (reaches deep fields as often as shallow
		// ones); the other half: uniform over the shallow nodes (header fields, command members)
		if rapid.Bool().Draw(t, fmt.Sprintf("%s.shallow%d", label, i)) {
			var sh []node
			for _, x := range nodes {
				if x.depth <= 4 {
					sh = append(sh, x)
				}
			}
			if len(sh) > 0 {
				nodes = sh
			}
		}
		// now and then: a list that is present but empty ("entity":[], "filter":[], "cmd":[] ...), chosen uniformly
		// among the lists of the message
		if rapid.IntRange(0, 7).Draw(t, fmt.Sprintf("%s.emptyList%d", label, i)) == 0 {
			var lists []node
			for _, x := range nodes {
				var v any
				switch p := x.parent.(type) {
				case map[string]any:
					v = p[x.key]
				case []any:
					v = p[x.idx]
				}
				if l, ok := v.([]any); ok && len(l) > 0 {
					lists = append(lists, x)
				}
			}
			if len(lists) > 0 {
				n := lists[rapid.IntRange(0, len(lists)-1).Draw(t, fmt.Sprintf("%s.list%d", label, i))]
				switch p := n.parent.(type) {
				case map[string]any:
					p[n.key] = []any{}
				case []any:
					p[n.idx] = []any{}
				}
				paths = append(paths, "empty-list:"+n.key)
				continue
			}
		}
		n := nodes[rapid.IntRange(0, len(nodes)-1).Draw(t, fmt.Sprintf("%s.node%d", label, i))]
		// a third drops the node, a sixth nulls it, the rest replaces it
		op := len(replacements)
		switch rapid.IntRange(0, 5).Draw(t, fmt.Sprintf("%s.kind%d", label, i)) {
		case 0, 1:
		case 2:
			op = len(replacements) - 3 // nil
		default:
			op = rapid.IntRange(0, len(replacements)-1).Draw(t, fmt.Sprintf("%s.op%d", label, i))
		}
		where := n.key
		if n.idx >= 0 {
			where = fmt.Sprintf("[%d]", n.idx)
		}
		if op == len(replacements) { // drop
			switch p := n.parent.(type) {
			case map[string]any:
				delete(p, n.key)
			case []any:
				p[n.idx] = nil
			}
			paths = append(paths, "drop:"+where)
			continue
		}
		var val any = replacements[op]
		switch val.(type) { // fresh containers: the shared ones would end up containing themselves
		case map[string]any:
			val = map[string]any{}
		case []any:
			val = append([]any(nil), val.([]any)...)
		}
		switch p := n.parent.(type) {
		case map[string]any:
			p[n.key] = val
		case []any:
			p[n.idx] = val
		}
		paths = append(paths, fmt.Sprintf("set:%s=%v", where, replacements[op]))
	}
	out, err := json.Marshal(tree)
	if err != nil {
		return raw, nil
	}
	return out, paths
}

// ---------------------------------------------------------------------------------------------
// oracle

type verdict struct {
	sig    string
	detail string
}

// inject delivers raw to the peer's reader and reports a crash or a wedge.
func inject(p *world.Peer, raw []byte) *verdict {
	done := make(chan *verdict, 1)
	go func() {
		defer func() {
			if r := recover(); r != nil {
				stack := string(debug.Stack())
				sig := world.PanicSignature(stack)
				if sig == "" {
					sig = "panic/unknown"
				}
				done <- &verdict{"C05/" + sig, fmt.Sprintf("panic: %v\n%s", r, stack)}
				return
			}
			done <- nil
		}()
		p.Reader.HandleShipPayloadMessage(raw)
	}()
	select {
	case v := <-done:
		return v
	case <-time.After(10 * time.Second):
		buf := make([]byte, 1<<18)
		n := runtime.Stack(buf, true)
		return &verdict{"C05/wedge/message-handling-does-not-return", "message handling did not return within 10 s\n" + string(buf[:n])}
	}
}

// probe: a valid detailed-discovery read must get exactly one reply.
func probe(e *env, p *world.Peer) *verdict {
	p.Cap.Drain()
	d := p.Msg(model.CmdClassifierTypeRead, p.NM(), world.LocalNM(), false, nil, model.CmdType{NodeManagementDetailedDiscoveryData: &model.NodeManagementDetailedDiscoveryDataType{}})
	if v := inject(p, world.Encode(d)); v != nil {
		v.sig = strings.Replace(v.sig, "C05/", "C05/probe-", 1)
		return v
	}
	replies := 0
	for _, s := range p.Cap.Drain() {
		if s.Classifier() == model.CmdClassifierTypeReply && s.Ref() != nil && *s.Ref() == *d.Header.MsgCounter && s.Cmd().NodeManagementDetailedDiscoveryData != nil {
			replies++
		}
	}
	if replies == 1 {
		// valid messages that make the stack publish events must return as well (an earlier
		// message may have left the event bus locked)
		for _, d := range []model.DatagramType{
			p.Msg(model.CmdClassifierTypeReply, p.NM(), world.LocalNM(), false, p.DiscoveryRef, model.CmdType{NodeManagementUseCaseData: &model.NodeManagementUseCaseDataType{}}),
			p.Msg(model.CmdClassifierTypeNotify, p.FA([]uint{1}, 3), e.cli.Address(), false, nil, model.CmdType{MeasurementListData: &model.MeasurementListDataType{}}),
			// the registries answer (their locks are free): whatever the verdict, a request and its delete return
			p.Msg(model.CmdClassifierTypeCall, p.NM(), world.LocalNM(), true, nil, world.BindCall(p.NM(), world.LocalNM(), model.FeatureTypeTypeNodeManagement)),
			p.Msg(model.CmdClassifierTypeCall, p.NM(), world.LocalNM(), true, nil, world.UnbindCall(p.NM(), world.LocalNM())),
			p.Msg(model.CmdClassifierTypeCall, p.NM(), world.LocalNM(), true, nil, world.SubscribeCall(p.NM(), world.LocalNM(), model.FeatureTypeTypeNodeManagement)),
			p.Msg(model.CmdClassifierTypeCall, p.NM(), world.LocalNM(), true, nil, world.UnsubscribeCall(p.NM(), world.LocalNM())),
			// whatever an accepted write has left in the data of the server features is encoded again
			// when somebody reads it
			p.Msg(model.CmdClassifierTypeRead, p.FA([]uint{1}, 1), e.meas.Address(), false, nil, model.CmdType{MeasurementListData: &model.MeasurementListDataType{}}),
			p.Msg(model.CmdClassifierTypeRead, p.FA([]uint{1}, 2), e.lc.Address(), false, nil, model.CmdType{LoadControlLimitListData: &model.LoadControlLimitListDataType{}}),
		} {
			if v := inject(p, world.Encode(d)); v != nil {
				v.sig = strings.Replace(v.sig, "C05/", "C05/probe-", 1)
				return v
			}
		}
		p.Cap.Drain()
		return nil
	}
	// classification: did the peer talk itself out of the stack's device tree?
	why := "other"
	if p.Dev.FeatureByAddress(p.NM()) == nil {
		why = "own-nodemanagement-feature-gone"
		if p.Dev.Entity([]model.AddressEntityType{0}) == nil {
			why = "own-device-information-entity-gone"
		}
	}
	return &verdict{"C05/not-served-afterwards/" + why, fmt.Sprintf("a valid detailed-discovery read got %d replies (%s)", replies, why)}
}

type caseLog struct {
	Test     string   `json:"test"`
	Messages []string `json:"messages"`
	Peers    []int    `json:"peers"`
	Early    bool     `json:"first_peer_before_discovery"`
	Both     bool     `json:"both_peers_before_discovery"`
	Gone     bool     `json:"first_peer_connection_removed"`
	Worn     bool     `json:"connections_carried_100_notifications"`
}

func (c *caseLog) save() {
	dir := os.Getenv("VERIF_REPLAY_DIR")
	if dir == "" {
		return
	}
	_ = os.MkdirAll(dir, 0o755)
	b, _ := json.Marshal(c)
	_ = os.WriteFile(filepath.Join(dir, "current_case.json"), b, 0o644)
}

// runCase delivers the messages and applies the oracle. Returns the first violation.
func runCase(e *env, log *caseLog) *verdict {
	if log.Gone {
		// the connection of the first peer has been removed; what was still in flight on it arrives now
		e.w.Local.RemoveRemoteDeviceConnection(e.w.Peers[0].Ski)
		e.w.Peers[0].Gone = true
		e.w.SyncQuiet(2 * time.Second)
	}
	for i, m := range log.Messages {
		p := e.w.Peers[log.Peers[i]]
		if v := inject(p, []byte(m)); v != nil {
			return v
		}
	}
	// approvals, timers and event handlers the messages started: wait for the goroutines, and if a
	// write may have left an approval timer behind, for the 20 ms approval time-out as well
	e.w.SyncQuiet(2 * time.Second)
	for _, m := range log.Messages {
		if strings.Contains(m, "write") {
			time.Sleep(25 * time.Millisecond)
			e.w.SyncQuiet(2 * time.Second)
			break
		}
	}
	select {
	case s := <-e.cbPanic:
		sig := world.PanicSignature(s)
		if sig == "" {
			sig = "panic/unknown"
		}
		return &verdict{"C05/application-callback-" + sig, "the approval callback path panicked in the application's goroutine:\n" + s}
	default:
	}
	// whatever the messages have left in the registries and in the data is used when the application
	// changes data (notifications go out from its goroutine: nobody recovers a panic there)
	if v := localChanges(e); v != nil {
		return v
	}
	if log.Gone {
		// the device connects again and is served like any other peer
		old := e.w.Peers[0]
		var v *verdict
		func() {
			defer func() {
				if r := recover(); r != nil {
					stack := string(debug.Stack())
					v = &verdict{"C05/reconnect-" + world.PanicSignature(stack), fmt.Sprintf("panic while the device connected again: %v\n%s", r, stack)}
				}
			}()
			e.w.Reconnect(old, peerTree)
		}()
		if v != nil {
			return v
		}
		if v := localChanges(e); v != nil {
			return v
		}
	}
	for _, p := range e.w.Peers {
		if v := probe(e, p); v != nil {
			return v
		}
	}
	return nil
}

// localChanges: the application sets the data of both server features (which notifies the subscribers)
// on a goroutine of its own; a panic or a call that does not return is the stack's doing.
func localChanges(e *env) *verdict {
	done := make(chan *verdict, 1)
	go func() {
		defer func() {
			if r := recover(); r != nil {
				stack := string(debug.Stack())
				sig := world.PanicSignature(stack)
				if sig == "" {
					sig = "panic/unknown"
				}
				done <- &verdict{"C05/application-goroutine-" + sig, fmt.Sprintf("a data change by the application after the messages panicked: %v\n%s", r, stack)}
				return
			}
			done <- nil
		}()
		f := gen.ByFunction(model.FunctionTypeMeasurementListData)
		e.meas.SetData(f.Fn, refmodel.Payload(f, []reflect.Value{mkItem(f, 0), mkItem(f, 2)}))
		lf := gen.ByFunction(model.FunctionTypeLoadControlLimitListData)
		e.lc.SetData(lf.Fn, refmodel.Payload(lf, []reflect.Value{mkItem(lf, 0), mkItem(lf, 1)}))
	}()
	select {
	case v := <-done:
		e.w.SyncQuiet(2 * time.Second)
		for _, p := range e.w.Peers {
			p.Cap.Drain()
		}
		return v
	case <-time.After(10 * time.Second):
		buf := make([]byte, 1<<18)
		n := runtime.Stack(buf, true)
		return &verdict{"C05/wedge/application-data-change-does-not-return", "SetData of the application did not return within 10 s\n" + string(buf[:n])}
	}
}

func TestMutatedMessages(t *testing.T) { rapid.Check(t, world.Prop(mutatedProp)) }

// FuzzMutated (thorough): the same property driven by Go's coverage-guided fuzzer - the bytes are
// rapid's choice stream, so the fuzzer mutates (template, mutation) choices rather than raw JSON.
func FuzzMutated(f *testing.F) { f.Fuzz(rapid.MakeFuzz(world.Prop(mutatedProp))) }

func mutatedProp(t *rapid.T) {
	{
		mode := rapid.IntRange(0, 6).Draw(t, "beforeDiscovery")
		early, both, gone := mode == 0, mode == 1, mode == 6
		e := newEnvBoth(early, both)
		defer e.w.Teardown()
		n := rapid.IntRange(1, 5).Draw(t, "messages")
		log := &caseLog{Test: "TestMutatedMessages", Early: early, Both: both, Gone: gone}
		if log.Worn = rapid.IntRange(0, 7).Draw(t, "longLivedConnections") == 0; log.Worn {
			e.wear()
			world.Label("env/connections-carried-100-notifications")
		}
		if gone {
			world.Label("env/first-peer-connection-removed")
		}
		if both {
			world.Label("env/both-peers-before-discovery")
		}
		var descr []string
		reached := false
		for i := 0; i < n; i++ {
			pi := rapid.IntRange(0, 1).Draw(t, fmt.Sprintf("peer%d", i))
			tpl := templates[rapid.IntRange(0, len(templates)-1).Draw(t, fmt.Sprintf("template%d", i))]
			if both && rapid.IntRange(0, 3).Draw(t, fmt.Sprintf("nmOnly%d", i)) != 0 {
				// mostly what such peers can meaningfully send
				var nm []template
				for _, x := range templates {
					if strings.HasPrefix(x.name, "nm-") || x.name == "discovery-reply" {
						nm = append(nm, x)
					}
				}
				tpl = nm[rapid.IntRange(0, len(nm)-1).Draw(t, fmt.Sprintf("nmTemplate%d", i))]
			}
			p := e.w.Peers[pi]
			raw := world.Encode(tpl.make(t, e, p))
			mut, paths := mutate(t, raw, fmt.Sprintf("m%d", i))
			log.Messages = append(log.Messages, string(mut))
			log.Peers = append(log.Peers, pi)
			descr = append(descr, fmt.Sprintf("%s%v", tpl.name, paths))
			world.Label("template/" + tpl.name)
			var d model.Datagram
			if json.Unmarshal(mut, &d) == nil && len(d.Datagram.Payload.Cmd) > 0 && d.Datagram.Header.AddressSource != nil {
				reached = true
			}
		}
		log.save()
		v := runCase(e, log)
		world.Record(world.Hash(descr, early, gone), reached, fmt.Sprintf("messages/%d", n))
		if reached && world.WantSample() {
			world.Sample(map[string]any{"messages": descr, "first_peer_before_discovery": early, "first_message": json.RawMessage(log.Messages[0])})
		}
		if v != nil {
			world.Fail(t, v.sig, "%s\n case: %v\n messages:\n  %s", v.detail, descr, strings.Join(log.Messages, "\n  "))
		}
	}
}

// TestReplayCase re-runs a saved case (replay file of a crash that killed the process).
func TestReplayCase(t *testing.T) {
	path := os.Getenv("VERIF_REPLAY")
	if path == "" {
		t.Skip("no replay file")
	}
	b, err := os.ReadFile(path)
	if err != nil {
		t.Fatal(err)
	}
	var log caseLog
	if err := json.Unmarshal(b, &log); err != nil {
		t.Fatal(err)
	}
	e := newEnvBoth(log.Early, log.Both)
	defer e.w.Teardown()
	if log.Worn {
		e.wear()
	}
	if v := runCase(e, &log); v != nil {
		world.Fail(t, v.sig, "%s", v.detail)
	}
}

// FuzzPayload (thorough, coverage guided): raw bytes delivered to a connected, announced peer.
func FuzzPayload(f *testing.F) {
	seedCorpus(f)
	f.Fuzz(func(t *testing.T, raw []byte) {
		e := newEnv(false)
		defer e.w.Teardown()
		log := &caseLog{Test: "FuzzPayload", Messages: []string{string(raw)}, Peers: []int{0}}
		if v := runCase(e, log); v != nil && !world.IsKnown(v.sig) {
			t.Fatalf("VERIF-FAIL sig=%s :: %s", v.sig, v.detail)
		}
	})
}

func seedCorpus(f *testing.F) {
	// the repository's JSON fixtures (SPINE payloads) ...
	for _, dir := range []string{"/repo/spine/testdata", "/repo/integration_tests/testdata"} {
		files, _ := filepath.Glob(filepath.Join(dir, "*.json"))
		for _, fn := range files {
			if b, err := os.ReadFile(fn); err == nil {
				f.Add(b)
			}
		}
	}
	// ... generated valid datagrams of every kind (first rapid case only) ...
	first := true
	rapid.Check(quietTB{f}, func(t *rapid.T) {
		if !first {
			return
		}
		first = false
		e := newEnv(false)
		defer e.w.Teardown()
		for _, tpl := range templates {
			f.Add(world.Encode(tpl.make(t, e, e.w.Peers[0])))
		}
	})
	// ... and hostile constants
	for _, s := range []string{`{}`, `{"datagram":{}}`, `{"datagram":{"header":{},"payload":{}}}`, `{"datagram":{"header":{"cmdClassifier":"read"},"payload":{"cmd":[]}}}`,
		`{"datagram":{"header":{"addressSource":{"entity":[0],"feature":0},"addressDestination":{"entity":[0],"feature":0},"msgCounter":1,"cmdClassifier":"write"},"payload":{"cmd":[{}]}}}`,
		`null`, `[]`, `{"datagram":null}`} {
		f.Add([]byte(s))
	}
}

// quietTB lets rapid.Check run exactly once inside the fuzz seed setup.
type quietTB struct{ *testing.F }

func (q quietTB) Errorf(string, ...any) {}
