// Package c01: every inbound request gets exactly the one correctly addressed response.
package c01

import (
	"fmt"
	"reflect"
	"sort"
	"strings"
	"testing"
	"time"

	"github.com/enbility/spine-go/api"
	"github.com/enbility/spine-go/model"
	"github.com/enbility/spine-go/util"
	"pgregory.net/rapid"

	"verifharness/gen"
	"verifharness/listgen"
	"verifharness/refmodel"
	"verifharness/world"
)

func TestMain(m *testing.M) { world.Main(m) }

type lfeat struct {
	f     api.FeatureLocalInterface
	ent   []uint
	id    uint
	ft    model.FeatureTypeType
	role  model.RoleType
	class string // server | client | special
}

type rfeat struct {
	ent  []uint
	id   uint
	ft   model.FeatureTypeType
	role model.RoleType
}

type machine struct {
	w       *world.World
	ents    []api.EntityLocalInterface
	removed []lfeat // features of a local entity that was removed during the history
	local   []lfeat
	remote []rfeat // identical on every peer
	types  []model.FeatureTypeType
	hist   []string
	tuples map[string]bool
}

func (m *machine) logf(format string, a ...any) { m.hist = append(m.hist, fmt.Sprintf(format, a...)) }
func (m *machine) history() string               { return "\n history:\n  " + strings.Join(m.hist, "\n  ") }

var nmFunctions = []model.FunctionType{
	model.FunctionTypeNodeManagementDetailedDiscoveryData,
	model.FunctionTypeNodeManagementUseCaseData,
	model.FunctionTypeNodeManagementDestinationListData,
	model.FunctionTypeNodeManagementSubscriptionRequestCall,
	model.FunctionTypeNodeManagementSubscriptionDeleteCall,
	model.FunctionTypeNodeManagementBindingRequestCall,
	model.FunctionTypeNodeManagementBindingDeleteCall,
}

func setup(t *rapid.T) *machine {
	m := &machine{w: world.New(), tuples: map[string]bool{}}
	usable := gen.UsableFeatureTypes()
	nTypes := 3
	for i := 0; i < nTypes; i++ {
		ft := usable[rapid.IntRange(0, len(usable)-1).Draw(t, fmt.Sprintf("type%d", i))]
		dup := false
		for _, x := range m.types {
			if x == ft {
				dup = true
			}
		}
		if !dup {
			m.types = append(m.types, ft)
		}
	}
	// [1,1] is nested below [1]: addresses that are prefixes of each other must not be confused
	ents := [][]uint{{1}, {2}, {1, 1}}
	locals := []api.EntityLocalInterface{
		m.w.AddLocalEntity(ents[0], model.EntityTypeTypeCEM, time.Second),
		m.w.AddLocalEntity(ents[1], model.EntityTypeTypeEVSE, time.Second),
		m.w.AddLocalEntity(ents[2], model.EntityTypeTypeEV, time.Second),
	}
	m.ents = locals
	for i, ft := range m.types {
		e := (i + rapid.IntRange(0, 2).Draw(t, fmt.Sprintf("entityOf%d", i))) % 3
		for _, role := range []model.RoleType{model.RoleTypeServer, model.RoleTypeClient} {
			spec := world.FeatSpec{Type: ft, Role: role}
			if role == model.RoleTypeServer {
				for _, f := range gen.ForFeature(ft) {
					if f.Fn == model.FunctionTypeDeviceDiagnosisHeartbeatData {
						continue // would start a heartbeat goroutine; C16's subject
					}
					switch rapid.IntRange(0, 3).Draw(t, fmt.Sprintf("ops.%s.%s", ft, f.Fn)) {
					case 0: // not announced
					case 1:
						spec.Funcs = append(spec.Funcs, world.FuncSpec{Fn: f.Fn, Read: true})
					default:
						spec.Funcs = append(spec.Funcs, world.FuncSpec{Fn: f.Fn, Read: true, Write: true})
					}
				}
			}
			f := m.w.AddLocalFeature(locals[e], spec)
			cls := "server"
			if role == model.RoleTypeClient {
				cls = "client"
			}
			m.local = append(m.local, lfeat{f: f, ent: ents[e], id: uint(*f.Address().Feature), ft: ft, role: role, class: cls})
			// preset data on server features
			if role == model.RoleTypeServer {
				for _, fs := range spec.Funcs {
					if rapid.Bool().Draw(t, fmt.Sprintf("preset.%s", fs.Fn)) {
						f.SetData(fs.Fn, m.payload(t, gen.ByFunction(fs.Fn), "preset."+string(fs.Fn)))
					}
				}
			}
		}
	}
	nm := m.w.Local.NodeManagement()
	m.local = append(m.local, lfeat{f: nm, ent: []uint{0}, id: 0, ft: model.FeatureTypeTypeNodeManagement, role: model.RoleTypeSpecial, class: "special"})
	// peers: for every type a client and a server feature, on entity [1]; identical numbering
	var feats []world.FeatSpec
	id := uint(1)
	for _, ft := range m.types {
		var funcs []world.FuncSpec
		for _, f := range gen.ForFeature(ft) {
			funcs = append(funcs, world.FuncSpec{Fn: f.Fn, Read: true, Write: true})
		}
		feats = append(feats, world.FeatSpec{ID: id, Type: ft, Role: model.RoleTypeClient}, world.FeatSpec{ID: id + 1, Type: ft, Role: model.RoleTypeServer, Funcs: funcs})
		m.remote = append(m.remote, rfeat{[]uint{1}, id, ft, model.RoleTypeClient}, rfeat{[]uint{1}, id + 1, ft, model.RoleTypeServer})
		id += 2
	}
	if rapid.Bool().Draw(t, "peersHaveTwoClientsOfOneType") {
		// an entity may hold several features of one type and role (two measurement clients, say):
		// each of them is an announced feature and is answered like any other
		feats = append(feats, world.FeatSpec{ID: id, Type: m.types[0], Role: model.RoleTypeClient})
		m.remote = append(m.remote, rfeat{[]uint{1}, id, m.types[0], model.RoleTypeClient})
		id++
		world.Label("peers/two-clients-of-one-type")
	}
	m.remote = append(m.remote, rfeat{[]uint{0}, 0, model.FeatureTypeTypeNodeManagement, model.RoleTypeSpecial})
	for i := 0; i < 2; i++ {
		m.w.AddPeer(fmt.Sprintf("ski-%d", i+1), fmt.Sprintf("d:_r:peer%d", i+1), []world.EntSpec{{Addr: []uint{1}, Type: model.EntityTypeTypeCEM, Feats: feats}})
	}
	// "in any prior state of subscriptions and bindings": some counterparts start bound / subscribed
	for _, l := range m.local {
		if l.class != "server" {
			continue
		}
		for _, r := range m.remote {
			if r.ft != l.ft || r.role != model.RoleTypeClient {
				continue
			}
			switch rapid.IntRange(0, 3).Draw(t, fmt.Sprintf("prior.%s", l.ft)) {
			case 1:
				pi := rapid.IntRange(0, 1).Draw(t, "priorPeer")
				m.w.Peers[pi].CallOK(world.BindCall(m.w.Peers[pi].FA(r.ent, r.id), world.LA(l.ent, l.id), l.ft))
			case 2:
				m.w.Peers[0].CallOK(world.SubscribeCall(m.w.Peers[0].FA(r.ent, r.id), world.LA(l.ent, l.id), l.ft))
			case 3:
				m.w.Peers[1].CallOK(world.BindCall(m.w.Peers[1].FA(r.ent, r.id), world.LA(l.ent, l.id), l.ft))
				m.w.Peers[0].CallOK(world.SubscribeCall(m.w.Peers[0].FA(r.ent, r.id), world.LA(l.ent, l.id), l.ft))
			}
		}
	}
	m.w.Events.Drain()
	return m
}

// payload draws a well-formed full payload for f.
// shownData renders the data after an accepted full write for the comparison with the payload. An item
// whose payload leaves the changeability flag out keeps the flag the stored item carried (the server owns
// that flag, model.RemoteFullWriteAllowed), so for those items the flag is not part of "the data shows the
// payload"; everything else is compared verbatim. C04 owns the flag rules themselves.
func shownData(f *gen.Func, data, payload any) string {
	if f == nil || !f.IsList || f.WriteCheck == "" {
		return world.JSON(data)
	}
	c := world.DeepCopy(data)
	have, want := refmodel.ItemsOf(f, c), refmodel.ItemsOf(f, payload)
	if len(have) == len(want) {
		for i := range have {
			if want[i].FieldByName(f.WriteCheck).IsNil() {
				fv := have[i].FieldByName(f.WriteCheck)
				fv.Set(reflect.Zero(fv.Type()))
			}
		}
	}
	return world.JSON(c)
}

func (m *machine) payload(t *rapid.T, f *gen.Func, label string) any {
	if f.IsList && listgen.CapsOf(f).Keyed {
		return refmodel.Payload(f, listgen.Items(t, f, 2, gen.Opt{}, label))
	}
	return gen.Ptr(t, f.DataType, gen.Opt{MaxSlice: 1, MaxDepth: 3}, label).Interface()
}

type registrySnap struct{ subs, binds []string }

func (m *machine) registries() registrySnap {
	var s registrySnap
	for _, p := range m.w.Peers {
		for _, e := range m.w.Local.SubscriptionManager().Subscriptions(p.Dev) {
			s.subs = append(s.subs, fmt.Sprintf("%s %s->%s", p.Ski, e.ClientFeature.Address(), e.ServerFeature.Address()))
		}
		for _, e := range m.w.Local.BindingManager().Bindings(p.Dev) {
			s.binds = append(s.binds, fmt.Sprintf("%s %s->%s", p.Ski, e.ClientFeature.Address(), e.ServerFeature.Address()))
		}
	}
	sort.Strings(s.subs)
	sort.Strings(s.binds)
	return s
}

func has(l []string, s string) bool {
	for _, x := range l {
		if x == s {
			return true
		}
	}
	return false
}

func (m *machine) step(t *rapid.T) {
	w := m.w
	pi := rapid.IntRange(0, len(w.Peers)-1).Draw(t, "peer")
	p := w.Peers[pi]
	src := m.remote[rapid.IntRange(0, len(m.remote)-1).Draw(t, "source")]
	destClass := rapid.SampledFrom([]string{"server", "server", "client", "special", "special", "unknown-feature", "unknown-entity", "removed-feature"}).Draw(t, "destClass")
	if destClass == "removed-feature" && len(m.removed) == 0 {
		destClass = "unknown-feature"
	}
	var dest *lfeat
	destAddr := &model.FeatureAddressType{}
	switch destClass {
	case "removed-feature":
		// a feature of a local entity the application removed: it does not exist any more
		r := m.removed[rapid.IntRange(0, len(m.removed)-1).Draw(t, "removedDest")]
		destAddr = world.LA(r.ent, r.id)
	case "unknown-feature":
		destAddr = world.LA([]uint{1}, 77)
	case "unknown-entity":
		destAddr = world.LA([]uint{7}, 1)
	default:
		var cands []int
		for i, l := range m.local {
			if l.class == destClass {
				cands = append(cands, i)
			}
		}
		if len(cands) == 0 {
			// no feature of that class is left (its entity was removed): address NodeManagement
			destClass = "special"
			for i, l := range m.local {
				if l.class == "special" {
					cands = append(cands, i)
				}
			}
		}
		dest = &m.local[cands[rapid.IntRange(0, len(cands)-1).Draw(t, "dest")]]
		destAddr = world.LA(dest.ent, dest.id)
	}
	devVariant := rapid.SampledFrom([]string{"local", "local", "omitted", "wrong"}).Draw(t, "destDevice")
	switch devVariant {
	case "omitted":
		destAddr.Device = nil
	case "wrong":
		destAddr.Device = util.Ptr(model.AddressDeviceType("d:_x:SOMEONE-ELSE"))
	}
	cl := rapid.SampledFrom([]model.CmdClassifierType{model.CmdClassifierTypeRead, model.CmdClassifierTypeReply, model.CmdClassifierTypeNotify,
		model.CmdClassifierTypeWrite, model.CmdClassifierTypeCall, model.CmdClassifierTypeResult}).Draw(t, "classifier")
	ack := rapid.Bool().Draw(t, "ack")
	// two thirds of the messages come from the counterpart of the destination (same type,
	// opposite role; NodeManagement for NodeManagement) so that accepted messages are frequent
	if dest != nil && rapid.IntRange(0, 2).Draw(t, "counterpart") != 0 {
		for _, r := range m.remote {
			if r.ft == dest.ft && (dest.role == model.RoleTypeSpecial || r.role != dest.role) {
				src = r
			}
		}
	}

	// function: one registered for the addressed feature type (for unknown destinations: of the source's type)
	ft := src.ft
	if dest != nil {
		ft = dest.ft
	}
	var fn model.FunctionType
	var f *gen.Func
	if ft == model.FeatureTypeTypeNodeManagement {
		fn = rapid.SampledFrom(nmFunctions).Draw(t, "function")
	} else {
		fs := gen.ForFeature(ft)
		ff := fs[rapid.IntRange(0, len(fs)-1).Draw(t, "function")]
		f, fn = &ff, ff.Fn
	}
	// command
	cmd := model.CmdType{}
	var payload any
	restrictedRead := false
	var regKey string // for subscription / binding calls: the registry entry concerned
	regKind, regAdd := "", false
	switch {
	case cl == model.CmdClassifierTypeResult:
		no := model.ErrorNumberType(rapid.SampledFrom([]int{0, 0, 1, 7}).Draw(t, "errorNumber"))
		cmd.ResultData = &model.ResultDataType{ErrorNumber: &no}
	case f != nil:
		if cl == model.CmdClassifierTypeRead {
			payload = reflect.New(f.DataType).Interface()
		} else {
			payload = m.payload(t, f, "payload")
		}
		reflect.ValueOf(&cmd).Elem().FieldByName(f.CmdField).Set(reflect.ValueOf(payload))
		if cl == model.CmdClassifierTypeRead && f.IsList && listgen.CapsOf(f).Selectors && rapid.IntRange(0, 3).Draw(t, "restrictedRead") == 0 {
			// a read restricted by a selector, in the form the stack's own RequestRemoteData writes it: a partial
			// filter with the selector and an empty function element. It is a read of that function all the same
			flt := model.NewFilterTypePartial()
			reflect.ValueOf(flt).Elem().FieldByName(f.SelectorsField).Set(listgen.SelectorFor(f, make([]uint64, len(f.KeyFields))))
			cmd.Filter = []model.FilterType{*flt}
			cmd.Function = util.Ptr(model.FunctionType(""))
			restrictedRead = true
			world.Label("read/restricted-by-selector")
		}
	default:
		switch fn {
		case model.FunctionTypeNodeManagementDetailedDiscoveryData:
			if cl == model.CmdClassifierTypeRead {
				cmd.NodeManagementDetailedDiscoveryData = &model.NodeManagementDetailedDiscoveryDataType{}
			} else {
				// re-announce the unchanged tree (benign)
				cmd.NodeManagementDetailedDiscoveryData = p.DiscoveryData(p.Ents, nil)
			}
		case model.FunctionTypeNodeManagementUseCaseData:
			cmd.NodeManagementUseCaseData = &model.NodeManagementUseCaseDataType{}
		case model.FunctionTypeNodeManagementDestinationListData:
			cmd.NodeManagementDestinationListData = &model.NodeManagementDestinationListDataType{}
		default:
			// management calls: a client feature of the sender and a local server feature
			var clients []rfeat
			for _, r := range m.remote {
				if r.role == model.RoleTypeClient {
					clients = append(clients, r)
				}
			}
			var servers []lfeat
			for _, l := range m.local {
				if l.class == "server" {
					servers = append(servers, l)
				}
			}
			if len(servers) == 0 || len(clients) == 0 {
				// every server feature lived on the removed entity: fall back to a use-case read
				fn = model.FunctionTypeNodeManagementUseCaseData
				cmd.NodeManagementUseCaseData = &model.NodeManagementUseCaseDataType{}
				break
			}
			c := clients[rapid.IntRange(0, len(clients)-1).Draw(t, "callClient")]
			s := servers[rapid.IntRange(0, len(servers)-1).Draw(t, "callServer")]
			if rapid.IntRange(0, 2).Draw(t, "matchingType") != 0 {
				for _, x := range clients {
					if x.ft == s.ft {
						c = x
					}
				}
			}
			ca, sa := p.FA(c.ent, c.id), world.LA(s.ent, s.id)
			regKey = fmt.Sprintf("%s %s->%s", p.Ski, ca, sa)
			switch fn {
			case model.FunctionTypeNodeManagementSubscriptionRequestCall:
				cmd, regKind, regAdd = world.SubscribeCall(ca, sa, s.ft), "sub", true
			case model.FunctionTypeNodeManagementSubscriptionDeleteCall:
				cmd, regKind = world.UnsubscribeCall(ca, sa), "sub"
			case model.FunctionTypeNodeManagementBindingRequestCall:
				cmd, regKind, regAdd = world.BindCall(ca, sa, s.ft), "bind", true
			case model.FunctionTypeNodeManagementBindingDeleteCall:
				cmd, regKind = world.UnbindCall(ca, sa), "bind"
			}
		}
	}
	var ref *model.MsgCounterType
	if cl == model.CmdClassifierTypeReply || cl == model.CmdClassifierTypeResult {
		// replies and results always reference a request: a matching or a stale counter
		if rapid.Bool().Draw(t, "matchingRef") {
			ref = p.DiscoveryRef
		} else {
			ref = util.Ptr(model.MsgCounterType(999999))
		}
	}
	srcAddr := p.FA(src.ent, src.id)
	d := p.Msg(cl, srcAddr, destAddr, ack, ref, cmd)
	if rapid.IntRange(0, 5).Draw(t, "originator") == 0 {
		// the optional addressOriginator of the header (a request forwarded on behalf of somebody else): the
		// response still goes to the request's source feature
		orig := []*model.FeatureAddressType{p.FA([]uint{1}, 1), p.NM(), {Device: util.Ptr(model.AddressDeviceType("d:_x:BEHIND-THE-PEER")), Entity: []model.AddressEntityType{1}, Feature: util.Ptr(model.AddressFeatureType(1))}}
		d.Header.AddressOriginator = orig[rapid.IntRange(0, len(orig)-1).Draw(t, "originatorAddress")]
		world.Label("header/address-originator")
	}
	if !ack && rapid.Bool().Draw(t, "explicitNoAck") {
		d.Header.AckRequest = util.Ptr(false) // "ackRequest": false is as good as its absence
	}

	// ---- observations before
	var beforeLocal, beforeRemote string
	readable, announced := false, false
	if dest != nil && f != nil {
		beforeLocal = world.JSON(dest.f.DataCopy(fn))
		if ops, ok := dest.f.Operations()[fn]; ok {
			announced = true
			readable = ops.Read()
		}
	}
	if dest != nil && fn == model.FunctionTypeNodeManagementUseCaseData {
		beforeLocal = world.JSON(dest.f.DataCopy(fn))
		readable, announced = true, true
	}
	rf := p.Feature(src.ent, src.id)
	if f != nil && rf != nil {
		beforeRemote = world.JSON(rf.DataCopy(fn))
	}
	regsBefore := m.registries()
	for _, q := range w.Peers {
		q.Cap.Drain()
	}
	w.Events.Drain()

	p.Send(d)
	w.Sync()

	// ---- observations after
	var responses []world.Sent
	for qi, q := range w.Peers {
		for _, s := range q.Cap.Drain() {
			if !s.IsResponse() {
				continue // traffic the stack originates (re-read after a rejected notify, notifies, ...) is no response
			}
			if qi != pi {
				world.Fail(t, "C01/response-on-other-connection", "a %s was written to peer%d while peer%d sent the request%s", s.Classifier(), qi+1, pi+1, m.history())
			}
			responses = append(responses, s)
		}
	}
	events := w.Events.Drain()
	tuple := fmt.Sprintf("%s/%s/%s/ack=%v/%s/dev=%s", cl, ft, fn, ack, destClass, devVariant)
	m.logf("peer%d %s %s -> %s %s %s ack=%v => %d responses", pi+1, src.ftRole(), cl, destClass, destAddr, fn, ack, len(responses))
	desc := func() string {
		var r []string
		for _, s := range responses {
			r = append(r, fmt.Sprintf("%s err=%d src=%s dst=%s ref=%v", s.Classifier(), s.ErrorNumber(), s.D.Header.AddressSource, s.D.Header.AddressDestination, s.Ref()))
		}
		return fmt.Sprintf("\n request: %s\n responses: %v%s", world.Encode(d), r, m.history())
	}
	sigBase := fmt.Sprintf("%s/%s", cl, destClass)

	// (1) addressing
	wantSrc := world.LA(nil, 0)
	wantSrc.Entity = destAddr.Entity
	wantSrc.Feature = destAddr.Feature
	for _, s := range responses {
		if s.Ref() == nil || *s.Ref() != *d.Header.MsgCounter {
			world.Fail(t, "C01/response-reference/"+sigBase, "response does not reference the request's counter%s", desc())
		}
		if !reflect.DeepEqual(s.D.Header.AddressDestination, srcAddr) {
			world.Fail(t, "C01/response-destination/"+sigBase, "response is not addressed to the request's source feature%s", desc())
		}
		if !reflect.DeepEqual(s.D.Header.AddressSource, wantSrc) {
			kind := "feature"
			if s.D.Header.AddressSource != nil && reflect.DeepEqual(s.D.Header.AddressSource.Entity, wantSrc.Entity) && reflect.DeepEqual(s.D.Header.AddressSource.Feature, wantSrc.Feature) {
				kind = "device"
			}
			world.Fail(t, fmt.Sprintf("C01/response-source-%s/%s/dev=%s", kind, sigBase, devVariant), "response source is %v, expected the addressed local feature with the local device address %v%s", s.D.Header.AddressSource, wantSrc, desc())
		}
	}
	// (2) count by classifier rule
	n := len(responses)
	errs, succ, replies := 0, 0, 0
	for _, s := range responses {
		switch {
		case s.Classifier() == model.CmdClassifierTypeReply:
			replies++
		case s.ErrorNumber() == 0:
			succ++
		default:
			errs++
		}
	}
	countFail := func(why string) {
		world.Fail(t, fmt.Sprintf("C01/response-count/%s/ack=%v", sigBase, ack), "%s: got %d replies, %d success results, %d error results%s", why, replies, succ, errs, desc())
	}
	switch {
	case cl == model.CmdClassifierTypeResult:
		if n != 0 {
			countFail("a result must never be answered")
		}
	case dest == nil:
		if n != 1 || errs != 1 {
			countFail("a message to a destination that does not exist gets exactly one error result")
		}
	case cl == model.CmdClassifierTypeRead:
		if n != 1 || succ != 0 {
			countFail("a read gets exactly one reply or one error result")
		}
	case cl == model.CmdClassifierTypeWrite:
		if ack && n != 1 || !ack && (n > 1 || succ+replies > 0) || replies > 0 {
			countFail("a write gets one result with ack, at most one error result without")
		}
	default: // reply, notify, call
		if replies > 0 && !(cl == model.CmdClassifierTypeCall) {
			countFail("no reply expected")
		}
		if ack && (succ+errs != 1) || !ack && (succ != 0 || errs > 1) {
			countFail("with ack exactly one result, without ack nothing or one error result")
		}
	}
	// (3) fixed outcomes for reads
	if cl == model.CmdClassifierTypeRead && dest != nil {
		switch {
		case dest.class == "client":
			if errs != 1 {
				world.Fail(t, "C01/read-of-client-feature-answered", "a read of a client feature must be answered with an error result%s", desc())
			}
		case fn == model.FunctionTypeNodeManagementDetailedDiscoveryData || fn == model.FunctionTypeNodeManagementDestinationListData:
			if replies != 1 {
				world.Fail(t, "C01/read-not-replied/special", "a read of %s must be answered with a reply%s", fn, desc())
			}
		case announced && readable:
			if replies != 1 {
				world.Fail(t, "C01/read-not-replied/"+dest.class, "a read of a function the feature announces as readable must be answered with a reply%s", desc())
			}
		}
		if replies == 1 {
			rc := responses[0].Cmd()
			data, err := rc.Data()
			if err != nil || data.Function == nil || *data.Function != fn {
				world.Fail(t, "C01/reply-function", "the reply does not carry the addressed function %s%s", fn, desc())
			}
			// (which part of the data the reply to a restricted read carries is not stated: not compared)
			if (beforeLocal != "" || f != nil) && !restrictedRead {
				got := world.JSON(data.Value)
				if got != beforeLocal && !(beforeLocal == "null" && got == "{}") {
					world.Fail(t, "C01/reply-payload", "the reply payload differs from the function's current data\n reply:  %s\n stored: %s%s", got, beforeLocal, desc())
				}
			}
		}
	}
	// (4) consistency of acceptance
	regsAfter := m.registries()
	var afterLocal, afterRemote string
	if dest != nil && (f != nil || fn == model.FunctionTypeNodeManagementUseCaseData) {
		afterLocal = world.JSON(dest.f.DataCopy(fn))
	}
	if f != nil && rf != nil {
		afterRemote = world.JSON(rf.DataCopy(fn))
	}
	dataEvents := 0
	for _, e := range events {
		if e.P.EventType == api.EventTypeDataChange {
			dataEvents++
		}
	}
	accepted := "n/a"
	if cl != model.CmdClassifierTypeResult && cl != model.CmdClassifierTypeRead {
		rejected := errs > 0
		isOrdinaryData := f != nil && dest != nil
		if rejected {
			accepted = "rejected"
			if beforeLocal != afterLocal || beforeRemote != afterRemote || !reflect.DeepEqual(regsBefore, regsAfter) || len(events) != 0 {
				// a benign exception: discovery data re-announcing the unchanged tree has no observable effect either way
				world.Fail(t, fmt.Sprintf("C01/rejected-but-effect/%s", sigBase), "the message was answered with an error result but had an effect (local data changed=%v, remote data changed=%v, registries changed=%v, events=%d)%s",
					beforeLocal != afterLocal, beforeRemote != afterRemote, !reflect.DeepEqual(regsBefore, regsAfter), len(events), desc())
			}
		} else {
			accepted = "accepted"
			payloadJS := world.JSON(payload)
			switch {
			case (cl == model.CmdClassifierTypeReply || cl == model.CmdClassifierTypeNotify) && isOrdinaryData:
				if afterRemote != payloadJS && !(payloadJS == "{}" && afterRemote == "{}") {
					world.Fail(t, fmt.Sprintf("C01/accepted-without-effect/%s", sigBase), "the %s was accepted (no error result) but the remote feature's data does not show the payload\n payload: %s\n data:    %s%s", cl, payloadJS, afterRemote, desc())
				}
				if dataEvents != 1 {
					world.Fail(t, fmt.Sprintf("C01/accepted-event-count/%s", sigBase), "accepted %s published %d data-change events%s", cl, dataEvents, desc())
				}
			case cl == model.CmdClassifierTypeWrite && isOrdinaryData:
				if shown := shownData(f, dest.f.DataCopy(fn), payload); shown != payloadJS {
					world.Fail(t, fmt.Sprintf("C01/accepted-without-effect/%s", sigBase), "the write was accepted (no error result) but the local data does not show the payload\n payload: %s\n data:    %s%s", payloadJS, afterLocal, desc())
				}
			case cl == model.CmdClassifierTypeCall && regKind != "" && dest != nil && dest.class == "special":
				list := regsAfter.subs
				if regKind == "bind" {
					list = regsAfter.binds
				}
				if has(list, regKey) != regAdd {
					world.Fail(t, fmt.Sprintf("C01/accepted-without-effect/call-%s", regKind), "the %s call was answered with success but the registry entry present=%v%s", fn, has(list, regKey), desc())
				}
			}
		}
	}
	m.tuples[fmt.Sprintf("%s/%s/%s/ack=%v/%s/%s/%s", cl, ft, fn, ack, destClass, roleOf(dest), accepted)] = true
	world.Label("classifier/"+string(cl), "dest/"+destClass, "accepted/"+accepted)
	if cl == model.CmdClassifierTypeWrite {
		world.Label("write/" + accepted)
	}
	_ = tuple
}

func roleOf(l *lfeat) string {
	if l == nil {
		return "-"
	}
	return string(l.role)
}

func (r rfeat) ftRole() string { return fmt.Sprintf("%s/%s[%v/%d]", r.ft, r.role, r.ent, r.id) }

// removeEntity: the application removes local entity [2]; its features must be treated as
// non-existing destinations from now on.
func (m *machine) removeEntity(t *rapid.T) {
	if len(m.removed) > 0 {
		t.Skip("already removed")
	}
	var keep []lfeat
	for _, l := range m.local {
		if len(l.ent) == 1 && l.ent[0] == 2 {
			m.removed = append(m.removed, l)
		} else {
			keep = append(keep, l)
		}
	}
	if len(m.removed) == 0 {
		t.Skip("entity [2] has no features")
	}
	m.local = keep
	m.w.Local.RemoveEntity(m.ents[1])
	m.w.Sync()
	m.logf("application removes local entity [2] (%d features)", len(m.removed))
}

// readCurrent: a peer reads fn of the local server feature l from its client feature of that type and
// must get exactly one reply carrying the function's current data.
func (m *machine) readCurrent(t *rapid.T, pi int, l *lfeat, f *gen.Func, when string) {
	w := m.w
	p := w.Peers[pi]
	var src *rfeat
	for i := range m.remote {
		if r := m.remote[i]; r.ft == l.ft && r.role == model.RoleTypeClient {
			src = &m.remote[i]
			break
		}
	}
	if src == nil {
		return
	}
	cmd := model.CmdType{}
	reflect.ValueOf(&cmd).Elem().FieldByName(f.CmdField).Set(reflect.New(f.DataType))
	for _, q := range w.Peers {
		q.Cap.Drain()
	}
	want := world.JSON(l.f.DataCopy(f.Fn))
	d := p.Msg(model.CmdClassifierTypeRead, p.FA(src.ent, src.id), world.LA(l.ent, l.id), false, nil, cmd)
	p.Send(d)
	w.Sync()
	var replies []world.Sent
	for qi, q := range w.Peers {
		for _, s := range q.Cap.Drain() {
			if !s.IsResponse() {
				continue
			}
			if qi != pi || s.Classifier() != model.CmdClassifierTypeReply {
				world.Fail(t, "C01/response-count/read/server/ack=false", "read of %s (%s): a %s (error %d) was written to peer%d%s", f.Fn, when, s.Classifier(), s.ErrorNumber(), qi+1, m.history())
			}
			replies = append(replies, s)
		}
	}
	if len(replies) != 1 {
		world.Fail(t, "C01/read-not-replied/server", "read of %s (%s) got %d replies%s", f.Fn, when, len(replies), m.history())
	}
	rc := replies[0].Cmd()
	data, err := rc.Data()
	if err != nil || data.Function == nil || *data.Function != f.Fn {
		world.Fail(t, "C01/reply-function", "the reply (%s) does not carry the addressed function %s%s", when, f.Fn, m.history())
	}
	if got := world.JSON(data.Value); got != want && !(want == "null" && got == "{}") {
		world.Fail(t, "C01/reply-payload/"+when, "the reply payload differs from the function's current data (%s)\n reply:  %s\n stored: %s%s", when, got, want, m.history())
	}
}

// changeBetweenReads: "in any prior state of data" - a peer reads a list function, the application changes
// the data through the local API (SetData, or UpdateData with a partial / delete filter of any shape), and the
// same or another peer reads it again: every reply carries the data the function holds at that moment.
func (m *machine) changeBetweenReads(t *rapid.T) {
	type cand struct {
		l *lfeat
		f gen.Func
	}
	var cands []cand
	for i := range m.local {
		l := &m.local[i]
		if l.class != "server" {
			continue
		}
		for fn, ops := range l.f.Operations() {
			if f := gen.ByFunction(fn); ops.Read() && f != nil && f.IsList && listgen.CapsOf(f).Keyed {
				cands = append(cands, cand{l, *f})
			}
		}
	}
	if len(cands) == 0 {
		t.Skip("no readable keyed list function on a local server feature")
	}
	sort.Slice(cands, func(i, j int) bool {
		if cands[i].l.id != cands[j].l.id {
			return cands[i].l.id < cands[j].l.id
		}
		return cands[i].f.Fn < cands[j].f.Fn
	})
	c := cands[rapid.IntRange(0, len(cands)-1).Draw(t, "target")]
	f := &c.f
	m.readCurrent(t, rapid.IntRange(0, len(m.w.Peers)-1).Draw(t, "firstReader"), c.l, f, "before-the-change")
	n := rapid.IntRange(1, 2).Draw(t, "changes")
	for i := 0; i < n; i++ {
		state := refmodel.ItemsOf(f, c.l.f.DataCopy(f.Fn))
		shapes := listgen.ShapesFor(f)
		shape := shapes[rapid.IntRange(0, len(shapes)-1).Draw(t, fmt.Sprintf("shape%d", i))]
		u := listgen.Update(t, f, state, shape, gen.Opt{}, fmt.Sprintf("change%d", i))
		fp, fd := listgen.Filters(f, u)
		var err *model.ErrorType
		if fp == nil && fd == nil && rapid.Bool().Draw(t, fmt.Sprintf("viaSetData%d", i)) {
			c.l.f.SetData(f.Fn, refmodel.Payload(f, u.Items))
		} else {
			err = c.l.f.UpdateData(f.Fn, refmodel.Payload(f, u.Items), fp, fd)
		}
		m.w.Sync()
		m.logf("application changes %s of %v/%d (%s) => err=%v", f.Fn, c.l.ent, c.l.id, u.Shape(), err != nil)
		world.Label("change-between-reads/" + u.Shape())
		m.readCurrent(t, rapid.IntRange(0, len(m.w.Peers)-1).Draw(t, fmt.Sprintf("reader%d", i)), c.l, f, "after-a-change-by-the-application")
	}
	m.w.Events.Drain()
	m.tuples[fmt.Sprintf("change-between-reads/%s", f.Fn)] = true
}

func TestResponses(t *testing.T) {
	rapid.Check(t, world.Prop(func(t *rapid.T) {
		m := setup(t)
		defer m.w.Teardown()
		t.Repeat(map[string]func(*rapid.T){"datagram": m.step, "datagram2": m.step, "datagram3": m.step, "datagram4": m.step, "datagram5": m.step, "removeEntity": m.removeEntity, "changeBetweenReads": m.changeBetweenReads})
		// every step reaches ProcessCmd with a resolvable source feature (non-trivial by rule);
		// distinctness is counted per tuple
		for k := range m.tuples {
			world.Record(world.Hash(k), true)
		}
		if world.WantSample() {
			world.Sample(map[string]any{"feature_types": m.types, "history": m.hist})
		}
	}))
}
