package c15

import (
	"fmt"
	"strings"
	"sync"
	"testing"

	"github.com/enbility/spine-go/api"
	"github.com/enbility/spine-go/spine"
	"pgregory.net/rapid"

	"verifharness/world"
)

// ---------------------------------------------------------------------------------------------
// TestBusHistories: generated histories on spine.Events, judged by the interval oracle

type planOp struct {
	Kind string // pub | sub | unsub
	H    int    // handler of sub / unsub
	Core bool   // sub / unsub on the core level (build-tag hook)
	Root int    // index of a pub among the history's publish operations
}

func (o planOp) String() string {
	if o.Kind == "pub" {
		return fmt.Sprintf("pub#%d", o.Root)
	}
	return fmt.Sprintf("%s(%s)", o.Kind, hname(vh(o.H, o.Core)))
}

type phasePlan struct {
	Workers [][]planOp // one goroutine each; a single worker makes the phase sequential
	Settle  bool       // wait for the asynchronous deliveries before the next phase
}

type busPlan struct {
	Handlers int
	Peer     bool         // a connected, announced peer: the device's core handler sits on the bus too
	Scripts  [][][]action // per handler: its reactions; event (root r, depth d) picks script (r+d) mod n
	Cfgs     []int        // per handler: the content of the handler object (equal values: objects that are alike)
	Phases   []phasePlan
}

func genAction(t *rapid.T, nh int, levels bool, label string) action {
	a := action{Kind: rapid.SampledFrom([]string{"unsub", "sub", "publish", "call", "wait"}).Draw(t, label+"kind")}
	switch a.Kind {
	case "sub", "unsub":
		a.H = rapid.IntRange(0, nh-1).Draw(t, label+"target")
		a.Core = levels && genCoreLevel(t, label+"level")
	case "call":
		a.V = rapid.IntRange(0, callVariants-1).Draw(t, label+"variant")
	}
	return a
}

// genCoreLevel: most (un)subscriptions are those of applications; the others put the handler object
// on the core level, as the stack does with its local devices.
func genCoreLevel(t *rapid.T, label string) bool {
	return rapid.SampledFrom([]bool{false, false, true}).Draw(t, label)
}

// genScripts; levels: (un)subscriptions on the core level too (only where every event is one of
// the harness, so that the level of a delivery can be told).
func genScripts(t *rapid.T, nh int, levels bool) [][][]action {
	scripts := make([][][]action, nh)
	for h := 0; h < nh; h++ {
		n := rapid.IntRange(0, 3).Draw(t, fmt.Sprintf("h%dscripts", h))
		for s := 0; s < n; s++ {
			var sc []action
			m := rapid.IntRange(0, 2).Draw(t, fmt.Sprintf("h%ds%dlen", h, s))
			for i := 0; i < m; i++ {
				sc = append(sc, genAction(t, nh, levels, fmt.Sprintf("h%ds%da%d", h, s, i)))
			}
			scripts[h] = append(scripts[h], sc)
		}
	}
	return scripts
}

func genBusPlan(t *rapid.T) busPlan {
	pl := busPlan{Handlers: rapid.IntRange(1, 4).Draw(t, "handlers"), Peer: rapid.Bool().Draw(t, "peer")}
	pl.Scripts = genScripts(t, pl.Handlers, true)
	roots := 0
	nph := rapid.IntRange(1, 5).Draw(t, "phases")
	for p := 0; p < nph; p++ {
		ph := phasePlan{Settle: rapid.Bool().Draw(t, fmt.Sprintf("p%dsettle", p))}
		nw := rapid.SampledFrom([]int{1, 1, 1, 2, 3, 4}).Draw(t, fmt.Sprintf("p%dworkers", p))
		for w := 0; w < nw; w++ {
			var ops []planOp
			n := rapid.IntRange(1, 4).Draw(t, fmt.Sprintf("p%dw%dops", p, w))
			for i := 0; i < n; i++ {
				op := planOp{Kind: rapid.SampledFrom([]string{"pub", "sub", "unsub", "pub", "sub", "pub"}).Draw(t, fmt.Sprintf("p%dw%do%d", p, w, i))}
				if op.Kind == "pub" {
					op.Root = roots
					roots++
				} else {
					op.H = rapid.IntRange(0, pl.Handlers-1).Draw(t, fmt.Sprintf("p%dw%do%dh", p, w, i))
					op.Core = genCoreLevel(t, fmt.Sprintf("p%dw%do%dlevel", p, w, i))
				}
				ops = append(ops, op)
			}
			ph.Workers = append(ph.Workers, ops)
		}
		pl.Phases = append(pl.Phases, ph)
	}
	pl.Cfgs = genCfgs(t, pl.Handlers)
	return pl
}

func (pl busPlan) render() map[string]any {
	var phases []any
	for _, ph := range pl.Phases {
		var ws []string
		for _, w := range ph.Workers {
			ws = append(ws, fmt.Sprint(w))
		}
		phases = append(phases, map[string]any{"workers": ws, "settle": ph.Settle})
	}
	return map[string]any{"handlers": pl.Handlers, "peer": pl.Peer, "scripts": showScripts(pl.Scripts), "configs": pl.Cfgs, "phases": phases}
}

// runPhase executes the workers of a phase concurrently; every operation must return.
func (b *bench) runPhase(t world.TB, idx int, ph phasePlan) {
	var wg sync.WaitGroup
	gate, done := make(chan struct{}), make(chan struct{})
	concurrent := len(ph.Workers) > 1
	for wi, ops := range ph.Workers {
		wg.Add(1)
		go func(ctx string, ops []planOp) {
			defer wg.Done()
			<-gate
			for _, op := range ops {
				switch op.Kind {
				case "pub":
					b.publish(op.Root, 0, ctx, concurrent)
				case "sub":
					b.subscribeAt(op.H, op.Core, ctx)
				case "unsub":
					b.unsubscribeAt(op.H, op.Core, ctx)
				}
			}
		}(fmt.Sprintf("p%dw%d", idx, wi), ops)
	}
	go func() {
		wg.Wait()
		close(done)
	}()
	close(gate)
	if !await(done) {
		stuck(t, fmt.Sprintf("an operation of phase %d did not return", idx))
	}
}

func TestBusHistories(t *testing.T) {
	rapid.Check(t, world.Prop(func(t *rapid.T) {
		pl := genBusPlan(t)
		b := newBench(pl.Handlers, pl.Scripts, pl.Cfgs)
		defer b.w.Teardown()
		// (runs before Teardown: what the stack publishes while it shuts down is not for the harness's
		// core level handlers - their scripts are made for events whose level of delivery can be told)
		defer func() {
			for _, h := range b.hs {
				_ = spine.VerifUnsubscribe(api.EventHandlerLevelCore, h)
			}
		}()
		if pl.Peer {
			b.addPeer(b.w.AddPeer("ski1", "d:_r:peer1", peerTree(1)))
		}
		b.w.Sync()
		b.rebase()

		for i, ph := range pl.Phases {
			b.runPhase(t, i, ph)
			if ph.Settle {
				b.barrier(t)
			}
		}
		b.settle(t)

		ops, pubs, dels, reacted := b.rec.snapshot()
		dels = append(dels, b.worldLogDeliveries()...)

		concurrent, nested := false, false
		for _, p := range pubs {
			concurrent = concurrent || (p.Concurrent && !p.Nested)
			nested = nested || p.Nested
		}
		labels := []string{fmt.Sprintf("bus/handlers/%d", pl.Handlers)}
		coreSub, coreSubReentrant, coreDelivered := false, false, false
		for _, o := range ops {
			if o.H >= coreBase && o.Kind == kSub {
				coreSub = true
				coreSubReentrant = coreSubReentrant || o.reentrant()
			}
		}
		for _, d := range dels {
			coreDelivered = coreDelivered || d.H >= coreBase
		}
		for name, on := range map[string]bool{"bus/peer": pl.Peer, "bus/concurrent-publication": concurrent, "bus/nested-publication": nested,
			"bus/reentrant": reacted > 0, "bus/between": betweenTwoPublications(ops, pubs), "bus/handlers-alike": alike(pl.Cfgs),
			"bus/core-level-subscription": coreSub, "bus/core-level-subscription-from-a-handler": coreSubReentrant, "bus/core-level-delivery": coreDelivered} {
			if on {
				labels = append(labels, name)
			}
		}
		// statistics first (a failing case is still an executed case)
		ty := dryTally(b.subscriberIndexes(), ops, pubs)
		nontrivial := ty.must > 0 && ((subscribedEver(ops) >= 2 && betweenTwoPublications(ops, pubs)) || reacted > 0)
		world.Record(world.Hash("bus", fmt.Sprint(pl.render())), nontrivial, labels...)
		world.AddExtra("bus_pairs_must", int64(ty.must))
		world.AddExtra("bus_pairs_must_not", int64(ty.mustNot))
		world.AddExtra("bus_pairs_either", int64(ty.either))
		world.AddExtra("bus_publications", int64(len(pubs)))
		world.AddExtra("bus_deliveries", int64(len(dels)))
		world.AddExtra("bus_reentrant_actions", int64(reacted))
		if nontrivial && world.WantSample() {
			world.Sample(map[string]any{"check": "bus-history", "plan": pl.render(), "publications": len(pubs), "deliveries": len(dels),
				"pairs": map[string]int{"must": ty.must, "must-not": ty.mustNot, "either": ty.either}})
		}

		judge(t, b.subscriberIndexes(), ops, pubs, dels, true)
	}))
}

// dryTally counts the oracle's classes without judging.
func dryTally(handlers []int, ops []busOp, pubs []pubRec) tally {
	var ty tally
	opsOf := map[int][]busOp{}
	for _, o := range ops {
		opsOf[o.H] = append(opsOf[o.H], o)
	}
	for _, p := range pubs {
		for _, h := range handlers {
			if h == worldLog {
				continue
			}
			switch classify(opsOf[h], p) {
			case must:
				ty.must++
			case mustNot:
				ty.mustNot++
			default:
				ty.either++
			}
		}
	}
	return ty
}

// ---------------------------------------------------------------------------------------------
// TestOracle: the interval oracle on hand-written logs (plain, deterministic)

func TestOracle(t *testing.T) {
	sub := func(s, e uint64) busOp { return busOp{H: 0, Kind: kSub, Start: s, End: e, Ctx: "x"} }
	uns := func(s, e uint64) busOp { return busOp{H: 0, Kind: kUnsub, Start: s, End: e, Ctx: "x"} }
	pub := pubRec{Key: "e", Start: 100, End: 110, Gid: 1}
	cases := []struct {
		name string
		ops  []busOp
		want verdict
	}{
		{"never subscribed", nil, mustNot},
		{"subscribed before", []busOp{sub(1, 2)}, must},
		{"subscribed twice", []busOp{sub(1, 2), sub(3, 4)}, must},
		{"subscribed twice, unsubscribed once", []busOp{sub(1, 2), sub(3, 4), uns(5, 6)}, mustNot},
		{"unsubscribed then subscribed", []busOp{sub(1, 2), uns(3, 4), sub(5, 6)}, must},
		{"subscribe after the publication", []busOp{sub(111, 112)}, mustNot},
		{"unsubscribe after the publication", []busOp{sub(1, 2), uns(111, 112)}, must},
		{"unsubscribe overlaps the start", []busOp{sub(1, 2), uns(99, 101)}, either},
		{"unsubscribe inside", []busOp{sub(1, 2), uns(103, 104)}, either},
		{"unsubscribe overlaps the end", []busOp{sub(1, 2), uns(109, 115)}, either},
		{"unsubscribe spans", []busOp{sub(1, 2), uns(90, 120)}, either},
		{"subscribe inside, not subscribed", []busOp{sub(103, 104)}, either},
		{"subscribe again inside", []busOp{sub(1, 2), sub(103, 104)}, must},
		{"unsubscribe again inside", []busOp{sub(1, 2), uns(3, 4), uns(103, 104)}, mustNot},
		{"last two completed overlap, differ", []busOp{sub(1, 10), uns(2, 5)}, either},
		{"last two completed overlap, differ (2)", []busOp{uns(1, 10), sub(2, 5)}, either},
		{"last two completed overlap, agree", []busOp{uns(1, 2), sub(3, 10), sub(4, 5)}, must},
		{"earlier overlap is settled by a later op", []busOp{sub(1, 10), uns(2, 5), uns(11, 12)}, mustNot},
		{"overlap chain does not reach the last op", []busOp{uns(1, 4), sub(3, 6), sub(7, 8)}, must},
	}
	for _, c := range cases {
		if got := classify(c.ops, pub); got != c.want {
			t.Errorf("%s: classify = %s, want %s", c.name, got, c.want)
		}
	}
	// the judge itself: counts against verdicts
	type exp struct {
		ops  []busOp
		n    int
		fail string
	}
	for _, e := range []exp{
		{[]busOp{sub(1, 2)}, 1, ""},
		{[]busOp{sub(1, 2)}, 0, "C15/not-delivered/sequential-publish-plain"},
		{[]busOp{sub(1, 2)}, 2, "C15/delivered-twice/sequential-publish-plain"},
		{[]busOp{sub(1, 2), uns(3, 4)}, 1, "C15/delivered-after-unsubscribe/sequential-publish-plain"},
		{nil, 1, "C15/delivered-never-subscribed/sequential-publish-plain"},
		{[]busOp{sub(1, 2), uns(103, 104)}, 0, ""},
		{[]busOp{sub(1, 2), uns(103, 104)}, 1, ""},
		{[]busOp{sub(1, 2), uns(103, 104)}, 2, "C15/delivered-twice/sequential-publish-plain"},
	} {
		var dels []delivery
		for i := 0; i < e.n; i++ {
			dels = append(dels, delivery{H: 0, Key: "e", At: 105, Gid: 2})
		}
		ft := &fakeT{}
		func() {
			defer func() { _ = recover() }()
			judge(ft, []int{0}, e.ops, []pubRec{pub}, dels, true)
		}()
		if e.fail == "" && ft.msg != "" {
			t.Errorf("judge(%s, %d deliveries) failed: %s", showOps(e.ops), e.n, ft.msg)
		}
		if e.fail != "" && !containsSig(ft.msg, e.fail) {
			t.Errorf("judge(%s, %d deliveries) = %q, want signature %s", showOps(e.ops), e.n, ft.msg, e.fail)
		}
	}
	// synchronous handling is recognised by the goroutine
	ft := &fakeT{}
	func() {
		defer func() { _ = recover() }()
		judge(ft, []int{0}, []busOp{sub(1, 2)}, []pubRec{pub}, []delivery{{H: 0, Key: "e", At: 105, Gid: 1}}, true)
	}()
	if !containsSig(ft.msg, "C15/application-handler-synchronous/sequential-publish") {
		t.Errorf("synchronous delivery not recognised: %q", ft.msg)
	}

	// the classification of goroutine dumps
	lock := "goroutine 7 [sync.Mutex.Lock]:\nsync.runtime_SemacquireMutex(0x1, 0x2, 0x3)\n\t/go/src/runtime/sema.go:95 +0x25\nsync.(*Mutex).lockSlow(0xc0)\n\t/go/src/sync/mutex.go:173 +0x15d\nsync.(*Mutex).Lock(...)\n\t/go/src/sync/mutex.go:92\ngithub.com/enbility/spine-go/spine.(*events).subscribe(0xc0, 0x1, {0x1, 0x2})\n\t/repo/spine/events.go:25 +0x7c\nverifharness/c15.(*bench).subscribe(0xc0, 0x0)\n\t/verif/harness/c15/c15_test.go:1 +0x1\ncreated by verifharness/c15.watched in goroutine 6\n\t/verif/harness/c15/c15_test.go:1 +0x1"
	async := "goroutine 9 [chan receive]:\nverifharness/c15.(*handler).HandleEvent(0xc0, {0x1})\n\t/verif/harness/c15/c15_test.go:1 +0x1\ncreated by github.com/enbility/spine-go/spine.(*events).Publish in goroutine 8\n\t/repo/spine/events.go:100 +0x1"
	syncH := "goroutine 9 [chan receive]:\nverifharness/c15.(*handler).HandleEvent(0xc0, {0x1})\n\t/verif/harness/c15/c15_test.go:1 +0x1\ngithub.com/enbility/spine-go/spine.(*events).Publish(0xc0, {0x1})\n\t/repo/spine/events.go:100 +0x1\nverifharness/c15.(*bench).publish(0xc0)\n\t/verif/harness/c15/c15_test.go:1 +0x1"
	running := "goroutine 1 [running]:\ngithub.com/enbility/spine-go/spine.(*events).Publish(0xc0, {0x1})\n\t/repo/spine/events.go:100 +0x1"
	for _, c := range []struct{ dump, want string }{
		{running + "\n\n" + lock, "lock"},
		{running + "\n\n" + async, ""},
		{async + "\n\n" + syncH, "handler"},
		{syncH + "\n\n" + lock, "lock"},
		{running, ""},
	} {
		if got, _ := evidence(c.dump); got != c.want {
			t.Errorf("evidence = %q, want %q for\n%s", got, c.want, c.dump)
		}
	}
}

type fakeT struct{ msg string }

func (f *fakeT) Helper() {}
func (f *fakeT) Fatalf(format string, args ...any) {
	if f.msg == "" {
		f.msg = fmt.Sprintf(format, args...)
	}
	panic("fakeT")
}
func (f *fakeT) Logf(string, ...any) {}

func containsSig(msg, sig string) bool { return strings.Contains(msg, "sig="+sig+" ") }
