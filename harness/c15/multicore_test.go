package c15

import (
	"fmt"
	"runtime"
	"sync"
	"sync/atomic"
	"testing"
	"time"

	shipapi "github.com/enbility/ship-go/api"
	"github.com/enbility/spine-go/api"
	"github.com/enbility/spine-go/model"
	"github.com/enbility/spine-go/spine"
	"pgregory.net/rapid"

	"verifharness/world"
)

// ---------------------------------------------------------------------------------------------
// TestSeveralCoreHandlers: several local devices live in one process (a gateway hosting two
// devices, the integration tests of an application), so the bus holds several core-level handlers
// that come and go: a device subscribes itself with its first connection and unsubscribes with
// its last one. For every device-add event: every core handler that can act on it has acted before
// the publishing call returns and before any application handler of that event starts.
//
// The observable act of the core handler of device d for the event "peer s announced itself to d":
// a NodeManagement subscription call from d on d's connection to s. It has to be on the wire before
// the publishing call returns and before any application handler starts - wherever d's handler
// stands among the core handlers of the other local devices, which see the event as well.
// (Requests identical to a still unanswered one are withheld by the sender, hence the harness
// answers every subscription call between two steps.)

type mcStep struct {
	Kind string // connect | announce | remove | sub | unsub
	D, S int    // local device, peer
	H    int    // application handler
}

func (s mcStep) String() string {
	switch s.Kind {
	case "sub", "unsub":
		return fmt.Sprintf("%s(h%d)", s.Kind, s.H)
	}
	return fmt.Sprintf("%s(dev%d,peer%d)", s.Kind, s.D, s.S)
}

type mcConn struct {
	cap       *world.Capture
	reader    shipapi.ShipConnectionDataReaderInterface
	peer      *world.Peer
	announced bool
	answered  int // datagrams of cap already looked at for answering
}

type mcHandler struct {
	mu     sync.Mutex
	starts []mcStart
}

type mcStart struct {
	at  uint64
	ski string
}

func (h *mcHandler) HandleEvent(p api.EventPayload) {
	at := world.Stamp()
	if p.EventType != api.EventTypeDeviceChange || p.ChangeType != api.ElementChangeAdd {
		return
	}
	h.mu.Lock()
	h.starts = append(h.starts, mcStart{at: at, ski: p.Ski})
	h.mu.Unlock()
}

func (h *mcHandler) since(stamp uint64, ski string) (out []uint64) {
	h.mu.Lock()
	defer h.mu.Unlock()
	for _, s := range h.starts {
		if s.at >= stamp && s.ski == ski {
			out = append(out, s.at)
		}
	}
	return out
}

func mcLocalAddr(d int) model.AddressDeviceType {
	return model.AddressDeviceType(fmt.Sprintf("d:_i:local%d", d))
}

func mcLocalNM(d int) *model.FeatureAddressType {
	a := mcLocalAddr(d)
	return &model.FeatureAddressType{Device: &a, Entity: spine.NewAddressEntityType([]uint{0}), Feature: ptr(model.AddressFeatureType(0))}
}

func ptr[T any](v T) *T { return &v }

// subscription calls of device d on msgs (stamps), from position from on
func mcSubscriptionCalls(msgs []world.Sent, since uint64, d int, p *world.Peer) (stamps []uint64) {
	for _, s := range msgs {
		if s.Seq < since || s.Classifier() != model.CmdClassifierTypeCall {
			continue
		}
		c := s.Cmd().NodeManagementSubscriptionRequestCall
		if c == nil || c.SubscriptionRequest == nil {
			continue
		}
		if world.JSON(c.SubscriptionRequest.ServerAddress) == world.JSON(p.NM()) && world.JSON(c.SubscriptionRequest.ClientAddress) == world.JSON(mcLocalNM(d)) {
			stamps = append(stamps, s.Seq)
		}
	}
	return stamps
}

func TestSeveralCoreHandlers(t *testing.T) {
	rapid.Check(t, world.Prop(func(t *rapid.T) {
		nDev := rapid.IntRange(2, 3).Draw(t, "localDevices")
		nPeer := rapid.IntRange(1, 2).Draw(t, "peers")
		nH := rapid.IntRange(1, 3).Draw(t, "handlers")

		world.ResetEvents()
		devs := make([]*spine.DeviceLocal, nDev)
		for d := range devs {
			devs[d] = spine.NewDeviceLocal("Brand", "Model", fmt.Sprintf("Serial%d", d), "Code", string(mcLocalAddr(d)),
				model.DeviceTypeTypeEnergyManagementSystem, model.NetworkManagementFeatureSetTypeSmart)
		}
		handlers := make([]*mcHandler, nH)
		for h := range handlers {
			handlers[h] = &mcHandler{}
		}
		conns := map[[2]int]*mcConn{}
		base := runtime.NumGoroutine()
		barrier := func() {
			if !world.WaitGoroutines(base, 10*time.Second) {
				stuck(t, "the goroutines started for application handlers did not finish")
			}
		}
		defer func() {
			for k := range conns {
				devs[k[0]].RemoveRemoteDeviceConnection(fmt.Sprintf("ski%d", k[1]+1))
			}
			world.WaitGoroutines(base, 2*time.Second)
		}()

		// answer the subscription calls written so far (so that the next identical call is sent again)
		answer := func() {
			for k, c := range conns {
				msgs := c.cap.All()
				for _, s := range msgs[c.answered:] {
					if s.Classifier() == model.CmdClassifierTypeCall && s.Cmd().NodeManagementSubscriptionRequestCall != nil {
						res := model.CmdType{ResultData: &model.ResultDataType{ErrorNumber: ptr(model.ErrorNumberType(0))}}
						c.peer.Send(c.peer.Msg(model.CmdClassifierTypeResult, c.peer.NM(), mcLocalNM(k[0]), false, s.D.Header.MsgCounter, res))
					}
				}
				c.answered = len(msgs)
			}
		}

		var plan []mcStep
		steps := rapid.IntRange(4, 16).Draw(t, "steps")
		announces, multiCore, afterCoreLeft, withApp, effects := 0, 0, 0, 0, 0
		coreLeft := false
		subscribed := map[int]bool{}
		for i := 0; i < steps; i++ {
			var valid, progress []mcStep
			for d := 0; d < nDev; d++ {
				for s := 0; s < nPeer; s++ {
					c := conns[[2]int{d, s}]
					switch {
					case c == nil:
						progress = append(progress, mcStep{Kind: "connect", D: d, S: s})
					case !c.announced:
						progress = append(progress, mcStep{Kind: "announce", D: d, S: s})
						valid = append(valid, mcStep{Kind: "remove", D: d, S: s})
					default:
						valid = append(valid, mcStep{Kind: "remove", D: d, S: s})
					}
				}
			}
			for h := 0; h < nH; h++ {
				valid = append(valid, mcStep{Kind: "sub", H: h}, mcStep{Kind: "unsub", H: h})
			}
			if len(progress) > 0 && rapid.IntRange(0, 2).Draw(t, fmt.Sprintf("s%dprogress", i)) > 0 {
				valid = progress
			} else {
				valid = append(valid, progress...)
			}
			st := valid[rapid.IntRange(0, len(valid)-1).Draw(t, fmt.Sprintf("s%d", i))]
			plan = append(plan, st)
			ski := fmt.Sprintf("ski%d", st.S+1)
			key := [2]int{st.D, st.S}
			barrier()
			switch st.Kind {
			case "sub":
				_ = spine.Events.Subscribe(handlers[st.H])
				subscribed[st.H] = true
			case "unsub":
				_ = spine.Events.Unsubscribe(handlers[st.H])
				delete(subscribed, st.H)
			case "connect":
				c := &mcConn{cap: &world.Capture{}}
				c.peer = &world.Peer{Idx: st.D*4 + st.S, Ski: ski, Addr: model.AddressDeviceType(fmt.Sprintf("d:_r:peer%d", st.S+1)), Cap: c.cap}
				c.reader = devs[st.D].SetupRemoteDevice(ski, c.cap)
				c.peer.Reader = c.reader
				msgs := c.cap.All()
				if len(msgs) == 0 {
					t.Fatalf("harness: no discovery read after connecting %s to device %d", ski, st.D)
				}
				c.peer.DiscoveryRef = msgs[0].D.Header.MsgCounter
				conns[key] = c
			case "remove":
				last := true
				for k := range conns {
					if k[0] == st.D && k != key {
						last = false
					}
				}
				if !watched(func() { devs[st.D].RemoveRemoteDeviceConnection(ski) }) {
					stuck(t, "RemoveRemoteDeviceConnection did not return")
				}
				delete(conns, key)
				if last && len(conns) > 0 {
					coreLeft = true // a core handler unsubscribed while other core handlers stay
				}
			case "announce":
				c := conns[key]
				ents := world.WithDeviceInfo(peerTree(1))
				cmd := model.CmdType{NodeManagementDetailedDiscoveryData: c.peer.DiscoveryData(ents, nil)}
				raw := world.Encode(c.peer.Msg(model.CmdClassifierTypeReply, c.peer.NM(), mcLocalNM(st.D), false, c.peer.DiscoveryRef, cmd))
				// the device whose core handler has something to do for this event: the one the peer
				// announced itself to (the other local devices see the event too, but it concerns a
				// remote device object that is not theirs; what they make of it is not asserted)
				acting := []int{st.D}
				coreDevices := map[int]bool{}
				for k := range conns {
					coreDevices[k[0]] = true
				}
				// the core handler is inside its write for a moment (a connection takes its time); the stamp
				// that counts as "the core handler's datagram is out" is taken when the write is through:
				// an application handler started meanwhile has an earlier stamp
				var writeThrough atomic.Uint64
				for _, d := range acting {
					conns[[2]int{d, st.S}].cap.SetOnWrite(func([]byte) {
						for i := 0; i < 8; i++ {
							runtime.Gosched() // let already started application handlers get ahead, if there are any
						}
						time.Sleep(300 * time.Microsecond) // (also on a busy machine)
						writeThrough.Store(world.Stamp())
					})
				}
				start := world.Stamp()
				ok := watched(func() { c.reader.HandleShipPayloadMessage(raw) })
				end := world.Stamp()
				if !ok {
					stuck(t, "the injected discovery reply did not return")
				}
				c.announced = true
				shape := fmt.Sprintf("core-handlers-%d", len(coreDevices))
				var coreDone uint64
				for _, d := range acting {
					o := conns[[2]int{d, st.S}]
					o.cap.SetOnWrite(nil)
					calls := mcSubscriptionCalls(o.cap.All(), start, d, o.peer)
					n := 0
					for _, s := range calls {
						if s < end {
							n++
						}
						coreDone = max(coreDone, s)
					}
					if n == 0 {
						world.Fail(t, "C15/core-not-finished-at-return/"+shape, "the call that published device-add for %s (announced to local device %d) returned at stamp %d; subscription calls of local device %d, which is connected to that peer: %v (the core handler of every local device has to be through before the return)\nhistory: %v", ski, st.D, end, d, calls, plan)
					}
				}
				barrier()
				for _, d := range acting {
					o := conns[[2]int{d, st.S}]
					if calls := mcSubscriptionCalls(o.cap.All(), start, d, o.peer); len(calls) != 1 {
						world.Fail(t, "C15/core-handler-not-once/"+shape, "one device-add event for %s made the core handler of local device %d send %d subscription calls (exactly one)\nhistory: %v", ski, d, len(calls), plan)
					}
				}
				for h := range handlers {
					for _, at := range handlers[h].since(start, ski) {
						if at < max(coreDone, writeThrough.Load()) {
							world.Fail(t, "C15/application-before-core/"+shape, "application handler %d started handling device-add for %s at stamp %d, but the core handlers were still at work: the last subscription call of a local device was written at stamp %d\nhistory: %v", h, ski, at, coreDone, plan)
						}
					}
				}
				announces++
				effects += len(acting)
				if len(coreDevices) > 1 {
					multiCore++
				}
				if coreLeft {
					afterCoreLeft++
				}
				if len(subscribed) > 0 {
					withApp++
				}
				answer()
			}
		}
		barrier()
		labels := []string{fmt.Sprintf("multicore/devices/%d", nDev)}
		for name, on := range map[string]bool{"multicore/announce-with-several-core-handlers": multiCore > 0, "multicore/announce-after-a-core-handler-left": afterCoreLeft > 0,
			"multicore/announce-with-application-handler": withApp > 0, "multicore/several-acting-core-handlers": effects > announces} {
			if on {
				labels = append(labels, name)
			}
		}
		nontrivial := multiCore > 0 && withApp > 0
		world.Record(world.Hash("multicore", fmt.Sprint(nDev, nPeer, nH, plan)), nontrivial, labels...)
		world.AddExtra("multicore_announces", int64(announces))
		if nontrivial && world.WantSample() {
			world.Sample(map[string]any{"check": "several-core-handlers", "local_devices": nDev, "peers": nPeer, "handlers": nH, "history": fmt.Sprint(plan)})
		}
	}))
}
