package c15

import (
	"fmt"
	"sync"
	"testing"

	"github.com/enbility/spine-go/model"

	"verifharness/world"
)

// TestCoreFirstConcurrent: overlapping publications. Several peers' discovery replies are injected
// from their own connection goroutines at the same moment (each makes the stack publish a
// device-add event whose core-level handling writes the NodeManagement subscription call and the
// use-case read to THAT peer). "The stack's internal handlers have finished before publication
// returns" must hold for every one of the overlapping publications: when a peer's injecting call
// returns, its writer already holds both datagrams.
func TestCoreFirstConcurrent(t *testing.T) {
	rounds := world.EnvInt("VERIF_ROUNDS", 300)
	world.Guard(func() {
		for r := 0; r < rounds; r++ {
			w := world.New()
			n := 2 + r%3
			var peers []*world.Peer
			for i := 0; i < n; i++ {
				peers = append(peers, w.Connect(fmt.Sprintf("ski-%d", i+1), fmt.Sprintf("d:_r:peer%d", i+1)))
			}
			type result struct {
				subs, reads int
			}
			res := make([]result, n)
			start := make(chan struct{})
			var wg sync.WaitGroup
			for i, p := range peers {
				wg.Add(1)
				go func(i int, p *world.Peer) {
					defer wg.Done()
					ents := world.WithDeviceInfo(peerTree(1))
					d := p.Msg(model.CmdClassifierTypeReply, p.NM(), world.LocalNM(), false, p.DiscoveryRef,
						model.CmdType{NodeManagementDetailedDiscoveryData: p.DiscoveryData(ents, nil)})
					<-start
					p.Send(d)
					// the injecting call returned: the core handler's datagrams must be there
					subs, reads := coreEffects(p.Cap.All(), 0, p)
					res[i] = result{len(subs), len(reads)}
				}(i, p)
			}
			close(start)
			wg.Wait()
			w.Sync()
			world.Record(world.Hash("corefirst-concurrent", r), true, fmt.Sprintf("concurrent-publishers/%d", n))
			for i, x := range res {
				if x.subs != 1 || x.reads != 1 {
					world.Fail(t, "C15/core-not-finished-at-return/concurrent-publications",
						"round %d, %d overlapping discovery replies: when the injecting call of peer%d returned its writer held %d subscription calls and %d use-case reads (expected 1 and 1): publication returned before the core handler had handled the event",
						r, n, i+1, x.subs, x.reads)
				}
			}
			w.Teardown()
		}
	})
}
