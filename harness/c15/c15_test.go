// Package c15: the event bus delivers every event once, core handlers first, and never blocks.
//
// Shared machinery of the two checks in this package:
//
//   - record: the stamped log of every bus operation (subscribe / unsubscribe / publish, also those
//     issued from inside handlers) and of every delivery, all stamps from world.Stamp();
//   - judge: the interval oracle of DESIGN §4 C15 (no prediction of the handler set);
//   - watched / stuck: the watchdog ("every Publish returns") and the classification of a time-out.
package c15

import (
	"fmt"
	"regexp"
	"runtime"
	"sort"
	"strings"
	"sync"
	"sync/atomic"
	"testing"
	"time"

	"github.com/enbility/spine-go/api"
	"github.com/enbility/spine-go/model"
	"github.com/enbility/spine-go/spine"
	"pgregory.net/rapid"

	"verifharness/world"
)

func TestMain(m *testing.M) { world.Main(m) }

// ---------------------------------------------------------------------------------------------
// the stamped log

// worldLog is the handler index of the application-level EventLog that world.New() subscribes.
const worldLog = -1

// A subscription is a pair (level, handler). In the log the subscription of handler object k on
// the application level is index k and its subscription on the core level (build-tag hook
// spine.VerifSubscribe; what a local device is on the bus) is index coreBase+k: two subscribers
// for the oracle, one object for the bus.
const coreBase = 100

func vh(h int, core bool) int {
	if core {
		return coreBase + h
	}
	return h
}

type opKind uint8

const (
	kSub opKind = iota
	kUnsub
)

func (k opKind) String() string {
	if k == kSub {
		return "subscribe"
	}
	return "unsubscribe"
}

// busOp is one completed Subscribe / Unsubscribe call on spine.Events.
type busOp struct {
	H          int
	Kind       opKind
	Start, End uint64
	Ctx        string // who issued it: "setup", "p<phase>w<worker>", "step<n>", "handler h<k>", "writer"
}

func (o busOp) reentrant() bool {
	return strings.HasPrefix(o.Ctx, "handler") || o.Ctx == "writer"
}

// pubRec is one publication: either a Publish call of the harness (Gid = publishing goroutine) or
// a call into the stack that publishes exactly one event of that identity somewhere inside
// [Start, End] (Gid = 0).
type pubRec struct {
	Key        string
	Start, End uint64
	Gid        uint64
	Ctx        string
	Nested     bool // published from inside a handler
	Concurrent bool // other history goroutines were running
}

func (p pubRec) shape() string {
	switch {
	case p.Gid == 0:
		return "stack-publish"
	case p.Nested:
		return "nested-publish"
	case p.Concurrent:
		return "concurrent-publish"
	}
	return "sequential-publish"
}

// delivery is one HandleEvent invocation of a harness handler.
type delivery struct {
	H   int
	Key string
	At  uint64 // stamp taken on entry
	Gid uint64 // goroutine the handler ran on (0 = not recorded)
	// HasSub: what HasSubscriptionToRemote(peer NodeManagement) said on entry of a device-add
	// event (0 = not asked, 1 = true, 2 = false).
	HasSub int
}

type record struct {
	mu      sync.Mutex
	ops     []busOp
	pubs    []pubRec
	dels    []delivery
	reacted int // actions executed inside handlers / the writer
}

func (r *record) addOp(o busOp) {
	r.mu.Lock()
	r.ops = append(r.ops, o)
	if o.reentrant() {
		r.reacted++
	}
	r.mu.Unlock()
}

func (r *record) addPub(p pubRec) {
	r.mu.Lock()
	r.pubs = append(r.pubs, p)
	if p.Nested {
		r.reacted++
	}
	r.mu.Unlock()
}

func (r *record) addDelivery(d delivery) {
	r.mu.Lock()
	r.dels = append(r.dels, d)
	r.mu.Unlock()
}

func (r *record) addReaction() {
	r.mu.Lock()
	r.reacted++
	r.mu.Unlock()
}

func (r *record) deliveries() int {
	r.mu.Lock()
	defer r.mu.Unlock()
	return len(r.dels)
}

// snapshot returns copies for the judging (property) goroutine.
func (r *record) snapshot() ([]busOp, []pubRec, []delivery, int) {
	r.mu.Lock()
	defer r.mu.Unlock()
	return append([]busOp(nil), r.ops...), append([]pubRec(nil), r.pubs...), append([]delivery(nil), r.dels...), r.reacted
}

// gid returns the id of the calling goroutine (the property's observation point names the
// goroutine a handler runs on; the runtime offers it only through the stack header).
func gid() uint64 {
	var buf [64]byte
	n := runtime.Stack(buf[:], false)
	var id uint64
	for _, ch := range buf[len("goroutine "):n] {
		if ch < '0' || ch > '9' {
			break
		}
		id = id*10 + uint64(ch-'0')
	}
	return id
}

// ---------------------------------------------------------------------------------------------
// interval oracle

type verdict uint8

const (
	mustNot verdict = iota
	must
	either
)

func (v verdict) String() string { return [...]string{"must-not", "must", "either"}[v] }

// classify decides what the statement fixes for handler h (whose operations are ops) and
// publication p.
//
// The snapshot the bus takes lies somewhere inside [p.Start, p.End]. The subscription state at
// that point is the kind of the operation linearised last before it. Candidates for "last":
//   - L, the operation with the greatest end stamp among those that completed before p.Start, and
//     every completed operation that overlaps L (it may have taken effect after L);
//   - every operation that overlaps the publication (it may take effect before the snapshot);
//   - the initial state "not subscribed" if nothing completed before p.Start.
//
// Every other completed operation ended before L started, so L follows it in every
// linearisation. If all candidates agree the outcome is fixed (Subscribe and Unsubscribe are
// idempotent: the state after one of them does not depend on the state before), otherwise the
// statement allows zero or one delivery. Two are never allowed.
func classify(ops []busOp, p pubRec) verdict {
	var last *busOp
	for i := range ops {
		if o := &ops[i]; o.End < p.Start && (last == nil || o.End > last.End) {
			last = o
		}
	}
	var sub, unsub bool
	add := func(k opKind) {
		if k == kSub {
			sub = true
		} else {
			unsub = true
		}
	}
	if last == nil {
		unsub = true
	}
	for _, o := range ops {
		switch {
		case o.Start > p.End: // began after the publication had returned
		case o.End < p.Start: // completed before the publication began
			if o.End > last.Start {
				add(o.Kind)
			}
		default: // overlaps the publication
			add(o.Kind)
		}
	}
	switch {
	case sub && !unsub:
		return must
	case unsub && !sub:
		return mustNot
	}
	return either
}

type tally struct {
	must, mustNot, either int // pairs (harness handler, publication), the world's log excluded
	deliveries            int
}

// judge applies the interval oracle to every (handler, publication) pair. strictKeys: every
// delivery must belong to a logged publication (false where the stack publishes further events
// that the check does not track).
func judge(t world.TB, handlers []int, ops []busOp, pubs []pubRec, dels []delivery, strictKeys bool) tally {
	var ty tally
	opsOf := map[int][]busOp{}
	for _, o := range ops {
		opsOf[o.H] = append(opsOf[o.H], o)
	}
	type hk struct {
		h int
		k string
	}
	count := map[hk]int{}
	gids := map[hk][]uint64{}
	known := map[string]bool{}
	for _, p := range pubs {
		if known[p.Key] {
			t.Fatalf("harness: publication key %s logged twice", p.Key)
		}
		known[p.Key] = true
	}
	for _, d := range dels {
		count[hk{d.H, d.Key}]++
		gids[hk{d.H, d.Key}] = append(gids[hk{d.H, d.Key}], d.Gid)
		if strictKeys && !known[d.Key] {
			world.Fail(t, "C15/unpublished-event-delivered/"+handlerShape(opsOf[d.H]), "handler %s received event %s which no publication of the history carries", hname(d.H), d.Key)
		}
	}
	ty.deliveries = len(dels)
	for _, p := range pubs {
		for _, h := range handlers {
			v := classify(opsOf[h], p)
			if h != worldLog {
				switch v {
				case must:
					ty.must++
				case mustNot:
					ty.mustNot++
				default:
					ty.either++
				}
			}
			n := count[hk{h, p.Key}]
			shape := p.shape() + "-" + handlerShape(opsOf[h])
			detail := func() string {
				return fmt.Sprintf("\n publication: %s\n operations of %s: %s\n oracle: %s, deliveries: %d", showPub(p), hname(h), showOps(opsOf[h]), v, n)
			}
			if c := vh(h, true); (n > 1 || (n == 1 && v == mustNot)) && h >= 0 && h < coreBase && count[hk{c, p.Key}] == 0 && classify(opsOf[c], p) == must {
				// the level of a delivery is told by the goroutine: the delivery that is missing on the
				// publishing goroutine is one of those counted here
				world.Fail(t, "C15/core-level-handler-off-publishing-goroutine/"+shape, "event %s: handler object %s is subscribed on the core level (%s) and was not called on the publishing goroutine %d; away from it it handled the event %d times%s", p.Key, hname(h), showOps(opsOf[c]), p.Gid, n, detail())
			}
			if n > 1 {
				world.Fail(t, "C15/delivered-twice/"+shape, "event %s reached handler %s %d times%s", p.Key, hname(h), n, detail())
			}
			if v == must && n == 0 {
				world.Fail(t, "C15/not-delivered/"+shape, "event %s never reached handler %s, which was subscribed during the whole publication%s", p.Key, hname(h), detail())
			}
			if h >= coreBase && n > 0 && len(opsOf[h]) == 0 {
				// handled on the publishing goroutine although the object was never subscribed on the core level
				world.Fail(t, "C15/application-handler-synchronous/"+p.shape(), "event %s was handled by handler %s on the publishing goroutine %d, and that handler object was never subscribed on the core level%s", p.Key, hname(h-coreBase), p.Gid, detail())
			}
			if v == mustNot && n > 0 {
				if len(opsOf[h]) == 0 {
					world.Fail(t, "C15/delivered-never-subscribed/"+shape, "event %s reached handler %s, which never subscribed%s", p.Key, hname(h), detail())
				}
				world.Fail(t, "C15/delivered-after-unsubscribe/"+shape, "event %s reached handler %s although its unsubscription had returned before the publication began%s", p.Key, hname(h), detail())
			}
			if p.Gid != 0 && h < coreBase {
				for _, g := range gids[hk{h, p.Key}] {
					if g == p.Gid {
						world.Fail(t, "C15/application-handler-synchronous/"+p.shape(), "event %s was handled by application handler %s on the publishing goroutine %d%s", p.Key, hname(h), g, detail())
					}
				}
			}
		}
	}
	return ty
}

func handlerShape(ops []busOp) string {
	for _, o := range ops {
		if o.reentrant() {
			return "reentrant"
		}
	}
	return "plain"
}

func hname(h int) string {
	if h == worldLog {
		return "world-log"
	}
	if h >= coreBase {
		return fmt.Sprintf("h%d@core", h-coreBase)
	}
	return fmt.Sprintf("h%d", h)
}

func showPub(p pubRec) string {
	return fmt.Sprintf("%s [%d,%d] by %s", p.Key, p.Start, p.End, p.Ctx)
}

func showOps(ops []busOp) string {
	if len(ops) == 0 {
		return "(none)"
	}
	s := append([]busOp(nil), ops...)
	sort.Slice(s, func(i, j int) bool { return s[i].Start < s[j].Start })
	var parts []string
	for _, o := range s {
		parts = append(parts, fmt.Sprintf("%s[%d,%d]@%s", o.Kind, o.Start, o.End, o.Ctx))
	}
	return strings.Join(parts, " ")
}

// betweenTwoPublications: some (un)subscription lies entirely between two publications.
func betweenTwoPublications(ops []busOp, pubs []pubRec) bool {
	for _, o := range ops {
		before, after := false, false
		for _, p := range pubs {
			if p.End < o.Start {
				before = true
			}
			if p.Start > o.End {
				after = true
			}
		}
		if before && after {
			return true
		}
	}
	return false
}

// ---------------------------------------------------------------------------------------------
// watchdog

var wedged atomic.Bool

// patience is the watchdog limit. Once a deadlock has been seen in this process the leaked
// goroutines stay; the runs that follow (rapid shrinking the case) only shape the reported
// example, so they wait less.
func patience() time.Duration {
	if wedged.Load() {
		return 2 * time.Second
	}
	return 10 * time.Second
}

// watched runs f on its own goroutine and reports whether it returned in time.
func watched(f func()) bool {
	done := make(chan struct{})
	go func() {
		defer close(done)
		f()
	}()
	return await(done)
}

func await(done <-chan struct{}) bool {
	tm := time.NewTimer(patience())
	defer tm.Stop()
	select {
	case <-done:
		return true
	case <-tm.C:
		return false
	}
}

var parkedHeader = regexp.MustCompile(`^goroutine \d+ \[(sync\.[A-Za-z.]+|semacquire|chan receive|chan send|select)(?:, [^\]]*)?\]:`)

// evidence looks through a goroutine dump for a goroutine that is parked with spine-go frames
// on its stack:
//
//	"lock":    the innermost frame outside runtime/sync belongs to spine-go and the goroutine
//	           waits for a sync primitive, i.e. it is parked inside one of the stack's locks;
//	"handler": the goroutine is parked in harness code that events.Publish called on the
//	           publishing goroutine, i.e. Publish waits for an application handler;
//	"":        neither (the time-out proves nothing about the stack).
func evidence(dump string) (kind, stanza string) {
	for _, st := range strings.Split(dump, "\n\n") {
		lines := strings.Split(strings.TrimSpace(st), "\n")
		m := parkedHeader.FindStringSubmatch(lines[0])
		if m == nil {
			continue
		}
		innermost, publish := "", false
		for _, ln := range lines[1:] {
			if strings.HasPrefix(ln, "\t") || strings.HasPrefix(ln, "created by ") {
				continue
			}
			if strings.Contains(ln, "spine-go/spine.(*events).Publish(") {
				publish = true
			}
			if innermost == "" && !strings.HasPrefix(ln, "runtime.") && !strings.HasPrefix(ln, "sync.") && !strings.HasPrefix(ln, "internal/") {
				innermost = ln
			}
		}
		inSpine := strings.Contains(innermost, "github.com/enbility/spine-go/")
		if inSpine && (strings.HasPrefix(m[1], "sync.") || m[1] == "semacquire") {
			return "lock", st
		}
		if !inSpine && publish && kind == "" {
			kind, stanza = "handler", st
		}
	}
	return kind, stanza
}

func allStacks() string {
	buf := make([]byte, 1<<20)
	return string(buf[:runtime.Stack(buf, true)])
}

// stuck ends the case after a watchdog time-out. With evidence it is a violation of "without
// blocking it"; a bare time-out is inconclusive and deliberately carries no VERIF-FAIL marker.
func stuck(t world.TB, what string) {
	limit := patience()
	dump := allStacks()
	wedged.Store(true)
	switch kind, stanza := evidence(dump); kind {
	case "lock":
		world.Fail(t, "C15/deadlock/parked-in-stack-lock", "%s within %v; a goroutine is parked inside a lock of the stack:\n%s\n\nall goroutines:\n%s", what, limit, stanza, dump)
	case "handler":
		world.Fail(t, "C15/deadlock/publish-waits-for-application-handler", "%s within %v; Publish is waiting for an application handler it called on its own goroutine:\n%s\n\nall goroutines:\n%s", what, limit, stanza, dump)
	}
	t.Fatalf("C15 inconclusive: %s within %v, but no goroutine is parked inside the stack (overloaded machine?)\n%s", what, limit, dump)
}

// ---------------------------------------------------------------------------------------------
// bench: what both checks share at run time (world, handlers, actions inside handlers)

// action is one thing a handler does while handling an event.
type action struct {
	Kind string // sub | unsub | publish | call | wait
	H    int    // target handler of sub / unsub
	Core bool   // sub / unsub: on the core level
	V    int    // variant of call
}

func (a action) String() string {
	switch a.Kind {
	case "sub", "unsub":
		return fmt.Sprintf("%s(%s)", a.Kind, hname(vh(a.H, a.Core)))
	case "call":
		return fmt.Sprintf("call(%d)", a.V)
	}
	return a.Kind
}

// evt is the unique tag carried (as payload.Data) by every event the harness publishes.
type evt struct {
	tag   int
	root  int // index of the history's publish operation this event stems from
	depth int // 0 = published by the history, 1 = published by a handler
	gid   uint64
	done  chan struct{} // closed when the publishing Publish call has returned
}

const callVariants = 5

type bench struct {
	w       *world.World
	rec     record
	hs      []*handler
	lf      api.FeatureLocalInterface // local server feature holding data
	cf      api.FeatureLocalInterface // local client feature (subscribes to a peer's server feature)
	fn      model.FunctionType
	nextTag atomic.Int64
	base    int        // goroutine count with the case quiescent
	seen    []world.Ev // drained from the world's own event log

	pmu   sync.Mutex
	peers map[string]*world.Peer // by ski
	order map[string]int

	// which handler of the case a handler object is: written by newBench before anything is
	// subscribed, read-only afterwards
	meta map[*handler]hmeta
}

// handler is an application handler of the harness. Its content is only what an application
// would configure its handler objects with (cfg); which handler of the case it is - index and
// scripts - is kept by the bench under the object's pointer. Handlers with the same cfg are
// therefore distinct objects of one type with deeply equal content (two instances of one use
// case implementation, configured alike): a subscription is a subscription of the object, so
// the bus has to tell them apart however alike they look.
type handler struct {
	b   *bench
	cfg int
}

type hmeta struct {
	idx     int
	scripts [][]action
}

// newBench: cfgs[i] is the content of handler i (nil: all alike).
func newBench(nHandlers int, scripts [][][]action, cfgs []int) *bench {
	b := &bench{w: world.New(), peers: map[string]*world.Peer{}, order: map[string]int{}, meta: map[*handler]hmeta{}}
	// the world's own application-level log has been subscribed by world.New()
	s := world.Stamp()
	b.rec.addOp(busOp{H: worldLog, Kind: kSub, Start: s, End: world.Stamp(), Ctx: "setup"})
	le := b.w.AddLocalEntity([]uint{1}, model.EntityTypeTypeCEM, time.Second)
	b.fn = model.FunctionTypeDeviceConfigurationKeyValueDescriptionListData
	b.lf = b.w.AddLocalFeature(le, world.FeatSpec{Type: model.FeatureTypeTypeDeviceConfiguration, Role: model.RoleTypeServer,
		Funcs: []world.FuncSpec{{Fn: b.fn, Read: true}}})
	b.lf.SetData(b.fn, descriptionList(0))
	b.cf = b.w.AddLocalFeature(le, world.FeatSpec{Type: model.FeatureTypeTypeDeviceConfiguration, Role: model.RoleTypeClient})
	for i := 0; i < nHandlers; i++ {
		h := &handler{b: b}
		if cfgs != nil {
			h.cfg = cfgs[i]
		}
		b.meta[h] = hmeta{idx: i, scripts: scripts[i]}
		b.hs = append(b.hs, h)
	}
	return b
}

func descriptionList(n int) *model.DeviceConfigurationKeyValueDescriptionListDataType {
	id := model.DeviceConfigurationKeyIdType(n % 4)
	return &model.DeviceConfigurationKeyValueDescriptionListDataType{
		DeviceConfigurationKeyValueDescriptionData: []model.DeviceConfigurationKeyValueDescriptionDataType{{KeyId: &id}},
	}
}

func (b *bench) addPeer(p *world.Peer) {
	b.pmu.Lock()
	b.order[p.Ski] = len(b.peers)
	b.peers[p.Ski] = p
	b.pmu.Unlock()
}

func (b *bench) peer(ski string) (*world.Peer, int) {
	b.pmu.Lock()
	defer b.pmu.Unlock()
	return b.peers[ski], b.order[ski]
}

func (b *bench) anyPeer() *world.Peer {
	b.pmu.Lock()
	defer b.pmu.Unlock()
	var best *world.Peer
	for _, p := range b.peers {
		if best == nil || p.Idx < best.Idx {
			best = p
		}
	}
	return best
}

// rebase declares the current goroutine count as quiescent.
func (b *bench) rebase() { b.base = runtime.NumGoroutine() }

// barrier waits until every goroutine started since rebase (history workers, the bus's delivery
// goroutines - they exist from the go statement on, so none can be missed) has finished.
func (b *bench) barrier(t world.TB) {
	if !world.WaitGoroutines(b.base, patience()) {
		stuck(t, "the asynchronous deliveries did not finish")
	}
}

// settle is the final barrier plus a short grace during which nothing further may arrive.
func (b *bench) settle(t world.TB) {
	for {
		b.barrier(t)
		n, m := b.rec.deliveries(), b.w.Events.Len()
		for i := 0; i < 20; i++ {
			runtime.Gosched()
		}
		time.Sleep(200 * time.Microsecond)
		if runtime.NumGoroutine() <= b.base && b.rec.deliveries() == n && b.w.Events.Len() == m {
			return
		}
	}
}

func (b *bench) subscribe(h int, ctx string) { b.subscribeAt(h, false, ctx) }

func (b *bench) unsubscribe(h int, ctx string) { b.unsubscribeAt(h, false, ctx) }

// subscribeAt: application level through the public API, core level through the build-tag hook.
func (b *bench) subscribeAt(h int, core bool, ctx string) {
	s := world.Stamp()
	if core {
		_ = spine.VerifSubscribe(api.EventHandlerLevelCore, b.hs[h])
	} else {
		_ = spine.Events.Subscribe(b.hs[h])
	}
	b.rec.addOp(busOp{H: vh(h, core), Kind: kSub, Start: s, End: world.Stamp(), Ctx: ctx})
}

func (b *bench) unsubscribeAt(h int, core bool, ctx string) {
	s := world.Stamp()
	if core {
		_ = spine.VerifUnsubscribe(api.EventHandlerLevelCore, b.hs[h])
	} else {
		_ = spine.Events.Unsubscribe(b.hs[h])
	}
	b.rec.addOp(busOp{H: vh(h, core), Kind: kUnsub, Start: s, End: world.Stamp(), Ctx: ctx})
}

func tagKey(tag int) string { return fmt.Sprintf("e%d", tag) }

// publish publishes a freshly tagged event and logs the call with its stamps.
func (b *bench) publish(root, depth int, ctx string, concurrent bool) {
	ev := &evt{tag: int(b.nextTag.Add(1)), root: root, depth: depth, gid: gid(), done: make(chan struct{})}
	payload := api.EventPayload{
		Ski:        tagKey(ev.tag),
		EventType:  api.EventTypeDataChange,
		ChangeType: api.ElementChangeUpdate,
		Data:       ev,
	}
	s := world.Stamp()
	spine.Events.Publish(payload)
	e := world.Stamp()
	close(ev.done)
	b.rec.addPub(pubRec{Key: tagKey(ev.tag), Start: s, End: e, Gid: ev.gid, Ctx: ctx, Nested: depth > 0, Concurrent: concurrent || depth > 0})
}

// identify names the event a payload carries: the harness's tag, or for events of the stack
// their type, change, SKI and entity.
func identify(p api.EventPayload) (string, *evt) {
	if ev, ok := p.Data.(*evt); ok && ev != nil {
		if p.Ski != tagKey(ev.tag) || p.EventType != api.EventTypeDataChange || p.ChangeType != api.ElementChangeUpdate {
			return fmt.Sprintf("altered(%s: ski=%q type=%d change=%d)", tagKey(ev.tag), p.Ski, p.EventType, p.ChangeType), ev
		}
		return tagKey(ev.tag), ev
	}
	return stackKey(p), nil
}

func stackKey(p api.EventPayload) string {
	k := fmt.Sprintf("stack/type%d/change%d/%s", p.EventType, p.ChangeType, p.Ski)
	if p.EventType != api.EventTypeDeviceChange && p.Entity != nil && p.Entity.Address() != nil {
		k += fmt.Sprintf("/entity%v", p.Entity.Address().Entity)
	}
	if p.EventType != api.EventTypeDeviceChange && p.EventType != api.EventTypeEntityChange {
		k += "/" + string(p.Function)
	}
	return k
}

func deviceKey(change api.ElementChangeType, ski string) string {
	return stackKey(api.EventPayload{EventType: api.EventTypeDeviceChange, ChangeType: change, Ski: ski})
}

func (h *handler) HandleEvent(p api.EventPayload) {
	b := h.b
	at := world.Stamp()
	m, ok := b.meta[h]
	if !ok {
		panic("harness: HandleEvent on a handler object the bench does not know")
	}
	d := delivery{H: m.idx, At: at, Gid: gid()}
	var ev *evt
	d.Key, ev = identify(p)
	// core level handlers are called by Publish itself, application level handlers on a goroutine
	// of their own: an event of the harness handled on the goroutine that published it is a
	// delivery to the object's core level subscription
	onCore := ev != nil && d.Gid == ev.gid
	if onCore {
		d.H = vh(m.idx, true)
	}
	pick := 0
	if ev != nil {
		pick = ev.root + ev.depth
	} else {
		peer, ord := b.peer(p.Ski)
		pick = ord
		if peer != nil && p.EventType == api.EventTypeDeviceChange && p.ChangeType == api.ElementChangeAdd {
			// an effect of the core handler on the stack's state, asked before anything else
			d.HasSub = 2
			if b.w.Local.NodeManagement().HasSubscriptionToRemote(peer.NM()) {
				d.HasSub = 1
			}
		}
	}
	b.rec.addDelivery(d)
	if len(m.scripts) == 0 {
		return
	}
	ctx := "handler " + hname(d.H)
	for _, a := range m.scripts[pick%len(m.scripts)] {
		switch a.Kind {
		case "sub":
			b.subscribeAt(a.H, a.Core, ctx)
		case "unsub":
			b.unsubscribeAt(a.H, a.Core, ctx)
		case "publish":
			if onCore {
				// Publish dispatches one event at a time and core level handlers run inside the
				// dispatch: publishing from there is not among the things the statement allows
				continue
			}
			if ev == nil {
				b.publish(1000+pick, 1, ctx, true)
			} else if ev.depth == 0 {
				b.publish(ev.root, 1, ctx, true)
			}
		case "call":
			b.callStack(a.V, d.At)
			b.rec.addReaction()
		case "wait":
			// application handlers run asynchronously: waiting for the publishing call to return
			// is legitimate. (If the handler was called on the publishing goroutine the judge
			// reports that; waiting would only turn it into a time-out.)
			if ev != nil && d.Gid != ev.gid {
				<-ev.done
				b.rec.addReaction()
			}
		}
	}
}

// callStack is a call back into the stack from inside a handler.
func (b *bench) callStack(variant int, salt uint64) {
	switch variant % callVariants {
	case 0:
		_ = b.lf.DataCopy(b.fn)
	case 1:
		b.lf.SetData(b.fn, descriptionList(int(salt)))
		_ = b.lf.DataCopy(b.fn)
	case 2:
		if p := b.anyPeer(); p != nil {
			_ = b.w.Local.NodeManagement().HasSubscriptionToRemote(p.NM())
			_ = b.w.Local.RemoteDeviceForSki(p.Ski)
		} else {
			_ = b.lf.HasSubscriptionToRemote(world.LA([]uint{9}, 9))
		}
	case 3:
		for _, d := range b.w.Local.RemoteDevices() {
			_ = d.Entities()
		}
		_ = b.w.Local.Entities()
	case 4:
		// subscribe the local client feature to the peer's server feature, if it is announced
		if p := b.anyPeer(); p != nil {
			if addr := p.FA([]uint{1}, 1); p.Dev.FeatureByAddress(addr) != nil {
				_, _ = b.cf.SubscribeToRemote(addr)
				_ = b.cf.HasSubscriptionToRemote(addr)
			}
		}
	}
}

// drainWorldLog returns everything the world's own application handler has seen in this case
// (only called on the property goroutine).
func (b *bench) drainWorldLog() []world.Ev {
	b.seen = append(b.seen, b.w.Events.Drain()...)
	return b.seen
}

// worldLogDeliveries converts what the world's own application handler saw.
func (b *bench) worldLogDeliveries() []delivery {
	var out []delivery
	for _, e := range b.drainWorldLog() {
		k, _ := identify(e.P)
		out = append(out, delivery{H: worldLog, Key: k, At: e.Seq})
	}
	return out
}

func (b *bench) handlerIndexes() []int {
	hs := []int{worldLog}
	for i := range b.hs {
		hs = append(hs, i)
	}
	return hs
}

// subscriberIndexes: the application level and the core level subscription of every handler object.
func (b *bench) subscriberIndexes() []int {
	hs := b.handlerIndexes()
	for i := range b.hs {
		hs = append(hs, vh(i, true))
	}
	return hs
}

func subscribedEver(ops []busOp) int {
	seen := map[int]bool{}
	for _, o := range ops {
		if o.Kind == kSub && o.H != worldLog {
			seen[o.H] = true
		}
	}
	return len(seen)
}

// genCfgs draws the content of the handler objects: few values, so that most cases with several
// handlers hold objects that are alike (also all alike, also all different).
func genCfgs(t *rapid.T, nh int) []int {
	cfgs := make([]int, nh)
	for h := range cfgs {
		cfgs[h] = rapid.SampledFrom([]int{0, 0, 1, 2}).Draw(t, fmt.Sprintf("h%dcfg", h))
	}
	return cfgs
}

// alike: two handler objects of the case have deeply equal content.
func alike(cfgs []int) bool {
	seen := map[int]bool{}
	for _, c := range cfgs {
		if seen[c] {
			return true
		}
		seen[c] = true
	}
	return false
}

func showScripts(s [][][]action) [][]string {
	out := make([][]string, len(s))
	for h, scripts := range s {
		for _, sc := range scripts {
			out[h] = append(out[h], fmt.Sprint(sc))
		}
	}
	return out
}
