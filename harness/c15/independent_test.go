package c15

import (
	"fmt"
	"sync"
	"testing"
	"time"

	"github.com/enbility/spine-go/api"
	"github.com/enbility/spine-go/spine"
	"pgregory.net/rapid"

	"verifharness/world"
)

// TestHandlersRunIndependently: application handlers run asynchronously - each on its own. A
// handler that is busy with an event, or waits for what another handler makes of the same event,
// does not keep that event from the other handlers: here every handler, on receiving an event,
// waits until all subscribed handlers have received it (a rendezvous that only completes if they
// run independently of each other).
type rendezvousHandler struct {
	id   int
	meet func(event string, id int)
}

func (h *rendezvousHandler) HandleEvent(p api.EventPayload) { h.meet(p.Ski, h.id) }

func TestHandlersRunIndependently(t *testing.T) {
	rapid.Check(t, world.Prop(func(t *rapid.T) {
		n := rapid.IntRange(2, 5).Draw(t, "handlers")
		events := rapid.IntRange(1, 3).Draw(t, "events")
		concurrent := rapid.Bool().Draw(t, "publishedConcurrently")
		world.ResetEvents()
		var mu sync.Mutex
		arrived := map[string]map[int]bool{}
		complete := map[string]chan struct{}{}
		for e := 0; e < events; e++ {
			k := fmt.Sprintf("event-%d", e)
			arrived[k] = map[int]bool{}
			complete[k] = make(chan struct{})
		}
		var stuck sync.Map
		var wgHandlers sync.WaitGroup
		meet := func(event string, id int) {
			wgHandlers.Add(1)
			defer wgHandlers.Done()
			mu.Lock()
			set, ok := arrived[event]
			if !ok {
				mu.Unlock()
				return
			}
			set[id] = true
			if len(set) == n {
				close(complete[event])
			}
			ch := complete[event]
			mu.Unlock()
			select {
			case <-ch:
			case <-time.After(patience()):
				stuck.Store(fmt.Sprintf("%s/handler-%d", event, id), true)
			}
		}
		hs := make([]*rendezvousHandler, n)
		for i := range hs {
			hs[i] = &rendezvousHandler{id: i, meet: meet}
			_ = spine.Events.Subscribe(hs[i])
		}
		var wg sync.WaitGroup
		for e := 0; e < events; e++ {
			payload := api.EventPayload{Ski: fmt.Sprintf("event-%d", e), EventType: api.EventTypeDataChange, ChangeType: api.ElementChangeUpdate}
			if concurrent {
				wg.Add(1)
				go func() { defer wg.Done(); spine.Events.Publish(payload) }()
			} else if !watched(func() { spine.Events.Publish(payload) }) {
				world.Fail(t, "C15/deadlock/publish-waits-for-application-handler", "Publish did not return while the application handlers of the event wait for each other (%d handlers)", n)
			}
		}
		wg.Wait()
		deadline := time.After(patience() + 2*time.Second)
	waiting:
		for e := 0; e < events; e++ {
			select {
			case <-complete[fmt.Sprintf("event-%d", e)]:
			case <-deadline:
				break waiting
			}
		}
		// the handlers that met return at once; handlers still waiting give up after their patience
		done := make(chan struct{})
		go func() { wgHandlers.Wait(); close(done) }()
		select {
		case <-done:
		case <-time.After(patience() + 2*time.Second):
		}
		var missing []string
		mu.Lock()
		for e := 0; e < events; e++ {
			k := fmt.Sprintf("event-%d", e)
			for i := 0; i < n; i++ {
				if !arrived[k][i] {
					missing = append(missing, fmt.Sprintf("%s/handler-%d", k, i))
				}
			}
		}
		mu.Unlock()
		for _, h := range hs {
			_ = spine.Events.Unsubscribe(h)
		}
		if len(missing) > 0 {
			world.Fail(t, "C15/application-handlers-not-independent", "%d application handlers, %d events; every handler waits on receipt until all handlers have received the event; within %v these deliveries did not happen: %v (a handler that is busy with an event keeps it from the handlers after it)", n, events, patience(), missing)
		}
		world.Record(world.Hash("independent", n, events, concurrent), true, fmt.Sprintf("independent/handlers-%d", n))
		if world.WantSample() {
			world.Sample(map[string]any{"check": "handlers-run-independently", "handlers": n, "events": events, "published_concurrently": concurrent})
		}
	}))
}
