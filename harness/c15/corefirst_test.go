package c15

import (
	"fmt"
	"runtime"
	"sync/atomic"
	"testing"

	"github.com/enbility/spine-go/api"
	"github.com/enbility/spine-go/model"
	"pgregory.net/rapid"

	"verifharness/world"
)

// ---------------------------------------------------------------------------------------------
// TestCoreFirst: the device's core handler (the only core-level handler there is) has finished
// before the publishing call returns and before any application handler of the event starts.
//
// Its effects after a device-add event are the NodeManagement subscription call and the use-case
// read on the announced peer's writer (capture entries carry world.Stamp() numbers) and the
// subscription the local NodeManagement feature remembers (HasSubscriptionToRemote).

type coreStep struct {
	Kind string  // connect | announce | remove | sub | unsub
	I    int     // peer or handler index
	Ents int     // announce: entities besides DeviceInformation
	Re   *action // announce: a (un)subscription issued from the SHIP writer while the core handler writes
}

func (s coreStep) String() string {
	switch s.Kind {
	case "sub", "unsub":
		return fmt.Sprintf("%s(h%d)", s.Kind, s.I)
	case "announce":
		r := ""
		if s.Re != nil {
			r = ",writer:" + s.Re.String()
		}
		return fmt.Sprintf("announce(peer%d,entities=%d%s)", s.I, s.Ents, r)
	}
	return fmt.Sprintf("%s(peer%d)", s.Kind, s.I)
}

type corePlan struct {
	Peers, Handlers int
	Scripts         [][][]action
	Cfgs            []int // per handler: the content of the handler object
	Steps           []coreStep
}

func (pl corePlan) render() map[string]any {
	var steps []string
	for _, s := range pl.Steps {
		steps = append(steps, s.String())
	}
	return map[string]any{"peers": pl.Peers, "handlers": pl.Handlers, "scripts": showScripts(pl.Scripts), "configs": pl.Cfgs, "steps": steps}
}

const (
	peerNone = iota
	peerConnected
	peerAnnounced
	peerRemoved
)

func genCorePlan(t *rapid.T) corePlan {
	pl := corePlan{Peers: rapid.IntRange(1, 3).Draw(t, "peers"), Handlers: rapid.IntRange(1, 3).Draw(t, "handlers")}
	pl.Scripts = genScripts(t, pl.Handlers, false)
	state := make([]int, pl.Peers)
	// the first handlers subscribe before anything else happens (otherwise most announcements
	// would meet no application handler besides the world's log)
	for h, pre := 0, rapid.IntRange(0, pl.Handlers).Draw(t, "presubscribed"); h < pre; h++ {
		pl.Steps = append(pl.Steps, coreStep{Kind: "sub", I: h})
	}
	n := rapid.IntRange(3, 12).Draw(t, "steps")
	for i := 0; i < n; i++ {
		var valid []coreStep
		for p, st := range state {
			if st == peerConnected {
				valid = append(valid, coreStep{Kind: "announce", I: p})
			}
		}
		for p, st := range state {
			if st == peerNone {
				valid = append(valid, coreStep{Kind: "connect", I: p})
			}
		}
		for h := 0; h < pl.Handlers; h++ {
			valid = append(valid, coreStep{Kind: "sub", I: h})
		}
		for h := 0; h < pl.Handlers; h++ {
			valid = append(valid, coreStep{Kind: "unsub", I: h})
		}
		for p, st := range state {
			if st == peerConnected || st == peerAnnounced {
				valid = append(valid, coreStep{Kind: "remove", I: p})
			}
		}
		// progress of the peers is preferred over bus operations
		if rapid.IntRange(0, 2).Draw(t, fmt.Sprintf("s%dprogress", i)) > 0 {
			var progress []coreStep
			for _, v := range valid {
				if v.Kind == "announce" || v.Kind == "connect" {
					progress = append(progress, v)
				}
			}
			if len(progress) > 0 {
				valid = progress
			}
		}
		st := valid[rapid.IntRange(0, len(valid)-1).Draw(t, fmt.Sprintf("s%d", i))]
		switch st.Kind {
		case "connect":
			state[st.I] = peerConnected
		case "announce":
			state[st.I] = peerAnnounced
			st.Ents = rapid.IntRange(0, 2).Draw(t, fmt.Sprintf("s%dents", i))
			if rapid.IntRange(0, 2).Draw(t, fmt.Sprintf("s%dwriter", i)) == 0 {
				st.Re = &action{Kind: rapid.SampledFrom([]string{"unsub", "sub"}).Draw(t, fmt.Sprintf("s%dwkind", i)),
					H: rapid.IntRange(0, pl.Handlers-1).Draw(t, fmt.Sprintf("s%dwtarget", i))}
			}
		case "remove":
			state[st.I] = peerRemoved
		}
		pl.Steps = append(pl.Steps, st)
	}
	pl.Cfgs = genCfgs(t, pl.Handlers)
	return pl
}

func peerTree(n int) []world.EntSpec {
	var ents []world.EntSpec
	for i := 1; i <= n; i++ {
		ents = append(ents, world.EntSpec{Addr: []uint{uint(i)}, Type: model.EntityTypeTypeEVSE, Feats: []world.FeatSpec{
			{ID: 1, Type: model.FeatureTypeTypeDeviceConfiguration, Role: model.RoleTypeServer,
				Funcs: []world.FuncSpec{{Fn: model.FunctionTypeDeviceConfigurationKeyValueDescriptionListData, Read: true}}},
		}})
	}
	return ents
}

func isSubscriptionCall(s world.Sent, p *world.Peer) bool {
	c := s.Cmd().NodeManagementSubscriptionRequestCall
	if s.Classifier() != model.CmdClassifierTypeCall || c == nil || c.SubscriptionRequest == nil {
		return false
	}
	return world.JSON(c.SubscriptionRequest.ServerAddress) == world.JSON(p.NM()) &&
		world.JSON(c.SubscriptionRequest.ClientAddress) == world.JSON(world.LocalNM())
}

func isUseCaseRead(s world.Sent) bool {
	return s.Classifier() == model.CmdClassifierTypeRead && s.Cmd().NodeManagementUseCaseData != nil
}

// coreEffects returns the stamps of the core handler's datagrams among msgs.
func coreEffects(msgs []world.Sent, since uint64, p *world.Peer) (subs, reads []uint64) {
	for _, s := range msgs {
		if s.Seq < since {
			continue
		}
		if isSubscriptionCall(s, p) {
			subs = append(subs, s.Seq)
		}
		if isUseCaseRead(s) {
			reads = append(reads, s.Seq)
		}
	}
	return subs, reads
}

func (b *bench) connected() int {
	return len(b.w.Local.RemoteDevices())
}

// announce injects the discovery reply of a connected peer and checks the core-first clauses.
func (b *bench) announce(t world.TB, idx int, st coreStep, p *world.Peer) {
	ctx := fmt.Sprintf("step%d", idx)
	shape := "single-peer"
	if b.connected() > 1 {
		shape = "several-peers"
	}
	if st.Re != nil {
		shape += "-writer-reentry"
	}
	ents := world.WithDeviceInfo(peerTree(st.Ents))
	p.Ents = ents
	cmd := model.CmdType{NodeManagementDetailedDiscoveryData: p.DiscoveryData(ents, nil)}
	raw := world.Encode(p.Msg(model.CmdClassifierTypeReply, p.NM(), world.LocalNM(), false, p.DiscoveryRef, cmd))

	var writes atomic.Int32
	p.Cap.SetOnWrite(func([]byte) {
		// the first write after the injection is the core handler's subscription call
		if writes.Add(1) == 1 && st.Re != nil {
			// the SHIP writer is the one place where application code runs inside the core
			// handler: a (un)subscription from there must not block either
			if st.Re.Kind == "sub" {
				b.subscribe(st.Re.H, "writer")
			} else {
				b.unsubscribe(st.Re.H, "writer")
			}
		}
		for i := 0; i < 8; i++ {
			runtime.Gosched() // let already started application handlers get ahead, if there are any
		}
	})
	start := world.Stamp()
	ok := watched(func() { p.SendRaw(raw) })
	end := world.Stamp()
	if !ok {
		stuck(t, "the injected discovery reply did not return")
	}
	atReturn := p.Cap.All()
	p.Cap.SetOnWrite(nil)
	key := deviceKey(api.ElementChangeAdd, p.Ski)
	b.rec.addPub(pubRec{Key: key, Start: start, End: end, Ctx: ctx})

	subs, reads := coreEffects(atReturn, start, p)
	before := func(stamps []uint64) (n int) {
		for _, s := range stamps {
			if s < end {
				n++
			}
		}
		return n
	}
	if before(subs) == 0 || before(reads) == 0 {
		world.Fail(t, "C15/core-not-finished-at-return/"+shape, "the call that published device-add for %s returned at stamp %d; on the peer's writer: subscription call at %v, use-case read at %v (both must be there before the return)", p.Ski, end, subs, reads)
	}

	b.barrier(t)
	subs, reads = coreEffects(p.Cap.All(), start, p)
	if len(subs) != 1 || len(reads) != 1 {
		world.Fail(t, "C15/core-handler-not-once/"+shape, "one device-add event for %s made the core handler send %d subscription calls and %d use-case reads (exactly one each: it is subscribed once, however many peers are connected)", p.Ski, len(subs), len(reads))
	}
	coreDone := max(subs[0], reads[0])
	_, _, dels, _ := b.rec.snapshot()
	for _, e := range b.drainWorldLog() {
		if k, _ := identify(e.P); k == key {
			dels = append(dels, delivery{H: worldLog, Key: k, At: e.Seq})
		}
	}
	for _, d := range dels {
		if d.Key != key {
			continue
		}
		if d.At < coreDone {
			world.Fail(t, "C15/application-before-core/"+shape, "application handler %s started handling device-add for %s at stamp %d, the core handler's datagrams were written at %d (subscription call) and %d (use-case read)", hname(d.H), p.Ski, d.At, subs[0], reads[0])
		}
		if d.HasSub == 2 {
			world.Fail(t, "C15/application-before-core/"+shape+"-state", "application handler %s started handling device-add for %s, but the NodeManagement subscription made by the core handler was not registered yet", hname(d.H), p.Ski)
		}
	}
}

func TestCoreFirst(t *testing.T) {
	rapid.Check(t, world.Prop(func(t *rapid.T) {
		pl := genCorePlan(t)
		b := newBench(pl.Handlers, pl.Scripts, pl.Cfgs)
		defer b.w.Teardown()
		b.w.Sync()
		b.rebase()
		peers := make([]*world.Peer, pl.Peers)
		announces, removes, reentries := 0, 0, 0
		for i, st := range pl.Steps {
			b.barrier(t)
			ctx := fmt.Sprintf("step%d", i)
			switch st.Kind {
			case "sub":
				b.subscribe(st.I, ctx)
			case "unsub":
				b.unsubscribe(st.I, ctx)
			case "connect":
				p := b.w.Connect(fmt.Sprintf("ski%d", st.I+1), fmt.Sprintf("d:_r:peer%d", st.I+1))
				if p.DiscoveryRef == nil {
					t.Fatalf("harness: no discovery read after connecting %s", p.Ski)
				}
				peers[st.I] = p
				b.addPeer(p)
			case "announce":
				announces++
				if st.Re != nil {
					reentries++
				}
				b.announce(t, i, st, peers[st.I])
			case "remove":
				removes++
				p := peers[st.I]
				start := world.Stamp()
				ok := watched(func() { b.w.Local.RemoveRemoteDeviceConnection(p.Ski) })
				end := world.Stamp()
				if !ok {
					stuck(t, "RemoveRemoteDeviceConnection did not return")
				}
				b.rec.addPub(pubRec{Key: deviceKey(api.ElementChangeRemove, p.Ski), Start: start, End: end, Ctx: ctx})
			}
		}
		b.settle(t)

		ops, pubs, dels, reacted := b.rec.snapshot()
		dels = append(dels, b.worldLogDeliveries()...)
		// events of the stack that the history does not track (entity-add ...) are not judged
		tracked := map[string]bool{}
		for _, p := range pubs {
			tracked[p.Key] = true
		}
		var judged []delivery
		for _, d := range dels {
			if tracked[d.Key] {
				judged = append(judged, d)
			}
		}
		ty := dryTally(b.handlerIndexes(), ops, pubs)
		delivered := false
		for _, d := range judged {
			if d.H != worldLog && d.HasSub != 0 {
				delivered = true
			}
		}
		labels := []string{fmt.Sprintf("core/peers/%d", pl.Peers), fmt.Sprintf("core/announces/%d", announces)}
		for name, on := range map[string]bool{"core/remove": removes > 0, "core/writer-reentry": reentries > 0, "core/reentrant": reacted > 0,
			"core/delivered-to-handler": delivered, "core/between": betweenTwoPublications(ops, pubs), "core/handlers-alike": alike(pl.Cfgs)} {
			if on {
				labels = append(labels, name)
			}
		}
		// DESIGN NT rule; the device's core handler counts as a handler (so one application
		// handler that received a device-add makes two)
		nontrivial := delivered && (reacted > 0 || betweenTwoPublications(ops, pubs))
		world.Record(world.Hash("core", fmt.Sprint(pl.render())), nontrivial, labels...)
		world.AddExtra("core_pairs_must", int64(ty.must))
		world.AddExtra("core_pairs_must_not", int64(ty.mustNot))
		world.AddExtra("core_pairs_either", int64(ty.either))
		world.AddExtra("core_announces", int64(announces))
		if nontrivial && world.WantSample() {
			world.Sample(map[string]any{"check": "core-first", "plan": pl.render(), "deliveries": len(judged),
				"pairs": map[string]int{"must": ty.must, "must-not": ty.mustNot, "either": ty.either}})
		}
		judge(t, b.handlerIndexes(), ops, pubs, judged, false)
	}))
}
