package c15

import (
	"fmt"
	"runtime"
	"sort"
	"sync"
	"testing"
	"time"

	"github.com/enbility/spine-go/api"
	"github.com/enbility/spine-go/spine"
	"pgregory.net/rapid"

	"verifharness/world"
)

// ---------------------------------------------------------------------------------------------
// TestHandlerLevels: a subscription is a pair (level, handler). The public API subscribes on the
// application level only and the stack's own core handlers (the local devices) cannot be observed
// directly, so this check puts handlers of its own on both levels (hook spine.VerifSubscribe, build
// tag verif) - also the same handler object on both, which is what a local device is that an
// application subscribes as a handler.
//
// Sequential histories of subscribe / unsubscribe (level, handler) and publish, every publication
// followed by a barrier. For every publication: a handler object receives the event once per level
// it is subscribed on at that moment - on the publishing goroutine, before Publish returns, for the
// core level; on another goroutine for the application level - never for a level it has been
// unsubscribed from, and every core level delivery comes before every application level delivery.

type lvDelivery struct {
	h    int
	key  string
	sync bool // on the publishing goroutine
	at   uint64
}

// lvHandler: the content of a handler object is what an application configured it with (cfg) and
// the log it writes to; which handler of the case it is the log knows by the object's pointer.
// Handlers with the same cfg are distinct objects with deeply equal content: (level, handler)
// means that object, on both levels.
type lvHandler struct {
	cfg int
	log *lvLog
}

type lvLog struct {
	mu   sync.Mutex
	dels []lvDelivery
	pub  uint64             // goroutine of the publication in progress
	ids  map[*lvHandler]int // written before the first subscription

	// re-entrancy: what a handler does when it handles an event on the core level, i.e. inside
	// Publish on the publishing goroutine (written before the first subscription); the
	// publication in progress picks the script
	hs      []api.EventHandlerInterface
	scripts map[int][][]lvAct // by handler index
	pick    int
	done    []lvAct // the actions executed during the publication in progress, in order
}

// lvAct is a (un)subscription of (level, handler) issued from inside a core level handler.
type lvAct struct {
	sub    bool
	h      int
	level  api.EventHandlerLevel
	viaAPI bool // application level only: through Events.Subscribe / Unsubscribe instead of the hook
	by     int  // executed by this handler
}

func (a lvAct) String() string {
	k, l := "unsub", "core"
	if a.sub {
		k = "sub"
	}
	if a.level == api.EventHandlerLevelApplication {
		l = "application"
	}
	return fmt.Sprintf("%s(%s, h%d)", k, l, a.h)
}

func (h *lvHandler) HandleEvent(p api.EventPayload) {
	at := world.Stamp()
	h.log.mu.Lock()
	id, ok := h.log.ids[h]
	h.log.mu.Unlock()
	if !ok {
		id = -1 // an object the case never created; shows up as a delivery without subscription
	}
	h.log.handle(id, at, p)
}

// lvValHandler is a handler that is a struct VALUE with a value receiver (a comparable type): the
// handler is that value, every copy of it is the same handler.
type lvValHandler struct {
	id  int
	log *lvLog
}

func (h lvValHandler) HandleEvent(p api.EventPayload) { h.log.handle(h.id, world.Stamp(), p) }

func (lg *lvLog) handle(id int, at uint64, p api.EventPayload) {
	g := gid()
	lg.mu.Lock()
	onCore := g == lg.pub
	lg.dels = append(lg.dels, lvDelivery{h: id, key: p.Ski, sync: onCore, at: at})
	var script []lvAct
	if sc := lg.scripts[id]; onCore && id >= 0 && len(sc) > 0 {
		script = sc[lg.pick%len(sc)]
	}
	lg.mu.Unlock()
	// handlers may subscribe and unsubscribe while handling an event; from a core level handler
	// that happens while the publication is being dispatched
	for _, a := range script {
		target := lg.hs[a.h]
		switch {
		case a.sub && a.viaAPI:
			_ = spine.Events.Subscribe(target)
		case a.sub:
			_ = spine.VerifSubscribe(a.level, target)
		case a.viaAPI:
			_ = spine.Events.Unsubscribe(target)
		default:
			_ = spine.VerifUnsubscribe(a.level, target)
		}
		a.by = id
		lg.mu.Lock()
		lg.done = append(lg.done, a)
		lg.mu.Unlock()
	}
}

func TestHandlerLevels(t *testing.T) {
	levels := []api.EventHandlerLevel{api.EventHandlerLevelCore, api.EventHandlerLevelApplication}
	lname := map[api.EventHandlerLevel]string{api.EventHandlerLevelCore: "core", api.EventHandlerLevelApplication: "application"}
	rapid.Check(t, world.Prop(func(t *rapid.T) {
		world.ResetEvents()
		log := &lvLog{ids: map[*lvHandler]int{}, scripts: map[int][][]lvAct{}}
		nH := rapid.IntRange(1, 4).Draw(t, "handlers")
		hs := make([]api.EventHandlerInterface, nH)
		cfgs := make([]int, nH)
		values := false
		for i := range hs {
			// cfg -1: the handler is a struct value (value receiver), not a pointer to an object
			cfgs[i] = rapid.SampledFrom([]int{0, 0, 1, -1}).Draw(t, fmt.Sprintf("h%dcfg", i))
			if cfgs[i] == -1 {
				hs[i] = lvValHandler{id: i, log: log}
				values = true
				continue
			}
			o := &lvHandler{cfg: cfgs[i], log: log}
			log.ids[o] = i
			hs[i] = o
		}
		log.hs = hs
		var shown []string
		for i := range hs {
			for s, n := 0, rapid.SampledFrom([]int{0, 0, 1, 2}).Draw(t, fmt.Sprintf("h%dscripts", i)); s < n; s++ {
				var sc []lvAct
				for a, m := 0, rapid.IntRange(0, 2).Draw(t, fmt.Sprintf("h%ds%dlen", i, s)); a < m; a++ {
					lb := fmt.Sprintf("h%ds%da%d", i, s, a)
					act := lvAct{sub: rapid.SampledFrom([]bool{true, true, false}).Draw(t, lb+"sub"), h: rapid.IntRange(0, nH-1).Draw(t, lb+"h"),
						level: rapid.SampledFrom(levels).Draw(t, lb+"level")}
					act.viaAPI = act.level == api.EventHandlerLevelApplication && rapid.Bool().Draw(t, lb+"api")
					sc = append(sc, act)
				}
				log.scripts[i] = append(log.scripts[i], sc)
				shown = append(shown, fmt.Sprintf("h%d/script%d on the core level: %v", i, s, sc))
			}
		}
		type sub struct {
			h int
			l api.EventHandlerLevel
		}
		subscribed := map[sub]bool{}
		defer func() {
			for s := range subscribed {
				_ = spine.VerifUnsubscribe(s.l, hs[s.h])
			}
		}()
		base := runtime.NumGoroutine()
		hist := []string{fmt.Sprintf("content of the handler objects h0.. (-1: a struct value with a value receiver): %v", cfgs)}
		hist = append(hist, shown...)
		both, pubs, afterUnsub, reentered, reCoreSub := false, 0, false, false, false
		lastKey, repeated := "", false
		steps := rapid.IntRange(3, 14).Draw(t, "steps")
		for i := 0; i < steps; i++ {
			kind := rapid.SampledFrom([]string{"sub", "sub", "unsub", "publish", "publish"}).Draw(t, fmt.Sprintf("s%d", i))
			if i == steps-1 {
				kind = "publish"
			}
			switch kind {
			case "sub", "unsub":
				s := sub{rapid.IntRange(0, nH-1).Draw(t, fmt.Sprintf("s%dh", i)), rapid.SampledFrom(levels).Draw(t, fmt.Sprintf("s%dlevel", i))}
				viaAPI := s.l == api.EventHandlerLevelApplication && rapid.Bool().Draw(t, fmt.Sprintf("s%dapi", i))
				var err error
				switch {
				case kind == "sub" && viaAPI:
					err = spine.Events.Subscribe(hs[s.h])
				case kind == "sub":
					err = spine.VerifSubscribe(s.l, hs[s.h])
				case viaAPI:
					err = spine.Events.Unsubscribe(hs[s.h])
				default:
					err = spine.VerifUnsubscribe(s.l, hs[s.h])
				}
				if err != nil {
					t.Fatalf("harness: %s(%s, h%d) returned %v", kind, lname[s.l], s.h, err)
				}
				if kind == "sub" {
					subscribed[s] = true
				} else {
					if subscribed[s] {
						afterUnsub = true
					}
					delete(subscribed, s)
				}
				hist = append(hist, fmt.Sprintf("%s(%s, h%d)", kind, lname[s.l], s.h))
			case "publish":
				pubs++
				key := fmt.Sprintf("e%d", pubs)
				// two publications are two events, whatever they carry: some repeat the previous payload exactly
				if pubs > 1 && rapid.IntRange(0, 2).Draw(t, fmt.Sprintf("s%drepeat", i)) == 0 {
					key = lastKey
					repeated = true
				}
				lastKey = key
				hist = append(hist, "publish "+key)
				log.mu.Lock()
				from := len(log.dels) // every earlier publication was followed by a barrier
				log.mu.Unlock()
				for h := 0; h < nH; h++ {
					if subscribed[sub{h, api.EventHandlerLevelCore}] && subscribed[sub{h, api.EventHandlerLevelApplication}] {
						both = true
					}
				}
				var end uint64
				ok := watched(func() {
					log.mu.Lock()
					log.pub = gid()
					log.pick = pubs
					log.done = nil
					log.mu.Unlock()
					spine.Events.Publish(api.EventPayload{Ski: key, EventType: api.EventTypeDeviceChange, ChangeType: api.ElementChangeUpdate})
					end = world.Stamp()
				})
				if !ok {
					stuck(t, "Publish did not return")
				}
				if !world.WaitGoroutines(base, 10*time.Second) {
					stuck(t, "the goroutines started for application handlers did not finish")
				}
				log.mu.Lock()
				dels := append([]lvDelivery(nil), log.dels[from:]...)
				done := append([]lvAct(nil), log.done...)
				log.mu.Unlock()
				// (un)subscriptions issued from inside core level handlers, i.e. while this publication
				// was being dispatched: whether such a pair is "subscribed at publication time" is not
				// fixed - zero or one delivery, never two; every other pair is as it was at the start
				touched := map[string]bool{}
				for _, a := range done {
					touched[fmt.Sprintf("h%d on the %s level", a.h, lname[a.level])] = true
				}
				got := map[string]int{}
				var lastCore, firstApp uint64
				for _, d := range dels {
					if d.key != key {
						world.Fail(t, "C15/levels/unpublished-event-delivered", "during publication %s h%d received an event %q\nhistory: %v", key, d.h, d.key, hist)
					}
					l := "application"
					if d.sync {
						l = "core"
						lastCore = max(lastCore, d.at)
						if d.at > end {
							world.Fail(t, "C15/levels/core-after-return", "the core level delivery of %s to h%d happened after Publish had returned\nhistory: %v", key, d.h, hist)
						}
					} else if firstApp == 0 || d.at < firstApp {
						firstApp = d.at
					}
					got[fmt.Sprintf("h%d on the %s level", d.h, l)]++
				}
				want := map[string]int{}
				for s := range subscribed {
					want[fmt.Sprintf("h%d on the %s level", s.h, lname[s.l])]++
				}
				for k := range touched {
					if got[k] > 1 {
						world.Fail(t, "C15/levels/delivered-twice", "publication %s reached %s %d times (it was (un)subscribed from inside a core level handler during the publication: %v)\nhistory: %v", key, k, got[k], done, hist)
					}
					delete(got, k)
					delete(want, k)
				}
				// the state after the publication: the actions ran one after the other on the publishing goroutine
				for _, a := range done {
					s := sub{a.h, a.level}
					reentered = true
					if a.sub {
						if !subscribed[s] && a.level == api.EventHandlerLevelCore {
							reCoreSub = true
						}
						subscribed[s] = true
					} else {
						if subscribed[s] {
							afterUnsub = true
						}
						delete(subscribed, s)
					}
				}
				if len(done) > 0 {
					hist = append(hist, fmt.Sprintf("  during %s: %v", key, done))
				}
				if fmt.Sprint(sortedCounts(got)) != fmt.Sprint(sortedCounts(want)) {
					sig := "C15/levels/deliveries-differ-from-subscriptions"
					for k, n := range got {
						if n > want[k] {
							sig = "C15/levels/delivered-without-subscription"
						}
					}
					world.Fail(t, sig, "publication %s was delivered to %v, the subscriptions in force are %v (a handler receives an event once per level it is subscribed on, on the publishing goroutine for the core level)\nhistory: %v", key, sortedCounts(got), sortedCounts(want), hist)
				}
				if firstApp != 0 && lastCore > firstApp {
					world.Fail(t, "C15/levels/application-before-core", "publication %s: an application level delivery (stamp %d) came before the last core level delivery (stamp %d)\nhistory: %v", key, firstApp, lastCore, hist)
				}
			}
		}
		labels := []string{}
		if both {
			labels = append(labels, "levels/one-handler-on-both-levels")
		}
		if afterUnsub {
			labels = append(labels, "levels/publication-after-an-unsubscription")
		}
		if reentered {
			labels = append(labels, "levels/reentrant-from-core-handler")
		}
		if reCoreSub {
			labels = append(labels, "levels/new-core-subscription-during-dispatch")
		}
		if repeated {
			labels = append(labels, "levels/payload-repeated")
		}
		if values {
			labels = append(labels, "levels/value-typed-handler")
		}
		var objCfgs []int
		for _, c := range cfgs {
			if c >= 0 {
				objCfgs = append(objCfgs, c)
			}
		}
		if alike(objCfgs) {
			labels = append(labels, "levels/handlers-alike")
		}
		world.Record(world.Hash("levels", nH, cfgs, hist), both && afterUnsub, labels...)
		if both && afterUnsub && world.WantSample() {
			world.Sample(map[string]any{"check": "handler-levels", "handlers": nH, "configs": cfgs, "history": hist})
		}
	}))
}

func sortedCounts(m map[string]int) []string {
	var out []string
	for k, n := range m {
		out = append(out, fmt.Sprintf("%s x%d", k, n))
	}
	sort.Strings(out)
	return out
}
