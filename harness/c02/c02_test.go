// Package c02: replicated function data follows the SPINE restricted-exchange update rules.
package c02

import (
	"fmt"
	"os"
	"reflect"
	"sort"
	"strings"
	"testing"
	"time"

	"github.com/enbility/spine-go/api"
	"github.com/enbility/spine-go/model"
	"pgregory.net/rapid"

	"verifharness/gen"
	"verifharness/listgen"
	"verifharness/refmodel"
	"verifharness/world"
)

func TestMain(m *testing.M) { world.Main(m) }

// quickSubset: single-key, multi-key, (uint,string)-key, struct-key, key-less and writecheck types,
// plus the two types hit by the filter-tag defect on the pinned tree.
var quickSubset = []model.FunctionType{
	model.FunctionTypeAlarmListData,
	model.FunctionTypeLoadControlLimitListData,
	model.FunctionTypeMeasurementListData,
	model.FunctionTypeMeasurementSeriesListData,
	model.FunctionTypeElectricalConnectionPermittedValueSetListData,
	model.FunctionTypeElectricalConnectionCharacteristicListData,
	model.FunctionTypeSetpointDescriptionListData,
	model.FunctionTypeDeviceConfigurationKeyValueListData,
	model.FunctionTypeNetworkManagementEntityDescriptionListData,
	model.FunctionTypeNodeManagementDestinationListData,
	model.FunctionTypeTimeSeriesListData,
	model.FunctionTypeHvacOverrunListData,
	model.FunctionTypeIdentificationListData,
	model.FunctionTypeSessionIdentificationListData,
}

func funcs() []gen.Func {
	all := gen.ListFuncs()
	if only := os.Getenv("VERIF_FUNCS"); only != "" {
		var out []gen.Func
		for _, f := range all {
			if strings.Contains(","+only+",", ","+string(f.Fn)+",") {
				out = append(out, f)
			}
		}
		return out
	}
	if world.Thorough() || os.Getenv("VERIF_C02_SUBSET") == "" {
		return all // every Updater type in both tiers (the quick subset is kept for development)
	}
	var out []gen.Func
	for _, fn := range quickSubset {
		if f := gen.ByFunction(fn); f != nil && f.IsList {
			out = append(out, *f)
		}
	}
	return out
}

// target abstracts the two stores the property speaks about.
type target struct {
	name  string
	apply func(u refmodel.Update) bool // returns false if the stack reported failure
	read  func() any
	// applyValue (local API only) hands the given payload object to the stack - the caller may hand in the same
	// object more than once, as an application that keeps its update value does
	applyValue func(payload any, u refmodel.Update) bool
}

func setup(f *gen.Func, path string) (*world.World, target) {
	w := world.New()
	ft := f.FeatureType
	switch path {
	case "wire-reply", "wire-notify":
		le := w.AddLocalEntity([]uint{1}, model.EntityTypeTypeCEM, time.Second)
		lf := w.AddLocalFeature(le, world.FeatSpec{Type: ft, Role: model.RoleTypeClient})
		p := w.AddPeer("ski1", "d:_r:peer1", []world.EntSpec{{Addr: []uint{1}, Type: model.EntityTypeTypeEVSE, Feats: []world.FeatSpec{
			{ID: 1, Type: ft, Role: model.RoleTypeServer, Funcs: []world.FuncSpec{{Fn: f.Fn, Read: true}}},
		}}})
		rf := p.Feature([]uint{1}, 1)
		cl := model.CmdClassifierTypeReply
		if path == "wire-notify" {
			cl = model.CmdClassifierTypeNotify
		}
		return w, target{
			name: path,
			apply: func(u refmodel.Update) bool {
				var ref *model.MsgCounterType
				if cl == model.CmdClassifierTypeReply {
					ref = p.DiscoveryRef // a reply always references a request of the stack
				}
				d := p.Msg(cl, p.FA([]uint{1}, 1), lf.Address(), true, ref, listgen.Cmd(f, u))
				p.Send(d)
				w.Sync()
				ok := false
				for _, s := range p.Cap.Drain() {
					if s.Ref() != nil && *s.Ref() == *d.Header.MsgCounter && s.ErrorNumber() == 0 {
						ok = true
					}
				}
				return ok
			},
			read: func() any { return rf.DataCopy(f.Fn) },
		}
	default: // local API
		le := w.AddLocalEntity([]uint{1}, model.EntityTypeTypeCEM, time.Second)
		lf := w.AddLocalFeature(le, world.FeatSpec{Type: ft, Role: model.RoleTypeServer, Funcs: []world.FuncSpec{{Fn: f.Fn, Read: true, Write: true}}})
		return w, target{
			name: path,
			apply: func(u refmodel.Update) bool {
				payload := refmodel.Payload(f, u.Items)
				if !u.HasFilter() && path == "local-set" {
					lf.SetData(f.Fn, payload)
					return true
				}
				fp, fd := listgen.Filters(f, u)
				return lf.UpdateData(f.Fn, payload, fp, fd) == nil
			},
			read: func() any { return lf.DataCopy(f.Fn) },
			applyValue: func(payload any, u refmodel.Update) bool {
				fp, fd := listgen.Filters(f, u)
				return lf.UpdateData(f.Fn, payload, fp, fd) == nil
			},
		}
	}
}

var _ api.FeatureLocalInterface

var paths = []string{"wire-reply", "wire-notify", "local-update", "local-set"}

func sigShape(shape string) string {
	return strings.NewReplacer("+", "-", "&", "-and-").Replace(shape)
}

// compare checks the implementation's data against the model state.
func compare(t world.TB, f *gen.Func, got any, want []reflect.Value, u refmodel.Update, step int, where string) {
	items := refmodel.ItemsOf(f, got)
	g, m := refmodel.Multiset(items), refmodel.Multiset(want)
	if !reflect.DeepEqual(g, m) {
		world.Fail(t, fmt.Sprintf("C02/fold-mismatch/%s/%s", sigShape(u.Shape()), f.Fn),
			"%s step %d (%s): data differs from the fold of the cmdOption rules\n update: %s\n got:  %v\n want: %v",
			where, step, u.Shape(), world.JSON(listgen.Describe(f, u)), g, m)
	}
	if k, ok := refmodel.UniqueIdentifiers(f, items); !ok {
		world.Fail(t, fmt.Sprintf("C02/duplicate-identifier/%s", f.Fn), "%s step %d: identifier %s occurs twice: %v", where, step, k, g)
	}
	// ordering: the statement's "ordered by numeric identifier" is asserted after every restricted
	// update (the store keeps a filter-less replace verbatim, in whatever order the sender chose -
	// the generator sends some of them out of order, so that the next restricted update has to sort)
	if !u.HasFilter() && !refmodel.OrderedByLeadingUintKeys(f, items) {
		world.Label("full-update/out-of-order")
	}
	if u.HasFilter() && !refmodel.OrderedByLeadingUintKeys(f, items) {
		world.Fail(t, fmt.Sprintf("C02/unordered/%s/%s", sigShape(u.Shape()), f.Fn), "%s step %d: items not ordered by numeric identifier: %v", where, step, refmodel.Multiset(items))
	}
}

func countKeyed(f *gen.Func, items []reflect.Value) (keyed, idless int) {
	for _, it := range items {
		if _, ok := gen.KeyOf(f, it); ok {
			keyed++
		} else {
			idless++
		}
	}
	return
}

func TestFold(t *testing.T) {
	fs := funcs()
	rapid.Check(t, world.Prop(func(t *rapid.T) {
		f := fs[rapid.IntRange(0, len(fs)-1).Draw(t, "function")]
		path := rapid.SampledFrom(paths).Draw(t, "path")
		w, tg := setup(&f, path)
		defer w.Teardown()
		shapes := listgen.ShapesFor(&f)
		n := rapid.IntRange(1, 6).Draw(t, "updates")
		var state []reflect.Value
		var shapeSeq []string
		nontrivial := false
		var sample []any
		// update values the application keeps and hands in again later (the very same object)
		type keptUpdate struct {
			payload any
			u       refmodel.Update // pristine copy of what the value said when it was made
		}
		var kept []keptUpdate
		for i := 0; i < n; i++ {
			if tg.applyValue != nil && len(kept) > 0 && rapid.IntRange(0, 3).Draw(t, fmt.Sprintf("sameValueAgain%d", i)) == 0 {
				// the same update value later in the history: it says what it said the first time (the stack must
				// not have written anything into it), so the result is the fold of that update over the present list
				k := kept[rapid.IntRange(0, len(kept)-1).Draw(t, fmt.Sprintf("keptValue%d", i))]
				next := refmodel.Fold(&f, state, k.u)
				if !tg.applyValue(k.payload, k.u) {
					world.Fail(t, fmt.Sprintf("C02/update-rejected/%s/%s", sigShape(k.u.Shape()), f.Fn), "%s step %d: a well-formed %s update (a value handed in before) was reported as failed", tg.name, i, k.u.Shape())
				}
				compare(t, &f, tg.read(), next, k.u, i, tg.name+"/same-value-again")
				world.Label("update/same-value-handed-in-again")
				shapeSeq = append(shapeSeq, k.u.Shape()+"/again")
				state = next
				continue
			}
			shape := rapid.SampledFrom(shapes).Draw(t, fmt.Sprintf("shape%d", i))
			if i == 0 && rapid.IntRange(0, 2).Draw(t, "seedfull") != 0 {
				shape = listgen.Full // most histories start from a populated list
			}
			u := listgen.Update(t, &f, state, shape, gen.Opt{LooseSelectors: true, UnsortedFull: true, MixedIDs: rapid.IntRange(0, 3).Draw(t, fmt.Sprintf("mayMixIdentifiers%d", i)) == 0}, fmt.Sprintf("u%d", i))
			if keyed, idless := countKeyed(&f, u.Items); u.Partial && keyed > 0 && idless > 0 {
				// a sender's slip: a partial update whose items partly lost their identifiers. What the identifier-less
				// item is to be applied to is not defined by the rules, so the content is not compared - but whatever
				// the stack makes of it, the list keeps at most one item per identifier and its order; the history goes
				// on from the list the stack holds
				world.Label("partial/items-with-and-without-identifiers")
				tg.apply(u)
				items := refmodel.ItemsOf(&f, tg.read())
				if k, ok := refmodel.UniqueIdentifiers(&f, items); !ok {
					world.Fail(t, fmt.Sprintf("C02/duplicate-identifier/%s", f.Fn), "%s step %d: identifier %s occurs twice after a partial update mixing items with and without identifiers\n update: %s\n data: %v", tg.name, i, k, world.JSON(listgen.Describe(&f, u)), refmodel.Multiset(items))
				}
				if _, idlessStored := countKeyed(&f, items); idlessStored == 0 && !refmodel.OrderedByLeadingUintKeys(&f, items) {
					world.Fail(t, fmt.Sprintf("C02/unordered/%s/%s", sigShape(u.Shape()), f.Fn), "%s step %d: items not ordered by numeric identifier: %v", tg.name, i, refmodel.Multiset(items))
				}
				state = refmodel.CloneItems(items)
				shapeSeq = append(shapeSeq, u.Shape()+"/mixed")
				sample = append(sample, listgen.Describe(&f, u))
				if _, idlessStored := countKeyed(&f, items); idlessStored > 0 {
					// the stack kept the identifier-less item as an item of its own: a list outside the domain of
					// the rules (no identifier to merge, select or order by) - the history ends here
					world.Label("partial/identifier-less-item-stored")
					break
				}
				continue
			}
			if u.DeleteSelector.IsValid() {
				if m := listgen.Matches(u.DeleteSelector, state); m > 1 {
					world.Label("delete-selector/several-matches")
				}
			}
			before := refmodel.Multiset(state)
			next := refmodel.Fold(&f, state, u)
			var ok bool
			if tg.applyValue != nil && u.Partial && !u.Delete && !u.PartialSelector.IsValid() && rapid.Bool().Draw(t, fmt.Sprintf("keepValue%d", i)) {
				pristine := u
				pristine.Items = refmodel.DeepCloneItems(u.Items)
				payload := refmodel.Payload(&f, u.Items)
				kept = append(kept, keptUpdate{payload, pristine})
				ok = tg.applyValue(payload, u)
			} else {
				ok = tg.apply(u)
			}
			if !ok {
				world.Fail(t, fmt.Sprintf("C02/update-rejected/%s/%s", sigShape(u.Shape()), f.Fn), "%s step %d: a well-formed %s update was reported as failed: %s", tg.name, i, u.Shape(), world.JSON(listgen.Describe(&f, u)))
			}
			compare(t, &f, tg.read(), next, u, i, tg.name)
			// idempotence: the same update again changes nothing
			snap := world.JSON(tg.read())
			tg.apply(u)
			if again := world.JSON(tg.read()); again != snap {
				world.Fail(t, fmt.Sprintf("C02/not-idempotent/%s/%s", sigShape(u.Shape()), f.Fn), "%s step %d: applying the same %s update twice changed the data\n update: %s\n first:  %s\n second: %s", tg.name, i, u.Shape(), world.JSON(listgen.Describe(&f, u)), snap, again)
			}
			changed := !reflect.DeepEqual(before, refmodel.Multiset(next))
			if u.HasFilter() && len(state) > 0 && changed {
				nontrivial = true
			}
			hit := "miss"
			if changed {
				hit = "hit"
			}
			shapeSeq = append(shapeSeq, u.Shape()+"/"+hit)
			world.Label("shape/" + u.Shape())
			sample = append(sample, listgen.Describe(&f, u))
			state = next
		}
		world.Record(world.Hash(f.Fn, path, shapeSeq), nontrivial, "path/"+path, "function/"+string(f.Fn))
		if nontrivial && world.WantSample() {
			world.Sample(map[string]any{"function": string(f.Fn), "path": path, "history": sample, "final": refmodel.Multiset(state)})
		}
	}))
}

// TestSweep applies every shape as a single update to small lists (<= 2 items over 2 ids) for
// every list type: a deterministic per-type sweep with drawn field values.
func TestSweep(t *testing.T) {
	fs := funcs()
	shard, shards := world.EnvInt("VERIF_SHARD", 0), world.EnvInt("VERIF_SHARDS", 1)
	sort.Slice(fs, func(i, j int) bool { return fs[i].Fn < fs[j].Fn })
	for idx := range fs {
		if idx%shards != shard {
			continue
		}
		f := fs[idx]
		for _, shape := range listgen.ShapesFor(&f) {
			for _, path := range []string{"wire-notify", "local-update"} {
				shape, path := shape, path
				rapid.Check(t, world.Prop(func(t *rapid.T) {
					w, tg := setup(&f, path)
					defer w.Teardown()
					init := refmodel.Update{Items: listgen.Items(t, &f, 2, gen.Opt{Dense: true}, "init")}
					tg.apply(init)
					state := refmodel.Fold(&f, nil, init)
					u := listgen.Update(t, &f, state, shape, gen.Opt{Dense: true, LooseSelectors: true}, "u")
					next := refmodel.Fold(&f, state, u)
					if !tg.apply(u) {
						world.Fail(t, fmt.Sprintf("C02/update-rejected/%s/%s", sigShape(u.Shape()), f.Fn), "%s: well-formed %s update reported as failed: %s", tg.name, u.Shape(), world.JSON(listgen.Describe(&f, u)))
					}
					compare(t, &f, tg.read(), next, u, 1, tg.name)
					changed := !reflect.DeepEqual(refmodel.Multiset(state), refmodel.Multiset(next))
					world.Record(world.Hash("sweep", f.Fn, path, u.Shape(), refmodel.Multiset(state), world.JSON(listgen.Describe(&f, u))), u.HasFilter() && len(state) > 0 && changed, "sweep/"+u.Shape())
				}))
			}
		}
	}
	world.SetExtra("sweep_grid_complete", true)
}

// TestModelUpdateList: the value RETURNED by the per-type UpdateList methods (the merged data set,
// also used with persist=false to build full write data sets) equals the reference fold, and with
// persist=true the receiver holds it afterwards.
func TestModelUpdateList(t *testing.T) {
	fs := funcs()
	rapid.Check(t, world.Prop(func(t *rapid.T) {
		f := fs[rapid.IntRange(0, len(fs)-1).Draw(t, "function")]
		persist := rapid.Bool().Draw(t, "persist")
		init := refmodel.Update{Items: listgen.Items(t, &f, 4, gen.Opt{}, "init")}
		state := refmodel.Fold(&f, nil, init)
		recv := refmodel.Payload(&f, refmodel.CloneItems(init.Items))
		shapes := listgen.ShapesFor(&f)
		var filtered []string
		for _, s := range shapes {
			if s != listgen.Full {
				filtered = append(filtered, s)
			}
		}
		if len(filtered) == 0 {
			return
		}
		u := listgen.Update(t, &f, state, rapid.SampledFrom(filtered).Draw(t, "shape"), gen.Opt{}, "u")
		want := refmodel.Fold(&f, state, u)
		fp, fd := listgen.Filters(&f, u)
		got, ok := recv.(model.Updater).UpdateList(false, persist, refmodel.Payload(&f, u.Items), fp, fd)
		if !ok {
			world.Fail(t, fmt.Sprintf("C02/model/update-rejected/%s/%s", sigShape(u.Shape()), f.Fn), "UpdateList reported failure for a well-formed local %s update", u.Shape())
		}
		gv := reflect.ValueOf(got)
		var items []reflect.Value
		for i := 0; gv.Kind() == reflect.Slice && i < gv.Len(); i++ {
			items = append(items, gv.Index(i))
		}
		if g, w := refmodel.Multiset(items), refmodel.Multiset(want); !reflect.DeepEqual(g, w) {
			world.Fail(t, fmt.Sprintf("C02/model/returned-data/%s/%s", sigShape(u.Shape()), f.Fn), "UpdateList(persist=%v) returned data that differs from the fold\n update: %s\n got:  %v\n want: %v", persist, world.JSON(listgen.Describe(&f, u)), g, w)
		}
		if !refmodel.OrderedByLeadingUintKeys(&f, items) {
			world.Fail(t, fmt.Sprintf("C02/model/unordered/%s/%s", sigShape(u.Shape()), f.Fn), "returned data not ordered: %v", refmodel.Multiset(items))
		}
		if persist {
			if g, w := refmodel.Multiset(refmodel.ItemsOf(&f, recv)), refmodel.Multiset(want); !reflect.DeepEqual(g, w) {
				world.Fail(t, fmt.Sprintf("C02/model/not-persisted/%s/%s", sigShape(u.Shape()), f.Fn), "after UpdateList(persist=true) the receiver holds %v, expected %v", g, w)
			}
		}
		changed := !reflect.DeepEqual(refmodel.Multiset(state), refmodel.Multiset(want))
		world.Record(world.Hash("model", f.Fn, persist, u.Shape(), changed), len(state) > 0 && changed, "model/"+u.Shape())
	}))
}
