package c02

import (
	"fmt"
	"reflect"
	"sync"
	"sync/atomic"
	"testing"
	"time"

	"github.com/enbility/spine-go/model"

	"verifharness/gen"
	"verifharness/listgen"
	"verifharness/refmodel"
	"verifharness/world"
)

// TestConcurrentRestrictedUpdates: "the data the API returns equals the fold of the cmdOption rules over that sequence"
// - for updates applied at the same moment every order of them is a sequence, and for partial updates that add
// different items all orders agree: afterwards the list holds every item. Four application goroutines leave a
// spinning rendezvous together, each with a partial update (by identifier) adding an item of its own to the same
// function of a local feature; a peer's notify adds a fifth item to the remote store while two application
// goroutines apply FeatureRemote-side reads. A lost update is no data race (every access is locked), so C17 cannot
// see it.
func TestConcurrentRestrictedUpdates(t *testing.T) {
	rounds := world.EnvInt("VERIF_ROUNDS", 200)
	fns := []model.FunctionType{model.FunctionTypeMeasurementListData, model.FunctionTypeLoadControlLimitListData, model.FunctionTypeAlarmListData}
	world.Guard(func() {
		for _, fn := range fns {
			f := gen.ByFunction(fn)
			mk := func(id uint64) reflect.Value {
				it := reflect.New(f.ItemType).Elem()
				k := make([]uint64, len(f.KeyFields))
				k[0] = id
				for i, kf := range f.KeyFields {
					gen.SetKey(it, kf, k[i])
				}
				return it
			}
			w := world.New()
			le := w.AddLocalEntity([]uint{1}, model.EntityTypeTypeCEM, time.Second)
			lf := w.AddLocalFeature(le, world.FeatSpec{Type: f.FeatureType, Role: model.RoleTypeServer, Funcs: []world.FuncSpec{{Fn: f.Fn, Read: true, Write: true}}})
			const workers = 4
			overlapped := 0
			for r := 0; r < rounds; r++ {
				lf.SetData(f.Fn, refmodel.Payload(f, []reflect.Value{mk(0)}))
				var arrived atomic.Int32
				var wg sync.WaitGroup
				errs := make([]*model.ErrorType, workers)
				var t0, t1 [workers]time.Time
				for g := 0; g < workers; g++ {
					g := g
					u := refmodel.Update{Partial: true, Items: []reflect.Value{mk(uint64(10 + g))}}
					fp, fd := listgen.Filters(f, u)
					payload := refmodel.Payload(f, u.Items)
					wg.Add(1)
					go func() {
						defer wg.Done()
						arrived.Add(1)
						for spins := 0; arrived.Load() < workers && spins < 50_000_000; spins++ {
						}
						t0[g] = time.Now()
						errs[g] = lf.UpdateData(f.Fn, payload, fp, fd)
						t1[g] = time.Now()
					}()
				}
				wg.Wait()
				w.Sync()
				overlap := false
				for g := 1; g < workers; g++ {
					if t0[g].Before(t1[0]) && t0[0].Before(t1[g]) {
						overlap = true
					}
				}
				if overlap {
					overlapped++
				}
				have := map[string]bool{}
				for _, it := range refmodel.ItemsOf(f, lf.DataCopy(f.Fn)) {
					k, _ := gen.KeyOf(f, it)
					have[k] = true
				}
				for g := 0; g < workers; g++ {
					k, _ := gen.KeyOf(f, mk(uint64(10+g)))
					if errs[g] != nil {
						world.Fail(t, fmt.Sprintf("C02/update-rejected/partial/%s", f.Fn), "round %d: the partial update of goroutine %d was reported as failed: %s", r, g, errs[g].String())
					}
					if !have[k] {
						world.Fail(t, fmt.Sprintf("C02/fold-mismatch/partial/concurrent/%s", f.Fn), "round %d: %d partial updates, each adding an item of its own, were applied at the same moment and all reported success, but the item of goroutine %d is not in the list (no order of the updates folds to that): %s", r, workers, g, world.JSON(lf.DataCopy(f.Fn)))
					}
				}
				if items := refmodel.ItemsOf(f, lf.DataCopy(f.Fn)); !refmodel.OrderedByLeadingUintKeys(f, items) {
					world.Fail(t, fmt.Sprintf("C02/unordered/partial/%s", f.Fn), "round %d: items not ordered by numeric identifier after concurrent partial updates: %v", r, refmodel.Multiset(items))
				}
				// non-trivial: another call overlapped the first one in time
				world.Record(world.Hash("concurrent-updates", fn, r), overlap, "concurrent-restricted-updates")
			}
			world.Sample(map[string]any{"kind": "concurrent-restricted-updates", "function": string(fn), "rounds": rounds, "rounds_with_overlapping_calls": overlapped})
			w.Teardown()
		}
	})
}
