package c02

import (
	"fmt"
	"reflect"
	"sort"
	"testing"

	"github.com/enbility/spine-go/model"
	"pgregory.net/rapid"

	"verifharness/gen"
	"verifharness/listgen"
	"verifharness/refmodel"
	"verifharness/world"
)

var periodType = reflect.TypeOf((*model.TimePeriodType)(nil))

// periodFuncs: keyed list functions whose items carry a time period element.
func periodFuncs() []gen.Func {
	var out []gen.Func
	for _, f := range gen.ListFuncs() {
		if f.FeatureType == model.FeatureTypeTypeNodeManagement || !listgen.CapsOf(&f).Keyed {
			continue
		}
		for i := 0; i < f.ItemType.NumField(); i++ {
			if f.ItemType.Field(i).Type == periodType {
				out = append(out, f)
				break
			}
		}
	}
	sort.Slice(out, func(i, j int) bool { return out[i].Fn < out[j].Fn })
	return out
}

// periodText renders a time period as it is held in memory (never encoded: encoding re-expresses relative end
// times against the clock).
func periodText(p *model.TimePeriodType) string {
	if p == nil {
		return "<none>"
	}
	s := "start="
	if p.StartTime != nil {
		s += string(*p.StartTime)
	}
	s += " end="
	if p.EndTime != nil {
		s += string(*p.EndTime)
	}
	return s
}

func periodsByKey(f *gen.Func, data any) map[string]string {
	out := map[string]string{}
	for _, it := range refmodel.ItemsOf(f, data) {
		k, _ := gen.KeyOf(f, it)
		for i := 0; i < it.NumField(); i++ {
			if it.Field(i).Type() == periodType {
				out[k+"/"+it.Type().Field(i).Name] = periodText(it.Field(i).Interface().(*model.TimePeriodType))
			}
		}
	}
	return out
}

// TestUnmentionedPeriods: "a partial update merges by identifier, keeping items and fields it does not mention" for
// the one kind of element whose text cannot be compared after encoding: time periods. The application stores items
// whose periods are relative (an end time such as PT2H only), absolute or absent; a restricted update then addresses
// ONE item and does not mention any period. Every period - of the addressed item and of the others - is afterwards
// what it was, compared as held in memory.
func TestUnmentionedPeriods(t *testing.T) {
	fs := periodFuncs()
	if len(fs) == 0 {
		t.Fatal("harness: no list function with a time period element")
	}
	texts := [][2]string{{"", "PT2H"}, {"", "PT90M"}, {"2030-01-01T00:00:00Z", "2030-01-02T00:00:00Z"}, {"", "2031-06-01T12:00:00Z"}, {"2029-01-01T00:00:00Z", ""}}
	rapid.Check(t, world.Prop(func(t *rapid.T) {
		f := fs[rapid.IntRange(0, len(fs)-1).Draw(t, "function")]
		w, tg := setup(&f, rapid.SampledFrom([]string{"local-update", "local-set"}).Draw(t, "path"))
		defer w.Teardown()
		n := rapid.IntRange(2, 3).Draw(t, "items")
		var items []reflect.Value
		for id := 0; id < n; id++ {
			k := make([]uint64, len(f.KeyFields))
			k[0] = uint64(id)
			it := gen.Item(t, &f, k, gen.Opt{Dense: true}, fmt.Sprintf("item%d", id))
			for i := 0; i < it.NumField(); i++ {
				if it.Field(i).Type() != periodType {
					continue
				}
				c := rapid.IntRange(0, len(texts)).Draw(t, fmt.Sprintf("period%d.%d", id, i))
				if c == len(texts) {
					it.Field(i).Set(reflect.Zero(periodType))
					continue
				}
				p := &model.TimePeriodType{}
				if texts[c][0] != "" {
					p.StartTime = model.NewAbsoluteOrRelativeTimeType(texts[c][0])
				}
				if texts[c][1] != "" {
					p.EndTime = model.NewAbsoluteOrRelativeTimeType(texts[c][1])
				}
				it.Field(i).Set(reflect.ValueOf(p))
			}
			items = append(items, it)
		}
		if !tg.apply(refmodel.Update{Items: items}) {
			t.Fatalf("harness: the initial full update was refused")
		}
		before := periodsByKey(&f, tg.read())
		// a restricted update that addresses item 0 and mentions no period
		target := make([]uint64, len(f.KeyFields))
		upd := reflect.New(f.ItemType).Elem()
		for i, kf := range f.KeyFields {
			gen.SetKey(upd, kf, target[i])
		}
		var u refmodel.Update
		shape := rapid.SampledFrom([]string{"partial", "partial-sel", "delete-other"}).Draw(t, "shape")
		switch {
		case shape == "partial-sel" && listgen.CapsOf(&f).Selectors:
			u = refmodel.Update{Partial: true, PartialSelector: listgen.SelectorFor(&f, target), Items: []reflect.Value{upd}}
		case shape == "delete-other" && listgen.CapsOf(&f).Selectors:
			other := make([]uint64, len(f.KeyFields))
			other[0] = uint64(n - 1)
			u = refmodel.Update{Delete: true, DeleteSelector: listgen.SelectorFor(&f, other)}
			for k := range before {
				if kk, _ := gen.KeyOf(&f, items[n-1]); len(k) > len(kk) && k[:len(kk)+1] == kk+"/" {
					delete(before, k)
				}
			}
		default:
			shape = "partial"
			u = refmodel.Update{Partial: true, Items: []reflect.Value{upd}}
		}
		if !tg.apply(u) {
			world.Fail(t, fmt.Sprintf("C02/update-rejected/%s/%s", shape, f.Fn), "%s: a well-formed %s update was reported as failed", tg.name, shape)
		}
		after := periodsByKey(&f, tg.read())
		if !reflect.DeepEqual(before, after) {
			world.Fail(t, fmt.Sprintf("C02/unmentioned-field-changed/%s/%s", shape, f.Fn), "%s: a restricted update (%s) that mentions no time period changed time periods the list holds\n before: %v\n after:  %v", tg.name, shape, before, after)
		}
		relative := false
		for _, v := range before {
			relative = relative || v == "start= end=PT2H" || v == "start= end=PT90M"
		}
		world.Record(world.Hash("periods", f.Fn, shape, before), relative, "unmentioned-periods/"+shape)
		if relative && world.WantSample() {
			world.Sample(map[string]any{"kind": "unmentioned-periods", "function": string(f.Fn), "shape": shape, "periods": before})
		}
	}))
}
