// Package c17: concurrent use is free of data races and deadlocks. Built with -race; the race
// detector's reports are collected from GORACE's log_path and classified in TestMain.
package c17

import (
	"encoding/json"
	"fmt"
	"os"
	"path/filepath"
	"reflect"
	"regexp"
	"runtime"
	"sort"
	"strings"
	"sync"
	"sync/atomic"
	"testing"
	"time"

	"github.com/enbility/spine-go/api"
	"github.com/enbility/spine-go/model"
	"github.com/enbility/spine-go/spine"
	"github.com/enbility/spine-go/util"
	"pgregory.net/rapid"

	"verifharness/gen"
	"verifharness/listgen"
	"verifharness/refmodel"
	"verifharness/world"
)

func TestMain(m *testing.M) {
	code := m.Run()
	// classify what the race detector logged; an unknown race is the verdict of this run
	unknown := classifyRaces()
	world.FlushStats()
	if unknown > 0 || torn.Load() {
		os.Exit(1)
	}
	if code != 0 && racesSeen > 0 && !otherFailure.Load() {
		// the testing package fails a test in which a race was reported; all of them were known
		os.Exit(0)
	}
	os.Exit(code)
}

var otherFailure atomic.Bool
var racesSeen int

// tornRead: a list handed out by the API was modified underneath the reader (a consequence of a
// data race that is visible even without the race detector).
var tornOnce sync.Once
var torn atomic.Bool

func tornRead(what string) {
	tornOnce.Do(func() {
		torn.Store(true)
		otherFailure.Store(true)
		fmt.Printf("VERIF-FAIL sig=C17/torn-read/nil-entry :: %s while another goroutine changed the list\n", what)
	})
}

// ---------------------------------------------------------------------------------------------
// world

type env struct {
	w        *world.World
	ents     []api.EntityLocalInterface
	meas     api.FeatureLocalInterface
	lc       api.FeatureLocalInterface
	diag     api.FeatureLocalInterface
	cli      api.FeatureLocalInterface
	mu       sync.Mutex
	extra    []api.EntityLocalInterface
	handlers []*world.EventLog
	// counters of requests for which the application waits with a response callback, per connection
	awaited map[string][]model.MsgCounterType
}

var peerTree = []world.EntSpec{
	{Addr: []uint{1}, Type: model.EntityTypeTypeCEM, Feats: []world.FeatSpec{
		{ID: 1, Type: model.FeatureTypeTypeMeasurement, Role: model.RoleTypeClient},
		{ID: 2, Type: model.FeatureTypeTypeLoadControl, Role: model.RoleTypeClient},
		{ID: 3, Type: model.FeatureTypeTypeMeasurement, Role: model.RoleTypeServer, Funcs: []world.FuncSpec{{Fn: model.FunctionTypeMeasurementListData, Read: true}}},
		{ID: 4, Type: model.FeatureTypeTypeDeviceDiagnosis, Role: model.RoleTypeClient},
	}},
	{Addr: []uint{2}, Type: model.EntityTypeTypeEVSE, Feats: []world.FeatSpec{
		{ID: 1, Type: model.FeatureTypeTypeLoadControl, Role: model.RoleTypeClient},
	}},
}

func newEnv(nPeers int) *env {
	e := &env{w: world.New()}
	le := e.w.AddLocalEntity([]uint{1}, model.EntityTypeTypeCEM, 100*time.Millisecond)
	e.ents = append(e.ents, le)
	e.meas = e.w.AddLocalFeature(le, world.FeatSpec{Type: model.FeatureTypeTypeMeasurement, Role: model.RoleTypeServer, Funcs: []world.FuncSpec{
		{Fn: model.FunctionTypeMeasurementListData, Read: true, Write: true}, {Fn: model.FunctionTypeMeasurementDescriptionListData, Read: true}}})
	e.lc = e.w.AddLocalFeature(le, world.FeatSpec{Type: model.FeatureTypeTypeLoadControl, Role: model.RoleTypeServer, Funcs: []world.FuncSpec{
		{Fn: model.FunctionTypeLoadControlLimitListData, Read: true, Write: true}}})
	e.cli = e.w.AddLocalFeature(le, world.FeatSpec{Type: model.FeatureTypeTypeMeasurement, Role: model.RoleTypeClient})
	e.diag = e.w.AddLocalFeature(le, world.FeatSpec{Type: model.FeatureTypeTypeDeviceDiagnosis, Role: model.RoleTypeServer, Funcs: []world.FuncSpec{
		{Fn: model.FunctionTypeDeviceDiagnosisHeartbeatData, Read: true}}})
	e.lc.SetWriteApprovalTimeout(15 * time.Millisecond)
	_ = e.lc.AddWriteApprovalCallback(func(msg *api.Message) {
		if msg.RequestHeader != nil && msg.RequestHeader.MsgCounter != nil && *msg.RequestHeader.MsgCounter%3 == 0 {
			return // stays pending: the timer fires
		}
		e.lc.ApproveOrDenyWrite(msg, model.ErrorType{ErrorNumber: 0})
	})
	mf := gen.ByFunction(model.FunctionTypeMeasurementListData)
	e.meas.SetData(mf.Fn, refmodel.Payload(mf, []reflect.Value{item(mf, 0), item(mf, 1)}))
	lf := gen.ByFunction(model.FunctionTypeLoadControlLimitListData)
	e.lc.SetData(lf.Fn, refmodel.Payload(lf, []reflect.Value{item(lf, 0), item(lf, 1)}))
	for i := 0; i < nPeers; i++ {
		p := e.w.AddPeer(fmt.Sprintf("ski-%d", i+1), fmt.Sprintf("d:_r:peer%d", i+1), peerTree)
		p.CallOK(world.SubscribeCall(p.FA([]uint{1}, 1), e.meas.Address(), model.FeatureTypeTypeMeasurement))
		p.CallOK(world.SubscribeCall(p.FA([]uint{1}, 4), e.diag.Address(), model.FeatureTypeTypeDeviceDiagnosis))
		if i == 0 {
			p.CallOK(world.BindCall(p.FA([]uint{1}, 2), e.lc.Address(), model.FeatureTypeTypeLoadControl))
		}
	}
	return e
}

func item(f *gen.Func, id uint64) reflect.Value {
	it := reflect.New(f.ItemType).Elem()
	for _, k := range f.KeyFields {
		gen.SetKey(it, k, id)
	}
	if f.WriteCheck != "" {
		b := true
		it.FieldByName(f.WriteCheck).Set(reflect.ValueOf(&b))
	}
	return it
}

// ---------------------------------------------------------------------------------------------
// operations (all parameters are drawn up front on the property goroutine)

type op struct {
	Kind string
	A, B int
	Cmd  *model.CmdType // pre-built command for inbound messages
}

var requestSerial atomic.Uint64

var inboundKinds = []string{"read", "read-discovery", "read-usecase", "notify", "notify-not-applicable", "announce", "reply", "reply-awaited", "reply-awaited", "write", "write-approval", "subscribe", "unsubscribe", "bind", "unbind", "result", "entity-removed", "entity-added"}
var localKinds = []string{"setdata", "updatedata", "datacopy-encode", "usecase-add", "usecase-remove", "usecase-avail", "add-entity", "remove-entity", "getoradd", "addfunction",
	"subscribe-remote", "bind-remote", "request-remote", "request-awaited", "request-awaited", "request-burst", "heartbeat-start", "heartbeat-stop", "heartbeat-running", "event-subscribe", "event-unsubscribe", "lookup-notify",
	"describe", "registry-read", "remote-tree-read", "reconnect"}

func genList(t *rapid.T, f *gen.Func, label string) *model.CmdType {
	state := []reflect.Value{item(f, 0), item(f, 1)}
	shape := rapid.SampledFrom(listgen.ShapesFor(f)).Draw(t, label+".shape")
	c := listgen.Cmd(f, listgen.Update(t, f, state, shape, gen.Opt{}, label))
	return &c
}

func genOps(t *rapid.T, kinds []string, n int, label string) []op {
	var out []op
	for i := 0; i < n; i++ {
		o := op{Kind: rapid.SampledFrom(kinds).Draw(t, fmt.Sprintf("%s.%d", label, i)), A: rapid.IntRange(0, 3).Draw(t, fmt.Sprintf("%s.%d.a", label, i)), B: rapid.IntRange(0, 3).Draw(t, fmt.Sprintf("%s.%d.b", label, i))}
		switch o.Kind {
		case "notify", "reply", "reply-awaited", "write", "updatedata", "setdata":
			o.Cmd = genList(t, gen.ByFunction(model.FunctionTypeMeasurementListData), fmt.Sprintf("%s.%d", label, i))
		case "write-approval":
			o.Cmd = genList(t, gen.ByFunction(model.FunctionTypeLoadControlLimitListData), fmt.Sprintf("%s.%d", label, i))
		}
		out = append(out, o)
	}
	return out
}

var (
	added   = model.NetworkManagementStateChangeTypeAdded
	removed = model.NetworkManagementStateChangeTypeRemoved
)

// inbound performs one message on connection p (one goroutine per connection, like SHIP).
func (e *env) inbound(p *world.Peer, o op) {
	send := func(cl model.CmdClassifierType, src, dst *model.FeatureAddressType, ack bool, ref *model.MsgCounterType, cmd model.CmdType) {
		p.Send(p.Msg(cl, src, dst, ack, ref, cmd))
	}
	switch o.Kind {
	case "read":
		send(model.CmdClassifierTypeRead, p.FA([]uint{1}, 1), e.meas.Address(), false, nil, model.CmdType{MeasurementListData: &model.MeasurementListDataType{}})
	case "read-discovery":
		send(model.CmdClassifierTypeRead, p.NM(), world.LocalNM(), false, nil, model.CmdType{NodeManagementDetailedDiscoveryData: &model.NodeManagementDetailedDiscoveryDataType{}})
	case "read-usecase":
		send(model.CmdClassifierTypeRead, p.NM(), world.LocalNM(), false, nil, model.CmdType{NodeManagementUseCaseData: &model.NodeManagementUseCaseDataType{}})
	case "notify":
		send(model.CmdClassifierTypeNotify, p.FA([]uint{1}, 3), e.cli.Address(), o.A == 0, nil, *o.Cmd)
	case "notify-not-applicable":
		// a restricted update that cannot be applied - a selector without an item to take the new values from, or a
		// delete filter on top: the message is refused (or its handling recovered); the remote feature it was for
		// must stay usable for the next message and for the application's readers
		f := gen.ByFunction(model.FunctionTypeMeasurementListData)
		flt := model.NewFilterTypePartial()
		flt.MeasurementListDataSelectors = listgen.SelectorFor(f, []uint64{uint64(o.A % 2), 0}).Interface().(*model.MeasurementListDataSelectorsType)
		cmd := model.CmdType{Function: util.Ptr(model.FunctionTypeMeasurementListData), Filter: []model.FilterType{*flt}, MeasurementListData: &model.MeasurementListDataType{}}
		if o.B%2 == 1 {
			cmd.Filter = append([]model.FilterType{{CmdControl: &model.CmdControlType{Delete: &model.ElementTagType{}}, MeasurementListDataSelectors: flt.MeasurementListDataSelectors}}, cmd.Filter...)
		}
		cl, ref := model.CmdClassifierTypeNotify, (*model.MsgCounterType)(nil)
		if o.B >= 2 {
			cl, ref = model.CmdClassifierTypeReply, p.DiscoveryRef
		}
		send(cl, p.FA([]uint{1}, 3), e.cli.Address(), false, ref, cmd)
	case "announce":
		// the peer announces itself again (a further reply to the discovery read)
		send(model.CmdClassifierTypeReply, p.NM(), world.LocalNM(), false, p.DiscoveryRef, model.CmdType{NodeManagementDetailedDiscoveryData: p.DiscoveryData(p.Ents, nil)})
	case "reply":
		send(model.CmdClassifierTypeReply, p.FA([]uint{1}, 3), e.cli.Address(), false, p.DiscoveryRef, *o.Cmd)
	case "reply-awaited":
		// the answer to a request the application is waiting for with a response callback (if there
		// is none at the moment: a stray reply)
		ref := p.DiscoveryRef
		e.mu.Lock()
		if l := e.awaited[p.Ski]; len(l) > 0 {
			c := l[0]
			ref = &c
			e.awaited[p.Ski] = l[1:]
		}
		e.mu.Unlock()
		send(model.CmdClassifierTypeReply, p.FA([]uint{1}, 3), e.cli.Address(), false, ref, *o.Cmd)
	case "write":
		send(model.CmdClassifierTypeWrite, p.FA([]uint{1}, 1), e.meas.Address(), true, nil, *o.Cmd)
	case "write-approval":
		send(model.CmdClassifierTypeWrite, p.FA([]uint{1}, 2), e.lc.Address(), true, nil, *o.Cmd)
	case "subscribe":
		send(model.CmdClassifierTypeCall, p.NM(), world.LocalNM(), true, nil, world.SubscribeCall(p.FA([]uint{2}, 1), e.lc.Address(), model.FeatureTypeTypeLoadControl))
	case "unsubscribe":
		send(model.CmdClassifierTypeCall, p.NM(), world.LocalNM(), true, nil, world.UnsubscribeCall(p.FA([]uint{2}, 1), e.lc.Address()))
	case "bind":
		send(model.CmdClassifierTypeCall, p.NM(), world.LocalNM(), true, nil, world.BindCall(p.FA([]uint{1}, 1), e.meas.Address(), model.FeatureTypeTypeMeasurement))
	case "unbind":
		send(model.CmdClassifierTypeCall, p.NM(), world.LocalNM(), true, nil, world.UnbindCall(p.FA([]uint{1}, 1), e.meas.Address()))
	case "result":
		no := model.ErrorNumberType(o.A)
		send(model.CmdClassifierTypeResult, p.FA([]uint{1}, 3), e.cli.Address(), false, p.DiscoveryRef, model.CmdType{ResultData: &model.ResultDataType{ErrorNumber: &no}})
	case "entity-removed", "entity-added":
		ent := peerTree[1]
		change := &added
		if o.Kind == "entity-removed" {
			ent.Feats = nil
			change = &removed
		}
		cmd := model.CmdType{Function: util.Ptr(model.FunctionTypeNodeManagementDetailedDiscoveryData), Filter: []model.FilterType{*model.NewFilterTypePartial()},
			NodeManagementDetailedDiscoveryData: p.DiscoveryData([]world.EntSpec{ent}, change)}
		send(model.CmdClassifierTypeNotify, p.NM(), world.LocalNM(), false, nil, cmd)
	}
}

var useCaseNames = []model.UseCaseNameType{model.UseCaseNameTypeLimitationOfPowerConsumption, model.UseCaseNameTypeMonitoringOfPowerConsumption, model.UseCaseNameTypeEVSECommissioningAndConfiguration, model.UseCaseNameTypeEVChargingSummary}

// local performs one public API call from an application goroutine.
func (e *env) local(o op, peers []*world.Peer) {
	p := peers[o.A%len(peers)]
	mf := gen.ByFunction(model.FunctionTypeMeasurementListData)
	switch o.Kind {
	case "setdata":
		data, _ := o.Cmd.Data()
		e.meas.SetData(mf.Fn, data.Value)
	case "updatedata":
		data, _ := o.Cmd.Data()
		fp, fd := o.Cmd.ExtractFilter()
		_ = e.meas.UpdateData(mf.Fn, data.Value, fp, fd)
	case "datacopy-encode":
		_, _ = json.Marshal(e.meas.DataCopy(mf.Fn))
		_, _ = json.Marshal(e.w.Local.NodeManagement().DataCopy(model.FunctionTypeNodeManagementUseCaseData))
		if rf := p.Feature([]uint{1}, 3); rf != nil {
			_, _ = json.Marshal(rf.DataCopy(mf.Fn))
		}
	case "usecase-add":
		e.ents[0].AddUseCaseSupport(model.UseCaseActorTypeCEM, useCaseNames[o.B], "1.0.0", "release", true, []model.UseCaseScenarioSupportType{1, 2})
	case "usecase-remove":
		e.ents[0].RemoveUseCaseSupport(model.UseCaseActorTypeCEM, useCaseNames[o.B])
	case "usecase-avail":
		e.ents[0].SetUseCaseAvailability(model.UseCaseActorTypeCEM, useCaseNames[o.B], o.A%2 == 0)
	case "add-entity":
		ne := spine.NewEntityLocal(e.w.Local, model.EntityTypeTypeEV, spine.NewAddressEntityType([]uint{uint(5 + o.B)}), 100*time.Millisecond)
		ne.GetOrAddFeature(model.FeatureTypeTypeMeasurement, model.RoleTypeServer).AddFunctionType(model.FunctionTypeMeasurementListData, true, false)
		e.w.Local.AddEntity(ne)
		e.mu.Lock()
		e.extra = append(e.extra, ne)
		e.mu.Unlock()
	case "remove-entity":
		e.mu.Lock()
		var x api.EntityLocalInterface
		if len(e.extra) > 0 {
			x = e.extra[0]
			e.extra = e.extra[1:]
		}
		e.mu.Unlock()
		if x != nil {
			e.w.Local.RemoveEntity(x)
		}
	case "getoradd":
		f := e.ents[0].GetOrAddFeature(model.FeatureTypeTypeElectricalConnection, model.RoleTypeServer)
		f.AddFunctionType(model.FunctionTypeElectricalConnectionDescriptionListData, true, false)
	case "addfunction":
		e.meas.AddFunctionType(model.FunctionTypeMeasurementConstraintsListData, true, o.B%2 == 0)
		_ = e.meas.Functions()
	case "subscribe-remote":
		_, _ = e.cli.SubscribeToRemote(p.FA([]uint{1}, 3))
		_ = e.cli.HasSubscriptionToRemote(p.FA([]uint{1}, 3))
	case "bind-remote":
		_, _ = e.cli.BindToRemote(p.FA([]uint{1}, 3))
		if o.B == 0 {
			_, _ = e.cli.RemoveRemoteBinding(p.FA([]uint{1}, 3))
		}
	case "request-remote":
		if rf := p.Feature([]uint{1}, 3); rf != nil {
			_, _ = e.cli.RequestRemoteData(mf.Fn, nil, nil, rf)
		}
	case "request-awaited":
		// a request whose answer the application wants to be told about
		if rf := p.Feature([]uint{1}, 3); rf != nil {
			id := model.MeasurementIdType(requestSerial.Add(1))
			if ctr, err := e.cli.RequestRemoteData(mf.Fn, &model.MeasurementListDataSelectorsType{MeasurementId: &id}, nil, rf); err == nil && ctr != nil {
				_ = e.cli.AddResponseCallback(*ctr, func(api.ResponseMessage) {})
				e.mu.Lock()
				if e.awaited == nil {
					e.awaited = map[string][]model.MsgCounterType{}
				}
				e.awaited[p.Ski] = append(e.awaited[p.Ski], *ctr)
				e.mu.Unlock()
			}
		}
	case "request-burst":
		// more different unanswered requests than the sender remembers (20): the oldest are evicted
		// while responses come in on the connection
		if rf := p.Feature([]uint{1}, 3); rf != nil {
			for i := 0; i < 24; i++ {
				id := model.MeasurementIdType(requestSerial.Add(1))
				_, _ = e.cli.RequestRemoteData(mf.Fn, &model.MeasurementListDataSelectorsType{MeasurementId: &id}, nil, rf)
			}
		}
	case "heartbeat-start":
		_ = e.ents[0].HeartbeatManager().StartHeartbeat()
	case "heartbeat-stop":
		e.ents[0].HeartbeatManager().StopHeartbeat()
	case "heartbeat-running":
		_ = e.ents[0].HeartbeatManager().IsHeartbeatRunning()
	case "event-subscribe":
		h := &world.EventLog{}
		_ = spine.Events.Subscribe(h)
		e.mu.Lock()
		e.handlers = append(e.handlers, h)
		e.mu.Unlock()
	case "event-unsubscribe":
		e.mu.Lock()
		var h *world.EventLog
		if len(e.handlers) > 0 {
			h = e.handlers[0]
			e.handlers = e.handlers[1:]
		}
		e.mu.Unlock()
		if h != nil {
			_ = spine.Events.Unsubscribe(h)
		}
	case "lookup-notify":
		if d := e.w.Local.RemoteDeviceForSki(p.Ski); d != nil {
			_, _ = d.Sender().DatagramForMsgCounter(model.MsgCounterType(3 + o.B))
		}
	case "describe":
		e.meas.SetDescriptionString(fmt.Sprintf("measurement %d", o.B))
		_ = e.meas.Description()
		_ = e.meas.Information()
	case "registry-read":
		if d := e.w.Local.RemoteDeviceForSki(p.Ski); d != nil {
			_ = e.w.Local.SubscriptionManager().Subscriptions(d)
			_ = e.w.Local.BindingManager().Bindings(d)
		}
		_ = e.w.Local.BindingManager().HasLocalFeatureRemoteBinding(e.lc.Address(), p.FA([]uint{1}, 2))
	case "remote-tree-read":
		if d := e.w.Local.RemoteDeviceForSki(p.Ski); d != nil {
			for i, en := range d.Entities() {
				if en == nil {
					tornRead(fmt.Sprintf("DeviceRemote.Entities() returned a list with a nil entry at index %d", i))
					continue
				}
				for _, f := range en.Features() {
					if f == nil {
						tornRead("EntityRemote.Features() returned a list with a nil entry")
						continue
					}
					_ = f.Operations()
					_ = f.Address()
				}
			}
			_ = d.UseCases()
			_ = d.Address()
			_ = d.DestinationData()
			_ = d.DeviceType()
			_ = d.FeatureSet()
		}
		_ = e.w.Local.RemoteDevices()
		_ = e.w.Local.DestinationData()
	}
}

// ---------------------------------------------------------------------------------------------
// workload

func dumpAll() string {
	buf := make([]byte, 1<<20)
	return string(buf[:runtime.Stack(buf, true)])
}

var lockWait = regexp.MustCompile(`(?s)goroutine \d+ \[(?:sync\.Mutex\.Lock|sync\.RWMutex\.R?Lock|semacquire)[^\]]*\]:\n(.*?)\n\n`)

// parkedInStackLocks counts goroutines waiting for a mutex from inside spine-go.
func parkedInStackLocks(dump string) (n int, where []string) {
	for _, m := range lockWait.FindAllStringSubmatch(dump+"\n\n", -1) {
		if f := world.SpineFrames(m[1]); len(f) > 0 {
			n++
			where = append(where, f[0])
		}
	}
	return
}

// awaitOrDiagnose: see world.AwaitOrDiagnose (60 s patience, 10 minutes in total).
func awaitOrDiagnose(done <-chan struct{}) (sig string, detail string, inconclusive bool) {
	where, detail, inconclusive := world.AwaitOrDiagnose(done, 60*time.Second, 10*time.Minute, 2)
	if where != "" {
		return "C17/deadlock/" + where, "the workload did " + detail, false
	}
	return "", detail, inconclusive
}

func TestWorkloads(t *testing.T) {
	rapid.Check(t, world.Prop(func(t *rapid.T) {
		nPeers := rapid.IntRange(2, 3).Draw(t, "peers")
		nApp := rapid.IntRange(2, 7).Draw(t, "appGoroutines")
		size := rapid.IntRange(20, world.EnvInt("VERIF_C17_OPS", 60)).Draw(t, "opsPerGoroutine")
		var inb [][]op
		for i := 0; i < nPeers; i++ {
			inb = append(inb, genOps(t, inboundKinds, size, fmt.Sprintf("in%d", i)))
		}
		var app [][]op
		for i := 0; i < nApp; i++ {
			app = append(app, genOps(t, localKinds, size, fmt.Sprintf("app%d", i)))
		}
		reconnects := rapid.IntRange(0, 2).Draw(t, "reconnects")
		e := newEnv(nPeers)
		peers := append([]*world.Peer(nil), e.w.Peers...)
		var wg sync.WaitGroup
		start := make(chan struct{})
		var kindsSeen sync.Map
		for i := range inb {
			wg.Add(1)
			go func(i int) {
				defer wg.Done()
				<-start
				p := peers[i]
				for k, o := range inb[i] {
					// the last peer is disconnected and connected again in between (from its own
					// connection goroutine, as the SHIP layer would do it)
					if i == nPeers-1 && reconnects > 0 && k > 0 && k%(len(inb[i])/(reconnects+1)+1) == 0 {
						e.w.Local.RemoveRemoteDeviceConnection(p.Ski)
						np := &world.Peer{W: e.w, Idx: p.Idx, Ski: p.Ski, Addr: p.Addr, Cap: &world.Capture{}}
						np.Reader = e.w.Local.SetupRemoteDevice(np.Ski, np.Cap)
						np.Dev = e.w.Local.RemoteDeviceForSki(np.Ski)
						if msgs := np.Cap.All(); len(msgs) > 0 {
							np.DiscoveryRef = msgs[0].D.Header.MsgCounter
						}
						np.Send(np.Msg(model.CmdClassifierTypeReply, np.NM(), world.LocalNM(), false, np.DiscoveryRef,
							model.CmdType{NodeManagementDetailedDiscoveryData: np.DiscoveryData(world.WithDeviceInfo(peerTree), nil)}))
						p = np
						kindsSeen.Store("reconnect", true)
					}
					e.inbound(p, o)
					kindsSeen.Store("in:"+o.Kind, true)
				}
			}(i)
		}
		for i := range app {
			wg.Add(1)
			go func(i int) {
				defer wg.Done()
				<-start
				for _, o := range app[i] {
					if o.Kind == "reconnect" {
						continue
					}
					e.local(o, peers)
					kindsSeen.Store("app:"+o.Kind, true)
				}
			}(i)
		}
		done := make(chan struct{})
		go func() { wg.Wait(); close(done) }()
		began := time.Now()
		close(start)
		defer func() { noteDuration(time.Since(began)) }()
		if sig, detail, inconclusive := awaitOrDiagnose(done); sig != "" {
			otherFailure.Store(true)
			world.Fail(t, sig, "%s", detail)
		} else if inconclusive {
			otherFailure.Store(true)
			t.Fatalf("inconclusive: workload did not finish within 10 minutes without evidence of a lock cycle inside spine-go\n%s", detail)
		}
		// let timers and asynchronous handlers finish, stop the heartbeat
		e.w.Teardown()
		for _, x := range e.extra {
			if hm := x.HeartbeatManager(); hm != nil {
				hm.StopHeartbeat()
			}
		}
		time.Sleep(20 * time.Millisecond)
		world.WaitGoroutines(0, 300*time.Millisecond)
		var kinds []string
		kindsSeen.Range(func(k, _ any) bool { kinds = append(kinds, k.(string)); return true })
		sort.Strings(kinds)
		nIn, nAppKinds := 0, 0
		for _, k := range kinds {
			if strings.HasPrefix(k, "in:") {
				nIn++
			} else {
				nAppKinds++
			}
		}
		nt := nIn >= 3 && nAppKinds >= 3
		world.Record(world.Hash(nPeers, nApp, size, kinds, inb, app), nt, fmt.Sprintf("goroutines/%d", nPeers+nApp))
		for _, k := range kinds {
			world.Label("op/" + k)
		}
		if nt && world.WantSample() {
			world.Sample(map[string]any{"connections": nPeers, "application_goroutines": nApp, "ops_per_goroutine": size, "operation_kinds": kinds})
		}
	}))
}

var (
	durMu  sync.Mutex
	durMax time.Duration
)

func noteDuration(d time.Duration) {
	durMu.Lock()
	if d > durMax {
		durMax = d
		world.SetExtra("slowest_workload_ms", d.Milliseconds())
	}
	durMu.Unlock()
	switch {
	case d > 20*time.Second:
		world.Label("workload-duration/>20s")
	case d > 5*time.Second:
		world.Label("workload-duration/5-20s")
	case d > time.Second:
		world.Label("workload-duration/1-5s")
	default:
		world.Label("workload-duration/<1s")
	}
}

func uniq(l []string) []string {
	var out []string
	for i, s := range l {
		if i == 0 || s != l[i-1] {
			out = append(out, s)
		}
	}
	return out
}

// ---------------------------------------------------------------------------------------------
// race report classification

type raceReport struct {
	frames [2]string // innermost spine-go frame of the two accesses ("" if none)
	text   string
}

func parseReports(text string) []raceReport {
	var out []raceReport
	for _, blk := range strings.Split(text, "==================") {
		if !strings.Contains(blk, "WARNING: DATA RACE") {
			continue
		}
		// the two access stacks come first; goroutine creation stacks follow
		parts := regexp.MustCompile(`(?m)^(?:Previous )?(?:[Rr]ead|[Ww]rite|[Aa]tomic [a-z]+) (?:at|by) .*$`).Split(blk, -1)
		r := raceReport{text: strings.TrimSpace(blk)}
		for i := 1; i < len(parts) && i <= 2; i++ {
			stack := parts[i]
			if j := strings.Index(stack, "\nGoroutine "); j >= 0 {
				stack = stack[:j]
			}
			if f := world.SpineFrames(stack); len(f) > 0 {
				r.frames[i-1] = f[0]
			}
		}
		out = append(out, r)
	}
	return out
}

func baseFn(f string) string { return f } // world.SpineFrames already normalises

// classifyRaces reads the race detector's log files, prints one VERIF-FAIL line per unknown state
// and returns the number of unknown reports.
func classifyRaces() int {
	gorace := os.Getenv("GORACE")
	m := regexp.MustCompile(`log_path=(\S+)`).FindStringSubmatch(gorace)
	if m == nil {
		return 0
	}
	files, _ := filepath.Glob(m[1] + ".*")
	var reports []raceReport
	for _, f := range files {
		b, err := os.ReadFile(f)
		if err == nil {
			reports = append(reports, parseReports(string(b))...)
		}
	}
	racesSeen = len(reports)
	states := world.RaceStates()
	unknown := 0
	seenSig := map[string]bool{}
	counts := map[string]int{}
	for _, r := range reports {
		a, b := baseFn(r.frames[0]), baseFn(r.frames[1])
		if a == "" && b == "" {
			fmt.Printf("VERIF-HARNESS-RACE :: a data race without any spine-go frame (harness bug)\n%s\n", r.text)
			otherFailure.Store(true)
			continue
		}
		pair := []string{a, b}
		sort.Strings(pair)
		state := ""
		for _, s := range states {
			if s.Covers(a) && s.Covers(b) {
				state = s.ID
				break
			}
		}
		if state != "" {
			counts[state]++
			world.HitKnown(state)
			continue
		}
		unknown++
		sig := "C17/race/" + pair[0] + "|" + pair[1]
		counts[sig]++
		if !seenSig[sig] {
			seenSig[sig] = true
			path := world.SaveReplay(fmt.Sprintf("race-%d.txt.json", len(seenSig)), map[string]any{"test": "TestWorkloads", "signature": sig, "report": r.text})
			_ = path
			fmt.Printf("VERIF-FAIL sig=%s :: data race between %s and %s\n%s\n", sig, pair[0], pair[1], r.text)
		}
	}
	world.SetExtra("race_reports", len(reports))
	world.SetExtra("race_reports_by_state", counts)
	fmt.Printf("VERIF-RACES total=%d unknown=%d\n", len(reports), unknown)
	return unknown
}

// TestStorms: focused free-running storms on windows the random workloads hit rarely.
//
//	approvals-vs-disconnects: approvals (and running approval timers) of one connection against
//	repeated removal and set-up of another connection (lock nesting of the approval maps);
//	entities-vs-discovery: AddEntity / RemoveEntity against discovery reads and (un)subscriptions;
//	outbound-requests-on-two-connections: one local client feature subscribing / binding to two peers at once.
func TestStorms(t *testing.T) {
	rounds := world.EnvInt("VERIF_ROUNDS", 6)
	run := func(name string, body func(e *env, stop *atomic.Bool) []func()) {
		for r := 0; r < rounds; r++ {
			e := newEnv(2)
			var stop atomic.Bool
			fns := body(e, &stop)
			var wg sync.WaitGroup
			start := make(chan struct{})
			for _, f := range fns {
				wg.Add(1)
				go func(f func()) { defer wg.Done(); <-start; f() }(f)
			}
			done := make(chan struct{})
			go func() { wg.Wait(); close(done) }()
			close(start)
			if sig, detail, inconclusive := awaitOrDiagnose(done); sig != "" {
				otherFailure.Store(true)
				fmt.Printf("VERIF-FAIL sig=%s :: storm %s: %s\n", sig, name, detail)
				world.FlushStats()
				os.Exit(1)
			} else if inconclusive {
				otherFailure.Store(true)
				t.Fatalf("inconclusive: storm %s did not finish within 10 minutes without evidence of a lock cycle\n%s", name, detail)
			}
			e.w.Teardown()
			time.Sleep(20 * time.Millisecond)
			world.WaitGoroutines(0, 300*time.Millisecond)
			world.Record(world.Hash("storm", name, r), true, "storm/"+name)
		}
	}
	// restricted (partial / delete) updates of many different list functions on different local features at the same
	// moment: features that have nothing to do with each other must not share unsynchronised state. It runs first: what
	// a process does for the first time with a list type (lazily filled tables) happens here while other types are
	// being updated
	run("restricted-updates-of-many-list-types", func(e *env, stop *atomic.Bool) []func() {
		const workers = 6
		type job struct {
			f    gen.Func
			feat api.FeatureLocalInterface
		}
		var jobs [workers][]job
		n := 0
		for _, ft := range gen.UsableFeatureTypes() {
			if ft == model.FeatureTypeTypeDeviceDiagnosis {
				continue
			}
			var feat api.FeatureLocalInterface
			for _, f := range gen.ForFeature(ft) {
				if !f.IsList || !listgen.CapsOf(&f).Keyed {
					continue
				}
				if feat == nil {
					feat = e.ents[0].GetOrAddFeature(ft, model.RoleTypeServer)
				}
				feat.AddFunctionType(f.Fn, true, true)
				jobs[n%workers] = append(jobs[n%workers], job{f, feat})
				n++
			}
		}
		var fns []func()
		for wi := 0; wi < workers; wi++ {
			mine := jobs[wi]
			fns = append(fns, func() {
				for i := range mine {
					f, feat := &mine[i].f, mine[i].feat
					feat.SetData(f.Fn, refmodel.Payload(f, []reflect.Value{item(f, 0), item(f, 1)}))
					for _, u := range []refmodel.Update{
						{Partial: true, Items: []reflect.Value{item(f, 1), item(f, 2)}},
						{Partial: true, Items: []reflect.Value{reflect.New(f.ItemType).Elem()}},
					} {
						fp, fd := listgen.Filters(f, u)
						_ = feat.UpdateData(f.Fn, refmodel.Payload(f, u.Items), fp, fd)
					}
					if listgen.CapsOf(f).Selectors {
						u := refmodel.Update{Delete: true, DeleteSelector: listgen.SelectorFor(f, make([]uint64, len(f.KeyFields)))}
						fp, fd := listgen.Filters(f, u)
						_ = feat.UpdateData(f.Fn, refmodel.Payload(f, nil), fp, fd)
					}
					_ = world.JSON(feat.DataCopy(f.Fn))
				}
			})
		}
		return fns
	})
	lf := gen.ByFunction(model.FunctionTypeLoadControlLimitListData)
	run("approvals-vs-disconnects", func(e *env, stop *atomic.Bool) []func() {
		p0, p1 := e.w.Peers[0], e.w.Peers[1]
		cmd := listgen.Cmd(lf, refmodel.Update{Partial: true, Items: []reflect.Value{item(lf, 0)}})
		return []func(){
			func() {
				for i := 0; i < 300; i++ {
					p0.Send(p0.Msg(model.CmdClassifierTypeWrite, p0.FA([]uint{1}, 2), e.lc.Address(), true, nil, cmd))
				}
				stop.Store(true)
			},
			func() {
				p := p1
				for !stop.Load() {
					e.w.Local.RemoveRemoteDeviceConnection(p.Ski)
					np := &world.Peer{W: e.w, Idx: p.Idx, Ski: p.Ski, Addr: p.Addr, Cap: &world.Capture{}}
					np.Reader = e.w.Local.SetupRemoteDevice(np.Ski, np.Cap)
					np.Dev = e.w.Local.RemoteDeviceForSki(np.Ski)
					if msgs := np.Cap.All(); len(msgs) > 0 {
						np.DiscoveryRef = msgs[0].D.Header.MsgCounter
					}
					np.Send(np.Msg(model.CmdClassifierTypeReply, np.NM(), world.LocalNM(), false, np.DiscoveryRef,
						model.CmdType{NodeManagementDetailedDiscoveryData: np.DiscoveryData(world.WithDeviceInfo(peerTree), nil)}))
					p = np
				}
			},
		}
	})
	run("entity-churn-vs-disconnects", func(e *env, stop *atomic.Bool) []func() {
		// local entities are added and removed (announced to subscribers) while a peer that holds
		// subscriptions is disconnected and connected again: device lock vs registry lock
		p1 := e.w.Peers[1]
		return []func(){
			func() {
				for i := 0; i < 300; i++ {
					ne := spine.NewEntityLocal(e.w.Local, model.EntityTypeTypeEV, spine.NewAddressEntityType([]uint{uint(5 + i%3)}), 100*time.Millisecond)
					e.w.Local.AddEntity(ne)
					e.w.Local.RemoveEntity(ne)
				}
				stop.Store(true)
			},
			func() {
				p := p1
				for !stop.Load() {
					e.w.Local.RemoveRemoteDeviceConnection(p.Ski)
					np := &world.Peer{W: e.w, Idx: p.Idx, Ski: p.Ski, Addr: p.Addr, Cap: &world.Capture{}}
					np.Reader = e.w.Local.SetupRemoteDevice(np.Ski, np.Cap)
					np.Dev = e.w.Local.RemoteDeviceForSki(np.Ski)
					if msgs := np.Cap.All(); len(msgs) > 0 {
						np.DiscoveryRef = msgs[0].D.Header.MsgCounter
					}
					np.Send(np.Msg(model.CmdClassifierTypeReply, np.NM(), world.LocalNM(), false, np.DiscoveryRef,
						model.CmdType{NodeManagementDetailedDiscoveryData: np.DiscoveryData(world.WithDeviceInfo(peerTree), nil)}))
					np.Send(np.Msg(model.CmdClassifierTypeCall, np.NM(), world.LocalNM(), true, nil, world.SubscribeCall(np.FA([]uint{1}, 1), e.meas.Address(), model.FeatureTypeTypeMeasurement)))
					np.Send(np.Msg(model.CmdClassifierTypeCall, np.NM(), world.LocalNM(), true, nil, world.SubscribeCall(np.NM(), world.LocalNM(), model.FeatureTypeTypeNodeManagement)))
					p = np
				}
			},
		}
	})
	run("remote-entities-vs-readers", func(e *env, stop *atomic.Bool) []func() {
		// a peer's entity comes and goes (discovery notifications) while application goroutines walk
		// that peer's tree through the public accessors and registries are queried
		p0 := e.w.Peers[0]
		reader := func() {
			for !stop.Load() {
				e.local(op{Kind: "remote-tree-read", A: 0}, e.w.Peers)
				e.local(op{Kind: "registry-read", A: 0}, e.w.Peers)
				if d := e.w.Local.RemoteDeviceForSki(p0.Ski); d != nil {
					for i, en := range d.Entities() {
						if en == nil {
							tornRead(fmt.Sprintf("DeviceRemote.Entities() returned a list with a nil entry at index %d", i))
							continue
						}
						_ = d.FeatureByEntityTypeAndRole(en, model.FeatureTypeTypeLoadControl, model.RoleTypeClient)
						_ = en.Address()
					}
					_ = d.Entity([]model.AddressEntityType{2})
				}
			}
		}
		return []func(){
			func() {
				for i := 0; i < 200; i++ {
					e.inbound(p0, op{Kind: "entity-removed"})
					e.inbound(p0, op{Kind: "subscribe"})
					e.inbound(p0, op{Kind: "entity-added"})
					e.inbound(p0, op{Kind: "subscribe"})
				}
				stop.Store(true)
			},
			reader, reader,
		}
	})
	// use case changes (the node management data is set and its subscribers notified) against
	// subscription requests on one connection and discovery replies (announcements) on another
	run("usecases-vs-subscriptions-vs-announcements", func(e *env, stop *atomic.Bool) []func() {
		p0, p1 := e.w.Peers[0], e.w.Peers[1]
		return []func(){
			func() {
				for i := 0; i < 400; i++ {
					uc := useCaseNames[i%len(useCaseNames)]
					e.ents[0].AddUseCaseSupport(model.UseCaseActorTypeCEM, uc, model.SpecificationVersionType("1.0.0"), "", true, []model.UseCaseScenarioSupportType{1, 2})
					e.ents[0].SetUseCaseAvailability(model.UseCaseActorTypeCEM, uc, i%2 == 0)
					e.ents[0].RemoveUseCaseSupport(model.UseCaseActorTypeCEM, uc)
				}
				stop.Store(true)
			},
			func() {
				for !stop.Load() {
					p0.Send(p0.Msg(model.CmdClassifierTypeCall, p0.NM(), world.LocalNM(), true, nil, world.SubscribeCall(p0.NM(), world.LocalNM(), model.FeatureTypeTypeNodeManagement)))
					p0.Send(p0.Msg(model.CmdClassifierTypeCall, p0.NM(), world.LocalNM(), true, nil, world.UnsubscribeCall(p0.NM(), world.LocalNM())))
				}
			},
			func() {
				for !stop.Load() {
					// the peer announces itself again (a reply to the discovery read the stack sent)
					cmd := model.CmdType{NodeManagementDetailedDiscoveryData: p1.DiscoveryData(p1.Ents, nil)}
					p1.Send(p1.Msg(model.CmdClassifierTypeReply, p1.NM(), world.LocalNM(), false, p1.DiscoveryRef, cmd))
				}
			},
		}
	})
	// a peer announces itself again and again (its device data is updated) while application goroutines ask the
	// remote device object for its address, type, feature set and destination data
	run("announcements-vs-device-readers", func(e *env, stop *atomic.Bool) []func() {
		p0 := e.w.Peers[0]
		reader := func() {
			for !stop.Load() {
				if d := e.w.Local.RemoteDeviceForSki(p0.Ski); d != nil {
					_ = d.DestinationData()
					_ = d.Address()
					_ = d.DeviceType()
					_ = d.FeatureSet()
				}
			}
		}
		return []func(){
			func() {
				for i := 0; i < 400; i++ {
					e.inbound(p0, op{Kind: "announce"})
				}
				stop.Store(true)
			},
			reader, reader,
		}
	})
	// the heartbeat function is added to a DeviceDiagnosis server feature (which sets the heartbeat manager up and
	// starts it) at the very moment another goroutine stops that entity's heartbeat or removes the entity
	run("heartbeat-setup-vs-stop", func(e *env, stop *atomic.Bool) []func() {
		const n = 150
		type he struct {
			ent  *spine.EntityLocal
			feat api.FeatureLocalInterface
		}
		var hs []he
		for i := 0; i < n; i++ {
			ne := spine.NewEntityLocal(e.w.Local, model.EntityTypeTypeEV, spine.NewAddressEntityType([]uint{uint(20 + i)}), 100*time.Millisecond)
			hs = append(hs, he{ne, ne.GetOrAddFeature(model.FeatureTypeTypeDeviceDiagnosis, model.RoleTypeServer)})
			if i%2 == 0 {
				e.w.Local.AddEntity(ne)
			}
		}
		var arrived atomic.Int32
		meet := func(i int) {
			arrived.Add(1)
			for spins := 0; arrived.Load() < int32(2*(i+1)) && spins < 50_000_000; spins++ {
			}
		}
		return []func(){
			func() {
				for i := range hs {
					meet(i)
					hs[i].feat.AddFunctionType(model.FunctionTypeDeviceDiagnosisHeartbeatData, true, false)
				}
				// nothing keeps running after the storm (the other goroutine may have been through before the last start)
				for i := range hs {
					hs[i].ent.HeartbeatManager().StopHeartbeat()
				}
			},
			func() {
				for i := range hs {
					meet(i)
					if i%4 == 0 {
						e.w.Local.RemoveEntity(hs[i].ent)
					} else {
						hs[i].ent.HeartbeatManager().StopHeartbeat()
					}
					_ = hs[i].ent.HeartbeatManager().IsHeartbeatRunning()
				}
				for i := range hs {
					hs[i].ent.HeartbeatManager().StopHeartbeat()
				}
			},
		}
	})
	// bind requests for one server feature on two connections at once (one wins), deletes, writes
	run("binds-vs-binds", func(e *env, stop *atomic.Bool) []func() {
		p0, p1 := e.w.Peers[0], e.w.Peers[1]
		contend := func(p *world.Peer) func() {
			return func() {
				for i := 0; i < 300 && !stop.Load(); i++ {
					p.Send(p.Msg(model.CmdClassifierTypeCall, p.NM(), world.LocalNM(), true, nil, world.BindCall(p.FA([]uint{1}, 1), e.meas.Address(), model.FeatureTypeTypeMeasurement)))
					p.Send(p.Msg(model.CmdClassifierTypeWrite, p.FA([]uint{1}, 1), e.meas.Address(), true, nil, model.CmdType{MeasurementListData: &model.MeasurementListDataType{}}))
					p.Send(p.Msg(model.CmdClassifierTypeCall, p.NM(), world.LocalNM(), true, nil, world.UnbindCall(p.FA([]uint{1}, 1), e.meas.Address())))
				}
				stop.Store(true)
			}
		}
		return []func(){contend(p0), contend(p1), func() {
			for !stop.Load() {
				_ = e.w.Local.BindingManager().BindingsOnFeature(*e.meas.Address())
				_ = e.w.Local.BindingManager().Bindings(p0.Dev)
			}
		}}
	})
	// one local client feature asks features of two different peers for subscriptions and bindings at the
	// same moment (requests on different connections do not wait for each other), asks what it holds,
	// gives them up again - while a remote entity of one of the peers goes and comes back
	run("outbound-requests-on-two-connections", func(e *env, stop *atomic.Bool) []func() {
		p0, p1 := e.w.Peers[0], e.w.Peers[1]
		ask := func(p *world.Peer) func() {
			return func() {
				a := p.FA([]uint{1}, 3)
				for i := 0; i < 300 && !stop.Load(); i++ {
					_, _ = e.cli.SubscribeToRemote(a)
					_ = e.cli.HasSubscriptionToRemote(a)
					_, _ = e.cli.BindToRemote(a)
					_ = e.cli.HasBindingToRemote(a)
					if i%3 == 2 {
						_, _ = e.cli.RemoveRemoteSubscription(a)
						_, _ = e.cli.RemoveRemoteBinding(a)
					}
				}
				stop.Store(true)
			}
		}
		return []func(){ask(p0), ask(p1), func() {
			for !stop.Load() {
				e.inbound(p1, op{Kind: "entity-removed"})
				e.inbound(p1, op{Kind: "entity-added"})
			}
		}}
	})
	run("entities-vs-discovery", func(e *env, stop *atomic.Bool) []func() {
		p0, p1 := e.w.Peers[0], e.w.Peers[1]
		return []func(){
			func() {
				for i := 0; i < 150; i++ {
					ne := spine.NewEntityLocal(e.w.Local, model.EntityTypeTypeEV, spine.NewAddressEntityType([]uint{uint(5 + i%3)}), 100*time.Millisecond)
					ne.GetOrAddFeature(model.FeatureTypeTypeMeasurement, model.RoleTypeServer).AddFunctionType(model.FunctionTypeMeasurementListData, true, false)
					e.w.Local.AddEntity(ne)
					e.w.Local.RemoveEntity(ne)
				}
				stop.Store(true)
			},
			func() {
				for !stop.Load() {
					p0.Send(p0.Msg(model.CmdClassifierTypeRead, p0.NM(), world.LocalNM(), false, nil, model.CmdType{NodeManagementDetailedDiscoveryData: &model.NodeManagementDetailedDiscoveryDataType{}}))
				}
			},
			func() {
				for !stop.Load() {
					p1.Send(p1.Msg(model.CmdClassifierTypeCall, p1.NM(), world.LocalNM(), true, nil, world.SubscribeCall(p1.NM(), world.LocalNM(), model.FeatureTypeTypeNodeManagement)))
					p1.Send(p1.Msg(model.CmdClassifierTypeCall, p1.NM(), world.LocalNM(), true, nil, world.UnsubscribeCall(p1.NM(), world.LocalNM())))
				}
			},
		}
	})
}
