//go:build verif

package sched

import (
	"encoding/json"
	"os"
)

// LoadReplay returns the replay spec named by $VERIF_REPLAY for test, or nil.
func LoadReplay(test string) *ReplaySpec {
	p := os.Getenv("VERIF_REPLAY")
	if p == "" {
		return nil
	}
	b, err := os.ReadFile(p)
	if err != nil {
		return nil
	}
	var s ReplaySpec
	if json.Unmarshal(b, &s) != nil || s.Test != test {
		return nil
	}
	return &s
}
