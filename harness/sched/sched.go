//go:build verif

// Package sched is the controlled-interleaving engine over the build-tag guarded yield points
// of spine-go (spine.VerifYield). Each operation of a scenario runs in its own goroutine, but only
// the goroutines the controller released are running; at a yield point a goroutine parks and the
// controller decides who continues. A released goroutine that neither parks nor finishes within
// the quiescence time-out is waiting for a stack lock held by a parked one: it is marked blocked,
// the controller goes on with the others and picks its events up when they arrive. All
// schedules of a scenario are enumerated by depth-first search with stateless re-execution.
package sched

import (
	"fmt"
	"runtime"
	"strconv"
	"strings"
	"sync"
	"time"

	"github.com/enbility/spine-go/spine"
)

type state int

const (
	notStarted state = iota
	parked
	running
	blocked
	done
)

type event struct {
	thread int
	kind   string // parked | done | panic
	point  string
	val    any
}

// Op is one operation of a scenario.
type Op struct {
	Name string
	Fn   func()
}

// Result of one scheduled execution.
type Result struct {
	Choices  []int    // index chosen among the runnable threads at each decision
	Widths   []int    // number of runnable threads at each decision
	Trace    []string // human readable schedule
	Panics   map[string]string
	Deadlock bool           // some thread never finished
	Parked   map[string]int // how often each yield point was reached by a controlled thread
}

func (r *Result) String() string { return strings.Join(r.Trace, " | ") }

// Quiescence is how long a released thread may stay silent before it is considered blocked.
var Quiescence = 30 * time.Millisecond

func goid() int64 {
	var buf [64]byte
	n := runtime.Stack(buf[:], false)
	// "goroutine 123 [running]:"
	f := strings.Fields(string(buf[:n]))
	if len(f) < 2 {
		return -1
	}
	id, _ := strconv.ParseInt(f[1], 10, 64)
	return id
}

type controller struct {
	mu      sync.Mutex
	byGid   map[int64]int
	resume  []chan struct{}
	events  chan event
	points  map[string]bool // yield points this scenario controls (nil = all)
	passed  map[string]int
	maxPark int // a thread parks at most this often (afterwards it passes through)
	parks   []int
}

var active *controller
var activeMu sync.Mutex

func hook(point string) {
	activeMu.Lock()
	c := active
	activeMu.Unlock()
	if c == nil {
		return
	}
	id := goid()
	c.mu.Lock()
	th, ok := c.byGid[id]
	if ok && c.points != nil && !c.points[point] {
		ok = false
	}
	if ok && c.parks[th] >= c.maxPark {
		ok = false
	}
	if ok {
		c.parks[th]++
	}
	c.mu.Unlock()
	if !ok {
		return
	}
	c.events <- event{thread: th, kind: "parked", point: point}
	<-c.resume[th]
}

// Chooser picks one of n runnable threads.
type Chooser func(n int) int

// Run executes ops under the schedule given by choose. points restricts the yield points that are
// controlled (nil: all).
func Run(ops []Op, points []string, choose Chooser) *Result {
	c := &controller{byGid: map[int64]int{}, events: make(chan event, 1024), passed: map[string]int{}, maxPark: 4}
	if points != nil {
		c.points = map[string]bool{}
		for _, p := range points {
			c.points[p] = true
		}
	}
	c.resume = make([]chan struct{}, len(ops))
	c.parks = make([]int, len(ops))
	for i := range ops {
		c.resume[i] = make(chan struct{}, 1)
	}
	activeMu.Lock()
	active = c
	h := hook
	spine.VerifYield.Store(&h)
	activeMu.Unlock()
	defer func() {
		activeMu.Lock()
		active = nil
		spine.VerifYield.Store(nil)
		activeMu.Unlock()
	}()

	st := make([]state, len(ops))
	res := &Result{Panics: map[string]string{}, Parked: map[string]int{}}
	start := func(i int) {
		go func() {
			c.mu.Lock()
			c.byGid[goid()] = i
			c.mu.Unlock()
			defer func() {
				if r := recover(); r != nil {
					c.events <- event{thread: i, kind: "panic", val: r}
					return
				}
				c.events <- event{thread: i, kind: "done"}
			}()
			ops[i].Fn()
		}()
	}
	apply := func(e event) {
		switch e.kind {
		case "parked":
			st[e.thread] = parked
			res.Parked[e.point]++
			res.Trace = append(res.Trace, fmt.Sprintf("%s parks at %s", ops[e.thread].Name, e.point))
		case "done":
			st[e.thread] = done
			res.Trace = append(res.Trace, fmt.Sprintf("%s done", ops[e.thread].Name))
		case "panic":
			st[e.thread] = done
			res.Panics[ops[e.thread].Name] = fmt.Sprint(e.val)
			res.Trace = append(res.Trace, fmt.Sprintf("%s PANICS: %v", ops[e.thread].Name, e.val))
		}
	}
	settle := func(timeout time.Duration) {
		for {
			anyRunning := false
			for _, s := range st {
				if s == running {
					anyRunning = true
				}
			}
			if !anyRunning {
				// pick up events of blocked threads that became free, without waiting
				for {
					select {
					case e := <-c.events:
						apply(e)
						continue
					default:
					}
					break
				}
				return
			}
			select {
			case e := <-c.events:
				apply(e)
			case <-time.After(timeout):
				for i, s := range st {
					if s == running {
						st[i] = blocked
						res.Trace = append(res.Trace, fmt.Sprintf("%s blocked", ops[i].Name))
					}
				}
				return
			}
		}
	}
	for {
		var runnable []int
		for i, s := range st {
			if s == notStarted || s == parked {
				runnable = append(runnable, i)
			}
		}
		if len(runnable) == 0 {
			break
		}
		k := 0
		if len(runnable) > 1 {
			k = choose(len(runnable))
			res.Choices = append(res.Choices, k)
			res.Widths = append(res.Widths, len(runnable))
		}
		i := runnable[k]
		if st[i] == notStarted {
			res.Trace = append(res.Trace, fmt.Sprintf("start %s", ops[i].Name))
			st[i] = running
			start(i)
		} else {
			res.Trace = append(res.Trace, fmt.Sprintf("resume %s", ops[i].Name))
			st[i] = running
			c.resume[i] <- struct{}{}
		}
		// blocked threads may run again now
		for j, s := range st {
			if s == blocked {
				st[j] = running
			}
		}
		settle(Quiescence)
	}
	// everything released: wait for the stragglers
	deadline := time.Now().Add(5 * time.Second)
	for {
		all := true
		for i, s := range st {
			if s == blocked {
				st[i] = running
			}
			if st[i] != done {
				all = false
			}
		}
		if all {
			break
		}
		if time.Now().After(deadline) {
			res.Deadlock = true
			res.Trace = append(res.Trace, "DEADLOCK: not all operations finished")
			break
		}
		settle(200 * time.Millisecond)
		// a thread that parked again after everything else finished is simply resumed
		for i, s := range st {
			if s == parked {
				st[i] = running
				c.resume[i] <- struct{}{}
			}
		}
	}
	return res
}

// Enumerate runs scenario once per schedule, depth first over all choices. scenario must build a
// fresh world each time and returns the ops plus a judge that is called with the result.
// Returns the number of schedules executed (stops after max).
func Enumerate(points []string, max int, scenario func() (ops []Op, judge func(r *Result))) int {
	var prefix []int
	n := 0
	for {
		ops, judge := scenario()
		pos := 0
		r := Run(ops, points, func(width int) int {
			defer func() { pos++ }()
			if pos < len(prefix) {
				if prefix[pos] < width {
					return prefix[pos]
				}
				return width - 1
			}
			return 0
		})
		n++
		judge(r)
		// next prefix: increment the last choice that has an alternative left
		next := -1
		for i := len(r.Choices) - 1; i >= 0; i-- {
			if r.Choices[i]+1 < r.Widths[i] {
				next = i
				break
			}
		}
		if next < 0 || n >= max {
			return n
		}
		prefix = append(append([]int(nil), r.Choices[:next]...), r.Choices[next]+1)
	}
}

// ReplaySpec is the replay artefact of a schedule-enumeration test.
type ReplaySpec struct {
	Test    string         `json:"test"`
	Params  map[string]int `json:"params"`
	Choices []int          `json:"choices"`
	Trace   []string       `json:"trace,omitempty"`
}

// RunChoices executes ops under a recorded schedule.
func RunChoices(ops []Op, points []string, choices []int) *Result {
	pos := 0
	return Run(ops, points, func(width int) int {
		defer func() { pos++ }()
		if pos < len(choices) && choices[pos] < width {
			return choices[pos]
		}
		return 0
	})
}
