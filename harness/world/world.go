package world

import (
	"encoding/json"
	"fmt"
	"reflect"
	"runtime"
	"sync"
	"time"

	shipapi "github.com/enbility/ship-go/api"
	"github.com/enbility/spine-go/api"
	"github.com/enbility/spine-go/model"
	"github.com/enbility/spine-go/spine"
	"github.com/enbility/spine-go/util"
)

const LocalAddr = "d:_l:LOCAL"

// FuncSpec is one announced / added function with its operations.
type FuncSpec struct {
	Fn          model.FunctionType
	Read, Write bool
}

type FeatSpec struct {
	ID    uint
	Type  model.FeatureTypeType
	Role  model.RoleType
	Funcs []FuncSpec
	Desc  string
}

type EntSpec struct {
	Addr  []uint
	Type  model.EntityTypeType
	Desc  string
	Feats []FeatSpec
}

// Ev is one event seen by the application-level handler.
type Ev struct {
	Seq uint64
	P   api.EventPayload
}

type EventLog struct {
	mu    sync.Mutex
	evs   []Ev
	taken int
}

func (l *EventLog) HandleEvent(p api.EventPayload) {
	l.mu.Lock()
	l.evs = append(l.evs, Ev{Seq: Stamp(), P: p})
	l.mu.Unlock()
}

func (l *EventLog) Drain() []Ev {
	l.mu.Lock()
	defer l.mu.Unlock()
	out := append([]Ev(nil), l.evs[l.taken:]...)
	l.taken = len(l.evs)
	return out
}

func (l *EventLog) Len() int {
	l.mu.Lock()
	defer l.mu.Unlock()
	return len(l.evs)
}

// ResetEvents zeroes the process-global event bus. Only call when no goroutine of an
// earlier case is alive.
func ResetEvents() {
	v := reflect.ValueOf(&spine.Events).Elem()
	v.Set(reflect.Zero(v.Type()))
}

type World struct {
	Local  *spine.DeviceLocal
	Peers  []*Peer
	Events *EventLog
	base   int // goroutine baseline for Sync
	base0  int // baseline at creation (before any persistent goroutine)
}

// New creates a local device (with its DeviceInformation entity) and an application event log.
func New() *World {
	ResetEvents()
	w := &World{Events: &EventLog{}}
	w.Local = spine.NewDeviceLocal("Brand", "Model", "Serial", "Code", LocalAddr,
		model.DeviceTypeTypeEnergyManagementSystem, model.NetworkManagementFeatureSetTypeSmart)
	_ = spine.Events.Subscribe(w.Events)
	w.base = runtime.NumGoroutine()
	w.base0 = w.base
	return w
}

// Rebase declares the currently running goroutines as the quiescent baseline (call after
// starting persistent goroutines such as heartbeats).
func (w *World) Rebase() { w.base = runtime.NumGoroutine() }

func (w *World) AdjustBase(n int) { w.base += n }

// Sync waits until every goroutine the stack spawned (asynchronous event handlers, callbacks)
// has finished, i.e. the goroutine count is back at the baseline. Returns false on timeout.
func (w *World) Sync() bool {
	if !WaitGoroutines(w.base, 10*time.Second) {
		buf := make([]byte, 1<<16)
		n := runtime.Stack(buf, true)
		panic(fmt.Sprintf("harness: goroutines did not settle (have %d, baseline %d)\n%s", runtime.NumGoroutine(), w.base, buf[:n]))
	}
	return true
}

// SyncQuiet is Sync without the harness panic on time-out (for checks that expect wedges).
func (w *World) SyncQuiet(max time.Duration) bool { return WaitGoroutines(w.base, max) }

func WaitGoroutines(base int, max time.Duration) bool {
	deadline := time.Now().Add(max)
	for i := 0; ; i++ {
		if runtime.NumGoroutine() <= base {
			return true
		}
		if i < 50 {
			runtime.Gosched()
		} else {
			time.Sleep(50 * time.Microsecond)
			if time.Now().After(deadline) {
				return false
			}
		}
	}
}

// AddLocalEntity creates and adds a local entity. hb must be a positive multiple of 100ms.
func (w *World) AddLocalEntity(addr []uint, et model.EntityTypeType, hb time.Duration) *spine.EntityLocal {
	e := spine.NewEntityLocal(w.Local, et, spine.NewAddressEntityType(addr), hb)
	w.Local.AddEntity(e)
	return e
}

// AddLocalFeature creates a feature with the entity's next id, adds the functions and attaches it.
// Adding the heartbeat function starts a persistent goroutine, so the baseline is re-taken.
func (w *World) AddLocalFeature(e api.EntityLocalInterface, spec FeatSpec) api.FeatureLocalInterface {
	w.Sync()
	defer w.Rebase()
	return AddLocalFeature(e, spec)
}

func AddLocalFeature(e api.EntityLocalInterface, spec FeatSpec) api.FeatureLocalInterface {
	f := spine.NewFeatureLocal(e.NextFeatureId(), e, spec.Type, spec.Role)
	if spec.Desc != "" {
		f.SetDescriptionString(spec.Desc)
	}
	for _, fs := range spec.Funcs {
		f.AddFunctionType(fs.Fn, fs.Read, fs.Write)
	}
	e.AddFeature(f)
	return f
}

// Peer is a connected remote device simulated by the harness.
type Peer struct {
	W      *World
	Idx    int
	Ski    string
	Addr   model.AddressDeviceType
	Cap    *Capture
	Dev    api.DeviceRemoteInterface
	Reader shipapi.ShipConnectionDataReaderInterface
	ctr    uint64
	Ents   []EntSpec
	Gone   bool // the connection was removed
	// DiscoveryRef is the counter of the stack's initial discovery read.
	DiscoveryRef *model.MsgCounterType
}

// Connect sets up the connection only (no discovery data yet).
func (w *World) Connect(ski, addr string) *Peer {
	p := &Peer{W: w, Idx: len(w.Peers), Ski: ski, Addr: model.AddressDeviceType(addr), Cap: &Capture{}}
	p.Reader = w.Local.SetupRemoteDevice(ski, p.Cap)
	p.Dev = w.Local.RemoteDeviceForSki(ski)
	if msgs := p.Cap.All(); len(msgs) > 0 {
		p.DiscoveryRef = msgs[0].D.Header.MsgCounter
	}
	w.Peers = append(w.Peers, p)
	return p
}

// Disconnect removes the peer's connection through the public API (the Peer object stays in
// w.Peers so that its writer can still be observed).
func (w *World) Disconnect(p *Peer) {
	w.Local.RemoveRemoteDeviceConnection(p.Ski)
	p.Gone = true
	w.Sync()
}

// Reconnect sets the same device (same SKI and address) up again on a new connection and
// announces ents. The returned Peer replaces the old one in w.Peers.
func (w *World) Reconnect(old *Peer, ents []EntSpec) *Peer {
	p := &Peer{W: w, Idx: old.Idx, Ski: old.Ski, Addr: old.Addr, Cap: &Capture{}, ctr: old.ctr + 500}
	p.Reader = w.Local.SetupRemoteDevice(p.Ski, p.Cap)
	p.Dev = w.Local.RemoteDeviceForSki(p.Ski)
	if msgs := p.Cap.All(); len(msgs) > 0 {
		p.DiscoveryRef = msgs[0].D.Header.MsgCounter
	}
	w.Peers[old.Idx] = p
	p.Announce(ents)
	return p
}

// ReconnectOnly sets the same device (same SKI and address) up again on a new connection, without
// announcing anything. The returned Peer replaces the old one in w.Peers.
func (w *World) ReconnectOnly(old *Peer) *Peer {
	p := &Peer{W: w, Idx: old.Idx, Ski: old.Ski, Addr: old.Addr, Cap: &Capture{}, ctr: old.ctr + 500}
	p.Reader = w.Local.SetupRemoteDevice(p.Ski, p.Cap)
	p.Dev = w.Local.RemoteDeviceForSki(p.Ski)
	if msgs := p.Cap.All(); len(msgs) > 0 {
		p.DiscoveryRef = msgs[0].D.Header.MsgCounter
	}
	w.Peers[old.Idx] = p
	return p
}

// AddPeer connects a peer and announces its tree with a detailed-discovery reply.
// Entity [0] with NodeManagement feature 0 is added automatically if absent.
func (w *World) AddPeer(ski, addr string, ents []EntSpec) *Peer {
	p := w.Connect(ski, addr)
	p.Announce(ents)
	return p
}

func WithDeviceInfo(ents []EntSpec) []EntSpec {
	for _, e := range ents {
		if len(e.Addr) == 1 && e.Addr[0] == 0 {
			return ents
		}
	}
	di := EntSpec{Addr: []uint{0}, Type: model.EntityTypeTypeDeviceInformation, Feats: []FeatSpec{
		{ID: 0, Type: model.FeatureTypeTypeNodeManagement, Role: model.RoleTypeSpecial, Funcs: []FuncSpec{
			{Fn: model.FunctionTypeNodeManagementDetailedDiscoveryData, Read: true},
			{Fn: model.FunctionTypeNodeManagementUseCaseData, Read: true},
			{Fn: model.FunctionTypeNodeManagementSubscriptionData, Read: true},
			{Fn: model.FunctionTypeNodeManagementBindingData, Read: true},
			{Fn: model.FunctionTypeNodeManagementSubscriptionRequestCall},
			{Fn: model.FunctionTypeNodeManagementSubscriptionDeleteCall},
			{Fn: model.FunctionTypeNodeManagementBindingRequestCall},
			{Fn: model.FunctionTypeNodeManagementBindingDeleteCall},
		}},
	}}
	return append([]EntSpec{di}, ents...)
}

// Announce injects the discovery reply for ents and waits for the stack to settle.
func (p *Peer) Announce(ents []EntSpec) {
	ents = WithDeviceInfo(ents)
	p.Ents = ents
	data := p.DiscoveryData(ents, nil)
	cmd := model.CmdType{NodeManagementDetailedDiscoveryData: data}
	d := p.Msg(model.CmdClassifierTypeReply, p.NM(), LocalNM(), false, p.DiscoveryRef, cmd)
	p.Send(d)
	p.W.Sync()
	p.Cap.Drain()
	p.W.Events.Drain()
}

func EntityInfo(dev *model.AddressDeviceType, e EntSpec, change *model.NetworkManagementStateChangeType) model.NodeManagementDetailedDiscoveryEntityInformationType {
	et := e.Type
	ei := model.NodeManagementDetailedDiscoveryEntityInformationType{
		Description: &model.NetworkManagementEntityDescriptionDataType{
			EntityAddress:   &model.EntityAddressType{Device: dev, Entity: spine.NewAddressEntityType(e.Addr)},
			EntityType:      &et,
			LastStateChange: change,
		},
	}
	if e.Desc != "" {
		ei.Description.Description = util.Ptr(model.DescriptionType(e.Desc))
	}
	return ei
}

func FeatureInfo(dev *model.AddressDeviceType, e EntSpec, f FeatSpec) model.NodeManagementDetailedDiscoveryFeatureInformationType {
	ft, role := f.Type, f.Role
	var funs []model.FunctionPropertyType
	for _, fs := range f.Funcs {
		fn := fs.Fn
		ops := &model.PossibleOperationsType{}
		if fs.Read {
			ops.Read = &model.PossibleOperationsReadType{}
		}
		if fs.Write {
			ops.Write = &model.PossibleOperationsWriteType{}
		}
		funs = append(funs, model.FunctionPropertyType{Function: &fn, PossibleOperations: ops})
	}
	fi := model.NodeManagementDetailedDiscoveryFeatureInformationType{
		Description: &model.NetworkManagementFeatureDescriptionDataType{
			FeatureAddress: &model.FeatureAddressType{Device: dev, Entity: spine.NewAddressEntityType(e.Addr),
				Feature: util.Ptr(model.AddressFeatureType(f.ID))},
			FeatureType:       &ft,
			Role:              &role,
			SupportedFunction: funs,
		},
	}
	if f.Desc != "" {
		fi.Description.Description = util.Ptr(model.DescriptionType(f.Desc))
	}
	return fi
}

// DiscoveryData builds detailed discovery data for ents; change (if non-nil) is put on every entity.
func (p *Peer) DiscoveryData(ents []EntSpec, change *model.NetworkManagementStateChangeType) *model.NodeManagementDetailedDiscoveryDataType {
	addr := p.Addr
	data := &model.NodeManagementDetailedDiscoveryDataType{
		SpecificationVersionList: &model.NodeManagementSpecificationVersionListType{
			SpecificationVersion: []model.SpecificationVersionDataType{"1.3.0"},
		},
		DeviceInformation: &model.NodeManagementDetailedDiscoveryDeviceInformationType{
			Description: &model.NetworkManagementDeviceDescriptionDataType{
				DeviceAddress: &model.DeviceAddressType{Device: &addr},
				DeviceType:    util.Ptr(model.DeviceTypeTypeGeneric),
			},
		},
	}
	for _, e := range ents {
		data.EntityInformation = append(data.EntityInformation, EntityInfo(&addr, e, change))
		for _, f := range e.Feats {
			data.FeatureInformation = append(data.FeatureInformation, FeatureInfo(&addr, e, f))
		}
	}
	return data
}

func (p *Peer) NextCounter() *model.MsgCounterType {
	p.ctr++
	c := model.MsgCounterType(1000*uint64(p.Idx+1) + p.ctr)
	return &c
}

// FA builds a feature address on this peer.
func (p *Peer) FA(ent []uint, feat uint) *model.FeatureAddressType {
	a := p.Addr
	return &model.FeatureAddressType{Device: &a, Entity: spine.NewAddressEntityType(ent), Feature: util.Ptr(model.AddressFeatureType(feat))}
}

func (p *Peer) NM() *model.FeatureAddressType { return p.FA([]uint{0}, 0) }

// LA builds a feature address on the local device.
func LA(ent []uint, feat uint) *model.FeatureAddressType {
	a := model.AddressDeviceType(LocalAddr)
	return &model.FeatureAddressType{Device: &a, Entity: spine.NewAddressEntityType(ent), Feature: util.Ptr(model.AddressFeatureType(feat))}
}

func LocalNM() *model.FeatureAddressType { return LA([]uint{0}, 0) }

// Msg builds a datagram from this peer with a fresh counter.
func (p *Peer) Msg(cl model.CmdClassifierType, src, dst *model.FeatureAddressType, ack bool, ref *model.MsgCounterType, cmd model.CmdType) model.DatagramType {
	d := model.DatagramType{
		Header: model.HeaderType{
			SpecificationVersion: util.Ptr(model.SpecificationVersionType("1.3.0")),
			AddressSource:        src,
			AddressDestination:   dst,
			MsgCounter:           p.NextCounter(),
			MsgCounterReference:  ref,
			CmdClassifier:        &cl,
		},
		Payload: model.PayloadType{Cmd: []model.CmdType{cmd}},
	}
	if ack {
		d.Header.AckRequest = util.Ptr(true)
	}
	return d
}

func Encode(d model.DatagramType) []byte {
	b, err := json.Marshal(model.Datagram{Datagram: d})
	if err != nil {
		panic(fmt.Sprintf("harness: cannot encode datagram: %v", err))
	}
	return b
}

// Send injects the datagram through the SHIP reader entry point.
func (p *Peer) Send(d model.DatagramType) { p.Reader.HandleShipPayloadMessage(Encode(d)) }

func (p *Peer) SendRaw(b []byte) { p.Reader.HandleShipPayloadMessage(b) }

// Feature looks up the stack's view of an announced feature of this peer.
func (p *Peer) Feature(ent []uint, feat uint) api.FeatureRemoteInterface {
	return p.Dev.FeatureByAddress(p.FA(ent, feat))
}

// Teardown removes all peers and stops heartbeats so that no goroutine outlives the case.
func (w *World) Teardown() {
	for _, e := range w.Local.Entities() {
		if hm := e.HeartbeatManager(); hm != nil {
			func() {
				defer func() { _ = recover() }()
				hm.StopHeartbeat()
			}()
		}
	}
	WaitGoroutines(w.base0, 2*time.Second)
}

// SubscribeCall builds a subscription request call cmd.
func SubscribeCall(client, server *model.FeatureAddressType, ft model.FeatureTypeType) model.CmdType {
	return model.CmdType{NodeManagementSubscriptionRequestCall: spine.NewNodeManagementSubscriptionRequestCallType(client, server, ft)}
}

func UnsubscribeCall(client, server *model.FeatureAddressType) model.CmdType {
	return model.CmdType{NodeManagementSubscriptionDeleteCall: spine.NewNodeManagementSubscriptionDeleteCallType(client, server)}
}

func BindCall(client, server *model.FeatureAddressType, ft model.FeatureTypeType) model.CmdType {
	return model.CmdType{NodeManagementBindingRequestCall: spine.NewNodeManagementBindingRequestCallType(client, server, ft)}
}

func UnbindCall(client, server *model.FeatureAddressType) model.CmdType {
	return model.CmdType{NodeManagementBindingDeleteCall: spine.NewNodeManagementBindingDeleteCallType(client, server)}
}

// Call sends a NodeManagement call with ack and returns the result datagrams it produced.
func (p *Peer) Call(cmd model.CmdType) []Sent {
	d := p.Msg(model.CmdClassifierTypeCall, p.NM(), LocalNM(), true, nil, cmd)
	p.Send(d)
	p.W.Sync()
	var res []Sent
	for _, s := range p.Cap.Drain() {
		if s.Ref() != nil && *s.Ref() == *d.Header.MsgCounter {
			res = append(res, s)
		}
	}
	return res
}

// CallOK reports whether the call was answered with exactly one success result.
func (p *Peer) CallOK(cmd model.CmdType) bool {
	res := p.Call(cmd)
	return len(res) == 1 && res[0].ErrorNumber() == 0
}

// JSON returns canonical JSON of v (nil for nil pointers).
func JSON(v any) string {
	if v == nil {
		return "null"
	}
	rv := reflect.ValueOf(v)
	if rv.Kind() == reflect.Ptr && rv.IsNil() {
		return "null"
	}
	b, err := json.Marshal(v)
	if err != nil {
		return "ERR:" + err.Error()
	}
	return string(b)
}

// AnswerCoreRequests answers what the stack's core handler asked this peer after its announcement
// (the node management subscription call and the use case read), as a real device does: the sender
// withholds a request identical to a still unanswered one.
func (p *Peer) AnswerCoreRequests() {
	for _, s := range p.Cap.All() {
		switch {
		case s.Classifier() == model.CmdClassifierTypeCall && s.Cmd().NodeManagementSubscriptionRequestCall != nil:
			res := model.CmdType{ResultData: &model.ResultDataType{ErrorNumber: util.Ptr(model.ErrorNumberType(0))}}
			p.Send(p.Msg(model.CmdClassifierTypeResult, p.NM(), s.D.Header.AddressSource, false, s.D.Header.MsgCounter, res))
		case s.Classifier() == model.CmdClassifierTypeRead && s.Cmd().NodeManagementUseCaseData != nil:
			cmd := model.CmdType{NodeManagementUseCaseData: &model.NodeManagementUseCaseDataType{}}
			p.Send(p.Msg(model.CmdClassifierTypeReply, p.NM(), s.D.Header.AddressSource, false, s.D.Header.MsgCounter, cmd))
		}
	}
	if p.W != nil {
		p.W.Sync()
		p.W.Events.Drain()
	}
}
