// Package world is the shared harness: a local spine-go device driven only through its
// public API, peers that are capture writers plus injected JSON, an event log, statistics
// and the known-finding plumbing used by every property package.
package world

import (
	"encoding/json"
	"sync"
	"sync/atomic"

	"github.com/enbility/spine-go/model"
)

var stamp atomic.Uint64

// Stamp returns a process-wide strictly increasing number used to order observations.
func Stamp() uint64 { return stamp.Add(1) }

// Sent is one payload written by the stack to a peer's SHIP writer.
type Sent struct {
	Seq uint64
	Raw []byte
	D   model.DatagramType
	Err error // decode error (never expected)
}

func (s Sent) Classifier() model.CmdClassifierType {
	if s.D.Header.CmdClassifier == nil {
		return ""
	}
	return *s.D.Header.CmdClassifier
}

// Cmd returns the first command (the stack always sends exactly one).
func (s Sent) Cmd() model.CmdType {
	if len(s.D.Payload.Cmd) == 0 {
		return model.CmdType{}
	}
	return s.D.Payload.Cmd[0]
}

func (s Sent) Ref() *model.MsgCounterType { return s.D.Header.MsgCounterReference }

func (s Sent) IsResponse() bool {
	c := s.Classifier()
	return c == model.CmdClassifierTypeReply || c == model.CmdClassifierTypeResult
}

// ErrorNumber of a result datagram (-1 if this is no result).
func (s Sent) ErrorNumber() int {
	c := s.Cmd()
	if c.ResultData == nil || c.ResultData.ErrorNumber == nil {
		return -1
	}
	return int(*c.ResultData.ErrorNumber)
}

// Capture implements ShipConnectionDataWriterInterface and records everything.
type Capture struct {
	mu      sync.Mutex
	msgs    []Sent
	taken   int
	OnWrite func(raw []byte) // optional; runs on the writing goroutine, outside the lock
}

func (c *Capture) WriteShipMessageWithPayload(message []byte) {
	raw := append([]byte(nil), message...)
	s := Sent{Seq: Stamp(), Raw: raw}
	var d model.Datagram
	s.Err = json.Unmarshal(raw, &d)
	s.D = d.Datagram
	c.mu.Lock()
	c.msgs = append(c.msgs, s)
	cb := c.OnWrite
	c.mu.Unlock()
	if cb != nil {
		cb(raw)
	}
}

// Drain returns what was written since the previous Drain.
func (c *Capture) Drain() []Sent {
	c.mu.Lock()
	defer c.mu.Unlock()
	out := append([]Sent(nil), c.msgs[c.taken:]...)
	c.taken = len(c.msgs)
	return out
}

// All returns everything written so far (does not affect Drain).
func (c *Capture) All() []Sent {
	c.mu.Lock()
	defer c.mu.Unlock()
	return append([]Sent(nil), c.msgs...)
}

func (c *Capture) Len() int {
	c.mu.Lock()
	defer c.mu.Unlock()
	return len(c.msgs)
}

func (c *Capture) SetOnWrite(f func(raw []byte)) {
	c.mu.Lock()
	c.OnWrite = f
	c.mu.Unlock()
}
