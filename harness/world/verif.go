package world

import (
	"encoding/json"
	"fmt"
	"hash/fnv"
	"os"
	"path/filepath"
	"sort"
	"strconv"
	"strings"
	"sync"
	"testing"
)

// TB is the part of testing.TB / rapid.T the harness needs.
type TB interface {
	Helper()
	Fatalf(format string, args ...any)
	Logf(format string, args ...any)
}

// ---------------------------------------------------------------------------------------------
// known findings

type Finding struct {
	Property  string `json:"property"`
	ID        string `json:"id"`
	Status    string `json:"status"` // open | fixed
	Signature string `json:"signature"`
	// Signatures lists further signatures of the same root cause.
	Signatures []string `json:"signatures,omitempty"`
	// RaceFunctions (C17): every function that touches the unsynchronised state of this finding;
	// a race report is this finding iff both of its spine-go frames are listed.
	RaceFunctions []string `json:"race_functions,omitempty"`
	WhatFails     string   `json:"what_fails"`
	Commit        string   `json:"commit,omitempty"`
}

var (
	knownOnce sync.Once
	knownOpen []Finding
)

func loadKnown() {
	path := os.Getenv("VERIF_KNOWN")
	if path == "" {
		return
	}
	b, err := os.ReadFile(path)
	if err != nil {
		return
	}
	var file struct {
		Findings []Finding `json:"findings"`
	}
	if json.Unmarshal(b, &file) != nil {
		return
	}
	prop := os.Getenv("VERIF_PROPERTY")
	for _, f := range file.Findings {
		if f.Status == "open" && (prop == "" || f.Property == prop) {
			knownOpen = append(knownOpen, f)
		}
	}
}

// KnownFinding returns the open finding whose signature matches sig (exact, or prefix when the
// listed signature ends in '*').
func KnownFinding(sig string) *Finding {
	knownOnce.Do(loadKnown)
	for i := range knownOpen {
		for _, k := range append([]string{knownOpen[i].Signature}, knownOpen[i].Signatures...) {
			if k == sig || (strings.HasSuffix(k, "*") && strings.HasPrefix(sig, strings.TrimSuffix(k, "*"))) {
				return &knownOpen[i]
			}
		}
	}
	return nil
}

type knownHit struct{ sig string }

// Fail reports an oracle failure classified by sig. If sig is an open known finding the case is
// abandoned (sentinel panic caught by Prop / Guard) and counted; otherwise the test fails.
func Fail(t TB, sig string, format string, args ...any) {
	t.Helper()
	if f := KnownFinding(sig); f != nil {
		rec.hitKnown(f.ID)
		panic(knownHit{sig})
	}
	t.Fatalf("VERIF-FAIL sig=%s :: %s", sig, fmt.Sprintf(format, args...))
}

// IsKnown reports (and counts) without abandoning; for checks that cannot unwind.
func IsKnown(sig string) bool {
	if f := KnownFinding(sig); f != nil {
		rec.hitKnown(f.ID)
		return true
	}
	return false
}

// Guard runs body and swallows the known-finding sentinel. Returns true if the case was abandoned.
func Guard(body func()) (abandoned bool) {
	defer func() {
		if r := recover(); r != nil {
			if _, ok := r.(knownHit); ok {
				abandoned = true
				return
			}
			panic(r)
		}
	}()
	body()
	return false
}

// ---------------------------------------------------------------------------------------------
// statistics

type recorder struct {
	mu         sync.Mutex
	Evals      int64            `json:"evaluations"`
	Nontrivial int64            `json:"nontrivial"`
	Hashes     map[uint64]bool  `json:"-"`
	HashList   []string         `json:"hashes"`
	Labels     map[string]int64 `json:"labels"`
	Samples    []any            `json:"samples"`
	Known      map[string]int64 `json:"known_hits"`
	Extra      map[string]any   `json:"extra"`
	HashMod    uint64           `json:"hash_mod"`
	maxSamples int
}

var rec = &recorder{Hashes: map[uint64]bool{}, Labels: map[string]int64{}, Known: map[string]int64{}, Extra: map[string]any{}, HashMod: 1, maxSamples: 4}

func init() {
	if s := os.Getenv("VERIF_HASH_MOD"); s != "" {
		if n, err := strconv.ParseUint(s, 10, 64); err == nil && n > 0 {
			rec.HashMod = n
		}
	}
}

func (r *recorder) hitKnown(id string) {
	r.mu.Lock()
	r.Known[id]++
	r.mu.Unlock()
}

// Hash is a helper producing the 64-bit FNV hash of the parts.
func Hash(parts ...any) uint64 {
	h := fnv.New64a()
	for _, p := range parts {
		fmt.Fprintf(h, "%v\x00", p)
	}
	return h.Sum64()
}

// Record counts one executed case. hash identifies the case for distinctness (only used when
// nontrivial). Labels classify the case for the generator-distribution report.
func Record(hash uint64, nontrivial bool, labels ...string) {
	rec.mu.Lock()
	rec.Evals++
	if nontrivial {
		rec.Nontrivial++
		if hash%rec.HashMod == 0 {
			rec.Hashes[hash] = true
		}
	}
	for _, l := range labels {
		rec.Labels[l]++
	}
	rec.mu.Unlock()
}

// Label counts a label without counting a case.
func Label(labels ...string) {
	rec.mu.Lock()
	for _, l := range labels {
		rec.Labels[l]++
	}
	rec.mu.Unlock()
}

// WantSample reports whether another sample is wanted (so callers can avoid rendering cost).
func WantSample() bool {
	rec.mu.Lock()
	defer rec.mu.Unlock()
	return len(rec.Samples) < rec.maxSamples
}

// Sample stores a written-out case for the evidence file (first few only).
func Sample(v any) {
	rec.mu.Lock()
	if len(rec.Samples) < rec.maxSamples {
		rec.Samples = append(rec.Samples, v)
	}
	rec.mu.Unlock()
}

// SetExtra stores a free-form value in the evidence (e.g. exhaustive: true, schedules: n).
func SetExtra(key string, v any) {
	rec.mu.Lock()
	rec.Extra[key] = v
	rec.mu.Unlock()
}

func AddExtra(key string, n int64) {
	rec.mu.Lock()
	cur, _ := rec.Extra[key].(int64)
	rec.Extra[key] = cur + n
	rec.mu.Unlock()
}

func flush() {
	path := os.Getenv("VERIF_STATS")
	if path == "" {
		return
	}
	rec.mu.Lock()
	defer rec.mu.Unlock()
	rec.HashList = rec.HashList[:0]
	for h := range rec.Hashes {
		rec.HashList = append(rec.HashList, strconv.FormatUint(h, 16))
	}
	sort.Strings(rec.HashList)
	b, err := json.Marshal(rec)
	if err != nil {
		b, _ = json.Marshal(map[string]any{"error": err.Error()})
	}
	_ = os.MkdirAll(filepath.Dir(path), 0o755)
	_ = os.WriteFile(path, b, 0o644)
}

// Main is called from every property package's TestMain.
func Main(m *testing.M) {
	code := m.Run()
	flush()
	os.Exit(code)
}

// Tier returns "quick" or "thorough".
func Tier() string {
	if os.Getenv("VERIF_TIER") == "thorough" {
		return "thorough"
	}
	return "quick"
}

func Thorough() bool { return Tier() == "thorough" }

// EnvInt reads an integer knob set by the driver.
func EnvInt(name string, def int) int {
	if s := os.Getenv(name); s != "" {
		if n, err := strconv.Atoi(s); err == nil {
			return n
		}
	}
	return def
}

// SaveReplay writes a replay artefact for non-rapid checks into $VERIF_REPLAY_DIR and returns its path.
func SaveReplay(name string, v any) string {
	dir := os.Getenv("VERIF_REPLAY_DIR")
	if dir == "" {
		dir = "."
	}
	_ = os.MkdirAll(dir, 0o755)
	b, _ := json.MarshalIndent(v, "", " ")
	p := filepath.Join(dir, name)
	_ = os.WriteFile(p, b, 0o644)
	fmt.Printf("VERIF-REPLAY %s\n", p)
	return p
}

// FlushStats writes the statistics file (for packages with their own TestMain logic).
func FlushStats() { flush() }

// HitKnown counts an observation of an open known finding.
func HitKnown(id string) { rec.hitKnown(id) }

// RaceState is an open known finding keyed by unsynchronised state.
type RaceState struct {
	ID        string
	Functions map[string]bool
}

func (s RaceState) Covers(fn string) bool { return fn != "" && s.Functions[fn] }

// RaceStates returns the open findings of the current property that list race functions.
func RaceStates() []RaceState {
	knownOnce.Do(loadKnown)
	var out []RaceState
	for _, k := range knownOpen {
		if len(k.RaceFunctions) == 0 {
			continue
		}
		s := RaceState{ID: k.ID, Functions: map[string]bool{}}
		for _, f := range k.RaceFunctions {
			s.Functions[f] = true
		}
		out = append(out, s)
	}
	return out
}
