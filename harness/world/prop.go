package world

import (
	"reflect"
	"regexp"
	"runtime/debug"
	"strings"

	"pgregory.net/rapid"
)

var spineFrame = regexp.MustCompile(`github\.com/enbility/spine-go/(?:spine|model|util)\.([^\s(]*(?:\([^)]*\))?[^\s(]*)\(`)

// PanicSignature extracts "panic/<innermost spine-go function>" from a stack, or "" if the
// stack has no spine-go frame (a harness bug, not a finding).
func PanicSignature(stack string) string {
	m := spineFrame.FindStringSubmatch(stack)
	if m == nil {
		return ""
	}
	fn := m[1]
	fn = strings.TrimSuffix(fn, ".func1")
	return "panic/" + fn
}

// Prop wraps a rapid property: known-finding sentinels end the case quietly, panics that
// originate inside spine-go become classified failures.
func Prop(body func(t *rapid.T)) func(t *rapid.T) {
	return func(t *rapid.T) {
		defer func() {
			r := recover()
			if r == nil {
				return
			}
			if _, ok := r.(knownHit); ok {
				return
			}
			if rt := reflect.TypeOf(r); rt != nil && strings.HasPrefix(rt.PkgPath(), "pgregory.net/rapid") {
				panic(r)
			}
			stack := string(debug.Stack())
			if sig := PanicSignature(stack); sig != "" {
				if f := KnownFinding(sig); f != nil {
					rec.hitKnown(f.ID)
					return
				}
				t.Fatalf("VERIF-FAIL sig=%s :: panic in the stack: %v\n%s", sig, r, stack)
			}
			panic(r)
		}()
		body(t)
	}
}
