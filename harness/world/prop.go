package world

import (
	"reflect"
	"regexp"
	"runtime/debug"
	"strings"

	"pgregory.net/rapid"
)

var spineLine = regexp.MustCompile(`(?m)^\s*github\.com/enbility/spine-go/(?:spine|model|util)\.(.*)\([^()]*\)\s*$`)
var genericArgs = regexp.MustCompile(`\[[^\[\]]*\]`)

// SpineFrames returns the spine-go functions of a stack trace, innermost first, normalised:
// generic instantiations and closure suffixes are stripped ((*FunctionData[...]).DataCopy.func1 ->
// (*FunctionData).DataCopy). Works for panic stacks and for race detector reports.
func SpineFrames(stack string) []string {
	var out []string
	for _, m := range spineLine.FindAllStringSubmatch(stack, -1) {
		fn := m[1]
		for genericArgs.MatchString(fn) {
			fn = genericArgs.ReplaceAllString(fn, "")
		}
		for {
			i := strings.LastIndex(fn, ".func")
			if i < 0 {
				break
			}
			rest := fn[i+5:]
			if strings.Trim(rest, "0123456789.") != "" {
				break
			}
			fn = fn[:i]
		}
		out = append(out, fn)
	}
	return out
}

// PanicSignature extracts "panic/<innermost spine-go function>" from a stack, or "" if the
// stack has no spine-go frame (a harness bug, not a finding).
func PanicSignature(stack string) string {
	f := SpineFrames(stack)
	if len(f) == 0 {
		return ""
	}
	return "panic/" + f[0]
}

// Prop wraps a rapid property: known-finding sentinels end the case quietly, panics that
// originate inside spine-go become classified failures.
func Prop(body func(t *rapid.T)) func(t *rapid.T) {
	return func(t *rapid.T) {
		defer func() {
			r := recover()
			if r == nil {
				return
			}
			if _, ok := r.(knownHit); ok {
				return
			}
			if rt := reflect.TypeOf(r); rt != nil && strings.HasPrefix(rt.PkgPath(), "pgregory.net/rapid") {
				panic(r)
			}
			stack := string(debug.Stack())
			if sig := PanicSignature(stack); sig != "" {
				if f := KnownFinding(sig); f != nil {
					rec.hitKnown(f.ID)
					return
				}
				t.Fatalf("VERIF-FAIL sig=%s :: panic in the stack: %v\n%s", sig, r, stack)
			}
			panic(r)
		}()
		body(t)
	}
}
