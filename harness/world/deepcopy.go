package world

import "reflect"

// DeepCopy copies v with everything it points to (pointers, slices, maps, structs with exported
// fields - the data model has no others), by reflection: unlike a JSON round trip it involves none
// of the model's own (un)marshalling, which re-expresses time periods against the clock.
func DeepCopy(v any) any {
	if v == nil {
		return nil
	}
	return deepCopyValue(reflect.ValueOf(v)).Interface()
}

func deepCopyValue(v reflect.Value) reflect.Value {
	switch v.Kind() {
	case reflect.Ptr:
		if v.IsNil() {
			return reflect.Zero(v.Type())
		}
		n := reflect.New(v.Type().Elem())
		n.Elem().Set(deepCopyValue(v.Elem()))
		return n
	case reflect.Interface:
		if v.IsNil() {
			return reflect.Zero(v.Type())
		}
		n := reflect.New(v.Type()).Elem()
		n.Set(deepCopyValue(v.Elem()))
		return n
	case reflect.Struct:
		n := reflect.New(v.Type()).Elem()
		n.Set(v) // unexported fields by value
		for i := 0; i < v.NumField(); i++ {
			if n.Field(i).CanSet() {
				n.Field(i).Set(deepCopyValue(v.Field(i)))
			}
		}
		return n
	case reflect.Slice:
		if v.IsNil() {
			return reflect.Zero(v.Type())
		}
		n := reflect.MakeSlice(v.Type(), v.Len(), v.Len())
		for i := 0; i < v.Len(); i++ {
			n.Index(i).Set(deepCopyValue(v.Index(i)))
		}
		return n
	case reflect.Map:
		if v.IsNil() {
			return reflect.Zero(v.Type())
		}
		n := reflect.MakeMapWithSize(v.Type(), v.Len())
		for _, k := range v.MapKeys() {
			n.SetMapIndex(k, deepCopyValue(v.MapIndex(k)))
		}
		return n
	default:
		return v
	}
}
