package world

import (
	"fmt"
	"regexp"
	"runtime"
	"sort"
	"strings"
	"time"
)

var goroutineHdr = regexp.MustCompile(`(?m)^goroutine (\d+) \[([^\],]+)[^\]]*\]:$`)

// AllStacks returns the stacks of all goroutines.
func AllStacks() string {
	buf := make([]byte, 1<<21)
	return string(buf[:runtime.Stack(buf, true)])
}

// LockState summarises a goroutine dump: ids of goroutines parked in a mutex with a spine-go frame
// on their stack (with their innermost spine-go frame), and whether any goroutine with a spine-go
// frame is able to run.
func LockState(dump string) (parked map[string]string, progressing bool) {
	parked = map[string]string{}
	for _, b := range strings.Split(dump, "\n\n") {
		m := goroutineHdr.FindStringSubmatch(b)
		if m == nil {
			continue
		}
		frames := SpineFrames(b)
		if len(frames) == 0 {
			continue
		}
		switch {
		case strings.HasPrefix(m[2], "sync.Mutex.Lock"), strings.HasPrefix(m[2], "sync.RWMutex"):
			parked[m[1]] = frames[0]
		case m[2] == "running", m[2] == "runnable", m[2] == "syscall", m[2] == "sleep", m[2] == "IO wait":
			progressing = true
		}
	}
	return
}

var longWaitHdr = regexp.MustCompile(`(?m)^goroutine (\d+) \[(sync\.(?:RW)?Mutex\.[A-Za-z]+), (\d+) minutes\]:$`)

// LongLockWaits: goroutines with a spine-go frame that have been waiting for one mutex for at least minMinutes
// without interruption (the runtime prints the duration of a wait in the goroutine header once it exceeds a
// minute). Unlike a goroutine that is merely seen parked in two dumps - it may have been through the lock many
// times in between - such a goroutine has made no progress at all for that time.
func LongLockWaits(dump string, minMinutes int) map[string]string {
	out := map[string]string{}
	for _, b := range strings.Split(dump, "\n\n") {
		m := longWaitHdr.FindStringSubmatch(b)
		if m == nil {
			continue
		}
		var minutes int
		fmt.Sscanf(m[3], "%d", &minutes)
		if frames := SpineFrames(b); minutes >= minMinutes && len(frames) > 0 {
			out[m[1]] = frames[0]
		}
	}
	return out
}

// AwaitOrDiagnose waits for done. After patience it looks at the goroutines twice, 3 s apart: a
// deadlock is reported (where != "") only if the same >= minParked goroutines are parked in locks
// inside spine-go both times and no goroutine inside spine-go can run. Otherwise whatever is awaited
// is merely slow (loaded machine): it keeps waiting, up to limit in total, then the wait is
// inconclusive. A time-out alone is never a verdict.
func AwaitOrDiagnose(done <-chan struct{}, patience, limit time.Duration, minParked int) (where string, detail string, inconclusive bool) {
	select {
	case <-done:
		return "", "", false
	case <-time.After(patience):
	}
	deadline := time.Now().Add(limit - patience)
	for {
		d1 := AllStacks()
		select {
		case <-done:
			return "", "", false
		case <-time.After(3 * time.Second):
		}
		d2 := AllStacks()
		p1, run1 := LockState(d1)
		p2, run2 := LockState(d2)
		same := len(p1) >= minParked && len(p1) == len(p2)
		for id := range p1 {
			if _, ok := p2[id]; !ok {
				same = false
			}
		}
		if same && !run1 && !run2 {
			var fs []string
			for _, f := range p2 {
				fs = append(fs, f)
			}
			sort.Strings(fs)
			var u []string
			for i, f := range fs {
				if i == 0 || f != fs[i-1] {
					u = append(u, f)
				}
			}
			return strings.Join(u, "+"), fmt.Sprintf("not finished after %v; the same %d goroutines wait for locks inside spine-go in two dumps 3 s apart and no goroutine inside spine-go can run: %v\n%s", patience, len(p2), fs, d2), false
		}
		// other goroutines of the workload may keep running (readers that spin until they are told to stop) while
		// one is stuck for good: a goroutine inside spine-go that has waited for one mutex for three minutes on end
		if stuck := LongLockWaits(d2, 3); len(stuck) > 0 {
			var fs []string
			for _, f := range stuck {
				fs = append(fs, f)
			}
			sort.Strings(fs)
			var u []string
			for i, f := range fs {
				if i == 0 || f != fs[i-1] {
					u = append(u, f)
				}
			}
			return strings.Join(u, "+"), fmt.Sprintf("not finished; %d goroutines inside spine-go have been waiting for a mutex for at least three minutes without interruption: %v\n%s", len(stuck), fs, d2), false
		}
		if time.Now().After(deadline) {
			return "", d2, true
		}
		select {
		case <-done:
			return "", "", false
		case <-time.After(5 * time.Second):
		}
	}
}

// WaitOrDiagnose waits for the goroutines of wg like wg.Wait(), but a wait that does not end is
// diagnosed: goroutines parked in spine-go locks for good are reported as sigPrefix/deadlock/...,
// anything else is inconclusive after 5 minutes.
func WaitOrDiagnose(t TB, wg interface{ Wait() }, sigPrefix, what string) {
	done := make(chan struct{})
	go func() { wg.Wait(); close(done) }()
	where, detail, inconclusive := AwaitOrDiagnose(done, 20*time.Second, 5*time.Minute, 1)
	if where != "" {
		Fail(t, sigPrefix+"/deadlock/"+where, "%s: the stack did %s", what, detail)
	}
	if inconclusive {
		t.Fatalf("inconclusive: %s: not through after 5 minutes, without evidence of a lock cycle\n%s", what, detail)
	}
}
