package world

import "testing"

func TestSpineFrames(t *testing.T) {
	race := `Write at 0x00c0001 by goroutine 12:
  runtime.mapassign_faststr()
      /usr/lib/go/src/runtime/map_faststr.go:203 +0x0
  github.com/enbility/spine-go/spine.(*FunctionData[go.shape.struct { MeasurementData []github.com/enbility/spine-go/model.MeasurementDataType }]).DataCopy()
      /repo/spine/function_data.go:40 +0x1
  github.com/enbility/spine-go/spine.(*FeatureLocal).DataCopy()
      /repo/spine/feature_local.go:300 +0x2
`
	if f := SpineFrames(race); len(f) != 2 || f[0] != "(*FunctionData).DataCopy" || f[1] != "(*FeatureLocal).DataCopy" {
		t.Fatalf("race frames: %q", f)
	}
	pan := `panic({0x977060?, 0xeb8770?})
	/usr/lib/go-1.23/src/runtime/panic.go:785 +0x132
github.com/enbility/spine-go/model.UpdateList[...](0x1, {0xc0005a0a50, 0x40f7df?, 0x97cac0?}, {0x0?, 0x0, 0x0}, 0x98d880, 0x0)
	/repo/model/update.go:53 +0x2f5
github.com/enbility/spine-go/spine.(*DeviceLocal).ProcessCmd.func1(0xc0)
	/repo/spine/device_local.go:314 +0x1048
`
	if f := SpineFrames(pan); len(f) != 2 || f[0] != "UpdateList" || f[1] != "(*DeviceLocal).ProcessCmd" {
		t.Fatalf("panic frames: %q", f)
	}
}
