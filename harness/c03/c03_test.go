// Package c03: a remote write takes effect only with a binding and write permission.
package c03

import (
	"fmt"
	"reflect"
	"strings"
	"testing"

	"github.com/enbility/spine-go/api"
	"github.com/enbility/spine-go/model"
	"pgregory.net/rapid"

	"verifharness/gen"
	"verifharness/listgen"
	"verifharness/refmodel"
	"verifharness/regs"
	"verifharness/world"
)

func TestMain(m *testing.M) { world.Main(m) }

type machine struct {
	w        *regs.W
	hist     []string
	ops      []string
	accepted map[int]int // per peer
	rejected map[int]int
	ent2Gone map[int]bool // the peer announced its entity [2] as removed
	// the bindings the history says exist: granted by a bind call, not deleted by a delete call that
	// was answered with success, holder neither disconnected nor removed (key: peer|client|server index)
	granted map[string]bool
}

// holdsProtectedElement: does the list hold an element whose changeability flag is not true?
func holdsProtectedElement(f *gen.Func, items []reflect.Value) bool {
	if f.WriteCheck == "" {
		return false
	}
	for _, it := range items {
		fl := it.FieldByName(f.WriteCheck)
		if fl.IsNil() || !fl.Elem().Bool() {
			return true
		}
	}
	return false
}

func gkey(pi int, client regs.Ref, si int) string { return fmt.Sprintf("%d|%s|%d", pi, client, si) }

func serverIndex(r regs.Ref) int {
	for i, s := range regs.ServerRefs {
		if s.String() == r.String() {
			return i
		}
	}
	return -1
}

func (m *machine) logf(format string, a ...any) { m.hist = append(m.hist, fmt.Sprintf(format, a...)) }
func (m *machine) history() string              { return "\n history:\n  " + strings.Join(m.hist, "\n  ") }

func (m *machine) live(t *rapid.T, label string) int {
	var idx []int
	for i, p := range m.w.Peers {
		if !p.Gone {
			idx = append(idx, i)
		}
	}
	if len(idx) == 0 {
		t.Skip("no connected peer")
	}
	return idx[rapid.IntRange(0, len(idx)-1).Draw(t, label)]
}

// stripFlags removes the changeability flag from the items of restricted writes (C04 owns flag handling).
func stripFlags(f *gen.Func, u *refmodel.Update) {
	if f.WriteCheck == "" {
		return
	}
	for _, it := range u.Items {
		fv := it.FieldByName(f.WriteCheck)
		fv.Set(reflect.Zero(fv.Type()))
		if !u.HasFilter() {
			// a full write states the elements as changeable, so that the lists of this check stay
			// writable (a list with protected elements may refuse writes for C04's reasons)
			yes := true
			fv.Set(reflect.ValueOf(&yes))
		}
	}
}

// write injects one write and judges it against the gate (binding registry + announced operations).
// expect: "" (no expectation beyond the gate), "accepted" or "rejected" (immediacy clauses).
func (m *machine) write(t *rapid.T, pi int, client regs.Ref, si int, f *gen.Func, shape string, ack bool, expect string) {
	w := m.w
	p := w.Peers[pi]
	srv := w.Servers[si].F
	clientAddr := p.FA(client.Ent, client.Feat)
	writerAnnounced := p.Dev.FeatureByAddress(clientAddr) != nil
	ops, okOps := srv.Operations()[f.Fn]
	writable := okOps && ops.Write()
	has := w.Local.BindingManager().HasLocalFeatureRemoteBinding(srv.Address(), clientAddr)
	// cross-check the two views of the registry
	listed := false
	for _, b := range w.Local.BindingManager().Bindings(p.Dev) {
		if reflect.DeepEqual(b.ClientFeature.Address(), clientAddr) && reflect.DeepEqual(b.ServerFeature.Address(), srv.Address()) {
			listed = true
		}
	}
	if listed != has {
		world.Fail(t, "C03/registry-views-disagree", "HasLocalFeatureRemoteBinding=%v but Bindings(peer) listed=%v for %s -> %s%s", has, listed, clientAddr, srv.Address(), m.history())
	}
	if want := m.granted[gkey(pi, client, si)]; want != has {
		kind := "granted-binding-gone"
		if has {
			kind = "binding-nobody-was-granted"
		}
		world.Fail(t, "C03/registry-disagrees-with-history/"+kind, "by the history the binding %s -> server#%d of peer%d exists=%v (granted and not deleted since, holder still there), the registry says %v: the authorisation of this write follows the wrong state%s", client, si, pi+1, want, has, m.history())
	}
	state := refmodel.CloneItems(refmodel.ItemsOf(f, srv.DataCopy(f.Fn)))
	u := listgen.Update(t, f, state, shape, gen.Opt{}, "w")
	stripFlags(f, &u)
	before := world.JSON(srv.DataCopy(f.Fn))
	subscribers := len(w.Local.SubscriptionManager().SubscriptionsOnFeature(*srv.Address()))
	for _, q := range w.Peers {
		q.Cap.Drain()
	}
	w.Events.Drain()
	cmd := listgen.Cmd(f, u)
	if !u.HasFilter() && rapid.IntRange(0, 3).Draw(t, "functionElement") == 0 {
		// the optional function element of a full write names another function of the feature (the
		// writable one when the read-only one is written and vice versa): what is written is what the
		// data element says
		other := w.Servers[si].Writable
		if f.Fn == other {
			other = w.Servers[si].ReadOnly
		}
		cmd.Function = &other
		world.Label("write/function-element-names-other-function")
	}
	d := p.Msg(model.CmdClassifierTypeWrite, clientAddr, srv.Address(), ack, nil, cmd)
	p.Send(d)
	w.Sync()
	results, errNo := 0, -1
	notifies := 0
	for qi, q := range w.Peers {
		for _, s := range q.Cap.Drain() {
			switch {
			case qi == pi && s.Classifier() == model.CmdClassifierTypeResult && s.Ref() != nil && *s.Ref() == *d.Header.MsgCounter:
				results++
				errNo = s.ErrorNumber()
			case s.Classifier() == model.CmdClassifierTypeNotify && reflect.DeepEqual(s.D.Header.AddressSource, srv.Address()):
				notifies++
			default:
				world.Fail(t, "C03/unexpected-datagram", "peer%d received an unexpected %s after a write%s", qi+1, s.Classifier(), m.history())
			}
		}
	}
	dataEvents := 0
	for _, e := range w.Events.Drain() {
		if e.P.EventType == api.EventTypeDataChange {
			dataEvents++
		}
	}
	after := world.JSON(srv.DataCopy(f.Fn))
	authorised := writerAnnounced && writable && has
	m.logf("write peer%d %s -> server#%d %s %s ack=%v | announced=%v writable=%v binding=%v => results=%d err=%d notifies=%d events=%d changed=%v",
		pi+1, client, si, f.Fn, u.Shape(), ack, writerAnnounced, writable, has, results, errNo, notifies, dataEvents, before != after)
	detail := func() string {
		return fmt.Sprintf("\n write: %s\n before: %s\n after:  %s%s", world.JSON(listgen.Describe(f, u)), before, after, m.history())
	}
	shapeSig := strings.NewReplacer("+", "-", "&", "-and-").Replace(u.Shape())
	if !authorised {
		why := "no-binding"
		if !writable {
			why = "not-writable"
		}
		if !writerAnnounced {
			why = "writer-not-announced"
		}
		if before != after {
			world.Fail(t, "C03/unauthorised-write-applied/"+why, "a write without authorisation (%s) changed the data%s", why, detail())
		}
		if notifies != 0 {
			world.Fail(t, "C03/unauthorised-write-notified/"+why, "a write without authorisation (%s) caused %d notifications%s", why, notifies, detail())
		}
		if dataEvents != 0 {
			world.Fail(t, "C03/unauthorised-write-event/"+why, "a write without authorisation (%s) published %d data-change events%s", why, dataEvents, detail())
		}
		if writerAnnounced && (results != 1 || errNo == 0) {
			world.Fail(t, "C03/unauthorised-write-result/"+why, "a write without authorisation (%s) got %d results (error number %d), expected exactly one error result%s", why, results, errNo, detail())
		}
		if expect == "accepted" {
			world.Fail(t, "C03/immediacy/not-accepted-after-bind", "the write directly after a granted binding was not authorised%s", detail())
		}
		m.rejected[pi]++
		m.ops = append(m.ops, "write:unauthorised:"+why)
		return
	}
	if expect == "rejected" {
		world.Fail(t, "C03/immediacy/accepted-after-removal", "the write is still authorised directly after its binding was deleted or its device/entity disappeared%s", detail())
	}
	success := (results == 1 && errNo == 0) || (!ack && results == 0)
	if success {
		// the changeability flag itself is never altered by a remote write (C04's subject): a write
		// that names it, e.g. in delete elements, is compared without that field
		noFlag := func(items []reflect.Value) []reflect.Value {
			if f.WriteCheck == "" {
				return items
			}
			out := refmodel.CloneItems(items)
			for _, it := range out {
				fv := it.FieldByName(f.WriteCheck)
				fv.Set(reflect.Zero(fv.Type()))
			}
			return out
		}
		want := refmodel.Multiset(noFlag(refmodel.Fold(f, state, u)))
		got := refmodel.Multiset(noFlag(refmodel.ItemsOf(f, srv.DataCopy(f.Fn))))
		if !reflect.DeepEqual(want, got) {
			world.Fail(t, "C03/authorised-write-effect/"+shapeSig, "an authorised, accepted write did not produce the fold of the write\n want: %v\n got:  %v%s", want, got, detail())
		}
		if notifies != subscribers {
			world.Fail(t, "C03/authorised-write-fanout", "accepted write: %d notifications for %d subscriptions%s", notifies, subscribers, detail())
		}
		if dataEvents != 1 {
			world.Fail(t, "C03/authorised-write-event", "accepted write published %d data-change events%s", dataEvents, detail())
		}
		if ack && results != 1 {
			world.Fail(t, "C03/authorised-write-result", "accepted write with ack got %d results%s", results, detail())
		}
		m.accepted[pi]++
		m.ops = append(m.ops, "write:accepted")
		return
	}
	// authorised but answered with an error (e.g. elements the write may not touch): nothing happened
	if results != 1 {
		world.Fail(t, "C03/authorised-write-result", "rejected authorised write got %d results%s", results, detail())
	}
	if before != after || notifies != 0 || dataEvents != 0 {
		world.Fail(t, "C03/rejected-write-effect", "an authorised write answered with an error had effects (changed=%v notifies=%d events=%d)%s", before != after, notifies, dataEvents, detail())
	}
	// (a full write may be refused for the sake of an element it is not allowed to change - C04's
	// subject; without such an element in the data nothing stands against it)
	if !u.HasFilter() && !holdsProtectedElement(f, state) {
		world.Fail(t, "C03/authorised-full-write-rejected", "an authorised full write of a writable function was rejected although the data holds no write-protected element%s", detail())
	}
	if expect == "accepted" && (shape == listgen.Full) && !holdsProtectedElement(f, state) {
		world.Fail(t, "C03/immediacy/not-accepted-after-bind", "the write directly after a granted binding was rejected%s", detail())
	}
	m.rejected[pi]++
	m.ops = append(m.ops, "write:authorised-rejected")
}

func (m *machine) randomWrite(t *rapid.T) {
	pi := m.live(t, "peer")
	si := rapid.IntRange(0, len(m.w.Servers)-1).Draw(t, "server")
	client := rapid.SampledFrom(regs.ClientRefs[:7]).Draw(t, "client")
	fn := m.w.Servers[si].Writable
	switch rapid.IntRange(0, 5).Draw(t, "whichFn") {
	case 0:
		fn = m.w.Servers[si].ReadOnly
	case 1:
		fn = m.w.Servers[si].Unannounced // a function of the type the feature never announced
	}
	f := gen.ByFunction(fn)
	shape := rapid.SampledFrom(listgen.ShapesFor(f)).Draw(t, "shape")
	m.write(t, pi, client, si, f, shape, rapid.Bool().Draw(t, "ack"), "")
}

// matching client refs for server si
func clientsFor(w *regs.W, si int) []regs.Ref {
	var out []regs.Ref
	for _, e := range regs.PeerEntities() {
		for _, f := range e.Feats {
			if f.Type == w.Servers[si].Type && f.Role == model.RoleTypeClient {
				out = append(out, regs.Ref{Ent: e.Addr, Feat: f.ID})
			}
		}
	}
	return out
}

func (m *machine) bindThenWrite(t *rapid.T) {
	pi := m.live(t, "peer")
	si := rapid.IntRange(0, len(m.w.Servers)-1).Draw(t, "server")
	cands := clientsFor(m.w, si)
	client := cands[rapid.IntRange(0, len(cands)-1).Draw(t, "client")]
	if m.ent2Gone[pi] && len(client.Ent) == 1 && client.Ent[0] == 2 {
		t.Skip("entity removed")
	}
	c := regs.Call{Peer: pi, Client: client, Server: regs.ServerRefs[si], Type: m.w.Servers[si].Type,
		OmitClientDev: rapid.Bool().Draw(t, "omitC"), OmitServerDev: rapid.Bool().Draw(t, "omitS")}
	_, ok := m.w.Do(c, world.BindCall(m.w.ClientAddr(c), m.w.ServerAddr(c), c.Type))
	m.logf("bind %s => %v", c, ok)
	f := gen.ByFunction(m.w.Servers[si].Writable)
	expect := ""
	if ok {
		expect = "accepted"
		m.granted[gkey(pi, client, si)] = true
	}
	m.ops = append(m.ops, fmt.Sprintf("bind:%v", ok))
	m.write(t, pi, client, si, f, listgen.Full, rapid.Bool().Draw(t, "ack"), expect)
	if rapid.IntRange(0, 2).Draw(t, "thenOtherFn") == 0 {
		// the binding does not make functions writable that are read-only or were never announced
		other := m.w.Servers[si].ReadOnly
		if rapid.Bool().Draw(t, "unannounced") {
			other = m.w.Servers[si].Unannounced
		}
		m.write(t, pi, client, si, gen.ByFunction(other), listgen.Full, true, "")
	}
}

type entry struct {
	pi     int
	client regs.Ref
	si     int
}

func (m *machine) bindings() []entry {
	var out []entry
	for pi, p := range m.w.Peers {
		if p.Gone {
			continue
		}
		for _, b := range m.w.Local.BindingManager().Bindings(p.Dev) {
			for si, s := range m.w.Servers {
				if reflect.DeepEqual(s.F.Address(), b.ServerFeature.Address()) {
					a := b.ClientFeature.Address()
					var ent []uint
					for _, e := range a.Entity {
						ent = append(ent, uint(e))
					}
					out = append(out, entry{pi, regs.Ref{Ent: ent, Feat: uint(*a.Feature)}, si})
				}
			}
		}
	}
	return out
}

func (m *machine) unbindThenWrite(t *rapid.T) {
	bs := m.bindings()
	if len(bs) == 0 {
		t.Skip("no binding")
	}
	b := bs[rapid.IntRange(0, len(bs)-1).Draw(t, "binding")]
	c := regs.Call{Peer: b.pi, Client: b.client, Server: regs.ServerRefs[b.si], OmitClientDev: rapid.Bool().Draw(t, "omitC"), OmitServerDev: rapid.Bool().Draw(t, "omitS")}
	variant := rapid.SampledFrom([]string{"valid", "valid", "foreign-peer", "other-client"}).Draw(t, "variant")
	switch variant {
	case "foreign-peer": // the same addresses sent by another peer must not delete it
		c.Peer = (b.pi + 1) % len(m.w.Peers)
		if m.w.Peers[c.Peer].Gone {
			t.Skip("other peer gone")
		}
	case "other-client":
		c.Client = regs.Ref{Ent: []uint{1}, Feat: 5}
	}
	_, ok := m.w.Do(c, world.UnbindCall(m.w.ClientAddr(c), m.w.ServerAddr(c)))
	m.logf("unbind (%s) %s => %v", variant, c, ok)
	expect := ""
	if ok && variant == "valid" {
		expect = "rejected"
	}
	if ok {
		delete(m.granted, gkey(c.Peer, c.Client, b.si))
	}
	m.ops = append(m.ops, fmt.Sprintf("unbind:%s:%v", variant, ok))
	f := gen.ByFunction(m.w.Servers[b.si].Writable)
	m.write(t, b.pi, b.client, b.si, f, listgen.Full, true, expect)
}

func (m *machine) reconnectThenWrite(t *rapid.T) {
	bs := m.bindings()
	if len(bs) == 0 {
		t.Skip("no binding")
	}
	b := bs[rapid.IntRange(0, len(bs)-1).Draw(t, "binding")]
	old := m.w.Peers[b.pi]
	m.w.Disconnect(old)
	m.w.Reconnect(old, regs.PeerEntities())
	m.ent2Gone[b.pi] = false
	for k := range m.granted {
		if strings.HasPrefix(k, fmt.Sprintf("%d|", b.pi)) {
			delete(m.granted, k)
		}
	}
	m.logf("peer%d disconnected and connected again", b.pi+1)
	m.ops = append(m.ops, "reconnect")
	f := gen.ByFunction(m.w.Servers[b.si].Writable)
	m.write(t, b.pi, b.client, b.si, f, listgen.Full, true, "rejected")
}

func (m *machine) entityRemoveThenWrite(t *rapid.T) {
	pi := m.live(t, "peer")
	p := m.w.Peers[pi]
	removed := model.NetworkManagementStateChangeTypeRemoved
	added := model.NetworkManagementStateChangeTypeAdded
	ent2 := regs.PeerEntities()[1]
	send := func(change *model.NetworkManagementStateChangeType, withFeatures bool) {
		e := ent2
		if !withFeatures {
			e.Feats = nil
		}
		data := p.DiscoveryData([]world.EntSpec{e}, change)
		cmd := model.CmdType{Function: ptr(model.FunctionTypeNodeManagementDetailedDiscoveryData), Filter: []model.FilterType{*model.NewFilterTypePartial()}, NodeManagementDetailedDiscoveryData: data}
		p.Send(p.Msg(model.CmdClassifierTypeNotify, p.NM(), world.LocalNM(), false, nil, cmd))
		m.w.Sync()
		p.Cap.Drain()
	}
	// find a binding held by a feature of entity [2], if any, to check immediacy
	var target *entry
	for _, b := range m.bindings() {
		if b.pi == pi && len(b.client.Ent) == 1 && b.client.Ent[0] == 2 {
			b := b
			target = &b
		}
	}
	send(&removed, false)
	m.ent2Gone[pi] = true
	for k := range m.granted {
		if strings.HasPrefix(k, fmt.Sprintf("%d|[2]/", pi)) {
			delete(m.granted, k)
		}
	}
	m.logf("peer%d announces entity [2] removed", pi+1)
	m.ops = append(m.ops, "entity-removed")
	si, client := 0, regs.Ref{Ent: []uint{2}, Feat: 1}
	if target != nil {
		si, client = target.si, target.client
	}
	f := gen.ByFunction(m.w.Servers[si].Writable)
	// the writer's entity is gone: the writer is no announced feature any more
	m.write(t, pi, client, si, f, listgen.Full, true, "rejected")
	if rapid.Bool().Draw(t, "readd") {
		send(&added, true)
		m.ent2Gone[pi] = false
		m.logf("peer%d announces entity [2] added again", pi+1)
		// the old binding must not have survived
		m.write(t, pi, client, si, f, listgen.Full, true, "rejected")
	}
}

func ptr[T any](v T) *T { return &v }

// rediscovery: the peer's discovery data for entities the stack already knows comes in again (a second
// reply to the discovery read, or an "added" notification for an existing entity). Nothing disappears,
// so the bindings and with them the authorisation stay as they are - also across what follows.
func (m *machine) rediscovery(t *rapid.T) {
	pi := m.live(t, "peer")
	p := m.w.Peers[pi]
	ents := regs.PeerEntities()
	how := rapid.SampledFrom([]string{"reply", "added-[1]", "added-[2]", "added-[2 1]"}).Draw(t, "how")
	if how == "reply" {
		if m.ent2Gone[pi] {
			ents = append(ents[:1:1], ents[2:]...)
		}
		p.Announce(ents)
	} else {
		i := map[string]int{"added-[1]": 0, "added-[2]": 1, "added-[2 1]": 2}[how]
		if i == 1 && m.ent2Gone[pi] {
			t.Skip("entity [2] is not there")
		}
		added := model.NetworkManagementStateChangeTypeAdded
		data := p.DiscoveryData([]world.EntSpec{ents[i]}, &added)
		cmd := model.CmdType{Function: ptr(model.FunctionTypeNodeManagementDetailedDiscoveryData), Filter: []model.FilterType{*model.NewFilterTypePartial()}, NodeManagementDetailedDiscoveryData: data}
		p.Send(p.Msg(model.CmdClassifierTypeNotify, p.NM(), world.LocalNM(), false, nil, cmd))
		m.w.Sync()
		p.Cap.Drain()
	}
	m.logf("peer%d: discovery data of known entities again (%s)", pi+1, how)
	m.ops = append(m.ops, "rediscovery")
	if bs := m.bindings(); len(bs) > 0 {
		b := bs[rapid.IntRange(0, len(bs)-1).Draw(t, "binding")]
		m.write(t, b.pi, b.client, b.si, gen.ByFunction(m.w.Servers[b.si].Writable), listgen.Full, true, "")
	}
}

func (m *machine) unbind(t *rapid.T) {
	c := regs.DrawCall(t, m.w, "unbind")
	if m.w.Peers[c.Peer].Gone {
		t.Skip("peer gone")
	}
	_, ok := m.w.Do(c, world.UnbindCall(m.w.ClientAddr(c), m.w.ServerAddr(c)))
	m.logf("unbind %s => %v", c, ok)
	if si := serverIndex(c.Server); ok && si >= 0 {
		delete(m.granted, gkey(c.Peer, c.Client, si))
	}
	m.ops = append(m.ops, "unbind-random")
}

func (m *machine) subscribe(t *rapid.T) {
	c := regs.DrawCall(t, m.w, "sub")
	if m.w.Peers[c.Peer].Gone {
		t.Skip("peer gone")
	}
	_, ok := m.w.Do(c, world.SubscribeCall(m.w.ClientAddr(c), m.w.ServerAddr(c), c.Type))
	m.logf("subscribe %s => %v", c, ok)
	m.ops = append(m.ops, "subscribe")
}

func (m *machine) setData(t *rapid.T) {
	si := rapid.IntRange(0, len(m.w.Servers)-1).Draw(t, "server")
	f := gen.ByFunction(m.w.Servers[si].Writable)
	items := listgen.Items(t, f, 3, gen.Opt{}, "items")
	u := refmodel.Update{Items: items}
	stripFlags(f, &u)
	if f.WriteCheck != "" {
		for _, it := range items { // changeable elements, so that partial writes can be accepted
			b := true
			it.FieldByName(f.WriteCheck).Set(reflect.ValueOf(&b))
		}
	}
	m.w.Servers[si].F.SetData(f.Fn, refmodel.Payload(f, items))
	m.logf("SetData server#%d (%d items)", si, len(items))
	m.ops = append(m.ops, "setdata")
}

func TestWriteGate(t *testing.T) {
	rapid.Check(t, world.Prop(func(t *rapid.T) {
		m := &machine{w: regs.New(3), accepted: map[int]int{}, rejected: map[int]int{}, ent2Gone: map[int]bool{}, granted: map[string]bool{}}
		defer m.w.Teardown()
		t.Repeat(map[string]func(*rapid.T){
			"write":                 m.randomWrite,
			"write2":                m.randomWrite,
			"bindThenWrite":         m.bindThenWrite,
			"bindThenWrite2":        m.bindThenWrite,
			"unbindThenWrite":       m.unbindThenWrite,
			"reconnectThenWrite":    m.reconnectThenWrite,
			"entityRemoveThenWrite": m.entityRemoveThenWrite,
			"rediscovery":           m.rediscovery,
			"unbind":                m.unbind,
			"subscribe":             m.subscribe,
			"setData":               m.setData,
		})
		nt := false
		for pi := range m.w.Peers {
			if m.accepted[pi] > 0 && m.rejected[pi] > 0 {
				nt = true
			}
		}
		world.Record(world.Hash(m.ops), nt)
		for _, o := range m.ops {
			if strings.HasPrefix(o, "write:") {
				world.Label(o)
			}
		}
		if nt && world.WantSample() {
			world.Sample(map[string]any{"history": m.hist})
		}
	}))
}
