// Package c03: a remote write takes effect only with a binding and write permission.
package c03

import (
	"fmt"
	"reflect"
	"strings"
	"testing"

	"github.com/enbility/spine-go/api"
	"github.com/enbility/spine-go/model"
	"pgregory.net/rapid"

	"verifharness/gen"
	"verifharness/listgen"
	"verifharness/refmodel"
	"verifharness/regs"
	"verifharness/world"
)

func TestMain(m *testing.M) { world.Main(m) }

type machine struct {
	w        *regs.W
	hist     []string
	ops      []string
	accepted map[int]int // per peer
	rejected map[int]int
	gone     map[int]map[string]bool // per peer: the entities it announced as removed (key: fmt.Sprint of the address)
	// the bindings the history says exist: granted by a bind call, not deleted by a delete call that
	// was answered with success, holder neither disconnected nor removed (key: peer|client|server index)
	granted map[string]bool
	// why the history says a binding that was granted once is gone (same key): named in the signature when
	// the registry still holds it
	ended map[string]string
	// the local server features written to: regs.W.Servers plus the server feature of the type Generic
	// (same order as regs.ServerRefs)
	srvs []regs.LocalServer
	// noAddr: index of the peer whose discovery data carries no device address (-1: none). The stack knows
	// its entities and features under addresses without device part.
	noAddr int
	// fresh counts the entities announced as new by full notifications (each gets an address of its own)
	fresh int
}

// stripDevice: the discovery data as a device sends it that does not state its device address (an optional
// element), neither in the device description nor in the entity and feature addresses
func stripDevice(data *model.NodeManagementDetailedDiscoveryDataType) *model.NodeManagementDetailedDiscoveryDataType {
	if data.DeviceInformation != nil && data.DeviceInformation.Description != nil {
		data.DeviceInformation.Description.DeviceAddress = nil
	}
	for i := range data.EntityInformation {
		if d := data.EntityInformation[i].Description; d != nil && d.EntityAddress != nil {
			d.EntityAddress.Device = nil
		}
	}
	for i := range data.FeatureInformation {
		if d := data.FeatureInformation[i].Description; d != nil && d.FeatureAddress != nil {
			d.FeatureAddress.Device = nil
		}
	}
	return data
}

// discoveryData is the peer's detailed discovery data for ents in the form this peer sends it
func (m *machine) discoveryData(p *world.Peer, ents []world.EntSpec, change *model.NetworkManagementStateChangeType) *model.NodeManagementDetailedDiscoveryDataType {
	data := p.DiscoveryData(ents, change)
	if p.Idx == m.noAddr {
		stripDevice(data)
	}
	return data
}

// announce: the peer's reply to the stack's discovery read
func (m *machine) announce(p *world.Peer, ents []world.EntSpec) {
	if p.Idx != m.noAddr {
		p.Announce(ents)
		return
	}
	ents = world.WithDeviceInfo(ents)
	p.Ents = ents
	cmd := model.CmdType{NodeManagementDetailedDiscoveryData: m.discoveryData(p, ents, nil)}
	p.Send(p.Msg(model.CmdClassifierTypeReply, p.NM(), world.LocalNM(), false, p.DiscoveryRef, cmd))
	m.w.Sync()
	p.Cap.Drain()
	m.w.Events.Drain()
}

// clientType: feature type of a client reference of the peers' tree ([0]/0 is node management, role special)
func clientType(r regs.Ref) model.FeatureTypeType {
	for _, e := range regs.PeerEntities() {
		for _, f := range e.Feats {
			if entKey(e.Addr) == entKey(r.Ent) && f.ID == r.Feat {
				return f.Type
			}
		}
	}
	return model.FeatureTypeTypeNodeManagement
}

// bindType: the server feature type a binding request of client for server si names: the type of the server
// feature; for the server feature of the type Generic (it stands for any type) the client's own type, and
// LoadControl (whose limit list that feature offers) when the client is of the type Generic as well
func (m *machine) bindType(client regs.Ref, si int) model.FeatureTypeType {
	if st := m.srvs[si].Type; st != model.FeatureTypeTypeGeneric {
		return st
	}
	if ct := clientType(client); ct != model.FeatureTypeTypeGeneric {
		return ct
	}
	return model.FeatureTypeTypeLoadControl
}

func entKey(ent []uint) string { return fmt.Sprint(ent) }

func (m *machine) isGone(pi int, ent []uint) bool { return m.gone[pi][entKey(ent)] }

// end: by the history the binding does not exist any more (no-op for bindings that do not exist)
func (m *machine) end(key, why string) {
	if m.granted[key] {
		delete(m.granted, key)
		m.ended[key] = why
	}
}

// endAll ends every binding of the history whose key starts with prefix
func (m *machine) endAll(prefix, why string) {
	for k := range m.granted {
		if strings.HasPrefix(k, prefix) {
			m.end(k, why)
		}
	}
}

// holdsProtectedElement: does the list hold an element whose changeability flag is not true?
func holdsProtectedElement(f *gen.Func, items []reflect.Value) bool {
	if f.WriteCheck == "" {
		return false
	}
	for _, it := range items {
		fl := it.FieldByName(f.WriteCheck)
		if fl.IsNil() || !fl.Elem().Bool() {
			return true
		}
	}
	return false
}

func gkey(pi int, client regs.Ref, si int) string { return fmt.Sprintf("%d|%s|%d", pi, client, si) }

func serverIndex(r regs.Ref) int {
	for i, s := range regs.ServerRefs {
		if s.String() == r.String() {
			return i
		}
	}
	return -1
}

func (m *machine) logf(format string, a ...any) { m.hist = append(m.hist, fmt.Sprintf(format, a...)) }
func (m *machine) history() string              { return "\n history:\n  " + strings.Join(m.hist, "\n  ") }

func (m *machine) live(t *rapid.T, label string) int {
	var idx []int
	for i, p := range m.w.Peers {
		if !p.Gone {
			idx = append(idx, i)
		}
	}
	if len(idx) == 0 {
		t.Skip("no connected peer")
	}
	return idx[rapid.IntRange(0, len(idx)-1).Draw(t, label)]
}

// stripFlags removes the changeability flag from the items of restricted writes (C04 owns flag handling).
func stripFlags(f *gen.Func, u *refmodel.Update) {
	if f.WriteCheck == "" {
		return
	}
	for _, it := range u.Items {
		fv := it.FieldByName(f.WriteCheck)
		fv.Set(reflect.Zero(fv.Type()))
		if !u.HasFilter() {
			// a full write states the elements as changeable, so that the lists of this check stay
			// writable (a list with protected elements may refuse writes for C04's reasons)
			yes := true
			fv.Set(reflect.ValueOf(&yes))
		}
	}
}

// write injects one write and judges it against the gate (binding registry + announced operations).
// expect: "" (no expectation beyond the gate), "accepted" or "rejected" (immediacy clauses).
func (m *machine) write(t *rapid.T, pi int, client regs.Ref, si int, f *gen.Func, shape string, ack bool, expect string) {
	w := m.w
	p := w.Peers[pi]
	srv := m.srvs[si].F
	clientAddr := p.FA(client.Ent, client.Feat)
	// the address the stack knows the writer under (without device part for a peer that never stated its
	// device address); the datagram carries the peer's own address, as such a device sends it
	regAddr := clientAddr
	writerFeature := p.Dev.FeatureByAddress(clientAddr)
	writerAnnounced := writerFeature != nil
	if writerAnnounced {
		regAddr = writerFeature.Address()
	}
	ops, okOps := srv.Operations()[f.Fn]
	writable := okOps && ops.Write()
	has := w.Local.BindingManager().HasLocalFeatureRemoteBinding(srv.Address(), regAddr)
	// cross-check the two views of the registry
	listed := false
	for _, b := range w.Local.BindingManager().Bindings(p.Dev) {
		if reflect.DeepEqual(b.ClientFeature.Address(), regAddr) && reflect.DeepEqual(b.ServerFeature.Address(), srv.Address()) {
			listed = true
		}
	}
	if listed != has {
		world.Fail(t, "C03/registry-views-disagree", "HasLocalFeatureRemoteBinding=%v but Bindings(peer) listed=%v for %s -> %s%s", has, listed, clientAddr, srv.Address(), m.history())
	}
	if want := m.granted[gkey(pi, client, si)]; want != has {
		kind := "granted-binding-gone"
		if has {
			kind = "binding-nobody-was-granted"
			if why := m.ended[gkey(pi, client, si)]; why != "" {
				kind = "binding-still-there-after-" + why
			}
		}
		world.Fail(t, "C03/registry-disagrees-with-history/"+kind, "by the history the binding %s -> server#%d of peer%d exists=%v (granted and not deleted since, holder still there), the registry says %v: the authorisation of this write follows the wrong state%s", client, si, pi+1, want, has, m.history())
	}
	state := refmodel.CloneItems(refmodel.ItemsOf(f, srv.DataCopy(f.Fn)))
	u := listgen.Update(t, f, state, shape, gen.Opt{}, "w")
	stripFlags(f, &u)
	before := world.JSON(srv.DataCopy(f.Fn))
	subscribers := len(w.Local.SubscriptionManager().SubscriptionsOnFeature(*srv.Address()))
	for _, q := range w.Peers {
		q.Cap.Drain()
	}
	w.Events.Drain()
	cmd := listgen.Cmd(f, u)
	if !u.HasFilter() && m.srvs[si].ReadOnly != "" && rapid.IntRange(0, 3).Draw(t, "functionElement") == 0 {
		// the optional function element of a full write names another function of the feature (the
		// writable one when the read-only one is written and vice versa): what is written is what the
		// data element says
		other := m.srvs[si].Writable
		if f.Fn == other {
			other = m.srvs[si].ReadOnly
		}
		cmd.Function = &other
		world.Label("write/function-element-names-other-function")
	}
	d := p.Msg(model.CmdClassifierTypeWrite, clientAddr, srv.Address(), ack, nil, cmd)
	// a datagram may carry several commands: now and then a second one follows that writes the function the
	// feature announces as read-only. Whatever the stack makes of further commands, that function's data stays
	var roFn *gen.Func
	var roBefore string
	if ro := m.srvs[si].ReadOnly; ro != "" && f.Fn != ro && rapid.IntRange(0, 4).Draw(t, "secondCmd") == 0 {
		roFn = gen.ByFunction(ro)
		roBefore = world.JSON(srv.DataCopy(ro))
		d.Payload.Cmd = append(d.Payload.Cmd, listgen.Cmd(roFn, refmodel.Update{Items: listgen.Items(t, roFn, 2, gen.Opt{}, "secondCmd.items")}))
		world.Label("write/second-command-on-read-only-function")
	}
	p.Send(d)
	w.Sync()
	if roFn != nil {
		if roAfter := world.JSON(srv.DataCopy(roFn.Fn)); roAfter != roBefore {
			world.Fail(t, "C03/unauthorised-write-applied/not-writable", "a write datagram whose second command names %s (announced read-only) changed that function's data\n before: %s\n after:  %s%s", roFn.Fn, roBefore, roAfter, m.history())
		}
	}
	results, errNo := 0, -1
	notifies := 0
	for qi, q := range w.Peers {
		for _, s := range q.Cap.Drain() {
			switch {
			case qi == pi && s.Classifier() == model.CmdClassifierTypeResult && s.Ref() != nil && *s.Ref() == *d.Header.MsgCounter:
				results++
				errNo = s.ErrorNumber()
			case s.Classifier() == model.CmdClassifierTypeNotify && reflect.DeepEqual(s.D.Header.AddressSource, srv.Address()):
				notifies++
			default:
				world.Fail(t, "C03/unexpected-datagram", "peer%d received an unexpected %s after a write%s", qi+1, s.Classifier(), m.history())
			}
		}
	}
	dataEvents := 0
	for _, e := range w.Events.Drain() {
		if e.P.EventType == api.EventTypeDataChange {
			dataEvents++
		}
	}
	after := world.JSON(srv.DataCopy(f.Fn))
	authorised := writerAnnounced && writable && has
	m.logf("write peer%d %s -> server#%d %s %s ack=%v | announced=%v writable=%v binding=%v => results=%d err=%d notifies=%d events=%d changed=%v",
		pi+1, client, si, f.Fn, u.Shape(), ack, writerAnnounced, writable, has, results, errNo, notifies, dataEvents, before != after)
	detail := func() string {
		return fmt.Sprintf("\n write: %s\n before: %s\n after:  %s%s", world.JSON(listgen.Describe(f, u)), before, after, m.history())
	}
	shapeSig := strings.NewReplacer("+", "-", "&", "-and-").Replace(u.Shape())
	if !authorised {
		why := "no-binding"
		if !writable {
			why = "not-writable"
		}
		if !writerAnnounced {
			why = "writer-not-announced"
		}
		if before != after {
			world.Fail(t, "C03/unauthorised-write-applied/"+why, "a write without authorisation (%s) changed the data%s", why, detail())
		}
		if notifies != 0 {
			world.Fail(t, "C03/unauthorised-write-notified/"+why, "a write without authorisation (%s) caused %d notifications%s", why, notifies, detail())
		}
		if dataEvents != 0 {
			world.Fail(t, "C03/unauthorised-write-event/"+why, "a write without authorisation (%s) published %d data-change events%s", why, dataEvents, detail())
		}
		if writerAnnounced && (results != 1 || errNo == 0) {
			world.Fail(t, "C03/unauthorised-write-result/"+why, "a write without authorisation (%s) got %d results (error number %d), expected exactly one error result%s", why, results, errNo, detail())
		}
		if expect == "accepted" {
			world.Fail(t, "C03/immediacy/not-accepted-after-bind", "the write directly after a granted binding was not authorised%s", detail())
		}
		m.rejected[pi]++
		m.ops = append(m.ops, "write:unauthorised:"+why)
		return
	}
	if expect == "rejected" {
		world.Fail(t, "C03/immediacy/accepted-after-removal", "the write is still authorised directly after its binding was deleted or its device/entity disappeared%s", detail())
	}
	success := (results == 1 && errNo == 0) || (!ack && results == 0)
	if success {
		// the changeability flag itself is never altered by a remote write (C04's subject): a write
		// that names it, e.g. in delete elements, is compared without that field
		noFlag := func(items []reflect.Value) []reflect.Value {
			if f.WriteCheck == "" {
				return items
			}
			out := refmodel.CloneItems(items)
			for _, it := range out {
				fv := it.FieldByName(f.WriteCheck)
				fv.Set(reflect.Zero(fv.Type()))
			}
			return out
		}
		want := refmodel.Multiset(noFlag(refmodel.Fold(f, state, u)))
		got := refmodel.Multiset(noFlag(refmodel.ItemsOf(f, srv.DataCopy(f.Fn))))
		if !reflect.DeepEqual(want, got) {
			world.Fail(t, "C03/authorised-write-effect/"+shapeSig, "an authorised, accepted write did not produce the fold of the write\n want: %v\n got:  %v%s", want, got, detail())
		}
		if notifies != subscribers {
			world.Fail(t, "C03/authorised-write-fanout", "accepted write: %d notifications for %d subscriptions%s", notifies, subscribers, detail())
		}
		if dataEvents != 1 {
			world.Fail(t, "C03/authorised-write-event", "accepted write published %d data-change events%s", dataEvents, detail())
		}
		if ack && results != 1 {
			world.Fail(t, "C03/authorised-write-result", "accepted write with ack got %d results%s", results, detail())
		}
		m.accepted[pi]++
		m.ops = append(m.ops, "write:accepted")
		return
	}
	// authorised but answered with an error (e.g. elements the write may not touch): nothing happened
	if results != 1 {
		world.Fail(t, "C03/authorised-write-result", "rejected authorised write got %d results%s", results, detail())
	}
	if before != after || notifies != 0 || dataEvents != 0 {
		world.Fail(t, "C03/rejected-write-effect", "an authorised write answered with an error had effects (changed=%v notifies=%d events=%d)%s", before != after, notifies, dataEvents, detail())
	}
	// (a full write may be refused for the sake of an element it is not allowed to change - C04's
	// subject; without such an element in the data nothing stands against it)
	if !u.HasFilter() && !holdsProtectedElement(f, state) {
		world.Fail(t, "C03/authorised-full-write-rejected", "an authorised full write of a writable function was rejected although the data holds no write-protected element%s", detail())
	}
	if expect == "accepted" && (shape == listgen.Full) && !holdsProtectedElement(f, state) {
		world.Fail(t, "C03/immediacy/not-accepted-after-bind", "the write directly after a granted binding was rejected%s", detail())
	}
	m.rejected[pi]++
	m.ops = append(m.ops, "write:authorised-rejected")
}

func (m *machine) randomWrite(t *rapid.T) {
	pi := m.live(t, "peer")
	si := rapid.IntRange(0, len(m.srvs)-1).Draw(t, "server")
	client := rapid.SampledFrom(append(regs.ClientRefs[:7:7], regs.GenericClientRef)).Draw(t, "client")
	fn := m.srvs[si].Writable
	switch rapid.IntRange(0, 5).Draw(t, "whichFn") {
	case 0:
		if ro := m.srvs[si].ReadOnly; ro != "" {
			fn = ro
		}
	case 1:
		fn = m.srvs[si].Unannounced // a function of the type the feature never announced
	}
	f := gen.ByFunction(fn)
	shape := rapid.SampledFrom(listgen.ShapesFor(f)).Draw(t, "shape")
	m.write(t, pi, client, si, f, shape, rapid.Bool().Draw(t, "ack"), "")
}

// clientsFor: the features of a peer that are granted a binding to server si: client features of the server's
// type and the client feature of the type Generic (it stands for any type); every client feature and the
// peer's node management feature (role special, granted like a client) for the Generic server feature.
func (m *machine) clientsFor(si int) []regs.Ref {
	var out []regs.Ref
	st := m.srvs[si].Type
	for _, e := range regs.PeerEntities() {
		for _, f := range e.Feats {
			if f.Role == model.RoleTypeClient && (f.Type == st || f.Type == model.FeatureTypeTypeGeneric || st == model.FeatureTypeTypeGeneric) {
				out = append(out, regs.Ref{Ent: e.Addr, Feat: f.ID})
			}
		}
	}
	if st == model.FeatureTypeTypeGeneric {
		out = append(out, regs.Ref{Ent: []uint{0}, Feat: 0})
	}
	return out
}

// bind sends a binding request of the peer's client feature for server feature si (device parts present
// or omitted) and enters a granted binding into the history.
func (m *machine) bind(t *rapid.T, pi int, client regs.Ref, si int) bool {
	c := regs.Call{Peer: pi, Client: client, Server: regs.ServerRefs[si], Type: m.bindType(client, si),
		OmitClientDev: rapid.Bool().Draw(t, "omitC"), OmitServerDev: rapid.Bool().Draw(t, "omitS")}
	_, ok := m.w.Do(c, world.BindCall(m.w.ClientAddr(c), m.w.ServerAddr(c), c.Type))
	m.logf("bind %s => %v", c, ok)
	if ok {
		world.Label(fmt.Sprintf("bind/granted/client-%s/server-%s", clientType(client), m.srvs[si].Type))
		m.granted[gkey(pi, client, si)] = true
		delete(m.ended, gkey(pi, client, si))
	}
	m.ops = append(m.ops, fmt.Sprintf("bind:%v", ok))
	return ok
}

func (m *machine) bindThenWrite(t *rapid.T) {
	pi := m.live(t, "peer")
	si := rapid.IntRange(0, len(m.srvs)-1).Draw(t, "server")
	cands := m.clientsFor(si)
	client := cands[rapid.IntRange(0, len(cands)-1).Draw(t, "client")]
	if m.isGone(pi, client.Ent) {
		t.Skip("entity removed")
	}
	ok := m.bind(t, pi, client, si)
	f := gen.ByFunction(m.srvs[si].Writable)
	expect := ""
	if ok {
		expect = "accepted"
	}
	m.write(t, pi, client, si, f, listgen.Full, rapid.Bool().Draw(t, "ack"), expect)
	if rapid.IntRange(0, 2).Draw(t, "thenOtherFn") == 0 {
		// the binding does not make functions writable that are read-only or were never announced
		other := m.srvs[si].ReadOnly
		if rapid.Bool().Draw(t, "unannounced") || other == "" {
			other = m.srvs[si].Unannounced
		}
		m.write(t, pi, client, si, gen.ByFunction(other), listgen.Full, true, "")
	}
}

type entry struct {
	pi     int
	client regs.Ref
	si     int
}

func (m *machine) bindings() []entry {
	var out []entry
	for pi, p := range m.w.Peers {
		if p.Gone {
			continue
		}
		for _, b := range m.w.Local.BindingManager().Bindings(p.Dev) {
			for si, s := range m.srvs {
				if reflect.DeepEqual(s.F.Address(), b.ServerFeature.Address()) {
					a := b.ClientFeature.Address()
					var ent []uint
					for _, e := range a.Entity {
						ent = append(ent, uint(e))
					}
					out = append(out, entry{pi, regs.Ref{Ent: ent, Feat: uint(*a.Feature)}, si})
				}
			}
		}
	}
	return out
}

func (m *machine) unbindThenWrite(t *rapid.T) {
	bs := m.bindings()
	if len(bs) == 0 {
		t.Skip("no binding")
	}
	b := bs[rapid.IntRange(0, len(bs)-1).Draw(t, "binding")]
	c := regs.Call{Peer: b.pi, Client: b.client, Server: regs.ServerRefs[b.si], OmitClientDev: rapid.Bool().Draw(t, "omitC"), OmitServerDev: rapid.Bool().Draw(t, "omitS")}
	variant := rapid.SampledFrom([]string{"valid", "valid", "foreign-peer", "other-client"}).Draw(t, "variant")
	switch variant {
	case "foreign-peer": // the same addresses sent by another peer must not delete it
		c.Peer = (b.pi + 1) % len(m.w.Peers)
		if m.w.Peers[c.Peer].Gone {
			t.Skip("other peer gone")
		}
	case "other-client":
		c.Client = regs.Ref{Ent: []uint{1}, Feat: 5}
	}
	// The delete request of the holder for a binding that exists by the history deletes it: the device
	// part of either address may be left out (it then stands for the sender's resp. the recipient's device).
	// How the request itself is answered is C09's subject; what follows is judged by the history.
	obliged := m.granted[gkey(c.Peer, c.Client, b.si)]
	_, ok := m.w.Do(c, world.UnbindCall(m.w.ClientAddr(c), m.w.ServerAddr(c)))
	m.logf("unbind (%s) %s => %v (request of the holder for an existing binding: %v)", variant, c, ok, obliged)
	expect := ""
	if obliged {
		m.end(gkey(c.Peer, c.Client, b.si), "delete-request")
		if c.Peer == b.pi && c.Client.String() == b.client.String() {
			expect = "rejected"
		}
		world.Label(fmt.Sprintf("unbind/holder/omitC=%v/omitS=%v", c.OmitClientDev, c.OmitServerDev))
	}
	m.ops = append(m.ops, fmt.Sprintf("unbind:%s:%v", variant, ok))
	f := gen.ByFunction(m.srvs[b.si].Writable)
	m.write(t, b.pi, b.client, b.si, f, listgen.Full, true, expect)
}

func (m *machine) reconnectThenWrite(t *rapid.T) {
	bs := m.bindings()
	if len(bs) == 0 {
		t.Skip("no binding")
	}
	b := bs[rapid.IntRange(0, len(bs)-1).Draw(t, "binding")]
	old := m.w.Peers[b.pi]
	m.w.Disconnect(old)
	if b.pi == m.noAddr {
		m.announce(m.w.ReconnectOnly(old), regs.PeerEntities())
		world.Label("reconnect/peer-without-device-address")
	} else {
		m.w.Reconnect(old, regs.PeerEntities())
	}
	delete(m.gone, b.pi)
	m.endAll(fmt.Sprintf("%d|", b.pi), "device-gone")
	m.logf("peer%d disconnected and connected again", b.pi+1)
	m.ops = append(m.ops, "reconnect")
	f := gen.ByFunction(m.srvs[b.si].Writable)
	m.write(t, b.pi, b.client, b.si, f, listgen.Full, true, "rejected")
}

// discoveryNotify sends a detailed-discovery notification of the peer: partial (the entries carry their
// state change) or full (no filter: the entities the peer has from now on).
func (m *machine) discoveryNotify(p *world.Peer, data *model.NodeManagementDetailedDiscoveryDataType, partial bool) {
	cmd := model.CmdType{Function: ptr(model.FunctionTypeNodeManagementDetailedDiscoveryData), NodeManagementDetailedDiscoveryData: data}
	if partial {
		cmd.Filter = []model.FilterType{*model.NewFilterTypePartial()}
	}
	p.Send(p.Msg(model.CmdClassifierTypeNotify, p.NM(), world.LocalNM(), false, nil, cmd))
	m.w.Sync()
	p.Cap.Drain()
}

// entityRemoveThenWrite: ONE detailed-discovery notification of a peer announces one, two or all three of
// its entities ([1], [2], [2,1]) as removed, in any order - as a partial notification with one "removed"
// entry per entity (possibly next to an "added" entry for an entity that stays), or as a full notification
// that lists only what stays. Beforehand client features of the entities that are about to go may obtain
// bindings. Afterwards a feature of EVERY removed entity writes (the holder of a binding if there was one):
// its entity has disappeared, so each of these writes is refused; likewise after the entities came back.
func (m *machine) entityRemoveThenWrite(t *rapid.T) {
	pi := m.live(t, "peer")
	p := m.w.Peers[pi]
	all := regs.PeerEntities()
	order := rapid.Permutation([]int{0, 1, 2}).Draw(t, "order")
	n := rapid.SampledFrom([]int{1, 1, 2, 2, 2, 3}).Draw(t, "removedEntities")
	var going []world.EntSpec
	for _, i := range order[:n] {
		going = append(going, all[i])
	}
	goes := func(ent []uint) bool {
		for _, e := range going {
			if entKey(e.Addr) == entKey(ent) {
				return true
			}
		}
		return false
	}
	if rapid.Bool().Draw(t, "bindFirst") {
		for _, e := range going {
			if m.isGone(pi, e.Addr) {
				continue
			}
			var clients []world.FeatSpec
			for _, f := range e.Feats {
				if f.Role == model.RoleTypeClient && f.Type != model.FeatureTypeTypeGeneric {
					clients = append(clients, f)
				}
			}
			cf := clients[rapid.IntRange(0, len(clients)-1).Draw(t, "bindFirst.client")]
			var servers []int
			for si, s := range m.srvs {
				if s.Type == cf.Type {
					servers = append(servers, si)
				}
			}
			si := servers[rapid.IntRange(0, len(servers)-1).Draw(t, "bindFirst.server")]
			m.bind(t, pi, regs.Ref{Ent: e.Addr, Feat: cf.ID}, si)
		}
	}
	// who writes afterwards: per removed entity the holder of a binding, if there is one
	type writer struct {
		client regs.Ref
		si     int
	}
	var writers []writer
	held := m.bindings()
	for _, e := range going {
		wr := writer{regs.Ref{Ent: e.Addr, Feat: 1}, 0} // (feature 1 of every entity is a Measurement client)
		var mine []entry
		for _, b := range held {
			if b.pi == pi && entKey(b.client.Ent) == entKey(e.Addr) {
				mine = append(mine, b)
			}
		}
		if len(mine) > 0 {
			b := mine[rapid.IntRange(0, len(mine)-1).Draw(t, "holder")]
			wr = writer{b.client, b.si}
		}
		writers = append(writers, wr)
	}
	removed := model.NetworkManagementStateChangeTypeRemoved
	added := model.NetworkManagementStateChangeTypeAdded
	form := rapid.SampledFrom([]string{"partial", "partial", "partial+added-entry", "full"}).Draw(t, "form")
	switch form {
	case "full":
		// what stays: every entity the peer still has and does not remove now (entity [0] is always listed)
		var stay []world.EntSpec
		for _, e := range all {
			if !m.isGone(pi, e.Addr) && !goes(e.Addr) {
				stay = append(stay, e)
			}
		}
		if rapid.Bool().Draw(t, "fullAlsoAnnouncesNewEntity") {
			// the same notification announces an entity the peer did not have so far (a fresh address every
			// time; no writer of the history lives on it and a later full notification that does not list it
			// takes it away again), anywhere among the entities that stay
			m.fresh++
			ne := world.EntSpec{Addr: []uint{uint(4 + m.fresh)}, Type: model.EntityTypeTypeEV, Feats: []world.FeatSpec{
				{ID: 1, Type: model.FeatureTypeTypeMeasurement, Role: model.RoleTypeClient}}}
			at := rapid.IntRange(0, len(stay)).Draw(t, "newEntityAt")
			stay = append(stay[:at:at], append([]world.EntSpec{ne}, stay[at:]...)...)
			form = "full+new-entity"
		}
		m.discoveryNotify(p, m.discoveryData(p, world.WithDeviceInfo(stay), nil), false)
	default:
		var bare []world.EntSpec
		for _, e := range going {
			e.Feats = nil
			bare = append(bare, e)
		}
		data := m.discoveryData(p, bare, &removed)
		if form == "partial+added-entry" {
			// an entry for an entity that stays and is known (nothing changes by it), anywhere among the others
			var stay []world.EntSpec
			for _, e := range all {
				if !m.isGone(pi, e.Addr) && !goes(e.Addr) {
					stay = append(stay, e)
				}
			}
			if len(stay) > 0 {
				e := stay[rapid.IntRange(0, len(stay)-1).Draw(t, "addedEntry")]
				at := rapid.IntRange(0, len(data.EntityInformation)).Draw(t, "addedEntryAt")
				extra := m.discoveryData(p, []world.EntSpec{e}, &added)
				ei := append([]model.NodeManagementDetailedDiscoveryEntityInformationType{}, data.EntityInformation[:at]...)
				ei = append(ei, extra.EntityInformation...)
				data.EntityInformation = append(ei, data.EntityInformation[at:]...)
				data.FeatureInformation = extra.FeatureInformation
			} else {
				form = "partial"
			}
		}
		m.discoveryNotify(p, data, true)
	}
	if m.gone[pi] == nil {
		m.gone[pi] = map[string]bool{}
	}
	var names []string
	for _, e := range going {
		m.gone[pi][entKey(e.Addr)] = true
		m.endAll(fmt.Sprintf("%d|%v/", pi, e.Addr), "entity-removed")
		names = append(names, entKey(e.Addr))
	}
	m.logf("peer%d announces %s removed in one notification (%s)", pi+1, strings.Join(names, ", "), form)
	m.ops = append(m.ops, fmt.Sprintf("entity-removed:%d:%s", n, form))
	world.Label(fmt.Sprintf("entity-removal/%s/entities-%d", form, n))
	// the writers' entities are gone: the writers are no announced features any more
	for _, wr := range writers {
		m.write(t, pi, wr.client, wr.si, gen.ByFunction(m.srvs[wr.si].Writable), listgen.Full, true, "rejected")
	}
	if rapid.Bool().Draw(t, "readd") {
		m.discoveryNotify(p, m.discoveryData(p, going, &added), true)
		for _, e := range going {
			delete(m.gone[pi], entKey(e.Addr))
		}
		m.logf("peer%d announces %s added again", pi+1, strings.Join(names, ", "))
		// the old bindings must not have survived
		for _, wr := range writers {
			m.write(t, pi, wr.client, wr.si, gen.ByFunction(m.srvs[wr.si].Writable), listgen.Full, true, "rejected")
		}
	}
}

func ptr[T any](v T) *T { return &v }

// rediscovery: the peer's discovery data for entities the stack already knows comes in again (a second
// reply to the discovery read, or an "added" notification for an existing entity). Nothing disappears,
// so the bindings and with them the authorisation stay as they are - also across what follows.
func (m *machine) rediscovery(t *rapid.T) {
	pi := m.live(t, "peer")
	p := m.w.Peers[pi]
	ents := regs.PeerEntities()
	how := rapid.SampledFrom([]string{"reply", "added-[1]", "added-[2]", "added-[2 1]"}).Draw(t, "how")
	if how == "reply" {
		var there []world.EntSpec
		for _, e := range ents {
			if !m.isGone(pi, e.Addr) {
				there = append(there, e)
			}
		}
		m.announce(p, there)
	} else {
		i := map[string]int{"added-[1]": 0, "added-[2]": 1, "added-[2 1]": 2}[how]
		if m.isGone(pi, ents[i].Addr) {
			t.Skip("the entity is not there")
		}
		added := model.NetworkManagementStateChangeTypeAdded
		data := m.discoveryData(p, []world.EntSpec{ents[i]}, &added)
		cmd := model.CmdType{Function: ptr(model.FunctionTypeNodeManagementDetailedDiscoveryData), Filter: []model.FilterType{*model.NewFilterTypePartial()}, NodeManagementDetailedDiscoveryData: data}
		p.Send(p.Msg(model.CmdClassifierTypeNotify, p.NM(), world.LocalNM(), false, nil, cmd))
		m.w.Sync()
		p.Cap.Drain()
	}
	m.logf("peer%d: discovery data of known entities again (%s)", pi+1, how)
	m.ops = append(m.ops, "rediscovery")
	if bs := m.bindings(); len(bs) > 0 {
		b := bs[rapid.IntRange(0, len(bs)-1).Draw(t, "binding")]
		m.write(t, b.pi, b.client, b.si, gen.ByFunction(m.srvs[b.si].Writable), listgen.Full, true, "")
	}
}

func (m *machine) unbind(t *rapid.T) {
	c := regs.DrawCall(t, m.w, "unbind")
	if m.w.Peers[c.Peer].Gone {
		t.Skip("peer gone")
	}
	_, ok := m.w.Do(c, world.UnbindCall(m.w.ClientAddr(c), m.w.ServerAddr(c)))
	m.logf("unbind %s => %v", c, ok)
	if si := serverIndex(c.Server); si >= 0 {
		// (the request of the holder for a binding that exists by the history deletes it, see unbindThenWrite)
		m.end(gkey(c.Peer, c.Client, si), "delete-request")
	}
	m.ops = append(m.ops, "unbind-random")
}

func (m *machine) subscribe(t *rapid.T) {
	c := regs.DrawCall(t, m.w, "sub")
	if m.w.Peers[c.Peer].Gone {
		t.Skip("peer gone")
	}
	_, ok := m.w.Do(c, world.SubscribeCall(m.w.ClientAddr(c), m.w.ServerAddr(c), c.Type))
	m.logf("subscribe %s => %v", c, ok)
	m.ops = append(m.ops, "subscribe")
}

func (m *machine) setData(t *rapid.T) {
	si := rapid.IntRange(0, len(m.srvs)-1).Draw(t, "server")
	f := gen.ByFunction(m.srvs[si].Writable)
	items := listgen.Items(t, f, 3, gen.Opt{}, "items")
	u := refmodel.Update{Items: items}
	stripFlags(f, &u)
	if f.WriteCheck != "" {
		for _, it := range items { // changeable elements, so that partial writes can be accepted
			b := true
			it.FieldByName(f.WriteCheck).Set(reflect.ValueOf(&b))
		}
	}
	m.srvs[si].F.SetData(f.Fn, refmodel.Payload(f, items))
	m.logf("SetData server#%d (%d items)", si, len(items))
	m.ops = append(m.ops, "setdata")
}

func TestWriteGate(t *testing.T) {
	rapid.Check(t, world.Prop(func(t *rapid.T) {
		// in a third of the cases the last peer is a device that does not state its device address
		noAddr := -1
		var w *regs.W
		if rapid.IntRange(0, 2).Draw(t, "peerWithoutDeviceAddress") == 0 {
			noAddr = 2
			w = regs.NewWithUnannounced(3, 1)
		} else {
			w = regs.New(3)
		}
		m := &machine{w: w, noAddr: noAddr, accepted: map[int]int{}, rejected: map[int]int{}, gone: map[int]map[string]bool{}, granted: map[string]bool{}, ended: map[string]string{}}
		defer m.w.Teardown()
		m.srvs = append(append([]regs.LocalServer{}, w.Servers...), regs.LocalServer{F: w.Generic, Type: model.FeatureTypeTypeGeneric,
			Writable: model.FunctionTypeLoadControlLimitListData, Unannounced: model.FunctionTypeLoadControlLimitDescriptionListData})
		if noAddr >= 0 {
			m.announce(w.Peers[noAddr], regs.PeerEntities())
			world.Label("world/peer-without-device-address")
		}
		t.Repeat(map[string]func(*rapid.T){
			"write":                 m.randomWrite,
			"write2":                m.randomWrite,
			"bindThenWrite":         m.bindThenWrite,
			"bindThenWrite2":        m.bindThenWrite,
			"unbindThenWrite":       m.unbindThenWrite,
			"reconnectThenWrite":    m.reconnectThenWrite,
			"entityRemoveThenWrite": m.entityRemoveThenWrite,
			"rediscovery":           m.rediscovery,
			"unbind":                m.unbind,
			"subscribe":             m.subscribe,
			"setData":               m.setData,
		})
		nt := false
		for pi := range m.w.Peers {
			if m.accepted[pi] > 0 && m.rejected[pi] > 0 {
				nt = true
			}
		}
		world.Record(world.Hash(m.ops), nt)
		for _, o := range m.ops {
			if strings.HasPrefix(o, "write:") {
				world.Label(o)
			}
		}
		if nt && world.WantSample() {
			world.Sample(map[string]any{"history": m.hist})
		}
	}))
}
