package c03

import (
	"testing"

	"verifharness/scen"
)

// see scen.RegistryMix
func TestRegistryMixStress(t *testing.T) { scen.RegistryMix(t, "C03") }
