// Package c08: subscriptions - exact registry and exactly-once notification fan-out.
package c08

import (
	"fmt"
	"reflect"
	"sort"
	"strings"
	"sync/atomic"
	"testing"
	"time"

	"github.com/enbility/spine-go/api"
	"github.com/enbility/spine-go/model"
	"github.com/enbility/spine-go/util"
	"pgregory.net/rapid"

	"verifharness/gen"
	"verifharness/listgen"
	"verifharness/refmodel"
	"verifharness/regs"
	"verifharness/world"
)

func TestMain(m *testing.M) { world.Main(m) }

type machine struct {
	w      *regs.W
	subs   map[regs.Key]bool
	binds  map[regs.Key]bool // only used to enable remote writes
	state  map[string][]reflect.Value
	ops    []string
	hist   []string
	maxSub int // largest number of distinct peers subscribed to one feature at a data change
	change int
}

func (m *machine) logf(format string, a ...any) { m.hist = append(m.hist, fmt.Sprintf(format, a...)) }

func (m *machine) history() string { return "\n history:\n  " + strings.Join(m.hist, "\n  ") }

func countEvents(evs []world.Ev, et api.EventType, ct api.ElementChangeType) int {
	n := 0
	for _, e := range evs {
		if e.P.EventType == et && e.P.ChangeType == ct {
			n++
		}
	}
	return n
}

func (m *machine) checkRegistry(t *rapid.T, after string) {
	got, ids := m.w.Subscriptions()
	if !regs.KeysEqual(got, m.subs) {
		world.Fail(t, "C08/registry-mismatch/"+after, "after %s the subscription registry differs from the model\n got:  %v\n want: %v%s", after, regs.SortedKeys(got), regs.SortedKeys(m.subs), m.history())
	}
	// the list reported for a peer contains exactly that peer's entries (checked through the
	// keys above, which carry the peer) each with a distinct id - distinct over the whole registry
	seen := map[uint64]bool{}
	n := 0
	for _, l := range ids {
		for _, id := range l {
			if seen[id] {
				world.Fail(t, "C08/duplicate-id", "subscription id %d occurs twice%s", id, m.history())
			}
			seen[id] = true
			n++
		}
	}
	if n != len(m.subs) {
		world.Fail(t, "C08/registry-mismatch/count", "%d entries reported, model has %d%s", n, len(m.subs), m.history())
	}
	// ... and the same as a peer sees it: the reply to its read of the subscription data
	for pi, p := range m.w.Peers {
		p.Cap.Drain()
		// (this implementation serves the list on a call, not on a read)
		d := p.Msg(model.CmdClassifierTypeCall, p.NM(), world.LocalNM(), false, nil, model.CmdType{NodeManagementSubscriptionData: &model.NodeManagementSubscriptionDataType{}})
		p.Send(d)
		m.w.Sync()
		var reply *model.NodeManagementSubscriptionDataType
		for _, s := range p.Cap.Drain() {
			if s.Classifier() == model.CmdClassifierTypeReply && s.Ref() != nil && *s.Ref() == *d.Header.MsgCounter {
				reply = s.Cmd().NodeManagementSubscriptionData
				if reply == nil {
					reply = &model.NodeManagementSubscriptionDataType{}
				}
			}
		}
		if reply == nil {
			world.Fail(t, "C08/reported-list/no-reply", "peer%d's read of the subscription data was not answered%s", pi+1, m.history())
		}
		want := map[string]bool{}
		for k := range m.subs {
			if k.Peer == pi {
				want[k.Client+"->"+k.Server] = true
			}
		}
		gotPairs := map[string]int{}
		idsSeen := map[uint64]bool{}
		for _, e := range reply.SubscriptionEntry {
			if e.ClientAddress == nil || e.ServerAddress == nil || e.SubscriptionId == nil {
				world.Fail(t, "C08/reported-list/incomplete-entry", "peer%d's subscription list holds an incomplete entry: %s%s", pi+1, world.JSON(e), m.history())
			}
			gotPairs[refOfAddr(e.ClientAddress)+"->"+refOfAddr(e.ServerAddress)]++
			if idsSeen[uint64(*e.SubscriptionId)] {
				world.Fail(t, "C08/reported-list/duplicate-id", "peer%d's subscription list holds id %d twice%s", pi+1, *e.SubscriptionId, m.history())
			}
			idsSeen[uint64(*e.SubscriptionId)] = true
		}
		okList := len(gotPairs) == len(want)
		for k, c := range gotPairs {
			if !want[k] || c != 1 {
				okList = false
			}
		}
		if !okList || len(reply.SubscriptionEntry) != len(want) {
			var w []string
			for k := range want {
				w = append(w, k)
			}
			sort.Strings(w)
			world.Fail(t, "C08/reported-list/differs-from-registry", "after %s the subscription list peer%d reads (%s) is not its entries %v%s", after, pi+1, world.JSON(reply), w, m.history())
		}
	}
}

func refOfAddr(a *model.FeatureAddressType) string {
	var ent []uint
	for _, e := range a.Entity {
		ent = append(ent, uint(e))
	}
	f := uint(0)
	if a.Feature != nil {
		f = uint(*a.Feature)
	}
	return regs.Ref{Ent: ent, Feat: f}.String()
}

func (m *machine) subscribe(t *rapid.T) {
	c := regs.DrawCall(t, m.w, "sub")
	want := m.w.Eligible(c) && !m.subs[c.Key()]
	m.w.Events.Drain()
	n, ok := m.w.Do(c, world.SubscribeCall(m.w.ClientAddr(c), m.w.ServerAddr(c), c.Type))
	m.logf("subscribe %s => results=%d granted=%v (model %v)", c, n, ok, want)
	if n != 1 {
		world.Fail(t, "C08/result-count/subscribe", "a subscription call with ack got %d results%s", n, m.history())
	}
	if ok != want {
		kind := "granted-wrongly"
		if want {
			kind = "refused-wrongly"
		}
		world.Fail(t, "C08/subscribe-verdict/"+kind, "subscription call %s: granted=%v, the grant rule says %v (eligible=%v, already subscribed=%v)%s", c, ok, want, m.w.Eligible(c), m.subs[c.Key()], m.history())
	}
	if ok {
		m.subs[c.Key()] = true
	}
	evs := m.w.Events.Drain()
	wantEv := 0
	if ok {
		wantEv = 1
	}
	if got := countEvents(evs, api.EventTypeSubscriptionChange, api.ElementChangeAdd); got != wantEv || countEvents(evs, api.EventTypeSubscriptionChange, api.ElementChangeRemove) != 0 {
		world.Fail(t, "C08/event-count/subscribe", "subscription call (granted=%v) published %d add events%s", ok, got, m.history())
	}
	m.ops = append(m.ops, fmt.Sprintf("sub:%v", ok))
	m.checkRegistry(t, "subscribe")
}

func (m *machine) unsubscribe(t *rapid.T) {
	var c regs.Call
	keys := regs.SortedKeys(m.subs)
	if len(keys) > 0 && rapid.IntRange(0, 3).Draw(t, "existing") != 0 {
		// address an existing entry
		var list []regs.Key
		for k := range m.subs {
			list = append(list, k)
		}
		sort.Slice(list, func(i, j int) bool { return fmt.Sprint(list[i]) < fmt.Sprint(list[j]) })
		k := list[rapid.IntRange(0, len(list)-1).Draw(t, "entry")]
		c = regs.Call{Peer: k.Peer}
		for _, r := range regs.ClientRefs {
			if r.String() == k.Client {
				c.Client = r
			}
		}
		for _, r := range regs.ServerRefs {
			if r.String() == k.Server {
				c.Server = r
			}
		}
		// sometimes the same addresses from another peer (identical numbering!)
		if rapid.IntRange(0, 3).Draw(t, "otherPeer") == 0 {
			c.Peer = rapid.IntRange(0, len(m.w.Peers)-1).Draw(t, "peer")
		}
		c.OmitClientDev = rapid.Bool().Draw(t, "omitC")
		c.OmitServerDev = rapid.Bool().Draw(t, "omitS")
	} else {
		c = regs.DrawCall(t, m.w, "unsub")
	}
	regs.DrawForeignClientDev(t, m.w, &c, "unsub")
	// a client address that names another device denotes no entry of the sender
	want := m.subs[c.Key()] && c.ForeignClientDev == ""
	if c.ForeignClientDev != "" {
		world.Label("unsubscribe/client-address-names-foreign-device")
	}
	m.w.Events.Drain()
	n, ok := m.w.Do(c, world.UnsubscribeCall(m.w.ClientAddr(c), m.w.ServerAddr(c)))
	m.logf("unsubscribe %s => results=%d ok=%v (model %v)", c, n, ok, want)
	if n != 1 {
		world.Fail(t, "C08/result-count/unsubscribe", "a subscription delete call with ack got %d results%s", n, m.history())
	}
	if ok != want {
		kind := "succeeded-wrongly"
		if want {
			kind = "failed-wrongly"
		}
		world.Fail(t, "C08/unsubscribe-verdict/"+kind, "delete call %s: ok=%v, but the pair present=%v%s", c, ok, want, m.history())
	}
	if ok {
		delete(m.subs, c.Key())
	}
	evs := m.w.Events.Drain()
	wantEv := 0
	if ok {
		wantEv = 1
	}
	if got := countEvents(evs, api.EventTypeSubscriptionChange, api.ElementChangeRemove); got != wantEv || countEvents(evs, api.EventTypeSubscriptionChange, api.ElementChangeAdd) != 0 {
		world.Fail(t, "C08/event-count/unsubscribe", "delete call (ok=%v) published %d remove events%s", ok, got, m.history())
	}
	m.ops = append(m.ops, fmt.Sprintf("unsub:%v", ok))
	m.checkRegistry(t, "unsubscribe")
}

// expectFanout drains every peer and checks that exactly the subscribers of server got one notify
// each carrying fn with the stored data; writer (if any) may additionally hold results for ref.
func (m *machine) expectFanout(t *rapid.T, what string, si int, fn model.FunctionType, changed bool, writer *world.Peer, ref *model.MsgCounterType) {
	srv := m.w.Servers[si]
	serverRef := regs.ServerRefs[si].String()
	wantData := world.JSON(srv.F.DataCopy(fn))
	peersSubscribed := map[int]bool{}
	for pi, p := range m.w.Peers {
		want := map[string]int{}
		for k := range m.subs {
			if k.Peer == pi && k.Server == serverRef && changed {
				want[k.Client]++
				peersSubscribed[pi] = true
			}
		}
		got := map[string]int{}
		for _, s := range p.Cap.Drain() {
			if writer == p && s.Classifier() == model.CmdClassifierTypeResult && s.Ref() != nil && ref != nil && *s.Ref() == *ref {
				continue
			}
			if s.Classifier() != model.CmdClassifierTypeNotify {
				world.Fail(t, "C08/unexpected-datagram/"+what, "peer%d received a %s after %s%s", pi+1, s.Classifier(), what, m.history())
			}
			if s.Ref() != nil {
				world.Fail(t, "C08/notify-with-reference/"+what, "notification carries a msgCounterReference%s", m.history())
			}
			if !reflect.DeepEqual(s.D.Header.AddressSource, srv.F.Address()) {
				world.Fail(t, "C08/notify-source/"+what, "notification source %v is not the changed server feature %v%s", s.D.Header.AddressSource, srv.F.Address(), m.history())
			}
			dst := s.D.Header.AddressDestination
			if dst == nil || dst.Device == nil || *dst.Device != p.Addr {
				world.Fail(t, "C08/notify-destination/"+what, "notification on peer%d's connection is addressed to %v%s", pi+1, dst, m.history())
			}
			cmd := s.Cmd()
			data, err := cmd.Data()
			if err != nil || data.Function == nil || *data.Function != fn {
				world.Fail(t, "C08/notify-function/"+what, "notification does not carry the changed function %s%s", fn, m.history())
			}
			if js := world.JSON(data.Value); js != wantData {
				world.Fail(t, "C08/notify-payload/"+what, "notification payload differs from the stored data\n sent:   %s\n stored: %s%s", js, wantData, m.history())
			}
			var ent []uint
			for _, e := range dst.Entity {
				ent = append(ent, uint(e))
			}
			got[regs.Ref{Ent: ent, Feat: uint(*dst.Feature)}.String()]++
		}
		if !reflect.DeepEqual(got, want) {
			kind := "missing-or-duplicate"
			for k := range got {
				if want[k] == 0 {
					kind = "to-unsubscribed"
				}
			}
			world.Fail(t, fmt.Sprintf("C08/fanout/%s/%s", kind, what), "after %s on server %s (changed=%v) peer%d got notifications %v, subscribed client features are %v%s", what, serverRef, changed, pi+1, got, want, m.history())
		}
	}
	if changed {
		m.change++
		if len(peersSubscribed) > m.maxSub {
			m.maxSub = len(peersSubscribed)
		}
	}
}

// overlappingChanges: the data of a second server feature changes while the notifications of a first
// change are being sent (the harness owns the schedule: the second SetData runs while the writer of the
// first notification is held). Every peer gets, per changed feature, one notification for each of
// its client features subscribed to that feature - from that feature, with that feature's data.
func (m *machine) overlappingChanges(t *rapid.T) {
	n := len(m.w.Servers)
	si1 := rapid.IntRange(0, n-1).Draw(t, "server1")
	si2 := (si1 + rapid.IntRange(1, n-1).Draw(t, "server2")) % n
	type change struct {
		si int
		f  *gen.Func
	}
	chs := []change{{si1, gen.ByFunction(m.w.Servers[si1].Writable)}, {si2, gen.ByFunction(m.w.Servers[si2].Writable)}}
	payloads := make([]any, 2)
	for i, c := range chs {
		u := refmodel.Update{Items: listgen.Items(t, c.f, 3, gen.Opt{}, fmt.Sprintf("items%d", i+1))}
		payloads[i] = refmodel.Payload(c.f, u.Items)
		m.state[fmt.Sprintf("%d/%s", c.si, c.f.Fn)] = refmodel.Fold(c.f, nil, u)
	}
	for _, p := range m.w.Peers {
		p.Cap.Drain()
	}
	var fired atomic.Bool
	inside := false
	second := func() { m.w.Servers[si2].F.SetData(chs[1].f.Fn, payloads[1]) }
	for _, p := range m.w.Peers {
		p.Cap.SetOnWrite(func([]byte) {
			if !fired.CompareAndSwap(false, true) {
				return
			}
			done := make(chan struct{})
			go func() { second(); close(done) }()
			select {
			case <-done:
				inside = true
			case <-time.After(5 * time.Second): // not a verdict: the second change simply comes later
			}
		})
	}
	m.w.Servers[si1].F.SetData(chs[0].f.Fn, payloads[0])
	for _, p := range m.w.Peers {
		p.Cap.SetOnWrite(nil)
	}
	if !fired.Load() {
		second() // nobody is subscribed to the first feature
	}
	m.w.SyncQuiet(10 * time.Second)
	m.logf("SetData server %d, and SetData server %d while the first notification of that is written (overlap=%v)", si1, si2, inside)
	world.Label(fmt.Sprintf("overlap/inside-fan-out/%v", inside))
	// per peer: (source server, destination client) -> count
	for pi, p := range m.w.Peers {
		want, got := map[string]int{}, map[string]int{}
		for k := range m.subs {
			for _, c := range chs {
				if k.Peer == pi && k.Server == regs.ServerRefs[c.si].String() {
					want[k.Server+" -> "+k.Client]++
				}
			}
		}
		for _, s := range p.Cap.Drain() {
			if s.Classifier() != model.CmdClassifierTypeNotify {
				world.Fail(t, "C08/unexpected-datagram/overlapping-changes", "peer%d received a %s%s", pi+1, s.Classifier(), m.history())
			}
			src, dst := s.D.Header.AddressSource, s.D.Header.AddressDestination
			if src == nil || dst == nil || dst.Feature == nil || dst.Device == nil || *dst.Device != p.Addr {
				world.Fail(t, "C08/notify-destination/overlapping-changes", "notification on peer%d's connection goes from %v to %v%s", pi+1, src, dst, m.history())
			}
			var from *change
			for i := range chs {
				if reflect.DeepEqual(src, m.w.Servers[chs[i].si].F.Address()) {
					from = &chs[i]
				}
			}
			if from == nil {
				world.Fail(t, "C08/notify-source/overlapping-changes", "notification source %v is none of the two changed features%s", src, m.history())
			}
			cmd := s.Cmd()
			data, err := cmd.Data()
			if err != nil || data.Function == nil || *data.Function != from.f.Fn {
				world.Fail(t, "C08/notify-function/overlapping-changes", "the notification from server %d does not carry its changed function %s%s", from.si, from.f.Fn, m.history())
			}
			if js, stored := world.JSON(data.Value), world.JSON(m.w.Servers[from.si].F.DataCopy(from.f.Fn)); js != stored {
				world.Fail(t, "C08/notify-payload/overlapping-changes", "the notification from server %d differs from that feature's data\n sent:   %s\n stored: %s%s", from.si, js, stored, m.history())
			}
			got[regs.ServerRefs[from.si].String()+" -> "+refOfAddr(dst)]++
		}
		if !reflect.DeepEqual(got, want) {
			kind := "missing-or-duplicate"
			for k := range got {
				if want[k] == 0 {
					kind = "to-unsubscribed"
				}
			}
			world.Fail(t, "C08/fanout/"+kind+"/overlapping-changes", "two features changed at the same time (servers %d and %d): peer%d got the notifications %v, its subscriptions ask for %v%s", si1, si2, pi+1, got, want, m.history())
		}
	}
	m.change++
	m.ops = append(m.ops, "overlapping-changes")
}

func (m *machine) drawFn(t *rapid.T, si int) *gen.Func {
	s := m.w.Servers[si]
	fn := s.Writable
	if rapid.Bool().Draw(t, "readonlyFn") {
		fn = s.ReadOnly
	}
	return gen.ByFunction(fn)
}

// drawLocalFn: the application may also keep data of a function it never announced (no AddFunctionType): a change
// of it is a change of the server feature's data like any other.
func (m *machine) drawLocalFn(t *rapid.T, si int) *gen.Func {
	if un := m.w.Servers[si].Unannounced; un != "" && rapid.IntRange(0, 4).Draw(t, "unannouncedFn") == 0 {
		world.Label("local-change/unannounced-function")
		return gen.ByFunction(un)
	}
	return m.drawFn(t, si)
}

func (m *machine) localChange(t *rapid.T) {
	si := rapid.IntRange(0, len(m.w.Servers)-1).Draw(t, "server")
	f := m.drawLocalFn(t, si)
	srv := m.w.Servers[si].F
	key := fmt.Sprintf("%d/%s", si, f.Fn)
	for _, p := range m.w.Peers {
		p.Cap.Drain()
	}
	mode := rapid.SampledFrom([]string{"SetData", "UpdateData", "UpdateData", "UpdateData-unknown-function", "UpdateData-filter-not-supported"}).Draw(t, "mode")
	// a function of the feature's own type that is no list: an update with a filter is refused for it
	var plain *gen.Func
	for _, x := range gen.ForFeature(m.w.Servers[si].Type) {
		if x := x; !x.IsList && x.Fn != model.FunctionTypeDeviceDiagnosisHeartbeatData {
			plain = &x
			break
		}
	}
	if mode == "UpdateData-filter-not-supported" && plain == nil {
		mode = "UpdateData-unknown-function"
	}
	switch mode {
	case "UpdateData-filter-not-supported":
		// the feature has the function, but its data type takes no restricted updates: the call fails, the
		// data stays and nobody is notified
		before := world.JSON(srv.DataCopy(plain.Fn))
		payload := gen.Ptr(t, plain.DataType, gen.Opt{MaxSlice: 1, MaxDepth: 3}, "plainPayload").Interface()
		var fp, fd *model.FilterType
		if rapid.Bool().Draw(t, "deleteFilter") {
			fd = &model.FilterType{CmdControl: &model.CmdControlType{Delete: &model.ElementTagType{}}}
		} else {
			fp = model.NewFilterTypePartial()
		}
		err := srv.UpdateData(plain.Fn, payload, fp, fd)
		m.logf("UpdateData server %d %s (no list) with a %s filter => err=%v", si, plain.Fn, map[bool]string{true: "delete", false: "partial"}[fd != nil], err != nil)
		if after := world.JSON(srv.DataCopy(plain.Fn)); err != nil && after != before {
			world.Fail(t, "C08/failed-update-changed-data", "UpdateData reported an error but the data changed%s", m.history())
		}
		m.expectFanout(t, "UpdateData-failed", si, plain.Fn, err == nil, nil, nil)
	case "SetData":
		u := refmodel.Update{Items: listgen.Items(t, f, 3, gen.Opt{}, "items")}
		srv.SetData(f.Fn, refmodel.Payload(f, u.Items))
		m.state[key] = refmodel.Fold(f, nil, u)
		m.logf("SetData server %d %s (%d items)", si, f.Fn, len(u.Items))
		m.expectFanout(t, "SetData", si, f.Fn, true, nil, nil)
	case "UpdateData":
		shape := rapid.SampledFrom(listgen.ShapesFor(f)).Draw(t, "shape")
		u := listgen.Update(t, f, m.state[key], shape, gen.Opt{}, "u")
		fp, fd := listgen.Filters(f, u)
		err := srv.UpdateData(f.Fn, refmodel.Payload(f, u.Items), fp, fd)
		m.logf("UpdateData server %d %s %s => err=%v", si, f.Fn, u.Shape(), err != nil)
		if err == nil {
			m.state[key] = refmodel.CloneItems(refmodel.ItemsOf(f, srv.DataCopy(f.Fn)))
		}
		m.expectFanout(t, "UpdateData-"+strings.NewReplacer("+", "-", "&", "-and-").Replace(u.Shape()), si, f.Fn, err == nil, nil, nil)
	default:
		// a function of another feature type: the update fails and must notify nobody
		other := m.w.Servers[si].Writable
		for _, o := range m.w.Servers {
			if o.Type != m.w.Servers[si].Type {
				other = o.Writable
				break
			}
		}
		of := gen.ByFunction(other)
		err := srv.UpdateData(other, refmodel.Payload(of, nil), model.NewFilterTypePartial(), nil)
		m.logf("UpdateData server %d with foreign function %s => err=%v", si, other, err != nil)
		if err == nil {
			world.Fail(t, "C08/foreign-function-accepted", "UpdateData of a function the feature type does not have reported success%s", m.history())
		}
		m.expectFanout(t, "UpdateData-failed", si, other, false, nil, nil)
	}
	m.ops = append(m.ops, mode)
}

// rediscovery: a peer that has announced itself sends its detailed discovery data once more. Nothing is added or
// removed by it: the registry stays as it is (entries can be deleted afterwards like before, notifications go to
// the same subscribers).
func (m *machine) rediscovery(t *rapid.T) {
	pi := rapid.IntRange(0, len(m.w.Peers)-1).Draw(t, "peer")
	p := m.w.Peers[pi]
	if p.Ents == nil {
		t.Skip("the peer has not announced itself")
	}
	p.Send(p.Msg(model.CmdClassifierTypeReply, p.NM(), world.LocalNM(), false, p.DiscoveryRef, model.CmdType{NodeManagementDetailedDiscoveryData: p.DiscoveryData(p.Ents, nil)}))
	m.w.Sync()
	m.w.Events.Drain()
	for _, q := range m.w.Peers {
		q.Cap.Drain()
	}
	m.logf("peer%d sends its discovery data again", pi+1)
	m.ops = append(m.ops, "rediscovery")
	m.checkRegistry(t, "rediscovery")
}

// subEntityGoesAndComes: a peer announces its sub entity [2,1] as removed and then as added again. The subscriptions
// of client features of [2,1] go with it; every other entry - of the parent entity [2] in particular - stays.
func (m *machine) subEntityGoesAndComes(t *rapid.T) {
	pi := rapid.IntRange(0, len(m.w.Peers)-1).Draw(t, "peer")
	p := m.w.Peers[pi]
	if p.Ents == nil {
		t.Skip("the peer has not announced itself")
	}
	var sub world.EntSpec
	for _, e := range p.Ents {
		if len(e.Addr) == 2 && e.Addr[0] == 2 && e.Addr[1] == 1 {
			sub = e
		}
	}
	if sub.Addr == nil {
		t.Skip("no sub entity")
	}
	notify := func(change model.NetworkManagementStateChangeType, ent world.EntSpec) {
		cmd := model.CmdType{Function: util.Ptr(model.FunctionTypeNodeManagementDetailedDiscoveryData), Filter: []model.FilterType{*model.NewFilterTypePartial()},
			NodeManagementDetailedDiscoveryData: p.DiscoveryData([]world.EntSpec{ent}, &change)}
		p.Send(p.Msg(model.CmdClassifierTypeNotify, p.NM(), world.LocalNM(), false, nil, cmd))
		m.w.Sync()
	}
	notify(model.NetworkManagementStateChangeTypeRemoved, world.EntSpec{Addr: sub.Addr, Type: sub.Type})
	prefix := regs.Ref{Ent: sub.Addr, Feat: 0}.String()
	prefix = prefix[:strings.LastIndex(prefix, "/")+1]
	for k := range m.subs {
		if k.Peer == pi && strings.HasPrefix(k.Client, prefix) {
			delete(m.subs, k)
		}
	}
	for k := range m.binds {
		if k.Peer == pi && strings.HasPrefix(k.Client, prefix) {
			delete(m.binds, k)
		}
	}
	m.logf("peer%d announces its sub entity %v as removed", pi+1, sub.Addr)
	m.w.Events.Drain()
	m.checkRegistry(t, "sub-entity-removed")
	notify(model.NetworkManagementStateChangeTypeAdded, sub)
	m.w.Events.Drain()
	for _, q := range m.w.Peers {
		q.Cap.Drain()
	}
	m.logf("peer%d announces its sub entity %v again", pi+1, sub.Addr)
	m.ops = append(m.ops, "sub-entity")
	m.checkRegistry(t, "sub-entity-added-again")
}

func (m *machine) bind(t *rapid.T) {
	c := regs.DrawCall(t, m.w, "bind")
	_, ok := m.w.Do(c, world.BindCall(m.w.ClientAddr(c), m.w.ServerAddr(c), c.Type))
	if ok {
		m.binds[c.Key()] = true
	}
	m.logf("bind %s => %v", c, ok)
	m.w.Events.Drain()
	m.ops = append(m.ops, "bind")
}

func (m *machine) remoteWrite(t *rapid.T) {
	if len(m.binds) == 0 {
		t.Skip("no binding")
	}
	var list []regs.Key
	for k := range m.binds {
		list = append(list, k)
	}
	sort.Slice(list, func(i, j int) bool { return fmt.Sprint(list[i]) < fmt.Sprint(list[j]) })
	k := list[rapid.IntRange(0, len(list)-1).Draw(t, "binding")]
	si := -1
	for i, r := range regs.ServerRefs[:len(m.w.Servers)] {
		if r.String() == k.Server {
			si = i
		}
	}
	if si < 0 {
		t.Skip("binding on a special feature")
	}
	var client regs.Ref
	for _, r := range regs.ClientRefs {
		if r.String() == k.Client {
			client = r
		}
	}
	f := m.drawFn(t, si) // the read-only function makes the write fail
	p := m.w.Peers[k.Peer]
	key := fmt.Sprintf("%d/%s", si, f.Fn)
	u := refmodel.Update{Items: listgen.Items(t, f, 3, gen.Opt{}, "items")}
	for _, q := range m.w.Peers {
		q.Cap.Drain()
	}
	before := world.JSON(m.w.Servers[si].F.DataCopy(f.Fn))
	// the acknowledgement is optional: requested, declined explicitly or not mentioned
	ackMode := rapid.SampledFrom([]string{"true", "true", "false", "absent"}).Draw(t, "ackRequest")
	d := p.Msg(model.CmdClassifierTypeWrite, p.FA(client.Ent, client.Feat), m.w.Servers[si].F.Address(), ackMode == "true", nil, listgen.Cmd(f, u))
	if ackMode == "false" {
		no := false
		d.Header.AckRequest = &no
	}
	p.Send(d)
	m.w.Sync()
	m.w.Events.Drain()
	// accepted = the writer got a success result, resp. without acknowledgement no error result
	// (observed, not predicted: C03/C04 own the gate, C01 the shape of the response)
	success, refused := false, false
	for _, s := range p.Cap.All() {
		if s.Classifier() == model.CmdClassifierTypeResult && s.Ref() != nil && *s.Ref() == *d.Header.MsgCounter {
			if s.ErrorNumber() == 0 {
				success = true
			} else {
				refused = true
			}
		}
	}
	accepted := success
	if ackMode != "true" {
		accepted = !refused
	}
	world.Label("write/ackRequest-" + ackMode)
	after := world.JSON(m.w.Servers[si].F.DataCopy(f.Fn))
	m.logf("remote write by peer%d %s to server %d %s => accepted=%v", k.Peer+1, client, si, f.Fn, accepted)
	if accepted {
		m.state[key] = refmodel.CloneItems(refmodel.ItemsOf(f, m.w.Servers[si].F.DataCopy(f.Fn)))
	} else if before != after {
		world.Fail(t, "C08/rejected-write-changed-data", "rejected write changed the data%s", m.history())
	}
	m.expectFanout(t, "remote-write", si, f.Fn, accepted, p, d.Header.MsgCounter)
	m.ops = append(m.ops, fmt.Sprintf("write:%v", accepted))
}

func TestSubscriptions(t *testing.T) {
	rapid.Check(t, world.Prop(func(t *rapid.T) {
		// up to two of the three peers have not announced themselves yet
		silent := rapid.SampledFrom([]int{0, 0, 0, 1, 2}).Draw(t, "unannouncedPeers")
		m := &machine{w: regs.NewWithUnannounced(3, silent), subs: map[regs.Key]bool{}, binds: map[regs.Key]bool{}, state: map[string][]reflect.Value{}}
		defer m.w.Teardown()
		world.Label(fmt.Sprintf("unannouncedPeers/%d", silent))
		t.Repeat(map[string]func(*rapid.T){
			"subscribe":   m.subscribe,
			"subscribe2":  m.subscribe,
			"unsubscribe": m.unsubscribe,
			"localChange": m.localChange,
			"overlapping": m.overlappingChanges,
			"bind":        m.bind,
			"remoteWrite": m.remoteWrite,
			"rediscovery": m.rediscovery,
			"subEntity":   m.subEntityGoesAndComes,
		})
		nt := m.maxSub >= 2 && m.change >= 1
		world.Record(world.Hash(m.ops, regs.SortedKeys(m.subs)), nt, fmt.Sprintf("maxPeersSubscribed/%d", m.maxSub))
		if nt && world.WantSample() {
			world.Sample(map[string]any{"history": m.hist})
		}
	}))
}
