package c08

import (
	"testing"

	"verifharness/scen"
)

// see scen.SubscriptionMix
func TestSubscriptionMixStress(t *testing.T) { scen.SubscriptionMix(t, "C08") }
