// Package c18: wire format and function tables are coherent for every function.
package c18

import (
	"encoding/json"
	"fmt"
	"reflect"
	"strings"
	"testing"
	"time"

	"github.com/enbility/spine-go/api"
	"github.com/enbility/spine-go/model"
	"github.com/enbility/spine-go/spine"
	"pgregory.net/rapid"

	"verifharness/gen"
	"verifharness/listgen"
	"verifharness/refmodel"
	"verifharness/world"
)

func TestMain(m *testing.M) { world.Main(m) }

// ---------------------------------------------------------------------------------------------
// equivalence after a JSON round trip: nil == empty slice; relative-end periods within 1 s

var timePeriodT = reflect.TypeOf(model.TimePeriodType{})

func equiv(a, b reflect.Value, path string) (bool, string) {
	if a.Type() != b.Type() {
		return false, path + ": type"
	}
	// (the allowance is for the time period of a payload; the timestamp interval of a selector has the same
	// elements but has to arrive exactly as it was built - also if the model should use one type for both)
	if a.Type() == timePeriodT && !strings.HasSuffix(path, ".TimestampInterval") {
		return equivPeriod(a.Interface().(model.TimePeriodType), b.Interface().(model.TimePeriodType), path)
	}
	switch a.Kind() {
	case reflect.Ptr:
		if a.IsNil() || b.IsNil() {
			if a.IsNil() && b.IsNil() {
				return true, ""
			}
			// a pointer to an empty struct may come back as such; nil vs non-nil is a difference
			return false, path + ": nil-ness"
		}
		return equiv(a.Elem(), b.Elem(), path)
	case reflect.Struct:
		for i := 0; i < a.NumField(); i++ {
			if !a.Type().Field(i).IsExported() {
				continue
			}
			if ok, p := equiv(a.Field(i), b.Field(i), path+"."+a.Type().Field(i).Name); !ok {
				return false, p
			}
		}
		return true, ""
	case reflect.Slice:
		if a.Len() != b.Len() {
			return false, fmt.Sprintf("%s: len %d vs %d", path, a.Len(), b.Len())
		}
		for i := 0; i < a.Len(); i++ {
			if ok, p := equiv(a.Index(i), b.Index(i), fmt.Sprintf("%s[%d]", path, i)); !ok {
				return false, p
			}
		}
		return true, ""
	default:
		if !reflect.DeepEqual(a.Interface(), b.Interface()) {
			return false, fmt.Sprintf("%s: %v vs %v", path, a.Interface(), b.Interface())
		}
		return true, ""
	}
}

// exactPeriodRange: the span the duration text of the period type represents exactly.
const exactPeriodRange = 3276 * 24 * time.Hour

// caseStarted: when the round trip being judged began (set before the value is encoded). Relative end times are
// re-expressed against the clock at every encoding and decoding, so the steps of one round trip may lie as far apart
// as the machine takes - on a busy machine seconds. That time is allowed for on the side it works on; it never hides
// more than it explains.
var caseStarted = time.Now()

func beginRoundTrip() { caseStarted = time.Now() }

func equivPeriod(a, b model.TimePeriodType, path string) (bool, string) {
	taken := time.Since(caseStarted)
	if a.StartTime == nil && a.EndTime != nil && a.EndTime.IsRelativeTime() {
		// re-expressed against the current time: compare the remaining duration within 1 s (+ slack)
		da, err1 := a.GetDuration()
		db, err2 := b.GetDuration()
		if err1 != nil || err2 != nil || b.StartTime != nil {
			return false, path + ": relative period lost"
		}
		if da > exactPeriodRange || da < -exactPeriodRange {
			world.Label("timeperiod/beyond-exact-duration-range")
			return true, ""
		}
		if d := da - db; d > 1200*time.Millisecond+taken || d < -1200*time.Millisecond {
			return false, fmt.Sprintf("%s: remaining %v vs %v", path, da, db)
		}
		return true, ""
	}
	if a.StartTime == nil && a.EndTime != nil {
		// open start with an absolute end: re-expressed on the wire as the remaining duration
		// (negative once it has elapsed) and read back against the clock - the same instant to the second
		ta, err1 := a.EndTime.GetTime()
		if b.EndTime == nil || b.StartTime != nil {
			return false, path + ": end time lost"
		}
		tb, err2 := b.EndTime.GetTime()
		if err1 != nil && *a.EndTime == *b.EndTime {
			// a text the stack cannot convert ("", "never", a time with zone offset) is passed on as
			// it is: the same text is the same value
			return true, ""
		}
		if err1 != nil || err2 != nil {
			return false, fmt.Sprintf("%s: unreadable end time (%v, %v)", path, err1, err2)
		}
		if rem := time.Until(ta); rem > exactPeriodRange || rem < -exactPeriodRange {
			// the remaining duration goes over the wire as an xs:duration text; beyond 3276 days the
			// period type cannot hold it exactly (documented limit, NA in C19 as well): not judged
			world.Label("timeperiod/beyond-exact-duration-range")
			return true, ""
		}
		if d := ta.Sub(tb); d > 2200*time.Millisecond || d < -(2200*time.Millisecond+taken) {
			return false, fmt.Sprintf("%s: end time moved by %v (%s vs %s)", path, d, *a.EndTime, *b.EndTime)
		}
		return true, ""
	}
	if !reflect.DeepEqual(a, b) {
		return false, fmt.Sprintf("%s: %s vs %s", path, world.JSON(a), world.JSON(b))
	}
	return true, ""
}

// ---------------------------------------------------------------------------------------------
// value round trip for every type reachable from CmdType and FilterType

type rtType struct {
	holder string // "cmd" or "filter"
	field  reflect.StructField
}

func roundTripTypes() []rtType {
	var out []rtType
	for _, h := range []struct {
		name string
		t    reflect.Type
	}{{"cmd", reflect.TypeOf(model.CmdType{})}, {"filter", reflect.TypeOf(model.FilterType{})}} {
		for i := 0; i < h.t.NumField(); i++ {
			sf := h.t.Field(i)
			if sf.Type.Kind() == reflect.Ptr && sf.Type.Elem().Kind() == reflect.Struct {
				out = append(out, rtType{h.name, sf})
			}
		}
	}
	return out
}

func countNonNil(v reflect.Value) int {
	n := 0
	switch v.Kind() {
	case reflect.Ptr:
		if !v.IsNil() {
			n = 1 + countNonNil(v.Elem())
		}
	case reflect.Struct:
		for i := 0; i < v.NumField(); i++ {
			n += countNonNil(v.Field(i))
		}
	case reflect.Slice:
		for i := 0; i < v.Len(); i++ {
			n += countNonNil(v.Index(i))
		}
	}
	return n
}

// TestValueRoundTrip: decode(encode(v)) is equivalent to v, for v placed in its CmdType /
// FilterType field (so the field's JSON name and omitempty handling are covered too).
func TestValueRoundTrip(t *testing.T) {
	types := roundTripTypes()
	rapid.Check(t, world.Prop(func(t *rapid.T) {
		rt := types[rapid.IntRange(0, len(types)-1).Draw(t, "type")]
		v := gen.Ptr(t, rt.field.Type.Elem(), gen.Opt{Dense: rapid.Bool().Draw(t, "dense"), RelativePeriods: true, Extremes: true}, "v")
		var holder, back reflect.Value
		if rt.holder == "cmd" {
			holder, back = reflect.New(reflect.TypeOf(model.CmdType{})), reflect.New(reflect.TypeOf(model.CmdType{}))
		} else {
			holder, back = reflect.New(reflect.TypeOf(model.FilterType{})), reflect.New(reflect.TypeOf(model.FilterType{}))
		}
		holder.Elem().FieldByName(rt.field.Name).Set(v)
		beginRoundTrip()
		b, err := json.Marshal(holder.Interface())
		if err != nil {
			world.Fail(t, "C18/value/marshal/"+rt.field.Name, "marshal %s: %v", rt.field.Name, err)
		}
		if err := json.Unmarshal(b, back.Interface()); err != nil {
			world.Fail(t, "C18/value/unmarshal/"+rt.field.Name, "unmarshal %s: %v\n%s", rt.field.Name, err, b)
		}
		nn := countNonNil(v)
		world.Record(world.Hash(rt.holder, rt.field.Name, string(b)), nn >= 3, "value/"+rt.holder)
		if nn >= 3 && world.WantSample() {
			world.Sample(map[string]any{"kind": "value-roundtrip", "field": rt.holder + "." + rt.field.Name, "json": json.RawMessage(b)})
		}
		if ok, p := equiv(holder.Elem(), back.Elem(), rt.field.Name); !ok {
			world.Fail(t, "C18/value/roundtrip/"+rt.field.Name, "decode(encode(v)) differs at %s\n json: %s", p, b)
		}
	}))
}

// ---------------------------------------------------------------------------------------------
// command grid

var cmdShapes = []string{
	"read", "read+sel", "read+elem", "read+sel+elem",
	"reply", "reply-partial",
	"notify-full", "notify-partial", "notify-partial+sel", "notify-delete+sel", "notify-delete+elem",
	"notify-delete+sel+elem", "notify-delete+sel&partial+sel", "notify-delete+elem&partial+sel", "notify-delete+sel+elem&partial+sel",
}

func needs(shape string) (sel, elem bool) {
	return strings.Contains(shape, "sel"), strings.Contains(shape, "elem")
}

func fdFor(f *gen.Func) api.FunctionDataCmdInterface {
	for _, fd := range spine.CreateFunctionData[api.FunctionDataCmdInterface](f.FeatureType) {
		if fd.FunctionType() == f.Fn {
			return fd
		}
	}
	return nil
}

func anyOrNil(v reflect.Value) any {
	if !v.IsValid() {
		return nil
	}
	return v.Interface()
}

// checkCmd is the oracle: the command, once encoded and decoded, is recognised as the same
// function with the same payload type and yields the same filters.
// disturb, if set, runs between the building of a command and its encoding (see oneCmd).
var disturb func()

func checkCmd(t world.TB, f *gen.Func, shape string, cmd model.CmdType, wantPartial, wantDelete bool, pSel, dSel, pElem, dElem reflect.Value, payload any) {
	if disturb != nil {
		disturb()
	}
	b, err := json.Marshal(cmd)
	if err != nil {
		world.Fail(t, "C18/cmd/marshal/"+string(f.Fn), "marshal: %v", err)
	}
	var back model.CmdType
	if err := json.Unmarshal(b, &back); err != nil {
		world.Fail(t, "C18/cmd/unmarshal/"+string(f.Fn), "unmarshal: %v\n%s", err, b)
	}
	data, err := back.Data()
	if err != nil || data.Function == nil || *data.Function != f.Fn {
		got := "<none>"
		if err == nil && data.Function != nil {
			got = string(*data.Function)
		}
		world.Fail(t, fmt.Sprintf("C18/function-not-recognised/%s/%s", shape, f.Fn), "%s of %s decodes as function %s (err %v)\n%s", shape, f.Fn, got, err, b)
	}
	if reflect.TypeOf(data.Value) != reflect.PtrTo(f.DataType) {
		world.Fail(t, fmt.Sprintf("C18/payload-type/%s/%s", shape, f.Fn), "%s of %s: payload type %T, want *%s", shape, f.Fn, data.Value, f.DataType)
	}
	if payload != nil {
		if ok, p := equiv(reflect.ValueOf(payload), reflect.ValueOf(data.Value), "payload"); !ok {
			world.Fail(t, fmt.Sprintf("C18/payload-differs/%s/%s", shape, f.Fn), "%s of %s: payload differs at %s\n%s", shape, f.Fn, p, b)
		}
	}
	fp, fd := back.ExtractFilter()
	if (fp != nil) != wantPartial || (fd != nil) != wantDelete {
		world.Fail(t, fmt.Sprintf("C18/filter-kind/%s/%s", shape, f.Fn), "%s of %s: partial filter %v (want %v), delete filter %v (want %v)\n%s", shape, f.Fn, fp != nil, wantPartial, fd != nil, wantDelete, b)
	}
	check := func(kind string, flt *model.FilterType, sel, elem reflect.Value) {
		if !sel.IsValid() && !elem.IsValid() {
			return
		}
		fdat, err := flt.Data()
		if err != nil {
			world.Fail(t, fmt.Sprintf("C18/filter-dropped/%s/%s", shape, f.Fn), "%s of %s: %s filter carries no selector/elements after the round trip (%v)\n%s", shape, f.Fn, kind, err, b)
		}
		if fdat.Function == nil || *fdat.Function != f.Fn {
			world.Fail(t, fmt.Sprintf("C18/filter-function/%s/%s", shape, f.Fn), "%s of %s: %s filter names function %v\n%s", shape, f.Fn, kind, fdat.Function, b)
		}
		for _, c := range []struct {
			what string
			want reflect.Value
			got  any
		}{{"selector", sel, fdat.Selector}, {"elements", elem, fdat.Elements}} {
			if !c.want.IsValid() {
				if c.got != nil {
					world.Fail(t, fmt.Sprintf("C18/filter-invented/%s/%s", shape, f.Fn), "%s of %s: %s filter has a %s nobody asked for\n%s", shape, f.Fn, kind, c.what, b)
				}
				continue
			}
			if c.got == nil {
				world.Fail(t, fmt.Sprintf("C18/filter-dropped/%s/%s", shape, f.Fn), "%s of %s: the %s of the %s filter was dropped\n%s", shape, f.Fn, c.what, kind, b)
			}
			if reflect.TypeOf(c.got) != c.want.Type() {
				world.Fail(t, fmt.Sprintf("C18/filter-type/%s/%s", shape, f.Fn), "%s of %s: %s has type %T, want %s", shape, f.Fn, c.what, c.got, c.want.Type())
			}
			if ok, p := equiv(c.want, reflect.ValueOf(c.got), c.what); !ok {
				world.Fail(t, fmt.Sprintf("C18/filter-differs/%s/%s", shape, f.Fn), "%s of %s: %s differs at %s\n%s", shape, f.Fn, c.what, p, b)
			}
		}
	}
	if fp != nil {
		check("partial", fp, pSel, pElem)
	}
	if fd != nil {
		check("delete", fd, dSel, dElem)
	}
}

// oneCmd builds shape for f through the public API and checks it. Returns false if the shape does
// not apply to f (no selectors / elements type).
func oneCmd(t *rapid.T, f *gen.Func, shape string) bool {
	beginRoundTrip()
	nsel, nelem := needs(shape)
	if (nsel && f.SelectorsType == nil) || (nelem && f.ElementsType == nil) {
		return false
	}
	fd := fdFor(f)
	if fd == nil {
		world.Fail(t, "C18/factory/missing/"+string(f.Fn), "factory does not create %s for %s", f.Fn, f.FeatureType)
	}
	o := gen.Opt{Dense: true}
	var sel, sel2, elem reflect.Value
	if nsel {
		sel = gen.Ptr(t, f.SelectorsType, o, "selector")
		sel2 = gen.Ptr(t, f.SelectorsType, o, "selector2")
	}
	if nelem {
		elem = gen.Ptr(t, f.ElementsType, o, "elements")
	}
	var payload any
	if !strings.HasPrefix(shape, "read") && rapid.IntRange(0, 3).Draw(t, "functionNeverHadData") == 0 {
		// a reply / notify / write built before the function got its first data (a read arriving
		// before the application filled the function): still that function, with its payload type
		world.Label("payload/function-never-had-data")
	} else if !strings.HasPrefix(shape, "read") {
		pv := gen.Ptr(t, f.DataType, gen.Opt{}, "payload")
		payload = pv.Interface()
		if _, err := fd.UpdateDataAny(false, true, payload, nil, nil); err != nil {
			world.Fail(t, "C18/store/"+string(f.Fn), "storing a payload failed: %v", err.String())
		}
	}
	var nilV reflect.Value
	// an absent selector / elements argument comes as a plain nil or, as callers with typed
	// variables pass it, as a nil pointer of the selectors / elements type
	typedNil := rapid.Bool().Draw(t, "absentArgumentsAsTypedNil")
	noSel, noElem := any(nil), any(nil)
	if typedNil {
		if f.SelectorsType != nil {
			noSel = reflect.Zero(reflect.PointerTo(f.SelectorsType)).Interface()
		}
		if f.ElementsType != nil {
			noElem = reflect.Zero(reflect.PointerTo(f.ElementsType)).Interface()
		}
		world.Label("absent-arguments/typed-nil")
	}
	// a function object serves many commands in its life: in half of the cases commands with filters were built from
	// it before the command under test (which carries exactly what it was asked for, nothing of the earlier ones)
	if f.SelectorsType != nil && rapid.Bool().Draw(t, "earlierCommandsFromTheSameObject") {
		earlierSel := gen.Ptr(t, f.SelectorsType, o, "earlierSelector").Interface()
		var earlierElem any
		if f.ElementsType != nil {
			earlierElem = gen.Ptr(t, f.ElementsType, o, "earlierElements").Interface()
		}
		_ = fd.ReadCmdType(earlierSel, earlierElem)
		_ = fd.NotifyOrWriteCmdType(earlierSel, nil, false, earlierElem)
		_ = fd.NotifyOrWriteCmdType(nil, earlierSel, false, nil)
		_ = fd.ReplyCmdType(true)
		world.Label("grid/earlier-commands-from-the-same-object")
	}
	// a command is not always encoded at once: in half of the cases further commands with other filters are built
	// from the same function object before the command under test is encoded - it keeps its own filters
	if (nsel || nelem) && rapid.Bool().Draw(t, "laterCommandsBeforeEncoding") {
		var otherSel, otherElem any
		if nsel {
			otherSel = gen.Ptr(t, f.SelectorsType, o, "otherSelector").Interface()
		}
		if nelem {
			otherElem = gen.Ptr(t, f.ElementsType, o, "otherElements").Interface()
		}
		disturb = func() {
			_ = fd.ReadCmdType(otherSel, otherElem)
			_ = fd.NotifyOrWriteCmdType(nil, otherSel, otherSel == nil, nil)
			_ = fd.NotifyOrWriteCmdType(otherSel, nil, false, otherElem)
		}
		defer func() { disturb = nil }()
		world.Label("grid/later-commands-built-before-encoding")
	}
	switch shape {
	case "read":
		checkCmd(t, f, shape, fd.ReadCmdType(noSel, noElem), false, false, nilV, nilV, nilV, nilV, nil)
	case "read+sel":
		checkCmd(t, f, shape, fd.ReadCmdType(sel.Interface(), noElem), true, false, sel, nilV, nilV, nilV, nil)
	case "read+elem":
		checkCmd(t, f, shape, fd.ReadCmdType(noSel, elem.Interface()), true, false, nilV, nilV, elem, nilV, nil)
	case "read+sel+elem":
		checkCmd(t, f, shape, fd.ReadCmdType(sel.Interface(), elem.Interface()), true, false, sel, nilV, elem, nilV, nil)
	case "reply":
		checkCmd(t, f, shape, fd.ReplyCmdType(false), false, false, nilV, nilV, nilV, nilV, payload)
	case "reply-partial":
		checkCmd(t, f, shape, fd.ReplyCmdType(true), true, false, nilV, nilV, nilV, nilV, payload)
	case "notify-full":
		checkCmd(t, f, shape, fd.NotifyOrWriteCmdType(noSel, noSel, false, noElem), false, false, nilV, nilV, nilV, nilV, payload)
	case "notify-partial":
		checkCmd(t, f, shape, fd.NotifyOrWriteCmdType(noSel, noSel, true, noElem), true, false, nilV, nilV, nilV, nilV, payload)
	case "notify-partial+sel":
		checkCmd(t, f, shape, fd.NotifyOrWriteCmdType(noSel, sel.Interface(), false, noElem), true, false, sel, nilV, nilV, nilV, payload)
	case "notify-delete+sel":
		checkCmd(t, f, shape, fd.NotifyOrWriteCmdType(sel.Interface(), noSel, false, noElem), false, true, nilV, sel, nilV, nilV, payload)
	case "notify-delete+elem":
		checkCmd(t, f, shape, fd.NotifyOrWriteCmdType(noSel, noSel, false, elem.Interface()), false, true, nilV, nilV, nilV, elem, payload)
	case "notify-delete+sel+elem":
		checkCmd(t, f, shape, fd.NotifyOrWriteCmdType(sel.Interface(), noSel, false, elem.Interface()), false, true, nilV, sel, nilV, elem, payload)
	case "notify-delete+sel&partial+sel":
		checkCmd(t, f, shape, fd.NotifyOrWriteCmdType(sel.Interface(), sel2.Interface(), false, noElem), true, true, sel2, sel, nilV, nilV, payload)
	case "notify-delete+elem&partial+sel":
		checkCmd(t, f, shape, fd.NotifyOrWriteCmdType(noSel, sel2.Interface(), false, elem.Interface()), true, true, sel2, nilV, nilV, elem, payload)
	case "notify-delete+sel+elem&partial+sel":
		checkCmd(t, f, shape, fd.NotifyOrWriteCmdType(sel.Interface(), sel2.Interface(), false, elem.Interface()), true, true, sel2, sel, nilV, elem, payload)
	}
	return true
}

// TestCmdGrid enumerates the complete (function x shape) grid; values are drawn by rapid
// (the number of value draws per cell is -rapid.checks).
func TestCmdGrid(t *testing.T) {
	shard, shards := world.EnvInt("VERIF_SHARD", 0), world.EnvInt("VERIF_SHARDS", 1)
	cells, applicable := 0, 0
	for idx, f := range gen.Table() {
		if idx%shards != shard {
			continue
		}
		f := f
		for _, shape := range cmdShapes {
			shape := shape
			cells++
			nsel, nelem := needs(shape)
			if (nsel && f.SelectorsType == nil) || (nelem && f.ElementsType == nil) {
				continue
			}
			applicable++
			first := true
			rapid.Check(t, world.Prop(func(t *rapid.T) {
				oneCmd(t, &f, shape)
				nt := nsel || nelem || !strings.HasPrefix(shape, "read")
				h := world.Hash(f.Fn, shape)
				if !first {
					h = world.Hash(f.Fn, shape, "more")
				}
				world.Record(h, nt && first, "grid/"+shape)
				first = false
			}))
		}
	}
	world.AddExtra("grid_cells", int64(cells))
	world.AddExtra("grid_cells_applicable", int64(applicable))
	world.SetExtra("grid_exhaustive", true)
	world.Sample(map[string]any{"kind": "grid", "functions": len(gen.Table()), "shapes": cmdShapes})
}

// TestFactoryTables: the remote-side factory registers the same functions with the same payload
// types as the local side, for every feature type (including Generic).
func TestFactoryTables(t *testing.T) {
	n := 0
	for _, ft := range gen.FeatureTypes {
		var a []api.FunctionDataCmdInterface
		var b []api.FunctionDataInterface
		func() {
			defer func() { _ = recover() }()
			a = spine.CreateFunctionData[api.FunctionDataCmdInterface](ft)
			b = spine.CreateFunctionData[api.FunctionDataInterface](ft)
		}()
		if len(a) != len(b) {
			world.Fail(t, "C18/factory/local-remote-differ/"+string(ft), "%s: %d local vs %d remote functions", ft, len(a), len(b))
		}
		seen := map[model.FunctionType]bool{}
		for i := range a {
			n++
			if a[i].FunctionType() != b[i].FunctionType() || reflect.TypeOf(a[i].DataCopyAny()) != reflect.TypeOf(b[i].DataCopyAny()) {
				world.Fail(t, "C18/factory/local-remote-differ/"+string(ft), "%s: entry %d differs", ft, i)
			}
			if seen[a[i].FunctionType()] {
				world.Fail(t, "C18/factory/duplicate/"+string(ft), "%s registers %s twice", ft, a[i].FunctionType())
			}
			seen[a[i].FunctionType()] = true
			f := gen.ByFunction(a[i].FunctionType())
			if ft != model.FeatureTypeTypeGeneric && (f == nil || f.CmdField == "") {
				world.Fail(t, "C18/factory/no-cmd-field/"+string(a[i].FunctionType()), "no CmdType field is named %s", a[i].FunctionType())
			}
			world.Record(world.Hash("factory", ft, a[i].FunctionType()), true, "factory")
		}
	}
	world.Sample(map[string]any{"kind": "factory", "registrations": n})
}

// TestWire: the same coherence for commands as they appear on the wire through the feature API:
// FeatureLocal.RequestRemoteData (read with selector / elements) and FeatureLocal.UpdateData with
// filters (notify to a subscriber).
func TestWire(t *testing.T) {
	fs := gen.Table()
	rapid.Check(t, world.Prop(func(t *rapid.T) {
		beginRoundTrip()
		f := fs[rapid.IntRange(0, len(fs)-1).Draw(t, "function")]
		if f.FeatureType == model.FeatureTypeTypeNodeManagement {
			f = *gen.ByFunction(model.FunctionTypeMeasurementListData)
		}
		w := world.New()
		defer w.Teardown()
		le := w.AddLocalEntity([]uint{1}, model.EntityTypeTypeCEM, time.Second)
		srv := w.AddLocalFeature(le, world.FeatSpec{Type: f.FeatureType, Role: model.RoleTypeServer, Funcs: []world.FuncSpec{{Fn: f.Fn, Read: true, Write: true}}})
		cli := w.AddLocalFeature(le, world.FeatSpec{Type: f.FeatureType, Role: model.RoleTypeClient})
		p := w.AddPeer("ski1", "d:_r:peer1", []world.EntSpec{{Addr: []uint{1}, Type: model.EntityTypeTypeEVSE, Feats: []world.FeatSpec{
			{ID: 1, Type: f.FeatureType, Role: model.RoleTypeServer, Funcs: []world.FuncSpec{{Fn: f.Fn, Read: true}}},
			{ID: 2, Type: f.FeatureType, Role: model.RoleTypeClient},
		}}})
		o := gen.Opt{Dense: true}
		var nilV reflect.Value
		if rapid.Bool().Draw(t, "read") {
			var sel, elem reflect.Value
			var selA, elemA any
			if f.SelectorsType != nil && rapid.Bool().Draw(t, "withSel") {
				sel = gen.Ptr(t, f.SelectorsType, o, "selector")
				selA = sel.Interface()
			}
			if f.ElementsType != nil && rapid.Bool().Draw(t, "withElem") {
				elem = gen.Ptr(t, f.ElementsType, o, "elements")
				elemA = elem.Interface()
			}
			if _, err := cli.RequestRemoteData(f.Fn, selA, elemA, p.Feature([]uint{1}, 1)); err != nil {
				world.Fail(t, "C18/wire/request-failed/"+string(f.Fn), "RequestRemoteData: %v", err.String())
			}
			msgs := p.Cap.Drain()
			if len(msgs) != 1 || msgs[0].Classifier() != model.CmdClassifierTypeRead {
				world.Fail(t, "C18/wire/request-count/"+string(f.Fn), "expected one read on the wire, got %d", len(msgs))
			}
			shape := "wire-read"
			if sel.IsValid() {
				shape += "+sel"
			}
			if elem.IsValid() {
				shape += "+elem"
			}
			checkCmd(t, &f, shape, msgs[0].Cmd(), sel.IsValid() || elem.IsValid(), false, sel, nilV, elem, nilV, nil)
			world.Record(world.Hash(f.Fn, shape), sel.IsValid() || elem.IsValid(), "wire/"+shape)
			return
		}
		// notify through UpdateData with filters; the peer's client feature subscribes first
		if !p.CallOK(world.SubscribeCall(p.FA([]uint{1}, 2), srv.Address(), f.FeatureType)) {
			world.Fail(t, "C18/wire/subscribe", "subscription of the peer's client feature was not granted")
		}
		var payload any
		if f.IsList {
			payload = refmodel.Payload(&f, listgen.Items(t, &f, 3, gen.Opt{}, "items"))
		} else {
			payload = gen.Ptr(t, f.DataType, gen.Opt{}, "payload").Interface()
		}
		srv.SetData(f.Fn, payload)
		p.Cap.Drain()
		var fp, fdel *model.FilterType
		var pSel, dSel, dElem reflect.Value
		shape := "wire-notify"
		if f.IsList {
			// delete filters are not generated here: UpdateData announces them to subscribers as a
			// partial notification by design, which the statement does not speak about
			switch rapid.IntRange(0, 2).Draw(t, "filter") {
			case 1:
				fp = model.NewFilterTypePartial()
				shape += "-partial"
			case 2:
				if listgen.CapsOf(&f).Selectors {
					// a well-formed selector update: full-key selector (hit or miss)
					fp = model.NewFilterTypePartial()
					k := make([]uint64, len(f.KeyFields))
					for i := range k {
						k[i] = uint64(rapid.IntRange(0, 3).Draw(t, fmt.Sprintf("selkey%d", i)))
					}
					pSel = listgen.SelectorFor(&f, k)
					reflect.ValueOf(fp).Elem().FieldByName(f.SelectorsField).Set(pSel)
					shape += "-partial+sel"
				}
			}
		}
		upd := reflect.New(f.DataType).Interface()
		if pSel.IsValid() && f.IsList {
			// a selector update carries exactly one item
			l := reflect.MakeSlice(f.DataType.Field(f.ListField).Type, 1, 1)
			reflect.ValueOf(upd).Elem().Field(f.ListField).Set(l)
		}
		var err *model.ErrorType
		func() {
			defer func() {
				if r := recover(); r != nil {
					world.Fail(t, fmt.Sprintf("C18/wire/update-panic/%s/%s", shape, f.Fn), "UpdateData panicked: %v", r)
				}
			}()
			if fp == nil && fdel == nil {
				srv.SetData(f.Fn, payload)
			} else {
				err = srv.UpdateData(f.Fn, upd, fp, fdel)
			}
		}()
		if err != nil {
			// selectors drawn at random may hit nothing or be out of the update domain; the
			// wire format is only observable for updates the stack accepted
			world.Record(world.Hash(f.Fn, shape, "rejected"), false, "wire/rejected")
			return
		}
		msgs := p.Cap.Drain()
		if len(msgs) != 1 || msgs[0].Classifier() != model.CmdClassifierTypeNotify {
			world.Fail(t, "C18/wire/notify-count/"+string(f.Fn), "expected one notify on the wire, got %d", len(msgs))
		}
		// a filter-less partial filter is sent as "partial without selector"
		checkCmd(t, &f, shape, msgs[0].Cmd(), fp != nil, false, pSel, dSel, reflect.Value{}, dElem, nil)
		world.Record(world.Hash(f.Fn, shape), fp != nil || fdel != nil, "wire/"+shape)
		if world.WantSample() && (fp != nil || fdel != nil) {
			world.Sample(map[string]any{"kind": "wire", "shape": shape, "function": string(f.Fn), "cmd": json.RawMessage(world.JSON(msgs[0].Cmd()))})
		}
	}))
}

// FuzzCmdJSON (thorough tier, coverage-guided): any JSON text that decodes into a command is
// stable under encode/decode: decode(encode(decode(x))) is equivalent to decode(x), the function
// is recognised identically and the filters are the same.
func FuzzCmdJSON(f *testing.F) {
	for _, fn := range gen.Table() {
		fd := fdFor(&fn)
		if fd == nil {
			continue
		}
		for _, cmd := range []model.CmdType{fd.ReadCmdType(nil, nil), fd.ReplyCmdType(false), fd.NotifyOrWriteCmdType(nil, nil, true, nil)} {
			b, _ := json.Marshal(cmd)
			f.Add(b)
		}
	}
	f.Add([]byte(`{"function":"measurementListData","filter":[{"cmdControl":{"partial":{}},"measurementListDataSelectors":{"measurementId":1}}],"measurementListData":{"measurementData":[{"measurementId":1,"value":{"number":5,"scale":-1},"evaluationPeriod":{"endTime":"PT1H"}}]}}`))
	f.Fuzz(func(t *testing.T, in []byte) {
		beginRoundTrip()
		var a model.CmdType
		if json.Unmarshal(in, &a) != nil {
			return
		}
		b, err := json.Marshal(a)
		if err != nil {
			t.Fatalf("VERIF-FAIL sig=C18/fuzz/marshal :: decoded command does not encode: %v", err)
		}
		var c model.CmdType
		if err := json.Unmarshal(b, &c); err != nil {
			t.Fatalf("VERIF-FAIL sig=C18/fuzz/unmarshal :: encoded command does not decode: %v\n%s", err, b)
		}
		if ok, p := equiv(reflect.ValueOf(a), reflect.ValueOf(c), "cmd"); !ok {
			t.Fatalf("VERIF-FAIL sig=C18/fuzz/roundtrip :: decode(encode(v)) differs at %s\n in: %s\n out: %s", p, in, b)
		}
		da, ea := a.Data()
		dc, ec := c.Data()
		if (ea == nil) != (ec == nil) || (ea == nil && ((da.Function == nil) != (dc.Function == nil) || (da.Function != nil && *da.Function != *dc.Function))) {
			t.Fatalf("VERIF-FAIL sig=C18/fuzz/function :: function recognised differently after the round trip\n%s", b)
		}
	})
}

// TestTagCoherence: a static sweep over EVERY field of FilterType and CmdType (also those of
// functions no feature type registers): the function named by the eebus tag must be the one the
// SPINE XSD naming convention of the JSON name implies, the tag type must match the field kind
// (selectors / elements), and the named function must exist as a CmdType member.
func TestTagCoherence(t *testing.T) {
	cmdT := reflect.TypeOf(model.CmdType{})
	cmdFns := map[string]reflect.StructField{}
	for i := 0; i < cmdT.NumField(); i++ {
		sf := cmdT.Field(i)
		name := strings.Split(sf.Tag.Get("json"), ",")[0]
		if name == "function" || name == "filter" || sf.Type.Kind() != reflect.Ptr || sf.Type.Elem().Kind() != reflect.Struct {
			continue // option group and the two extension members, not data choices
		}
		cmdFns[name] = sf
		tags := model.EEBusTags(sf)
		world.Record(world.Hash("cmdtag", name), true, "tags/cmd")
		if fct, ok := tags[model.EEBusTagFunction]; !ok || fct != name {
			world.Guard(func() {
				world.Fail(t, "C18/tag/cmd-function/"+name, "CmdType.%s (json %q) is tagged fct:%q", sf.Name, name, fct)
			})
		}
	}
	fltT := reflect.TypeOf(model.FilterType{})
	n := 0
	for i := 0; i < fltT.NumField(); i++ {
		sf := fltT.Field(i)
		name := strings.Split(sf.Tag.Get("json"), ",")[0]
		if name == "filterId" || name == "cmdControl" {
			continue
		}
		n++
		tags := model.EEBusTags(sf)
		var wantTyp string
		var cands []string
		switch {
		case strings.HasSuffix(name, "Selectors"):
			wantTyp = string(model.EEBusTagTypeTypeSelector)
			cands = []string{strings.TrimSuffix(name, "Selectors")}
		case strings.HasSuffix(name, "Elements"):
			wantTyp = string(model.EEbusTagTypeTypeElements)
			base := strings.TrimSuffix(name, "Elements")
			// <item>Elements belongs to <item minus Data>ListData if that function exists, else to <item>
			if strings.HasSuffix(base, "Data") {
				cands = append(cands, strings.TrimSuffix(base, "Data")+"ListData")
			}
			cands = append(cands, base)
		default:
			world.Guard(func() {
				world.Fail(t, "C18/tag/unknown-filter-field/"+name, "FilterType.%s is neither selectors nor elements", sf.Name)
			})
			continue
		}
		want := ""
		for _, c := range cands {
			if _, ok := cmdFns[c]; ok {
				want = c
				break
			}
		}
		world.Record(world.Hash("filtertag", name), true, "tags/filter")
		world.Guard(func() {
			if want == "" {
				// no CmdType member by convention: nothing to compare with (none on the current tree)
				world.Label("tags/no-function-by-convention")
				return
			}
			if typ := tags[model.EEBusTagType]; typ != wantTyp {
				world.Fail(t, "C18/tag/filter-type/"+name, "FilterType.%s is tagged typ:%q, its JSON name implies %q", sf.Name, typ, wantTyp)
			}
			if fct := tags[model.EEBusTagFunction]; fct != want {
				world.Fail(t, "C18/tag/filter-function/"+name, "FilterType.%s is tagged fct:%q, its JSON name implies %q", sf.Name, fct, want)
			}
		})
	}
	world.Sample(map[string]any{"kind": "tag-coherence", "filter_fields": n, "cmd_fields": len(cmdFns)})
}
