// Package c13: outbound message identity - unique, increasing message counters, sound request
// de-duplication with bounded memory, and the cache of the last 100 notifications.
//
// The oracle is a reference sender fed from the harness's complete log of everything that was
// written to the connection (refModel); it never predicts the eviction policy of the stack.
//
// Tests
//
//	TestSenderSequential  rapid state machine (t.Repeat) on spine.NewSender(capture) and on the sender
//	                      of a connected peer (stack-originated datagrams and inbound responses included)
//	TestSenderBounded     rapid: N in {50,200,800} distinct unanswered requests, re-issue all, <= 64 withheld
//	TestNotifyWindow      plain: enumerated (notifies, one lookup, notifies) scenarios; regression cases of F17
//	TestSenderConcurrent  rapid: 8-16 goroutines (plus the connection's reader on a peer) from a start barrier
//
// Oracle (sequential): every written datagram carries a counter larger than all earlier ones; a call
// of the Request family that wrote nothing must return the counter of a request with the same
// destination and the same command that is unanswered in the complete log ("withheld only while an
// identical request is unanswered" - whatever was evicted); a call that wrote must have written
// exactly its own request and returned that datagram's counter (writing is always allowed);
// re-issuing all unanswered requests withholds at most 64 of them; each of the last 100 datagrams with
// classifier notify is returned by DatagramForMsgCounter byte for byte, also at the moment it is
// being written. Concurrent: all counters of the connection pairwise distinct; datagrams = successful
// calls (each returned counter is on the wire exactly once and carries what the call sent; withheld
// requests return the counter of an identical request); counters of calls that do not overlap increase.
//
// Non-trivial (sequential): a call was withheld, or a request was written although an identical one
// was unanswered (an eviction of the request memory, seen from outside), or more than 100
// notifications were sent (an eviction of the notify cache), or a successful lookup happened between
// two notifications. Distinct by (sender kind, the full history: every step with its parameters,
// outcome and counter). Concurrent rounds: non-trivial if calls of different goroutines overlapped in
// time (start / end stamps); distinct by the drawn workloads.
//
// Failure signatures: C13/counter/{missing,duplicate,not-increasing}/..., C13/request/...,
// C13/dedup/withheld/<how the returned counter relates to the request>, C13/dedup/unbounded-memory,
// C13/notify-cache/{evicted-after-lookup,recent-not-found,not-retrievable-at-write-time,wrong-datagram},
// C13/concurrent/....
package c13

import (
	"encoding/json"
	"errors"
	"fmt"
	"sort"
	"strings"
	"sync"
	"sync/atomic"
	"testing"
	"time"

	"github.com/enbility/spine-go/api"
	"github.com/enbility/spine-go/model"
	"github.com/enbility/spine-go/spine"
	"github.com/enbility/spine-go/util"
	"pgregory.net/rapid"

	"verifharness/world"
)

func TestMain(m *testing.M) { world.Main(m) }

const (
	peerAddr = "d:_r:peer1"
	// notifyWindow is the number of most recent notifications the statement promises to keep.
	notifyWindow = 100
	// withheldBound is the constant bounding how many re-issued unanswered requests may be
	// withheld, whatever the number of unanswered requests in the history.
	withheldBound = 64
	nDests        = 3
	nBaseCmds     = 4
)

func fa(dev string, ent []uint, feat uint) *model.FeatureAddressType {
	a := model.AddressDeviceType(dev)
	return &model.FeatureAddressType{Device: &a, Entity: spine.NewAddressEntityType(ent), Feature: util.Ptr(model.AddressFeatureType(feat))}
}

// ---------------------------------------------------------------------------------------------
// commands (built the way callers build them: through the function data of the feature type)

var measurementFD = func() map[model.FunctionType]api.FunctionDataCmdInterface {
	out := map[model.FunctionType]api.FunctionDataCmdInterface{}
	for _, fd := range spine.CreateFunctionData[api.FunctionDataCmdInterface](model.FeatureTypeTypeMeasurement) {
		out[fd.FunctionType()] = fd
	}
	return out
}()

// readArgs returns function and selector of read command i: 0..3 is the small command domain,
// larger numbers give an unbounded family of distinct commands (selector on measurement id i).
func readArgs(i int) (model.FunctionType, any) {
	switch i {
	case 0:
		return model.FunctionTypeMeasurementListData, nil
	case 2:
		return model.FunctionTypeMeasurementDescriptionListData, nil
	case 3:
		return model.FunctionTypeMeasurementConstraintsListData, nil
	}
	return model.FunctionTypeMeasurementListData, &model.MeasurementListDataSelectorsType{MeasurementId: util.Ptr(model.MeasurementIdType(i))}
}

func readCmd(i int) model.CmdType {
	fn, sel := readArgs(i)
	return measurementFD[fn].ReadCmdType(sel, nil)
}

func measurementData(id, val int) *model.MeasurementListDataType {
	return &model.MeasurementListDataType{MeasurementData: []model.MeasurementDataType{{
		MeasurementId: util.Ptr(model.MeasurementIdType(id)),
		Value:         model.NewScaledNumberType(float64(val)),
	}}}
}

func dataCmd(id, val int) model.CmdType {
	return model.CmdType{MeasurementListData: measurementData(id, val)}
}

// nmCall builds the NodeManagement call the sender is expected to issue for kind.
func nmCall(kind string, client, server *model.FeatureAddressType) model.CmdType {
	switch kind {
	case "subscribe":
		return world.SubscribeCall(client, server, model.FeatureTypeTypeMeasurement)
	case "bind":
		return world.BindCall(client, server, model.FeatureTypeTypeMeasurement)
	case "unsubscribe":
		return world.UnsubscribeCall(client, server)
	}
	return world.UnbindCall(client, server)
}

var nmKinds = []string{"subscribe", "bind", "unsubscribe", "unbind"}

// normKey renders destination and command list exactly the way they read back from the wire, so
// that keys computed from call arguments and keys computed from captured datagrams agree.
func normKey(dest *model.FeatureAddressType, cmds []model.CmdType) (string, string) {
	d := model.Datagram{Datagram: model.DatagramType{Header: model.HeaderType{AddressDestination: dest}, Payload: model.PayloadType{Cmd: cmds}}}
	b, err := json.Marshal(d)
	if err != nil {
		panic("harness: cannot encode request: " + err.Error())
	}
	var back model.Datagram
	if err := json.Unmarshal(b, &back); err != nil {
		panic("harness: cannot decode request: " + err.Error())
	}
	return world.JSON(back.Datagram.Header.AddressDestination), world.JSON(back.Datagram.Payload.Cmd)
}

func datagramJSON(d model.DatagramType) string { return string(world.Encode(d)) }

// ---------------------------------------------------------------------------------------------
// the connection under test

type conn struct {
	kind       string // "direct": spine.NewSender(capture); "peer": the sender of a connected peer
	sender     api.SenderInterface
	cap        *world.Capture
	w          *world.World
	p          *world.Peer
	locals     []*model.FeatureAddressType // local sender addresses: [0] client feature, [1] server feature
	dests      []*model.FeatureAddressType // the three remote destinations
	notifyDest *model.FeatureAddressType   // a remote client feature
	nm         *model.FeatureAddressType   // the remote NodeManagement feature
	client     api.FeatureLocalInterface   // peer only
	server     api.FeatureLocalInterface   // peer only
	remotes    []api.FeatureRemoteInterface
	initial    []world.Sent // what the stack wrote while connecting (peer only)
	answered   []model.MsgCounterType
}

func newConn(kind string) *conn {
	c := &conn{kind: kind}
	c.dests = []*model.FeatureAddressType{fa(peerAddr, []uint{1}, 1), fa(peerAddr, []uint{1}, 2), fa(peerAddr, []uint{2}, 1)}
	c.notifyDest = fa(peerAddr, []uint{1}, 3)
	c.nm = fa(peerAddr, []uint{0}, 0)
	if kind == "direct" {
		c.cap = &world.Capture{}
		c.sender = spine.NewSender(c.cap)
		c.locals = []*model.FeatureAddressType{world.LA([]uint{1}, 1), world.LA([]uint{1}, 2)}
		return c
	}
	w := world.New()
	c.w = w
	le := w.AddLocalEntity([]uint{1}, model.EntityTypeTypeCEM, time.Second)
	c.client = w.AddLocalFeature(le, world.FeatSpec{Type: model.FeatureTypeTypeMeasurement, Role: model.RoleTypeClient})
	c.server = w.AddLocalFeature(le, world.FeatSpec{Type: model.FeatureTypeTypeMeasurement, Role: model.RoleTypeServer,
		Funcs: []world.FuncSpec{{Fn: model.FunctionTypeMeasurementListData, Read: true}}})
	funcs := []world.FuncSpec{
		{Fn: model.FunctionTypeMeasurementListData, Read: true},
		{Fn: model.FunctionTypeMeasurementDescriptionListData, Read: true},
		{Fn: model.FunctionTypeMeasurementConstraintsListData, Read: true},
	}
	srv := func(id uint) world.FeatSpec {
		return world.FeatSpec{ID: id, Type: model.FeatureTypeTypeMeasurement, Role: model.RoleTypeServer, Funcs: funcs}
	}
	p := w.AddPeer("ski1", peerAddr, []world.EntSpec{
		{Addr: []uint{1}, Type: model.EntityTypeTypeEVSE, Feats: []world.FeatSpec{srv(1), srv(2),
			{ID: 3, Type: model.FeatureTypeTypeMeasurement, Role: model.RoleTypeClient}}},
		{Addr: []uint{2}, Type: model.EntityTypeTypeEV, Feats: []world.FeatSpec{srv(1)}},
	})
	c.p = p
	// the peer's client feature subscribes to the local server feature, so SetData notifies it
	if !p.CallOK(world.SubscribeCall(p.FA([]uint{1}, 3), c.server.Address(), model.FeatureTypeTypeMeasurement)) {
		panic("harness: the peer's subscription was not granted")
	}
	c.cap = p.Cap
	c.sender = p.Dev.Sender()
	c.locals = []*model.FeatureAddressType{c.client.Address(), c.server.Address()}
	for _, d := range c.dests {
		rf := p.Dev.FeatureByAddress(d)
		if rf == nil {
			panic("harness: announced feature not found: " + d.String())
		}
		c.remotes = append(c.remotes, rf)
	}
	c.initial = p.Cap.All()
	p.Cap.Drain()
	if p.DiscoveryRef != nil {
		c.answered = append(c.answered, *p.DiscoveryRef) // world.Announce replied to the discovery read
	}
	return c
}

func (c *conn) close() {
	if c.w != nil {
		c.w.Sync()
		c.w.Teardown()
	}
}

func (c *conn) sync() {
	if c.w != nil {
		c.w.Sync()
	}
}

// ---------------------------------------------------------------------------------------------
// reference model: the complete log of the connection

type wire struct {
	idx     int
	ctr     uint64
	cls     model.CmdClassifierType
	dest    string // canonical destination
	cmd     string // canonical command list
	request bool   // written through Request (classifier read or call)
	raw     string
	d       model.DatagramType
}

func (w *wire) key() string { return w.dest + "|" + w.cmd }

type refModel struct {
	wires      []*wire
	byCtr      map[uint64]*wire
	max        uint64
	unanswered map[string][]uint64 // request key -> counters of unanswered requests, in issue order
	answered   map[uint64]bool
	notifies   []uint64

	// history facts used for classification and the non-triviality rule
	withheld           int  // calls that wrote nothing
	rewritten          int  // requests written although an identical one was unanswered (an eviction, seen from outside)
	promoted           bool // a lookup hit a cached notification that was not the newest one
	lookupSinceNotify  bool
	lookupBetween      bool // a successful lookup happened between two notifications
	lookups, responses int
}

func newModel() *refModel {
	return &refModel{byCtr: map[uint64]*wire{}, unanswered: map[string][]uint64{}, answered: map[uint64]bool{}}
}

// take checks and registers datagrams in the order they were written.
func (m *refModel) take(t world.TB, sent []world.Sent, hist func() string) []*wire {
	var out []*wire
	for _, s := range sent {
		if s.Err != nil {
			t.Fatalf("harness: an undecodable payload was written: %v: %s", s.Err, s.Raw)
		}
		cls := s.Classifier()
		if s.D.Header.MsgCounter == nil {
			world.Fail(t, "C13/counter/missing/"+string(cls), "a %s datagram without message counter was written: %s%s", cls, s.Raw, hist())
		}
		ctr := uint64(*s.D.Header.MsgCounter)
		if prev, dup := m.byCtr[ctr]; dup {
			world.Fail(t, "C13/counter/duplicate/sequential", "counter %d is carried by two datagrams of the connection:\n  #%d %s\n  #%d %s%s", ctr, prev.idx, prev.raw, len(m.wires), s.Raw, hist())
		}
		if ctr <= m.max {
			world.Fail(t, "C13/counter/not-increasing/sequential", "datagram #%d (%s) carries counter %d although counter %d was written before it (calls did not overlap)%s", len(m.wires), cls, ctr, m.max, hist())
		}
		m.max = ctr
		w := &wire{idx: len(m.wires), ctr: ctr, cls: cls, raw: string(s.Raw), d: s.D,
			dest: world.JSON(s.D.Header.AddressDestination), cmd: world.JSON(s.D.Payload.Cmd)}
		switch cls {
		case model.CmdClassifierTypeRead, model.CmdClassifierTypeCall:
			w.request = true
			m.unanswered[w.key()] = append(m.unanswered[w.key()], ctr)
		case model.CmdClassifierTypeNotify:
			if m.lookupSinceNotify && len(m.notifies) > 0 {
				m.lookupBetween = true
			}
			m.lookupSinceNotify = false
			m.notifies = append(m.notifies, ctr)
		}
		m.wires = append(m.wires, w)
		m.byCtr[ctr] = w
		out = append(out, w)
	}
	return out
}

// answer records that a response referencing ref reached the sender.
func (m *refModel) answer(ref uint64) {
	w := m.byCtr[ref]
	if w == nil || !w.request || m.answered[ref] {
		return
	}
	m.answered[ref] = true
	list := m.unanswered[w.key()]
	for i, c := range list {
		if c == ref {
			list = append(list[:i:i], list[i+1:]...)
			break
		}
	}
	if len(list) == 0 {
		delete(m.unanswered, w.key())
	} else {
		m.unanswered[w.key()] = list
	}
}

func (m *refModel) unansweredCounters() []uint64 {
	var out []uint64
	for _, l := range m.unanswered {
		out = append(out, l...)
	}
	sort.Slice(out, func(i, j int) bool { return out[i] < out[j] })
	return out
}

func (m *refModel) answeredCounters() []uint64 {
	var out []uint64
	for c := range m.answered {
		out = append(out, c)
	}
	sort.Slice(out, func(i, j int) bool { return out[i] < out[j] })
	return out
}

// window returns the counters of the last 100 notifications (oldest first).
func (m *refModel) window() []uint64 {
	if len(m.notifies) > notifyWindow {
		return m.notifies[len(m.notifies)-notifyWindow:]
	}
	return m.notifies
}

// judgeRequest decides one call of the Request family. before is the list of unanswered identical
// requests in the complete log at the time of the call, wrote is what the call put on the wire.
func (m *refModel) judgeRequest(t world.TB, what string, dest *model.FeatureAddressType, cmds []model.CmdType,
	before []uint64, ret *model.MsgCounterType, err error, wrote []*wire, hist func() string) string {
	destS, cmdS := normKey(dest, cmds)
	if err != nil {
		t.Fatalf("harness: %s failed on a capture writer: %v", what, err)
	}
	if ret == nil {
		world.Fail(t, "C13/request/no-counter-returned", "%s returned neither a counter nor an error%s", what, hist())
	}
	switch len(wrote) {
	case 1:
		w := wrote[0]
		if w.ctr != uint64(*ret) {
			world.Fail(t, "C13/request/returned-counter-differs-from-written", "%s returned counter %d but wrote %s%s", what, *ret, w.raw, hist())
		}
		if !w.request || w.dest != destS || w.cmd != cmdS {
			world.Fail(t, "C13/request/written-datagram-differs", "%s to %s with %s wrote %s%s", what, destS, cmdS, w.raw, hist())
		}
		if len(before) > 0 {
			m.rewritten++
			return "rewritten"
		}
		return "written"
	case 0:
		m.withheld++
		for _, c := range before {
			if c == uint64(*ret) {
				return "withheld"
			}
		}
		shape := "unknown-counter"
		if w := m.byCtr[uint64(*ret)]; w != nil {
			switch {
			case !w.request:
				shape = "counter-of-non-request"
			case w.dest == destS && w.cmd == cmdS && m.answered[w.ctr]:
				shape = "identical-request-already-answered"
			case w.dest == destS && w.cmd == cmdS:
				shape = "inconsistent-log"
			case w.cmd == cmdS:
				shape = "same-command-other-destination"
			case w.dest == destS:
				shape = "other-command-same-destination"
			default:
				shape = "unrelated-request"
			}
		}
		detail := "no datagram carries that counter"
		if w := m.byCtr[uint64(*ret)]; w != nil {
			detail = fmt.Sprintf("counter %d belongs to %s (answered=%v)", w.ctr, w.raw, m.answered[w.ctr])
		}
		world.Fail(t, "C13/dedup/withheld/"+shape, "%s to %s with %s wrote nothing and returned counter %d, but the unanswered identical requests in the log are %v; %s%s",
			what, destS, cmdS, *ret, before, detail, hist())
	default:
		world.Fail(t, "C13/request/multiple-datagrams", "%s wrote %d datagrams%s", what, len(wrote), hist())
	}
	return ""
}

// judgeLookup decides one DatagramForMsgCounter call for counter ctr.
func (m *refModel) judgeLookup(t world.TB, ctr uint64, got model.DatagramType, err error, hist func() string) string {
	m.lookups++
	w := m.byCtr[ctr]
	isNotify := w != nil && w.cls == model.CmdClassifierTypeNotify
	recent := false
	for _, c := range m.window() {
		if c == ctr {
			recent = true
		}
	}
	if err != nil {
		if recent {
			sig, why := "C13/notify-cache/recent-not-found", "no lookup preceded"
			if m.promoted {
				sig, why = "C13/notify-cache/evicted-after-lookup", "an earlier lookup hit a notification that was not the newest one"
			}
			pos := 0
			for i, c := range m.notifies {
				if c == ctr {
					pos = len(m.notifies) - i
				}
			}
			world.Fail(t, sig, "notification with counter %d is number %d of the last %d notifications (%d sent) but DatagramForMsgCounter says %q (%s)%s",
				ctr, pos, notifyWindow, len(m.notifies), err.Error(), why, hist())
		}
		return "miss"
	}
	if w == nil {
		// the statement does not say what a lookup of a counter that was never issued returns
		return "hit-unissued"
	}
	if js := datagramJSON(got); js != w.raw {
		world.Fail(t, "C13/notify-cache/wrong-datagram", "DatagramForMsgCounter(%d) returned %s but the datagram written with that counter is %s%s", ctr, js, w.raw, hist())
	}
	if isNotify {
		m.lookupSinceNotify = true
		if ctr != m.notifies[len(m.notifies)-1] {
			m.promoted = true
		}
	}
	return "hit"
}

// ---------------------------------------------------------------------------------------------
// the state machine

type machine struct {
	c      *conn
	m      *refModel
	trace  []string
	serial int    // next command number of the unbounded family
	hdrCtr uint64 // counters of the (simulated) inbound requests that Reply / Result answer
	labels map[string]bool
}

func newMachine(t world.TB, kind string) *machine {
	s := &machine{c: newConn(kind), m: newModel(), serial: 1000, hdrCtr: 700000, labels: map[string]bool{}}
	s.m.take(t, s.c.initial, s.hist)
	for _, a := range s.c.answered {
		s.m.answer(uint64(a))
	}
	return s
}

func (s *machine) log(format string, args ...any) {
	s.trace = append(s.trace, fmt.Sprintf(format, args...))
}

func (s *machine) hist() string {
	tr := s.trace
	skipped := 0
	if len(tr) > 40 {
		skipped = len(tr) - 40
		tr = tr[skipped:]
	}
	return fmt.Sprintf("\n sender: %s; history (%d earlier steps omitted): %s", s.c.kind, skipped, strings.Join(tr, " ; "))
}

func (s *machine) absorb(t world.TB) []*wire { return s.m.take(t, s.c.cap.Drain(), s.hist) }

// issue performs one call of the Request family and judges it.
func (s *machine) issue(t world.TB, tag, what string, dest *model.FeatureAddressType, cmds []model.CmdType, call func() (*model.MsgCounterType, error)) string {
	destS, cmdS := normKey(dest, cmds)
	before := append([]uint64(nil), s.m.unanswered[destS+"|"+cmdS]...)
	ret, err := call()
	wrote := s.absorb(t)
	s.log("%s", tag) // logged before judging so that a failure message shows the failing step
	out := s.m.judgeRequest(t, what, dest, cmds, before, ret, err, wrote, s.hist)
	s.trace[len(s.trace)-1] = fmt.Sprintf("%s=%s(%d)", tag, out, *ret)
	s.labels["request/"+out] = true
	world.Label("request/" + out)
	return out
}

func errOf(e *model.ErrorType) error {
	if e == nil {
		return nil
	}
	return errors.New(e.String())
}

func (s *machine) request(t *rapid.T) {
	d := rapid.IntRange(0, nDests-1).Draw(t, "dest")
	ci := rapid.IntRange(0, nBaseCmds-1).Draw(t, "cmd")
	if s.c.kind == "peer" && rapid.IntRange(0, 3).Draw(t, "viaFeature") == 0 {
		fn, sel := readArgs(ci)
		s.issue(t, fmt.Sprintf("featureRead(d%d,c%d)", d, ci), "FeatureLocal.RequestRemoteData", s.c.dests[d], []model.CmdType{readCmd(ci)},
			func() (*model.MsgCounterType, error) {
				ctr, e := s.c.client.RequestRemoteData(fn, sel, nil, s.c.remotes[d])
				return ctr, errOf(e)
			})
		return
	}
	cl := rapid.SampledFrom([]model.CmdClassifierType{model.CmdClassifierTypeRead, model.CmdClassifierTypeCall}).Draw(t, "classifier")
	ack := rapid.Bool().Draw(t, "ack")
	l := rapid.IntRange(0, 1).Draw(t, "source")
	s.doRequest(t, cl, l, d, ci, ack)
}

func (s *machine) doRequest(t world.TB, cl model.CmdClassifierType, l, d, ci int, ack bool) string {
	cmds := []model.CmdType{readCmd(ci)}
	return s.issue(t, fmt.Sprintf("%s(d%d,c%d)", cl, d, ci), "Sender.Request", s.c.dests[d], cmds,
		func() (*model.MsgCounterType, error) {
			return s.c.sender.Request(cl, s.c.locals[l], s.c.dests[d], ack, cmds)
		})
}

func (s *machine) nmcall(t *rapid.T) {
	kind := rapid.SampledFrom(nmKinds).Draw(t, "kind")
	d := rapid.IntRange(0, nDests-1).Draw(t, "server")
	viaFeature := s.c.kind == "peer" && rapid.IntRange(0, 2).Draw(t, "viaFeature") == 0
	l := 0
	if !viaFeature {
		l = rapid.IntRange(0, 1).Draw(t, "client")
	}
	client, server := s.c.locals[l], s.c.dests[d]
	cmds := []model.CmdType{nmCall(kind, client, server)}
	tag := fmt.Sprintf("%s(l%d,d%d)", kind, l, d)
	if viaFeature {
		tag = "feature-" + tag
	}
	s.issue(t, tag, kind, s.c.nm, cmds, func() (*model.MsgCounterType, error) {
		if viaFeature {
			var ctr *model.MsgCounterType
			var e *model.ErrorType
			switch kind {
			case "subscribe":
				ctr, e = s.c.client.SubscribeToRemote(server)
			case "bind":
				ctr, e = s.c.client.BindToRemote(server)
			case "unsubscribe":
				ctr, e = s.c.client.RemoveRemoteSubscription(server)
			default:
				ctr, e = s.c.client.RemoveRemoteBinding(server)
			}
			return ctr, errOf(e)
		}
		switch kind {
		case "subscribe":
			return s.c.sender.Subscribe(client, server, model.FeatureTypeTypeMeasurement)
		case "bind":
			return s.c.sender.Bind(client, server, model.FeatureTypeTypeMeasurement)
		case "unsubscribe":
			return s.c.sender.Unsubscribe(client, server)
		}
		return s.c.sender.Unbind(client, server)
	})
}

// response lets a response referencing some counter reach the sender.
func (s *machine) response(t *rapid.T) {
	kind := rapid.SampledFrom([]string{"unanswered", "unanswered", "unanswered", "answered", "unknown", "non-request", "nil"}).Draw(t, "reference")
	vias := []string{"api"}
	if s.c.kind == "peer" {
		vias = []string{"api", "inbound-result", "inbound-reply"}
	}
	via := rapid.SampledFrom(vias).Draw(t, "via")
	pick := func(list []uint64) (uint64, bool) {
		if len(list) == 0 {
			return 0, false
		}
		switch rapid.SampledFrom([]string{"newest", "oldest", "any"}).Draw(t, "which") {
		case "newest":
			return list[len(list)-1], true
		case "oldest":
			return list[0], true
		}
		return list[rapid.IntRange(0, len(list)-1).Draw(t, "index")], true
	}
	var ref uint64
	ok := false
	switch kind {
	case "unanswered":
		ref, ok = pick(s.m.unansweredCounters())
	case "answered":
		ref, ok = pick(s.m.answeredCounters())
	case "non-request":
		var list []uint64
		for _, w := range s.m.wires {
			if !w.request {
				list = append(list, w.ctr)
			}
		}
		ref, ok = pick(list)
	case "nil":
		if via == "api" {
			s.c.sender.ProcessResponseForMsgCounterReference(nil)
			s.log("response(nil)")
			return
		}
	}
	if !ok {
		kind = "unknown"
		ref = s.m.max + 1 + uint64(rapid.IntRange(0, 3).Draw(t, "beyond"))
	}
	s.respond(t, kind, via, ref)
}

func (s *machine) respond(t world.TB, kind, via string, ref uint64) {
	r := model.MsgCounterType(ref)
	s.log("response(%s,%s,%d)", kind, via, ref)
	if via == "api" {
		s.c.sender.ProcessResponseForMsgCounterReference(&r)
	} else {
		// the response comes from where the request went to and goes to where it came from
		src, dst := s.c.dests[0], s.c.locals[0]
		w := s.m.byCtr[ref]
		if w != nil && w.request && w.d.Header.AddressDestination != nil && w.d.Header.AddressSource != nil {
			src, dst = w.d.Header.AddressDestination, w.d.Header.AddressSource
		}
		toMeasurement := dst.Entity != nil && len(dst.Entity) == 1 && dst.Entity[0] == 1
		var d model.DatagramType
		if via == "inbound-reply" && toMeasurement && kind == "unanswered" && w != nil && w.request && ref%3 == 0 {
			// the reply asks for an acknowledgement; while the stack writes it (the response is being
			// handled, the SHIP writer is application territory) the identical request is issued again,
			// as polling code does: the response has arrived, so it is sent
			d = s.c.p.Msg(model.CmdClassifierTypeReply, src, dst, true, &r, dataCmd(int(ref%4), int(ref%100)))
			var fired atomic.Bool
			var again *model.MsgCounterType
			var againErr error
			s.c.cap.SetOnWrite(func([]byte) {
				if fired.CompareAndSwap(false, true) { // (the request written from here comes through this writer too)
					again, againErr = s.c.sender.Request(*w.d.Header.CmdClassifier, w.d.Header.AddressSource, w.d.Header.AddressDestination,
						w.d.Header.AckRequest != nil && *w.d.Header.AckRequest, w.d.Payload.Cmd)
				}
			})
			s.c.p.Send(d)
			s.c.cap.SetOnWrite(nil)
			s.c.sync()
			s.log("  (the identical request was issued again while the reply was acknowledged => %v, %v)", again, againErr)
			world.Label("response/reissue-while-response-is-handled")
			if again != nil && uint64(*again) == ref {
				world.Fail(t, "C13/withheld-after-response/reissued-while-response-is-handled", "request %d was answered by an inbound reply; the identical request issued while the stack acknowledged that reply was withheld as a duplicate of it (counter %d returned)\n%s", ref, uint64(*again), s.hist())
			}
			s.m.answer(ref)
			s.m.responses++
			s.absorb(t)
			world.Label("response/" + kind + "/" + via)
			return
		}
		if via == "inbound-reply" && toMeasurement {
			d = s.c.p.Msg(model.CmdClassifierTypeReply, src, dst, false, &r, dataCmd(int(ref%4), int(ref%100)))
		} else {
			d = s.c.p.Msg(model.CmdClassifierTypeResult, src, dst, false, &r,
				model.CmdType{ResultData: &model.ResultDataType{ErrorNumber: util.Ptr(model.ErrorNumberTypeNoError)}})
		}
		s.c.p.Send(d)
		s.c.sync()
	}
	s.m.answer(ref)
	s.m.responses++
	s.absorb(t)
	world.Label("response/" + kind + "/" + via)
}

// responseAfterEntityLeft (peer connections): the peer announces the entity of an unanswered request's destination
// as removed, THEN its response to that request arrives (it was on its way), then the entity is announced again.
// The response references the counter all the same: it re-enables sending.
func (s *machine) responseAfterEntityLeft(t *rapid.T) {
	if s.c.kind != "peer" {
		t.Skip("direct sender: no peer tree")
	}
	var cands []uint64
	for _, c := range s.m.unansweredCounters() {
		if w := s.m.byCtr[c]; w != nil && w.request && w.d.Header.AddressDestination != nil && len(w.d.Header.AddressDestination.Entity) == 1 && w.d.Header.AddressDestination.Entity[0] == 2 {
			cands = append(cands, c)
		}
	}
	if len(cands) == 0 {
		t.Skip("no unanswered request to a feature of entity [2]")
	}
	ref := cands[rapid.IntRange(0, len(cands)-1).Draw(t, "request")]
	var ent world.EntSpec
	for _, e := range s.c.p.Ents {
		if len(e.Addr) == 1 && e.Addr[0] == 2 {
			ent = e
		}
	}
	if ent.Addr == nil {
		t.Skip("the peer has no entity [2]")
	}
	notify := func(change model.NetworkManagementStateChangeType, e world.EntSpec) {
		cmd := model.CmdType{Function: util.Ptr(model.FunctionTypeNodeManagementDetailedDiscoveryData), Filter: []model.FilterType{*model.NewFilterTypePartial()},
			NodeManagementDetailedDiscoveryData: s.c.p.DiscoveryData([]world.EntSpec{e}, &change)}
		s.c.p.Send(s.c.p.Msg(model.CmdClassifierTypeNotify, s.c.p.NM(), world.LocalNM(), false, nil, cmd))
		s.c.sync()
	}
	notify(model.NetworkManagementStateChangeTypeRemoved, world.EntSpec{Addr: ent.Addr, Type: ent.Type})
	s.absorb(t)
	s.log("peer announces entity [2] as removed")
	s.respond(t, "unanswered", "inbound-result", ref)
	notify(model.NetworkManagementStateChangeTypeAdded, ent)
	s.absorb(t)
	s.log("peer announces entity [2] again")
	world.Label("response/after-its-entity-was-removed")
}

// notify sends one notification and, if probe is set, looks it up at the moment it is written
// (the peer may answer immediately, so the datagram must be retrievable from then on).
func (s *machine) doNotify(t world.TB, via string, l int, id, val int, probe bool) {
	type probed struct {
		ctr uint64
		d   model.DatagramType
		err error
	}
	var mu sync.Mutex
	var probes []probed
	if probe {
		s.c.cap.SetOnWrite(func(raw []byte) {
			var d model.Datagram
			if json.Unmarshal(raw, &d) != nil || d.Datagram.Header.MsgCounter == nil || d.Datagram.Header.CmdClassifier == nil ||
				*d.Datagram.Header.CmdClassifier != model.CmdClassifierTypeNotify {
				return
			}
			got, err := s.c.sender.DatagramForMsgCounter(*d.Datagram.Header.MsgCounter)
			mu.Lock()
			probes = append(probes, probed{uint64(*d.Datagram.Header.MsgCounter), got, err})
			mu.Unlock()
		})
	}
	var ret *model.MsgCounterType
	var err error
	if via == "feature" {
		s.c.server.SetData(model.FunctionTypeMeasurementListData, measurementData(id, val))
	} else {
		ret, err = s.c.sender.Notify(s.c.locals[l], s.c.notifyDest, dataCmd(id, val))
	}
	if probe {
		s.c.cap.SetOnWrite(nil)
	}
	s.c.sync()
	wrote := s.absorb(t)
	s.log("notify(%s)", via)
	if err != nil {
		t.Fatalf("harness: Notify failed on a capture writer: %v", err)
	}
	if len(wrote) != 1 || wrote[0].cls != model.CmdClassifierTypeNotify {
		world.Fail(t, "C13/notify/datagram-count", "one notification (%s) wrote %d datagrams%s", via, len(wrote), s.hist())
	}
	if via != "feature" && (ret == nil || uint64(*ret) != wrote[0].ctr) {
		world.Fail(t, "C13/notify/returned-counter-differs-from-written", "Notify returned %v but wrote %s%s", ret, wrote[0].raw, s.hist())
	}
	s.trace[len(s.trace)-1] = fmt.Sprintf("notify(%s)=%d", via, wrote[0].ctr)
	if probe {
		mu.Lock()
		defer mu.Unlock()
		if len(probes) != 1 {
			t.Fatalf("harness: write-time probe ran %d times", len(probes))
		}
		pr := probes[0]
		if pr.err != nil {
			world.Fail(t, "C13/notify-cache/not-retrievable-at-write-time", "notification %d was on the wire but DatagramForMsgCounter said %q at that moment%s", pr.ctr, pr.err.Error(), s.hist())
		}
		if js := datagramJSON(pr.d); js != wrote[0].raw {
			world.Fail(t, "C13/notify-cache/wrong-datagram", "at write time DatagramForMsgCounter(%d) returned %s, written was %s%s", pr.ctr, js, wrote[0].raw, s.hist())
		}
		s.m.lookups++
		world.Label("lookup/at-write-time")
	}
}

// f17Open: the lookup-promotes-entry defect of the notify cache is listed as an open finding.
func f17Open() bool { return world.KnownFinding("C13/notify-cache/evicted-after-lookup") != nil }

// room limits the number of notifications about to be sent. Once a lookup has hit an entry that was
// not the newest, pushing the total beyond 100 notifications can only end in the open finding F17;
// while that finding is listed as open such continuations are down-weighted to one in four (not
// excluded), so that long histories keep exploring the other clauses.
func (s *machine) room(t *rapid.T, n int) int {
	if !f17Open() || !s.m.promoted || len(s.m.notifies)+n <= notifyWindow {
		return n
	}
	if rapid.IntRange(0, 3).Draw(t, "intoKnownFinding") == 0 {
		world.Label("known-shape/entered")
		return n
	}
	world.Label("known-shape/avoided")
	if r := notifyWindow - len(s.m.notifies); r > 0 {
		return r
	}
	return 0
}

func (s *machine) notify(t *rapid.T) {
	if s.room(t, 1) == 0 {
		s.log("notify-avoided")
		return
	}
	via := "sender"
	if s.c.kind == "peer" && rapid.IntRange(0, 2).Draw(t, "viaFeature") == 0 {
		via = "feature"
	}
	s.doNotify(t, via, rapid.IntRange(0, 1).Draw(t, "source"), rapid.IntRange(0, 3).Draw(t, "id"), rapid.IntRange(0, 99).Draw(t, "value"),
		rapid.IntRange(0, 3).Draw(t, "probe") == 0)
}

// overlapNotifies: while one notification is being written (its writer is held), k further notifications
// run to completion on the same connection; then the first one is let go. Afterwards everything is quiet
// and the clauses are judged as after any other step.
func (s *machine) overlapNotifies(t world.TB, k int) {
	var fired atomic.Bool
	inside := false
	s.c.cap.SetOnWrite(func([]byte) {
		if !fired.CompareAndSwap(false, true) {
			return
		}
		done := make(chan struct{})
		go func() {
			defer close(done)
			for i := 0; i < k; i++ {
				_, _ = s.c.sender.Notify(s.c.locals[1], s.c.notifyDest, dataCmd(i%4, 50+i))
			}
		}()
		select {
		case <-done:
			inside = true
		case <-time.After(5 * time.Second): // (a sender that serialises its notifications: they follow later)
			go func() { <-done }()
		}
	})
	_, err := s.c.sender.Notify(s.c.locals[1], s.c.notifyDest, dataCmd(0, 49))
	s.c.cap.SetOnWrite(nil)
	if err != nil {
		t.Fatalf("harness: Notify failed on a capture writer: %v", err)
	}
	if !inside {
		// wait for the stragglers so that the log is complete
		deadline := time.Now().Add(30 * time.Second)
		for s.c.cap.Len() < len(s.m.wires)+1+k && time.Now().Before(deadline) {
			time.Sleep(time.Millisecond)
		}
	}
	s.c.sync()
	wrote := s.absorb(t)
	s.log("notify with %d further notifications inside its write (overlapped=%v)", k, inside)
	s.trace[len(s.trace)-1] = fmt.Sprintf("overlap(%d,%v)", k, inside)
	if len(wrote) != 1+k {
		world.Fail(t, "C13/notify/datagram-count", "%d overlapping notifications wrote %d datagrams%s", 1+k, len(wrote), s.hist())
	}
	world.Label(fmt.Sprintf("overlap/notifies-inside-a-write/%v", inside))
	s.labels["overlap"] = true
}

func (s *machine) overlap(t *rapid.T) {
	k := rapid.IntRange(1, 3).Draw(t, "inside")
	if s.room(t, 1+k) < 1+k {
		s.log("overlap-avoided")
		return
	}
	s.overlapNotifies(t, k)
	if rapid.Bool().Draw(t, "verifyNow") {
		s.verifyWindow(t, false)
	}
}

func (s *machine) doLookup(t world.TB, kind string, ctr uint64) string {
	got, err := s.c.sender.DatagramForMsgCounter(model.MsgCounterType(ctr))
	s.log("lookup(%s,%d)", kind, ctr)
	out := s.m.judgeLookup(t, ctr, got, err, s.hist)
	s.trace[len(s.trace)-1] += "=" + out
	world.Label("lookup/" + kind + "/" + out)
	return out
}

// lookup retrieves one datagram: a recent notification (newest, oldest of the window, any), one
// older than the window, a counter never issued, or the counter of a datagram that is no notification.
func (s *machine) lookup(t *rapid.T) {
	kind := rapid.SampledFrom([]string{"recent-oldest", "recent-any", "recent-any", "recent-newest", "old", "unissued", "non-notify"}).Draw(t, "target")
	win := s.m.window()
	var ctr uint64
	switch {
	case strings.HasPrefix(kind, "recent") && len(win) > 0:
		switch kind {
		case "recent-oldest":
			ctr = win[0]
		case "recent-newest":
			ctr = win[len(win)-1]
		default:
			ctr = win[rapid.IntRange(0, len(win)-1).Draw(t, "position")]
		}
	case kind == "old" && len(s.m.notifies) > notifyWindow:
		ctr = s.m.notifies[rapid.IntRange(0, len(s.m.notifies)-notifyWindow-1).Draw(t, "position")]
	case kind == "non-notify" && len(s.m.wires) > len(s.m.notifies):
		var list []uint64
		for _, w := range s.m.wires {
			if w.cls != model.CmdClassifierTypeNotify {
				list = append(list, w.ctr)
			}
		}
		ctr = list[rapid.IntRange(0, len(list)-1).Draw(t, "position")]
	default:
		kind = "unissued"
		ctr = s.m.max + 1 + uint64(rapid.IntRange(0, 3).Draw(t, "beyond"))
	}
	s.doLookup(t, kind, ctr)
}

// verifyWindow retrieves every one of the last 100 notifications.
func (s *machine) verifyWindow(t world.TB, newestFirst bool) {
	win := append([]uint64(nil), s.m.window()...)
	if newestFirst {
		for i, j := 0, len(win)-1; i < j; i, j = i+1, j-1 {
			win[i], win[j] = win[j], win[i]
		}
	}
	s.log("verify(newestFirst=%v,%d)", newestFirst, len(win))
	for _, ctr := range win {
		got, err := s.c.sender.DatagramForMsgCounter(model.MsgCounterType(ctr))
		s.m.judgeLookup(t, ctr, got, err, s.hist)
	}
}

func (s *machine) verify(t *rapid.T) {
	if len(s.m.notifies) == 0 {
		t.Skip("no notification yet")
	}
	s.verifyWindow(t, rapid.Bool().Draw(t, "newestFirst"))
	world.Label("verify")
}

// other: Reply, ResultSuccess, ResultError and Write each put exactly one datagram with a fresh counter on the wire.
func (s *machine) other(t *rapid.T) {
	kind := rapid.SampledFrom([]string{"reply", "result-success", "result-error", "write"}).Draw(t, "kind")
	l := rapid.IntRange(0, 1).Draw(t, "local")
	d := rapid.IntRange(0, nDests-1).Draw(t, "remote")
	s.doOther(t, kind, l, d, rapid.IntRange(0, 3).Draw(t, "id"))
}

func (s *machine) doOther(t world.TB, kind string, l, d, id int) {
	s.hdrCtr++
	hdr := &model.HeaderType{AddressSource: s.c.dests[d], AddressDestination: s.c.locals[l], MsgCounter: util.Ptr(model.MsgCounterType(s.hdrCtr))}
	var ret *model.MsgCounterType
	var err error
	want := model.CmdClassifierTypeResult
	switch kind {
	case "reply":
		want = model.CmdClassifierTypeReply
		err = s.c.sender.Reply(hdr, s.c.locals[l], dataCmd(id, 1))
	case "result-success":
		err = s.c.sender.ResultSuccess(hdr, s.c.locals[l])
	case "result-error":
		err = s.c.sender.ResultError(hdr, s.c.locals[l], model.NewErrorType(model.ErrorNumberTypeGeneralError, "x"))
	default:
		want = model.CmdClassifierTypeWrite
		ret, err = s.c.sender.Write(s.c.locals[l], s.c.dests[d], dataCmd(id, 2))
	}
	wrote := s.absorb(t)
	s.log("%s", kind)
	if err != nil {
		t.Fatalf("harness: %s failed on a capture writer: %v", kind, err)
	}
	if len(wrote) != 1 || wrote[0].cls != want {
		world.Fail(t, "C13/"+kind+"/datagram-count", "%s wrote %d datagrams%s", kind, len(wrote), s.hist())
	}
	if kind == "write" {
		if ret == nil || uint64(*ret) != wrote[0].ctr {
			world.Fail(t, "C13/write/returned-counter-differs-from-written", "Write returned %v but wrote %s%s", ret, wrote[0].raw, s.hist())
		}
	} else if r := wrote[0].d.Header.MsgCounterReference; r == nil || uint64(*r) != s.hdrCtr {
		world.Fail(t, "C13/"+kind+"/reference", "%s to request %d wrote %s%s", kind, s.hdrCtr, wrote[0].raw, s.hist())
	}
	s.trace[len(s.trace)-1] = fmt.Sprintf("%s=%d", kind, wrote[0].ctr)
	world.Label("other/" + kind)
}

// inbound (peer only): messages of the peer that make the stack itself write to the connection.
func (s *machine) inbound(t *rapid.T) {
	if s.c.kind != "peer" {
		t.Skip("no reader on a bare sender")
	}
	kind := rapid.SampledFrom([]string{"read", "notify-ack", "read-unknown-feature"}).Draw(t, "kind")
	p := s.c.p
	var d model.DatagramType
	switch kind {
	case "read":
		d = p.Msg(model.CmdClassifierTypeRead, p.FA([]uint{1}, 3), s.c.server.Address(), false, nil, readCmd(0))
	case "notify-ack":
		d = p.Msg(model.CmdClassifierTypeNotify, p.FA([]uint{1}, 1), s.c.client.Address(), true, nil, dataCmd(rapid.IntRange(0, 3).Draw(t, "id"), 3))
	default:
		d = p.Msg(model.CmdClassifierTypeRead, p.FA([]uint{1}, 3), world.LA([]uint{1}, 9), false, nil, readCmd(0))
	}
	p.Send(d)
	s.c.sync()
	wrote := s.absorb(t)
	s.log("inbound(%s)->%d", kind, len(wrote))
	world.Label("inbound/" + kind)
}

// burst forces long runs: many distinct unanswered requests, many notifications, one request repeated.
func (s *machine) burst(t *rapid.T) {
	kind := rapid.SampledFrom([]string{"distinct-requests", "notifies", "same-request"}).Draw(t, "kind")
	n := rapid.IntRange(1, 130).Draw(t, "n")
	switch kind {
	case "distinct-requests":
		d := rapid.IntRange(0, nDests-1).Draw(t, "dest")
		s.burstDistinct(t, d, n)
	case "notifies":
		if n = s.room(t, n); n > 0 {
			s.burstNotifies(t, n)
		}
	default:
		d := rapid.IntRange(0, nDests-1).Draw(t, "dest")
		ci := rapid.IntRange(0, nBaseCmds-1).Draw(t, "cmd")
		mark := len(s.trace)
		w := 0
		for i := 0; i < n; i++ {
			if s.doRequest(t, model.CmdClassifierTypeRead, 0, d, ci, false) == "withheld" {
				w++
			}
		}
		s.trace = append(s.trace[:mark], fmt.Sprintf("burst(%d x read(d%d,c%d), %d withheld)", n, d, ci, w))
	}
	world.Label("burst/" + kind)
	if n > 20 {
		world.Label("burst/" + kind + "/>20")
	}
	if n > notifyWindow {
		world.Label("burst/" + kind + "/>100")
	}
}

func (s *machine) burstDistinct(t world.TB, d, n int) {
	mark := len(s.trace)
	first := s.serial
	for i := 0; i < n; i++ {
		s.doRequest(t, model.CmdClassifierTypeRead, 0, d, s.serial, false)
		s.serial++
	}
	s.trace = append(s.trace[:mark], fmt.Sprintf("burst(%d distinct reads to d%d, c%d..)", n, d, first))
}

func (s *machine) burstNotifies(t world.TB, n int) {
	mark := len(s.trace)
	for i := 0; i < n; i++ {
		s.doNotify(t, "sender", 1, i%4, i%100, false)
	}
	s.trace = append(s.trace[:mark], fmt.Sprintf("burst(%d notifies)", n))
}

// reissueAll issues every request that is unanswered in the log once more. However many there
// are, only a bounded number of them may be withheld (the memory of unanswered requests is bounded).
func (s *machine) reissueAll(t world.TB, newestFirst bool) (issued, withheld int) {
	var reps []*wire
	for _, list := range s.m.unanswered {
		reps = append(reps, s.m.byCtr[list[len(list)-1]])
	}
	sort.Slice(reps, func(i, j int) bool {
		if newestFirst {
			return reps[i].ctr > reps[j].ctr
		}
		return reps[i].ctr < reps[j].ctr
	})
	mark := len(s.trace)
	for _, w := range reps {
		w := w
		h := w.d.Header
		ack := h.AckRequest != nil && *h.AckRequest
		out := s.issue(t, "reissue", "Sender.Request", h.AddressDestination, w.d.Payload.Cmd, func() (*model.MsgCounterType, error) {
			return s.c.sender.Request(w.cls, h.AddressSource, h.AddressDestination, ack, w.d.Payload.Cmd)
		})
		if out == "withheld" {
			withheld++
		}
	}
	s.trace = append(s.trace[:mark], fmt.Sprintf("reissue-all(newestFirst=%v, %d issued, %d withheld)", newestFirst, len(reps), withheld))
	if withheld > withheldBound {
		world.Fail(t, "C13/dedup/unbounded-memory", "re-issuing the %d distinct unanswered requests withheld %d of them (bound %d): the memory of unanswered requests grows with the history%s",
			len(reps), withheld, withheldBound, s.hist())
	}
	return len(reps), withheld
}

func (s *machine) reissue(t *rapid.T) {
	if len(s.m.unanswered) == 0 {
		t.Skip("nothing unanswered")
	}
	s.reissueAll(t, rapid.Bool().Draw(t, "newestFirst"))
	world.Label("reissue-all")
}

func (s *machine) nontrivial() bool {
	return s.m.withheld > 0 || s.m.rewritten > 0 || len(s.m.notifies) > notifyWindow || s.m.lookupBetween
}

func (s *machine) caseLabels() []string {
	ls := []string{"sender/" + s.c.kind}
	if s.m.withheld > 0 {
		ls = append(ls, "case/withheld")
	}
	if s.m.rewritten > 0 {
		ls = append(ls, "case/request-cache-eviction")
	}
	if len(s.m.notifies) > notifyWindow {
		ls = append(ls, "case/notify-cache-eviction")
	}
	if s.m.lookupBetween {
		ls = append(ls, "case/lookup-between-notifies")
	}
	if s.m.responses > 0 {
		ls = append(ls, "case/response")
	}
	return ls
}

func TestSenderSequential(t *testing.T) {
	rapid.Check(t, world.Prop(func(t *rapid.T) {
		kind := rapid.SampledFrom([]string{"direct", "peer"}).Draw(t, "sender")
		s := newMachine(t, kind)
		defer s.c.close()
		t.Repeat(map[string]func(*rapid.T){
			"request":  s.request,
			"request2": s.request,
			"nmcall":   s.nmcall,
			"response": s.response,
			"notify":   s.notify,
			"overlap":  s.overlap,
			"lookup":   s.lookup,
			"lookup2":  s.lookup,
			"verify":   s.verify,
			"other":    s.other,
			"inbound":  s.inbound,
			"burst":    s.burst,
			"reissue":  s.reissue,
			"respLate": s.responseAfterEntityLeft,
		})
		s.verifyWindow(t, rapid.Bool().Draw(t, "finalNewestFirst"))
		nt := s.nontrivial()
		world.Record(world.Hash(kind, strings.Join(s.trace, ";")), nt, s.caseLabels()...)
		if nt && world.WantSample() {
			world.Sample(map[string]any{"sender": kind, "history": s.trace, "datagrams": len(s.m.wires), "notifies": len(s.m.notifies),
				"withheld": s.m.withheld, "written-while-identical-unanswered": s.m.rewritten})
		}
	}))
}

// TestSenderBounded: after N distinct unanswered requests, re-issuing all of them withholds at most a
// constant number, for N in {50, 200, 800}; answered ones are written again.
func TestSenderBounded(t *testing.T) {
	rapid.Check(t, world.Prop(func(t *rapid.T) {
		kind := rapid.SampledFrom([]string{"direct", "peer"}).Draw(t, "sender")
		n := rapid.SampledFrom([]int{50, 200, 800}).Draw(t, "n")
		s := newMachine(t, kind)
		defer s.c.close()
		// ordinary traffic first: requests that get their answer
		answeredFirst := rapid.SampledFrom([]int{0, 0, 5, 40, 300}).Draw(t, "answeredFirst")
		for i := 0; i < answeredFirst; i++ {
			if out := s.doRequest(t, model.CmdClassifierTypeRead, 0, i%nDests, s.serial, false); out != "written" {
				t.Fatalf("harness: distinct request %d was %s", i, out)
			}
			s.serial++
			un := s.m.unansweredCounters()
			s.respond(t, "unanswered", "api", un[len(un)-1])
		}
		world.Label(fmt.Sprintf("bounded/answered-first=%d", answeredFirst))
		strayWrites := rapid.Bool().Draw(t, "writeResultsInBetween")
		var strayRef uint64
		world.Label(fmt.Sprintf("bounded/write-results-in-between=%v", strayWrites))
		// a few notifications and other datagrams in between keep the counters of requests non-contiguous
		for i := 0; i < n; i++ {
			if out := s.doRequest(t, model.CmdClassifierTypeRead, 0, i%nDests, s.serial, false); out != "written" {
				t.Fatalf("harness: distinct request %d was %s", i, out) // unreachable: judgeRequest fails first
			}
			s.serial++
			// the result of an earlier write arrives: a response whose reference is no cached request,
			// while newer requests are unanswered
			if strayWrites && strayRef != 0 {
				s.respond(t, "non-request", "api", strayRef)
				strayRef = 0
			}
			if i%17 == 3 || (strayWrites && i%4 == 2) {
				s.doOther(t, "write", 0, 0, 1)
				strayRef = s.m.max
			}
		}
		s.trace = []string{fmt.Sprintf("%d distinct reads", n)}
		_, withheld := s.reissueAll(t, rapid.Bool().Draw(t, "newestFirst"))
		// answer a drawn share of what is unanswered now, newest first, and issue those once more
		un := s.m.unansweredCounters()
		k := rapid.IntRange(0, 40).Draw(t, "answers")
		for i := 0; i < k && i < len(un); i++ {
			s.respond(t, "unanswered", "api", un[len(un)-1-i])
		}
		_, withheld2 := s.reissueAll(t, rapid.Bool().Draw(t, "newestFirst2"))
		world.Record(world.Hash("bounded", kind, n, withheld, k, withheld2), n > 21, "bounded/n="+fmt.Sprint(n), "sender/"+kind)
		world.Label(fmt.Sprintf("bounded/withheld<=%d", (withheld/8+1)*8))
		if world.WantSample() {
			world.Sample(map[string]any{"kind": "bounded", "sender": kind, "distinct-unanswered": n, "withheld-on-reissue": withheld, "answered": k, "withheld-on-second-reissue": withheld2})
		}
	}))
}

// TestNotifyWindow enumerates (notifications sent, position looked up, notifications afterwards) on a
// bare sender: the deterministic companion of the lookup / notify interleavings (and the regression
// cases for the lookup-promotes-entry defect of the LRU notify cache).
func TestNotifyWindow(t *testing.T) {
	type scenario struct {
		pre    int
		lookup int // position from the newest (1 = newest) looked up after pre notifications; 0 = none
		post   int
	}
	var scs []scenario
	for _, pre := range []int{1, 50, 99, 100, 101, 150, 250} {
		scs = append(scs, scenario{pre, 0, 0})
		for _, pos := range []int{1, 2, 50, 99, 100, 101, 120} {
			if pos > pre {
				continue
			}
			for _, post := range []int{1, 2, 50, 99, 100, 130} {
				scs = append(scs, scenario{pre, pos, post})
			}
		}
	}
	failed := 0
	for _, sc := range scs {
		sc := sc
		abandoned := world.Guard(func() {
			s := newMachine(t, "direct")
			s.burstNotifies(t, sc.pre)
			if sc.lookup > 0 {
				kind := "recent"
				if sc.lookup > notifyWindow {
					kind = "old"
				}
				s.doLookup(t, kind, s.m.notifies[len(s.m.notifies)-sc.lookup])
			}
			s.burstNotifies(t, sc.post)
			s.verifyWindow(t, false)
			world.Record(world.Hash("window", sc.pre, sc.lookup, sc.post), sc.lookup > 0 && sc.pre+sc.post > notifyWindow, "window")
		})
		if abandoned {
			failed++
		}
	}
	// notifications that overlap in time around the point where the cache is full
	overlaps := 0
	for _, pre := range []int{0, 1, 50, 97, 98, 99, 100, 101, 150} {
		for _, k := range []int{1, 2, 3} {
			for _, rounds := range []int{1, 3} {
				pre, k, rounds := pre, k, rounds
				overlaps++
				world.Guard(func() {
					s := newMachine(t, "direct")
					s.burstNotifies(t, pre)
					for r := 0; r < rounds; r++ {
						s.overlapNotifies(t, k)
					}
					s.verifyWindow(t, false)
					s.burstNotifies(t, 2)
					s.verifyWindow(t, true)
					world.Record(world.Hash("overlap", pre, k, rounds), pre+rounds*(1+k) > notifyWindow, "window/overlapping-notifies")
				})
			}
		}
	}
	world.SetExtra("notify_window_overlap_scenarios", overlaps)
	world.SetExtra("notify_window_scenarios", len(scs))
	world.SetExtra("notify_window_scenarios_hitting_known_finding", failed)
}
