package c13

import (
	"fmt"
	"os"
	"runtime/debug"
	"sort"
	"strings"
	"sync"
	"testing"
	"time"

	"github.com/enbility/spine-go/model"
	"github.com/enbility/spine-go/util"
	"pgregory.net/rapid"

	"verifharness/world"
)

// cop is one operation of a goroutine's workload (drawn up front on the property goroutine).
type cop struct {
	Kind string // request nmcall notify write reply result-success result-error response lookup inbound-result inbound-read
	NM   string
	Cl   model.CmdClassifierType
	L    int
	D    int
	C    int
	Ref  uint64 // response reference / looked-up counter
}

func (o cop) String() string {
	switch o.Kind {
	case "request":
		return fmt.Sprintf("%s(d%d,c%d)", o.Cl, o.D, o.C)
	case "nmcall":
		return fmt.Sprintf("%s(l%d,d%d)", o.NM, o.L, o.D)
	case "response", "lookup", "inbound-result":
		return fmt.Sprintf("%s(%d)", o.Kind, o.Ref)
	}
	return o.Kind
}

// prepared is a cop with everything allocated before the start barrier.
type prepared struct {
	op         cop
	dest       *model.FeatureAddressType
	cmds       []model.CmdType
	destS      string
	cmdS       string
	hdr        *model.HeaderType
	hdrCtr     uint64
	inbound    model.DatagramType
	inboundCtr uint64
}

// crec is what a worker logged about one call (workers never touch *rapid.T).
type crec struct {
	g, i       int
	p          *prepared
	start, end uint64
	ret        *model.MsgCounterType
	err        error
	found      bool
	got        string
	panicked   string
}

func drawOps(t *rapid.T, g int, n int, maxRef int) []cop {
	kinds := []string{"request", "request", "request", "nmcall", "notify", "notify", "write", "reply", "result-success", "result-error", "response", "lookup"}
	ops := make([]cop, 0, n)
	for i := 0; i < n; i++ {
		lbl := func(s string) string { return fmt.Sprintf("g%d.%d.%s", g, i, s) }
		o := cop{Kind: rapid.SampledFrom(kinds).Draw(t, lbl("op"))}
		o.L = rapid.IntRange(0, 1).Draw(t, lbl("local"))
		o.D = rapid.IntRange(0, nDests-1).Draw(t, lbl("dest"))
		switch o.Kind {
		case "request":
			// the command domain is wider here than in the sequential machine so that a good share of
			// the requests is actually written while others are withheld
			o.C = rapid.IntRange(0, 11).Draw(t, lbl("cmd"))
			o.Cl = rapid.SampledFrom([]model.CmdClassifierType{model.CmdClassifierTypeRead, model.CmdClassifierTypeCall}).Draw(t, lbl("classifier"))
		case "nmcall":
			o.NM = rapid.SampledFrom(nmKinds).Draw(t, lbl("kind"))
		case "response", "lookup":
			o.Ref = uint64(rapid.IntRange(1, maxRef).Draw(t, lbl("counter")))
		}
		ops = append(ops, o)
	}
	return ops
}

func prepare(c *conn, ops []cop, hdrBase uint64) []*prepared {
	out := make([]*prepared, len(ops))
	for i, o := range ops {
		p := &prepared{op: o}
		switch o.Kind {
		case "request":
			p.dest, p.cmds = c.dests[o.D], []model.CmdType{readCmd(o.C)}
		case "nmcall":
			p.dest, p.cmds = c.nm, []model.CmdType{nmCall(o.NM, c.locals[o.L], c.dests[o.D])}
		case "notify":
			p.dest, p.cmds = c.notifyDest, []model.CmdType{dataCmd(i%4, i%100)}
		case "write":
			p.dest, p.cmds = c.dests[o.D], []model.CmdType{dataCmd(i%4, i%100)}
		case "reply", "result-success", "result-error":
			p.hdrCtr = hdrBase + uint64(i)
			p.hdr = &model.HeaderType{AddressSource: c.dests[o.D], AddressDestination: c.locals[o.L], MsgCounter: util.Ptr(model.MsgCounterType(p.hdrCtr))}
			p.cmds = []model.CmdType{dataCmd(i%4, 1)}
		case "inbound-result":
			r := model.MsgCounterType(o.Ref)
			p.inbound = c.p.Msg(model.CmdClassifierTypeResult, c.dests[0], c.locals[0], false, &r,
				model.CmdType{ResultData: &model.ResultDataType{ErrorNumber: util.Ptr(model.ErrorNumberTypeNoError)}})
			p.inboundCtr = uint64(*p.inbound.Header.MsgCounter)
		case "inbound-read":
			p.inbound = c.p.Msg(model.CmdClassifierTypeRead, c.p.FA([]uint{1}, 3), c.server.Address(), false, nil, readCmd(0))
			p.inboundCtr = uint64(*p.inbound.Header.MsgCounter)
		}
		if p.dest != nil {
			p.destS, p.cmdS = normKey(p.dest, p.cmds)
		}
		out[i] = p
	}
	return out
}

// lookupMu serialises DatagramForMsgCounter calls among themselves in -race builds only: two
// concurrent lookups race on the LRU list inside the notify cache (state S10 of property C17, same
// root cause as F17); serialising them keeps the race detector usable for what C13 is about (the counter).
var lookupMu sync.Mutex

// serialiseLookups: -race build and not overridden by VERIF_C13_PARALLEL_LOOKUPS=1.
var serialiseLookups = raceEnabled && os.Getenv("VERIF_C13_PARALLEL_LOOKUPS") != "1"

func runWorker(c *conn, g int, ops []*prepared, start <-chan struct{}) (recs []crec) {
	recs = make([]crec, 0, len(ops))
	cur := -1
	defer func() {
		if r := recover(); r != nil {
			rec := crec{g: g, i: cur, panicked: fmt.Sprintf("%v\n%s", r, debug.Stack())}
			if cur >= 0 {
				rec.p = ops[cur]
			}
			recs = append(recs, rec)
		}
	}()
	<-start
	for i, p := range ops {
		cur = i
		rec := crec{g: g, i: i, p: p}
		o := p.op
		rec.start = world.Stamp()
		switch o.Kind {
		case "request":
			rec.ret, rec.err = c.sender.Request(o.Cl, c.locals[o.L], p.dest, false, p.cmds)
		case "nmcall":
			switch o.NM {
			case "subscribe":
				rec.ret, rec.err = c.sender.Subscribe(c.locals[o.L], c.dests[o.D], model.FeatureTypeTypeMeasurement)
			case "bind":
				rec.ret, rec.err = c.sender.Bind(c.locals[o.L], c.dests[o.D], model.FeatureTypeTypeMeasurement)
			case "unsubscribe":
				rec.ret, rec.err = c.sender.Unsubscribe(c.locals[o.L], c.dests[o.D])
			default:
				rec.ret, rec.err = c.sender.Unbind(c.locals[o.L], c.dests[o.D])
			}
		case "notify":
			rec.ret, rec.err = c.sender.Notify(c.locals[o.L], p.dest, p.cmds[0])
		case "write":
			rec.ret, rec.err = c.sender.Write(c.locals[o.L], p.dest, p.cmds[0])
		case "reply":
			rec.err = c.sender.Reply(p.hdr, c.locals[o.L], p.cmds[0])
		case "result-success":
			rec.err = c.sender.ResultSuccess(p.hdr, c.locals[o.L])
		case "result-error":
			rec.err = c.sender.ResultError(p.hdr, c.locals[o.L], model.NewErrorType(model.ErrorNumberTypeGeneralError, "x"))
		case "response":
			r := model.MsgCounterType(o.Ref)
			c.sender.ProcessResponseForMsgCounterReference(&r)
		case "lookup":
			if serialiseLookups {
				lookupMu.Lock()
			}
			d, err := c.sender.DatagramForMsgCounter(model.MsgCounterType(o.Ref))
			if serialiseLookups {
				lookupMu.Unlock()
			}
			if err == nil {
				rec.found, rec.got = true, datagramJSON(d)
			}
		case "inbound-result", "inbound-read":
			c.p.Send(p.inbound)
		}
		rec.end = world.Stamp()
		recs = append(recs, rec)
	}
	return recs
}

// cwire is one datagram of the round with the calls that may have written it.
type cwire struct {
	s      world.Sent
	ctr    uint64
	dest   string
	cmd    string
	owners []*crec
	lo, hi uint64 // hull of the owners' call intervals
	stack  bool   // written by the stack in response to an inbound message
}

func withheldShape(w *cwire, destS, cmdS string) string {
	switch {
	case w.cmd == cmdS:
		return "same-command-other-destination"
	case w.dest == destS:
		return "other-command-same-destination"
	}
	return "unrelated-request"
}

// TestSenderConcurrent: 8-16 goroutines use one sender at the same time.
func TestSenderConcurrent(t *testing.T) {
	rapid.Check(t, world.Prop(func(t *rapid.T) {
		kind := rapid.SampledFrom([]string{"direct", "direct", "peer"}).Draw(t, "sender")
		G := rapid.IntRange(8, 16).Draw(t, "goroutines")
		maxOps := rapid.SampledFrom([]int{40, 12, 80}).Draw(t, "maxOps")
		c := newConn(kind)
		defer c.close()
		loads := make([][]*prepared, 0, G+1)
		var shape []string
		total := 0
		for g := 0; g < G; g++ {
			ops := drawOps(t, g, rapid.IntRange(1, maxOps).Draw(t, fmt.Sprintf("g%d.n", g)), 16*maxOps/2)
			loads = append(loads, prepare(c, ops, 700000+uint64(g)*1000))
			total += len(ops)
			var ks []string
			for _, o := range ops {
				ks = append(ks, o.String())
			}
			shape = append(shape, strings.Join(ks, ","))
		}
		if kind == "peer" {
			// the connection's reader: one more goroutine delivering the peer's messages
			n := rapid.IntRange(0, maxOps).Draw(t, "reader.n")
			var ops []cop
			for i := 0; i < n; i++ {
				o := cop{Kind: rapid.SampledFrom([]string{"inbound-result", "inbound-result", "inbound-read"}).Draw(t, fmt.Sprintf("reader.%d.op", i))}
				if o.Kind == "inbound-result" {
					o.Ref = uint64(rapid.IntRange(1, 16*maxOps/2).Draw(t, fmt.Sprintf("reader.%d.counter", i)))
				}
				ops = append(ops, o)
			}
			loads = append(loads, prepare(c, ops, 0))
			total += n
		}

		start := make(chan struct{})
		results := make([][]crec, len(loads))
		var wg sync.WaitGroup
		for g := range loads {
			g := g
			wg.Add(1)
			go func() {
				defer wg.Done()
				results[g] = runWorker(c, g, loads[g], start)
			}()
		}
		close(start)
		joined := make(chan struct{})
		go func() { wg.Wait(); close(joined) }()
		select {
		case <-joined:
		case <-time.After(60 * time.Second):
			// a worker is blocked inside the stack (a panic left a lock behind, or a deadlock); the
			// process cannot be continued soundly
			panic("harness: C13 concurrent workers did not finish within 60 s (stack wedged)\n" + string(debug.Stack()))
		}
		c.sync()

		var recs []*crec
		for g := range results {
			for i := range results[g] {
				r := &results[g][i]
				if r.panicked != "" {
					sig := world.PanicSignature(r.panicked)
					if sig == "" {
						panic("harness: worker panicked outside the stack: " + r.panicked)
					}
					world.Fail(t, "C13/concurrent/"+sig, "goroutine %d panicked in its call #%d: %s", r.g, r.i, r.panicked)
				}
				if r.err != nil {
					t.Fatalf("harness: %s failed on a capture writer: %v", r.p.op, r.err)
				}
				recs = append(recs, r)
			}
		}
		judgeConcurrent(t, c, recs, kind, G, total, shape)
	}))
}

func judgeConcurrent(t *rapid.T, c *conn, recs []*crec, kind string, G, total int, shape []string) {
	sent := c.cap.Drain()
	desc := func() string {
		return fmt.Sprintf("\n sender: %s, %d goroutines, %d calls, %d datagrams", kind, G, total, len(sent))
	}

	// 1. every datagram of the connection carries a counter no other datagram carries
	byCtr := map[uint64]*cwire{}
	var wires []*cwire
	for _, s := range c.initial {
		if s.D.Header.MsgCounter != nil {
			byCtr[uint64(*s.D.Header.MsgCounter)] = &cwire{s: s, ctr: uint64(*s.D.Header.MsgCounter), stack: true,
				dest: world.JSON(s.D.Header.AddressDestination), cmd: world.JSON(s.D.Payload.Cmd)}
		}
	}
	for _, s := range sent {
		if s.Err != nil {
			t.Fatalf("harness: an undecodable payload was written: %v: %s", s.Err, s.Raw)
		}
		if s.D.Header.MsgCounter == nil {
			world.Fail(t, "C13/counter/missing/"+string(s.Classifier()), "a datagram without message counter was written: %s%s", s.Raw, desc())
		}
		w := &cwire{s: s, ctr: uint64(*s.D.Header.MsgCounter), dest: world.JSON(s.D.Header.AddressDestination), cmd: world.JSON(s.D.Payload.Cmd)}
		if prev := byCtr[w.ctr]; prev != nil {
			world.Fail(t, "C13/counter/duplicate/concurrent", "counter %d is carried by two datagrams of the connection:\n  %s\n  %s%s", w.ctr, prev.s.Raw, s.Raw, desc())
		}
		byCtr[w.ctr] = w
		wires = append(wires, w)
	}

	// 2. attribute datagrams to calls: the number of datagrams equals the number of successful calls
	inboundCtrs := map[uint64]bool{}
	byRef := map[uint64][]*cwire{}
	for _, r := range recs {
		if r.p.inboundCtr != 0 {
			inboundCtrs[r.p.inboundCtr] = true
		}
	}
	for _, w := range wires {
		if ref := w.s.Ref(); ref != nil {
			if inboundCtrs[uint64(*ref)] {
				w.stack = true
			} else {
				byRef[uint64(*ref)] = append(byRef[uint64(*ref)], w)
			}
		}
	}
	nNotify, withheldCalls, requestCalls := 0, 0, 0
	wantCls := map[string]model.CmdClassifierType{"notify": model.CmdClassifierTypeNotify, "write": model.CmdClassifierTypeWrite,
		"reply": model.CmdClassifierTypeReply, "result-success": model.CmdClassifierTypeResult, "result-error": model.CmdClassifierTypeResult}
	for _, r := range recs {
		o := r.p.op
		switch o.Kind {
		case "request", "nmcall":
			requestCalls++
			if r.ret == nil {
				world.Fail(t, "C13/request/no-counter-returned", "%s returned neither a counter nor an error%s", o, desc())
			}
			w := byCtr[uint64(*r.ret)]
			if w == nil {
				world.Fail(t, "C13/concurrent/returned-counter-not-written", "%s returned counter %d which no datagram of the round carries%s", o, *r.ret, desc())
			}
			if w.dest != r.p.destS || w.cmd != r.p.cmdS {
				world.Fail(t, "C13/dedup/withheld/"+withheldShape(w, r.p.destS, r.p.cmdS), "%s to %s with %s returned counter %d, which is carried by the different datagram %s%s",
					o, r.p.destS, r.p.cmdS, *r.ret, w.s.Raw, desc())
			}
			w.owners = append(w.owners, r)
		case "notify", "write":
			if o.Kind == "notify" {
				nNotify++
			}
			if r.ret == nil {
				world.Fail(t, "C13/"+o.Kind+"/no-counter-returned", "%s returned no counter%s", o, desc())
			}
			w := byCtr[uint64(*r.ret)]
			if w == nil || w.stack {
				world.Fail(t, "C13/concurrent/returned-counter-not-written", "%s returned counter %d which no datagram of the round carries%s", o, *r.ret, desc())
			}
			if len(w.owners) > 0 {
				world.Fail(t, "C13/counter/duplicate/concurrent", "counter %d was returned by two calls (%s and %s); one datagram: %s%s", *r.ret, w.owners[0].p.op, o, w.s.Raw, desc())
			}
			if w.s.Classifier() != wantCls[o.Kind] || w.dest != r.p.destS || w.cmd != r.p.cmdS {
				world.Fail(t, "C13/concurrent/returned-counter-of-other-datagram", "%s returned counter %d, which is carried by %s%s", o, *r.ret, w.s.Raw, desc())
			}
			w.owners = append(w.owners, r)
		case "reply", "result-success", "result-error":
			ws := byRef[r.p.hdrCtr]
			if len(ws) != 1 || ws[0].s.Classifier() != wantCls[o.Kind] {
				world.Fail(t, "C13/concurrent/datagram-count", "%s for request %d produced %d datagrams%s", o, r.p.hdrCtr, len(ws), desc())
			}
			ws[0].owners = append(ws[0].owners, r)
		}
	}
	written := 0
	for _, w := range wires {
		if w.stack {
			continue
		}
		written++
		if len(w.owners) == 0 {
			world.Fail(t, "C13/concurrent/datagram-count", "no call accounts for the datagram %s%s", w.s.Raw, desc())
		}
		if len(w.owners) > 1 {
			withheldCalls += len(w.owners) - 1
		}
		// hull of the calls that may have written it (for requests: those whose interval contains the write)
		var cand []*crec
		for _, r := range w.owners {
			if r.start < w.s.Seq && w.s.Seq < r.end {
				cand = append(cand, r)
			}
		}
		if len(cand) == 0 {
			cand = w.owners
		}
		w.lo, w.hi = cand[0].start, cand[0].end
		for _, r := range cand[1:] {
			if r.start < w.lo {
				w.lo = r.start
			}
			if r.end > w.hi {
				w.hi = r.end
			}
		}
	}

	// 3. counters increase in issue order whenever calls do not overlap
	own := make([]*cwire, 0, len(wires))
	for _, w := range wires {
		if !w.stack {
			own = append(own, w)
		}
	}
	sort.Slice(own, func(i, j int) bool { return own[i].ctr < own[j].ctr })
	for i := range own {
		for j := i + 1; j < len(own); j++ {
			if own[j].hi < own[i].lo {
				world.Fail(t, "C13/counter/not-increasing/non-overlapping-calls", "the call writing counter %d returned before the call writing counter %d began:\n  %s (goroutine %d)\n  %s (goroutine %d)%s",
					own[j].ctr, own[i].ctr, own[j].s.Raw, own[j].owners[0].g, own[i].s.Raw, own[i].owners[0].g, desc())
			}
		}
	}

	// 4. what a lookup returned is the datagram written with that counter; few notifications => all retrievable
	for _, r := range recs {
		if r.p.op.Kind == "lookup" && r.found {
			w := byCtr[r.p.op.Ref]
			if w == nil || string(w.s.Raw) != r.got {
				world.Fail(t, "C13/notify-cache/wrong-datagram", "DatagramForMsgCounter(%d) returned %s, which is not what was written with that counter%s", r.p.op.Ref, r.got, desc())
			}
		}
	}
	if nNotify <= notifyWindow {
		for _, w := range own {
			if w.s.Classifier() != model.CmdClassifierTypeNotify {
				continue
			}
			d, err := c.sender.DatagramForMsgCounter(model.MsgCounterType(w.ctr))
			if err != nil {
				world.Fail(t, "C13/notify-cache/recent-not-found/concurrent", "only %d notifications were sent, but the one with counter %d is not retrievable%s", nNotify, w.ctr, desc())
			}
			if js := datagramJSON(d); js != string(w.s.Raw) {
				world.Fail(t, "C13/notify-cache/wrong-datagram", "DatagramForMsgCounter(%d) returned %s, written was %s%s", w.ctr, js, w.s.Raw, desc())
			}
		}
	}

	// statistics: did calls of different goroutines really overlap?
	overlaps := 0
	sorted := append([]*crec(nil), recs...)
	sort.Slice(sorted, func(i, j int) bool { return sorted[i].start < sorted[j].start })
	for i := range sorted {
		for j := i + 1; j < len(sorted) && sorted[j].start < sorted[i].end; j++ {
			if sorted[j].g != sorted[i].g {
				overlaps++
			}
		}
	}
	labels := []string{"concurrent/sender/" + kind}
	if overlaps > 0 {
		labels = append(labels, "concurrent/overlapping-calls")
	}
	if withheldCalls > 0 {
		labels = append(labels, "concurrent/withheld")
	}
	if nNotify > notifyWindow {
		labels = append(labels, "concurrent/notify-cache-eviction")
	}
	world.AddExtra("concurrent_overlapping_call_pairs", int64(overlaps))
	world.AddExtra("concurrent_datagrams", int64(written))
	world.Record(world.Hash("concurrent", kind, shape), overlaps > 0, labels...)
	if overlaps > 0 && world.WantSample() {
		world.Sample(map[string]any{"kind": "concurrent", "sender": kind, "goroutines": G, "workloads": shape, "datagrams": written,
			"overlapping-call-pairs": overlaps, "request-calls": requestCalls, "withheld-request-calls": withheldCalls})
	}
}
