//go:build race

package c13

// raceEnabled: the binary was built with -race (see lookupMu).
const raceEnabled = true
