//go:build !race

package c13

const raceEnabled = false
