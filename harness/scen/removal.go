// Package scen holds directed scenarios shared by several property packages.
package scen

import (
	"fmt"
	"sync"
	"sync/atomic"
	"testing"
	"time"

	"github.com/enbility/spine-go/model"
	"pgregory.net/rapid"

	"verifharness/regs"
	"verifharness/world"
)

// RemovalDuringPublication: the entity of one peer is removed (announced as removed, or the
// peer's connection goes) while the event bus is busy with another peer's announcement (whose
// connection takes its time with the datagram the core handler writes), and a third peer's
// subscription / binding call arrives in between. Whatever the order in which the stack gets the
// three things done, afterwards exactly the entries of the removed entity are gone and the third
// peer's call has had its effect.
//
// The busy event bus is what stretches the removal: the registries publish an event per removed
// entry. Only public API and the SHIP writer are used to arrange it.
func RemovalDuringPublication(t *testing.T, prop string) {
	rapid.Check(t, world.Prop(func(t *rapid.T) {
		registry := rapid.SampledFrom([]string{"binding", "subscription"}).Draw(t, "registry")
		removal := rapid.SampledFrom([]string{"entity-removed", "disconnect"}).Draw(t, "removal")
		bOp := rapid.SampledFrom([]string{"add", "add", "delete"}).Draw(t, "otherPeerCall")
		w := regs.NewWithUnannounced(3, 1)
		defer w.Teardown()
		a, b, c := w.Peers[0], w.Peers[1], w.Peers[2]
		mk := func(kind string, client, server *model.FeatureAddressType, ft model.FeatureTypeType) model.CmdType {
			switch registry + "/" + kind {
			case "binding/add":
				return world.BindCall(client, server, ft)
			case "binding/delete":
				return world.UnbindCall(client, server)
			case "subscription/add":
				return world.SubscribeCall(client, server, ft)
			}
			return world.UnsubscribeCall(client, server)
		}
		read := func() map[regs.Key]bool {
			var m map[regs.Key]bool
			if registry == "binding" {
				m, _ = w.Bindings()
			} else {
				m, _ = w.Subscriptions()
			}
			return m
		}
		// A: its entity [2] holds an entry on the Measurement server [1]/1; another one of entity [1]
		// (LoadControl client -> LoadControl server) stays
		aGone := regs.Call{Peer: 0, Client: regs.Ref{Ent: []uint{2}, Feat: 1}, Server: regs.ServerRefs[0], Type: model.FeatureTypeTypeMeasurement}
		aStays := regs.Call{Peer: 0, Client: regs.Ref{Ent: []uint{1}, Feat: 2}, Server: regs.ServerRefs[1], Type: model.FeatureTypeTypeLoadControl}
		// B: Measurement client [1]/1 -> Measurement server [2]/1
		bCall := regs.Call{Peer: 1, Client: regs.Ref{Ent: []uint{1}, Feat: 1}, Server: regs.ServerRefs[3], Type: model.FeatureTypeTypeMeasurement}
		for _, cl := range []regs.Call{aGone, aStays} {
			if !a.CallOK(mk("add", w.ClientAddr(cl), w.ServerAddr(cl), cl.Type)) {
				t.Fatalf("harness: %s call of peer A not granted: %s", registry, cl)
			}
		}
		if bOp == "delete" {
			if !b.CallOK(mk("add", w.ClientAddr(bCall), w.ServerAddr(bCall), bCall.Type)) {
				t.Fatalf("harness: %s call of peer B not granted", registry)
			}
		}
		w.Sync()
		want := map[regs.Key]bool{}
		if removal == "entity-removed" {
			want[aStays.Key()] = true
		}
		if bOp == "add" {
			want[bCall.Key()] = true
		}

		// C's connection holds the datagram the core handler writes for C's announcement: the event bus stays busy
		gate := make(chan struct{})
		var held atomic.Bool
		var once sync.Once
		open := func() { once.Do(func() { close(gate) }) }
		defer open()
		c.Cap.SetOnWrite(func([]byte) {
			if held.CompareAndSwap(false, true) {
				<-gate
			}
		})
		var wg sync.WaitGroup
		done := make(chan struct{})
		wg.Add(1)
		go func() {
			defer wg.Done()
			ents := world.WithDeviceInfo(regs.PeerEntities())
			cmd := model.CmdType{NodeManagementDetailedDiscoveryData: c.DiscoveryData(ents, nil)}
			c.Send(c.Msg(model.CmdClassifierTypeReply, c.NM(), world.LocalNM(), false, c.DiscoveryRef, cmd))
		}()
		deadline := time.Now().Add(5 * time.Second)
		for !held.Load() {
			if time.Now().After(deadline) {
				t.Fatalf("harness: the core handler wrote nothing to the announced peer's connection")
			}
			time.Sleep(200 * time.Microsecond)
		}
		wg.Add(1)
		go func() {
			defer wg.Done()
			if removal == "disconnect" {
				w.Local.RemoveRemoteDeviceConnection(a.Ski)
				return
			}
			removed := model.NetworkManagementStateChangeTypeRemoved
			e := regs.PeerEntities()[1]
			e.Feats = nil
			fn := model.FunctionTypeNodeManagementDetailedDiscoveryData
			cmd := model.CmdType{Function: &fn, Filter: []model.FilterType{*model.NewFilterTypePartial()},
				NodeManagementDetailedDiscoveryData: a.DiscoveryData([]world.EntSpec{e}, &removed)}
			a.Send(a.Msg(model.CmdClassifierTypeNotify, a.NM(), world.LocalNM(), false, nil, cmd))
		}()
		time.Sleep(15 * time.Millisecond) // the removal has reached the busy event bus (or is through)
		wg.Add(1)
		var bMsg model.DatagramType
		go func() {
			defer wg.Done()
			bMsg = b.Msg(model.CmdClassifierTypeCall, b.NM(), world.LocalNM(), true, nil, mk(bOp, w.ClientAddr(bCall), w.ServerAddr(bCall), bCall.Type))
			b.Send(bMsg)
		}()
		time.Sleep(15 * time.Millisecond)
		open()
		go func() { wg.Wait(); close(done) }()
		where, detail, inconclusive := world.AwaitOrDiagnose(done, 20*time.Second, 5*time.Minute, 2)
		if where != "" {
			world.Fail(t, prop+"/deadlock/removal-during-publication/"+where, "%s of peer A's entity, a %s %s call of peer B and the announcement of peer C together: the stack did %s", removal, registry, bOp, detail)
		}
		if inconclusive {
			t.Fatalf("inconclusive: not through after 5 minutes\n%s", detail)
		}
		c.Cap.SetOnWrite(nil)
		w.SyncQuiet(5 * time.Second)
		if removal == "disconnect" {
			a.Gone = true
		}
		got := read()
		answered := 0
		for _, s := range b.Cap.All() {
			if s.Ref() != nil && bMsg.Header.MsgCounter != nil && *s.Ref() == *bMsg.Header.MsgCounter {
				answered++
				if s.ErrorNumber() != 0 {
					world.Fail(t, prop+"/removal-during-publication/other-peer-call-refused", "peer B's %s %s call, sent while peer A's %s was being handled, was refused: %s", registry, bOp, removal, string(s.Raw))
				}
			}
		}
		if answered != 1 {
			world.Fail(t, prop+"/removal-during-publication/other-peer-call-results", "peer B's %s %s call got %d results", registry, bOp, answered)
		}
		if !regs.KeysEqual(got, want) {
			kind := "other-peer-entry-lost"
			if len(got) > len(want) {
				kind = "entry-left-or-resurrected"
			}
			world.Fail(t, prop+"/removal-during-publication/"+kind+"/"+registry, "%s of peer A (entity [2]) while the event bus was busy with peer C's announcement, and a %s %s call of peer B in between:\n %s registry afterwards: %v\n expected:            %v", removal, registry, bOp, registry, regs.SortedKeys(got), regs.SortedKeys(want))
		}
		world.Record(world.Hash("removal-during-publication", registry, removal, bOp), true, "removal-during-publication/"+registry+"/"+removal+"/"+bOp)
		if world.WantSample() {
			world.Sample(map[string]any{"check": "removal-during-publication", "registry": registry, "removal": removal, "other_peer_call": bOp, "registry_afterwards": regs.SortedKeys(got)})
		}
	}))
}

var _ = fmt.Sprint
