package scen

import (
	"fmt"
	"reflect"
	"sync"
	"sync/atomic"
	"testing"

	"github.com/enbility/spine-go/model"

	"verifharness/gen"
	"verifharness/listgen"
	"verifharness/refmodel"
	"verifharness/regs"
	"verifharness/world"
)

// RegistryMix: requests of different peers for DIFFERENT server features at the same moment (each
// connection delivers on its own goroutine): binding deletes next to deletes, deletes next to
// binds. They do not compete, so every one of them takes effect: afterwards the registry holds
// exactly the bindings that were granted and not deleted, whatever the interleaving - and the
// authorisation of writes follows it: a peer whose delete was answered with success is refused,
// a peer whose bind was answered with success is served.
func RegistryMix(t *testing.T, prop string) { registryMix(t, prop, "binding") }

// SubscriptionMix is RegistryMix for the subscription registry (the probe afterwards is a data
// change: exactly the subscribed features are notified).
func SubscriptionMix(t *testing.T, prop string) { registryMix(t, prop, "subscription") }

func registryMix(t *testing.T, prop, registry string) {
	rounds := world.EnvInt("VERIF_ROUNDS", 300)
	world.Guard(func() {
		for r := 0; r < rounds; r++ {
			w := regs.New(3)
			// peer p works on server feature p (Measurement [1]/1, LoadControl [1]/2, ElectricalConnection [1]/3)
			calls := make([]regs.Call, 3)
			for p := 0; p < 3; p++ {
				calls[p] = regs.Call{Peer: p, Client: regs.Ref{Ent: []uint{1}, Feat: uint(p + 1)}, Server: regs.ServerRefs[p], Type: w.Servers[p].Type}
			}
			// which peers delete (they hold the binding beforehand) and which bind now
			pattern := r % 7 // bit p set: peer p deletes
			if pattern == 0 {
				pattern = 7
			}
			add, del := world.BindCall, world.UnbindCall
			if registry == "subscription" {
				add, del = world.SubscribeCall, world.UnsubscribeCall
			}
			want := map[regs.Key]bool{}
			msgs := make([]model.DatagramType, 3)
			for p, c := range calls {
				peer := w.Peers[p]
				if pattern&(1<<p) != 0 {
					if !peer.CallOK(add(w.ClientAddr(c), w.ServerAddr(c), c.Type)) {
						t.Fatalf("harness: %s of peer %d not granted", registry, p+1)
					}
					msgs[p] = peer.Msg(model.CmdClassifierTypeCall, peer.NM(), world.LocalNM(), true, nil, del(w.ClientAddr(c), w.ServerAddr(c)))
				} else {
					msgs[p] = peer.Msg(model.CmdClassifierTypeCall, peer.NM(), world.LocalNM(), true, nil, add(w.ClientAddr(c), w.ServerAddr(c), c.Type))
					want[c.Key()] = true
				}
			}
			w.Sync()
			// the three leave a spinning rendezvous together (a channel close wakes them one after the other)
			var ready atomic.Int32
			var wg sync.WaitGroup
			for p := range calls {
				p := p
				wg.Add(1)
				go func() {
					defer wg.Done()
					ready.Add(1)
					for spins := 0; ready.Load() < int32(len(calls)) && spins < 50_000_000; spins++ {
					}
					w.Peers[p].Send(msgs[p])
				}()
			}
			world.WaitOrDiagnose(t, &wg, prop+"/concurrent", fmt.Sprintf("%s requests and deletes for different server features at once (round %d, pattern %03b)", registry, r, pattern))
			w.Sync()
			for p := range calls {
				ok := 0
				for _, s := range w.Peers[p].Cap.All() {
					if s.Ref() != nil && *s.Ref() == *msgs[p].Header.MsgCounter && s.ErrorNumber() == 0 {
						ok++
					}
				}
				if ok != 1 {
					world.Fail(t, prop+"/concurrent/independent-request-not-granted", "round %d: the request of peer %d for its own server feature (pattern %03b: set bits delete, others bind) got %d success results", r, p+1, pattern, ok)
				}
			}
			got, ids := w.Bindings()
			if registry == "subscription" {
				got, ids = w.Subscriptions()
			}
			// every entry of the registry has an id of its own, also when entries were added at the same moment
			seenID := map[uint64]int{}
			for pi, l := range ids {
				for _, id := range l {
					if other, dup := seenID[id]; dup {
						world.Fail(t, prop+"/duplicate-id/concurrent", "round %d (pattern %03b): the %s entries of peer %d and peer %d carry the same id %d", r, pattern, registry, other+1, pi+1, id)
					}
					seenID[id] = pi
				}
			}
			if !regs.KeysEqual(got, want) {
				kind := "deleted-" + registry + "-back"
				if len(got) < len(want) {
					kind = "granted-" + registry + "-lost"
				}
				world.Fail(t, prop+"/concurrent/"+kind, "round %d: three peers, each with a request for its own server feature at the same moment (pattern %03b: set bits delete an existing entry, the others add one); every request was answered with success, but the registry holds %v, expected %v", r, pattern, regs.SortedKeys(got), regs.SortedKeys(want))
			}
			if registry == "subscription" {
				// the fan-out follows the registry: a data change on each server feature notifies exactly
				// the peer whose subscription is in force
				for p, c := range calls {
					for _, q := range w.Peers {
						q.Cap.Drain()
					}
					f := gen.ByFunction(w.Servers[p].Writable)
					it := reflect.New(f.ItemType).Elem()
					for _, k := range f.KeyFields {
						gen.SetKey(it, k, uint64(2+r%2))
					}
					w.Servers[p].F.SetData(f.Fn, refmodel.Payload(f, []reflect.Value{it}))
					w.Sync()
					for qi, q := range w.Peers {
						n := 0
						for _, sn := range q.Cap.Drain() {
							if sn.Classifier() == model.CmdClassifierTypeNotify {
								n++
							}
						}
						wantN := 0
						if qi == p && want[c.Key()] {
							wantN = 1
						}
						if n != wantN {
							world.Fail(t, prop+"/concurrent/fanout-after-mix", "round %d (pattern %03b): a data change on server feature %d sent %d notifications to peer %d, expected %d (registry: %v)", r, pattern, p, n, qi+1, wantN, regs.SortedKeys(got))
						}
					}
				}
				world.Record(world.Hash("submix", r), true, fmt.Sprintf("stress/submix/deletes-%d", bitsSet(pattern)))
				w.Teardown()
				continue
			}
			// authorisation follows the registry
			for p, c := range calls {
				peer := w.Peers[p]
				f := gen.ByFunction(w.Servers[p].Writable)
				it := reflect.New(f.ItemType).Elem()
				for _, k := range f.KeyFields {
					gen.SetKey(it, k, 1)
				}
				d := peer.Msg(model.CmdClassifierTypeWrite, w.ClientAddr(c), w.ServerAddr(c), true, nil, listgen.Cmd(f, refmodel.Update{Items: []reflect.Value{it}}))
				before := world.JSON(w.Servers[p].F.DataCopy(f.Fn))
				peer.Send(d)
				w.Sync()
				succ, errs := 0, 0
				for _, s := range peer.Cap.All() {
					if s.Ref() != nil && *s.Ref() == *d.Header.MsgCounter {
						if s.ErrorNumber() == 0 {
							succ++
						} else {
							errs++
						}
					}
				}
				changed := world.JSON(w.Servers[p].F.DataCopy(f.Fn)) != before
				if want[c.Key()] && (succ != 1 || errs != 0) {
					world.Fail(t, prop+"/concurrent/write-after-bind-refused", "round %d (pattern %03b): peer %d's bind was answered with success, its write got %d success and %d error results", r, pattern, p+1, succ, errs)
				}
				if !want[c.Key()] && (succ != 0 || errs != 1 || changed) {
					world.Fail(t, prop+"/concurrent/write-after-delete-accepted", "round %d (pattern %03b): peer %d's binding delete was answered with success, its following write got %d success and %d error results, data changed=%v", r, pattern, p+1, succ, errs, changed)
				}
			}
			world.Record(world.Hash("mix", r), true, fmt.Sprintf("stress/mix/deletes-%d", bitsSet(pattern)))
			w.Teardown()
		}
	})
}

func bitsSet(x int) int {
	n := 0
	for ; x > 0; x >>= 1 {
		n += x & 1
	}
	return n
}
