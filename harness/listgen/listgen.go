// Package listgen generates well-formed updates of list functions (every SPINE filter shape)
// and renders them as commands / filters for the wire and for the local API.
package listgen

import (
	"fmt"
	"reflect"
	"sort"

	"github.com/enbility/spine-go/model"
	"pgregory.net/rapid"

	"verifharness/gen"
	"verifharness/refmodel"
)

// Shapes in generation order.
const (
	Full              = "full"
	PartialIDs        = "partial"
	PartialNoIDs      = "partial-idless"
	PartialSelector   = "partial+sel"
	DeleteSelector    = "delete+sel"
	DeleteElements    = "delete+elem"
	DeleteSelElements = "delete+sel+elem"
	DeleteAndPartial  = "delete+sel&partial"
)

var AllShapes = []string{Full, PartialIDs, PartialNoIDs, PartialSelector, DeleteSelector, DeleteElements, DeleteSelElements, DeleteAndPartial}

// Caps describes which shapes are well-defined for a function.
type Caps struct {
	Keyed     bool // has key fields that can carry harness ids
	Selectors bool // the selectors type has a scalar field for every key field
	Elements  bool // an elements type exists
}

func CapsOf(f *gen.Func) Caps {
	c := Caps{Keyed: len(f.KeyFields) > 0 && gen.KeysSettable(f)}
	if c.Keyed && f.SelectorsType != nil {
		c.Selectors = true
		for _, k := range f.KeyFields {
			sf, ok := f.SelectorsType.FieldByName(k)
			kf, _ := f.ItemType.FieldByName(k)
			if !ok || sf.Type != kf.Type {
				c.Selectors = false
				continue
			}
			// struct-typed selector fields are outside the asserted domain (DESIGN §4 C02 NA)
			if k := kf.Type.Elem().Kind(); k != reflect.Uint && k != reflect.String {
				c.Selectors = false
			}
		}
	}
	c.Elements = f.ElementsType != nil && len(gen.NonKeyFields(f)) > 0
	return c
}

func ShapesFor(f *gen.Func) []string {
	c := CapsOf(f)
	out := []string{Full}
	if c.Keyed {
		out = append(out, PartialIDs, PartialNoIDs)
	}
	if c.Selectors {
		out = append(out, PartialSelector, DeleteSelector, DeleteAndPartial)
	}
	if c.Elements {
		out = append(out, DeleteElements)
		if c.Selectors {
			out = append(out, DeleteSelElements)
		}
	}
	return out
}

var idDomain = []uint64{0, 1, 2, 3}

func drawKey(t *rapid.T, f *gen.Func, label string) []uint64 {
	k := make([]uint64, len(f.KeyFields))
	for i := range k {
		if i == 0 {
			k[i] = rapid.SampledFrom(idDomain).Draw(t, fmt.Sprintf("%s.key%d", label, i))
		} else {
			k[i] = rapid.SampledFrom(idDomain[:2]).Draw(t, fmt.Sprintf("%s.key%d", label, i))
		}
	}
	return k
}

func keyString(k []uint64) string { return fmt.Sprint(k) }

// Items draws 0..max items with pairwise distinct identifiers, in identifier order (with
// o.UnsortedFull sometimes in the order drawn).
func Items(t *rapid.T, f *gen.Func, max int, o gen.Opt, label string) []reflect.Value {
	n := rapid.IntRange(0, max).Draw(t, label+"#")
	c := CapsOf(f)
	var out []reflect.Value
	if !c.Keyed {
		for i := 0; i < n; i++ {
			out = append(out, gen.Item(t, f, nil, o, fmt.Sprintf("%s[%d]", label, i)))
		}
		return out
	}
	seen := map[string]bool{}
	var keys [][]uint64
	for i := 0; i < n; i++ {
		k := drawKey(t, f, fmt.Sprintf("%s[%d]", label, i))
		if seen[keyString(k)] {
			continue
		}
		seen[keyString(k)] = true
		keys = append(keys, k)
	}
	if !(o.UnsortedFull && len(keys) > 1 && rapid.IntRange(0, 2).Draw(t, label+".unsorted") == 0) {
		sort.Slice(keys, func(i, j int) bool {
			for x := range keys[i] {
				if keys[i][x] != keys[j][x] {
					return keys[i][x] < keys[j][x]
				}
			}
			return false
		})
	}
	for i, k := range keys {
		out = append(out, gen.Item(t, f, k, o, fmt.Sprintf("%s[%d]", label, i)))
	}
	return out
}

// SelectorFor builds a full-key selector for key k.
func SelectorFor(f *gen.Func, k []uint64) reflect.Value { return selectorFor(f, k) }

func selectorFor(f *gen.Func, k []uint64) reflect.Value {
	sel := reflect.New(f.SelectorsType)
	for i, name := range f.KeyFields {
		gen.SetKey(sel.Elem(), name, k[i])
	}
	return sel
}

// looseSelector builds a selector that names 1..2 scalar elements (part of a multi-key identifier
// or elements outside the identifier) with values of an existing item where possible: it can match
// several items. ok is false if the selectors type offers no such element.
func looseSelector(t *rapid.T, f *gen.Func, state []reflect.Value, o gen.Opt, label string) (sel reflect.Value, ok bool) {
	var cand []string
	for i := 0; i < f.SelectorsType.NumField(); i++ {
		sf := f.SelectorsType.Field(i)
		itf, has := f.ItemType.FieldByName(sf.Name)
		if !has || sf.Type != itf.Type || sf.Type.Kind() != reflect.Ptr {
			continue
		}
		switch sf.Type.Elem().Kind() {
		case reflect.Uint, reflect.Uint8, reflect.Uint16, reflect.Uint32, reflect.Uint64, reflect.String, reflect.Bool:
			cand = append(cand, sf.Name)
		}
	}
	if len(cand) == 0 {
		return sel, false
	}
	sel = reflect.New(f.SelectorsType)
	if rapid.IntRange(0, 5).Draw(t, label+".empty?") == 0 {
		// a selector that is present but names nothing ("...ListDataSelectors":{}): no element
		// disagrees with any item, so it selects every item
		return sel, true
	}
	var donor reflect.Value
	if len(state) > 0 && rapid.IntRange(0, 3).Draw(t, label+".donor?") != 0 {
		donor = state[rapid.IntRange(0, len(state)-1).Draw(t, label+".donor")]
	}
	n := rapid.IntRange(1, min(2, len(cand))).Draw(t, label+".fields#")
	for i := 0; i < n; i++ {
		name := rapid.SampledFrom(cand).Draw(t, fmt.Sprintf("%s.field%d", label, i))
		dst := sel.Elem().FieldByName(name)
		if donor.IsValid() && !donor.FieldByName(name).IsNil() {
			p := reflect.New(dst.Type().Elem())
			p.Elem().Set(donor.FieldByName(name).Elem())
			dst.Set(p)
			continue
		}
		isKey := false
		for _, k := range f.KeyFields {
			isKey = isKey || k == name
		}
		if isKey {
			gen.SetKey(sel.Elem(), name, rapid.SampledFrom([]uint64{0, 1, 2, 3}).Draw(t, fmt.Sprintf("%s.key%d", label, i)))
		} else {
			dst.Set(gen.Ptr(t, dst.Type().Elem(), o, fmt.Sprintf("%s.value%d", label, i)))
		}
	}
	return sel, true
}

// Matches counts the items of state the selector matches.
func Matches(sel reflect.Value, state []reflect.Value) int { return matches(sel, state) }

func matches(sel reflect.Value, state []reflect.Value) int {
	n := 0
	for _, it := range state {
		if refmodel.SelectorMatches(sel, it) {
			n++
		}
	}
	return n
}

// elementsFor names 1..2 non-key fields.
func elementsFor(t *rapid.T, f *gen.Func, o gen.Opt, label string) reflect.Value {
	names := gen.NonKeyFields(f)
	el := reflect.New(f.ElementsType)
	n := rapid.IntRange(1, 2).Draw(t, label+".elements#")
	set := 0
	for i := 0; i < n; i++ {
		name := rapid.SampledFrom(names).Draw(t, fmt.Sprintf("%s.element%d", label, i))
		ef := el.Elem().FieldByName(name)
		if !ef.IsValid() || ef.Kind() != reflect.Ptr {
			continue
		}
		ef.Set(reflect.New(ef.Type().Elem()))
		set++
		// an element may name sub elements ("value":{"scale":{}})
		if sub := ef.Elem(); o.NestedElements && sub.Kind() == reflect.Struct && sub.NumField() > 0 && rapid.Bool().Draw(t, fmt.Sprintf("%s.element%d.sub?", label, i)) {
			sf := sub.Field(rapid.IntRange(0, sub.NumField()-1).Draw(t, fmt.Sprintf("%s.element%d.sub", label, i)))
			if sf.Kind() == reflect.Ptr && sf.CanSet() {
				sf.Set(reflect.New(sf.Type().Elem()))
			}
		}
	}
	if set == 0 {
		// fall back to the first field the elements type shares with the item
		for _, name := range names {
			ef := el.Elem().FieldByName(name)
			if ef.IsValid() && ef.Kind() == reflect.Ptr {
				ef.Set(reflect.New(ef.Type().Elem()))
				break
			}
		}
	}
	return el
}

// pickKey prefers identifiers present in state (hit) but also produces misses.
func pickKey(t *rapid.T, f *gen.Func, state []reflect.Value, label string) []uint64 {
	if len(state) > 0 && rapid.IntRange(0, 3).Draw(t, label+".hit") != 0 {
		it := state[rapid.IntRange(0, len(state)-1).Draw(t, label+".idx")]
		k := make([]uint64, len(f.KeyFields))
		ok := true
		for i, name := range f.KeyFields {
			fv := it.FieldByName(name)
			if fv.IsNil() {
				ok = false
				break
			}
			switch fv.Elem().Kind() {
			case reflect.Uint:
				k[i] = fv.Elem().Uint()
			case reflect.String:
				var n uint64
				fmt.Sscanf(fv.Elem().String(), "k%d", &n)
				k[i] = n
			case reflect.Struct:
				var n uint64
				if d := fv.Elem().FieldByName("Device"); d.IsValid() && !d.IsNil() {
					fmt.Sscanf(d.Elem().String(), "dev%d", &n)
				}
				k[i] = n
			}
		}
		if ok {
			return k
		}
	}
	return drawKey(t, f, label)
}

// Update draws one update of the given shape against the current model state. The returned
// shape can differ from the requested one when the state makes it ill-defined (e.g. a selector
// that would match several items): then a plain shape is produced instead.
func Update(t *rapid.T, f *gen.Func, state []reflect.Value, shape string, o gen.Opt, label string) refmodel.Update {
	u := refmodel.Update{}
	needSel := shape == PartialSelector || shape == DeleteSelector || shape == DeleteSelElements || shape == DeleteAndPartial
	var sel reflect.Value
	var selKey []uint64
	if needSel {
		selKey = pickKey(t, f, state, label+".sel")
		sel = selectorFor(f, selKey)
		deleteOnly := shape == DeleteSelector || shape == DeleteSelElements
		if o.LooseSelectors && deleteOnly && rapid.IntRange(0, 2).Draw(t, label+".loose") == 0 {
			// a delete filter removes (or clears the named elements of) all matching items
			if ls, ok := looseSelector(t, f, state, o, label+".loosesel"); ok {
				sel = ls
			}
		}
		if matches(sel, state) > 1 && !(o.LooseSelectors && deleteOnly) {
			shape = PartialIDs
		}
	}
	switch shape {
	case Full:
		u.Items = Items(t, f, 4, o, label+".items")
	case PartialIDs:
		u.Partial = true
		n := rapid.IntRange(1, 3).Draw(t, label+".n")
		seen := map[string]bool{}
		for i := 0; i < n; i++ {
			k := pickKey(t, f, state, fmt.Sprintf("%s.item%d", label, i))
			if seen[keyString(k)] {
				continue
			}
			seen[keyString(k)] = true
			u.Items = append(u.Items, gen.Item(t, f, k, o, fmt.Sprintf("%s.item%d", label, i)))
		}
		if o.MixedIDs && rapid.IntRange(0, 4).Draw(t, label+".mixed") == 0 {
			// a sender's slip: a further item that lost its identifiers
			u.Items = append(u.Items, gen.Item(t, f, nil, o, label+".idless"))
		}
	case PartialNoIDs:
		u.Partial = true
		u.Items = []reflect.Value{gen.Item(t, f, nil, o, label+".item")}
	case PartialSelector:
		u.Partial = true
		u.PartialSelector = sel
		// the selector addresses the item; the written item may repeat the selected identifier
		// (as real senders do) or carry none
		var keys []uint64
		if rapid.Bool().Draw(t, label+".itemRepeatsKey") {
			keys = selKey
		}
		u.Items = []reflect.Value{gen.Item(t, f, keys, o, label+".item")}
	case DeleteSelector:
		u.Delete = true
		u.DeleteSelector = sel
	case DeleteElements:
		u.Delete = true
		u.DeleteElements = elementsFor(t, f, o, label)
	case DeleteSelElements:
		u.Delete = true
		u.DeleteSelector = sel
		u.DeleteElements = elementsFor(t, f, o, label)
	case DeleteAndPartial:
		u.Delete = true
		u.DeleteSelector = sel
		if CapsOf(f).Elements && rapid.IntRange(0, 2).Draw(t, label+".deleteElements?") == 0 {
			u.DeleteElements = elementsFor(t, f, o, label)
		}
		u.Partial = true
		// the partial part comes with identifiers, with a selector of its own or without either
		switch rapid.IntRange(0, 3).Draw(t, label+".partialPart") {
		case 0, 1:
			k := pickKey(t, f, state, label+".item")
			u.Items = []reflect.Value{gen.Item(t, f, k, o, label+".item")}
		case 2:
			k := pickKey(t, f, state, label+".psel")
			if ps := selectorFor(f, k); matches(ps, state) <= 1 {
				u.PartialSelector = ps
				var keys []uint64
				if rapid.Bool().Draw(t, label+".itemRepeatsKey") {
					keys = k
				}
				u.Items = []reflect.Value{gen.Item(t, f, keys, o, label+".item")}
			} else {
				u.Items = []reflect.Value{gen.Item(t, f, k, o, label+".item")}
			}
		case 3:
			u.Items = []reflect.Value{gen.Item(t, f, nil, o, label+".item")}
		}
	default:
		panic("listgen: unknown shape " + shape)
	}
	if u.Partial && u.Delete {
		// the order of the two filter elements in a message carries no meaning
		u.PartialFirst = rapid.Bool().Draw(t, label+".partialFilterFirst")
	}
	return u
}

// Filters renders the filters of an update by the JSON naming convention (not by eebus tags).
func Filters(f *gen.Func, u refmodel.Update) (partial, del *model.FilterType) {
	if u.Delete {
		del = &model.FilterType{CmdControl: &model.CmdControlType{Delete: &model.ElementTagType{}}}
		v := reflect.ValueOf(del).Elem()
		if u.DeleteSelector.IsValid() {
			v.FieldByName(f.SelectorsField).Set(u.DeleteSelector)
		}
		if u.DeleteElements.IsValid() {
			v.FieldByName(f.ElementsField).Set(u.DeleteElements)
		}
	}
	if u.Partial {
		partial = &model.FilterType{CmdControl: &model.CmdControlType{Partial: &model.ElementTagType{}}}
		if u.PartialSelector.IsValid() {
			reflect.ValueOf(partial).Elem().FieldByName(f.SelectorsField).Set(u.PartialSelector)
		}
	}
	return
}

// Cmd renders the update as the command a peer would send (reply / notify / write).
func Cmd(f *gen.Func, u refmodel.Update) model.CmdType {
	cmd := model.CmdType{}
	payload := refmodel.Payload(f, u.Items)
	reflect.ValueOf(&cmd).Elem().FieldByName(f.CmdField).Set(reflect.ValueOf(payload))
	p, d := Filters(f, u)
	if p != nil || d != nil {
		fn := f.Fn
		cmd.Function = &fn
		if d != nil {
			cmd.Filter = append(cmd.Filter, *d)
		}
		if p != nil {
			cmd.Filter = append(cmd.Filter, *p)
		}
		if u.PartialFirst && len(cmd.Filter) == 2 {
			cmd.Filter[0], cmd.Filter[1] = cmd.Filter[1], cmd.Filter[0]
		}
	}
	return cmd
}

// Describe renders an update for evidence samples and failure messages.
func Describe(f *gen.Func, u refmodel.Update) map[string]any {
	m := map[string]any{"function": string(f.Fn), "shape": u.Shape()}
	if len(u.Items) > 0 {
		m["items"] = refmodel.Payload(f, u.Items)
	}
	if u.DeleteSelector.IsValid() {
		m["deleteSelector"] = u.DeleteSelector.Interface()
	}
	if u.DeleteElements.IsValid() {
		m["deleteElements"] = u.DeleteElements.Interface()
	}
	if u.PartialSelector.IsValid() {
		m["partialSelector"] = u.PartialSelector.Interface()
	}
	return m
}
