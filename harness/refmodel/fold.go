// Package refmodel holds the small, obviously-correct reference models the oracles compare the
// implementation against. fold.go: the SPINE "restricted function exchange" (cmdOption) rules
// for list data, written from the specification table, not from model/update.go.
package refmodel

import (
	"encoding/json"
	"reflect"
	"sort"

	"verifharness/gen"
)

// Update is one update of a list function.
type Update struct {
	Items           []reflect.Value // item structs (not pointers)
	Partial         bool            // a partial filter is present
	PartialSelector reflect.Value   // *SelectorsType or invalid
	Delete          bool            // a delete filter is present
	DeleteSelector  reflect.Value   // *SelectorsType or invalid
	DeleteElements  reflect.Value   // *ElementsType or invalid
	PartialFirst    bool            // both filters: the partial one is listed first in the message (no meaning)
}

func (u Update) HasFilter() bool { return u.Partial || u.Delete }

// Shape names the filter shape for labels and distinctness.
func (u Update) Shape() string {
	s := ""
	if u.Delete {
		s += "delete"
		if u.DeleteSelector.IsValid() {
			s += "+sel"
		}
		if u.DeleteElements.IsValid() {
			s += "+elem"
		}
	}
	if u.Partial {
		if s != "" {
			s += "&"
		}
		s += "partial"
		if u.PartialSelector.IsValid() {
			s += "+sel"
		}
	}
	if s == "" {
		s = "full"
	}
	return s
}

func cloneItem(v reflect.Value) reflect.Value {
	n := reflect.New(v.Type()).Elem()
	n.Set(v)
	return n
}

func CloneItems(items []reflect.Value) []reflect.Value {
	out := make([]reflect.Value, len(items))
	for i, it := range items {
		out[i] = cloneItem(it)
	}
	return out
}

// DeepCloneItems copies items through their JSON text: nothing is shared with the originals.
func DeepCloneItems(items []reflect.Value) []reflect.Value {
	out := make([]reflect.Value, len(items))
	for i, it := range items {
		c := reflect.New(it.Type())
		b, err := json.Marshal(it.Interface())
		if err != nil {
			panic(err)
		}
		if err := json.Unmarshal(b, c.Interface()); err != nil {
			panic(err)
		}
		out[i] = c.Elem()
	}
	return out
}

// SelectorMatches: every non-nil scalar selector field equals the item's same-named field
// (a nil item field never matches).
func SelectorMatches(sel reflect.Value, item reflect.Value) bool {
	s := sel.Elem()
	for i := 0; i < s.NumField(); i++ {
		sf := s.Field(i)
		if sf.Kind() != reflect.Ptr || sf.IsNil() {
			continue
		}
		f := item.FieldByName(s.Type().Field(i).Name)
		if !f.IsValid() {
			continue
		}
		if f.Kind() != reflect.Ptr || f.IsNil() {
			return false
		}
		if !reflect.DeepEqual(f.Elem().Interface(), sf.Elem().Interface()) {
			return false
		}
	}
	return true
}

// clearElements zeroes the item fields named by the non-nil fields of elements.
func clearElements(item reflect.Value, elements reflect.Value) {
	e := elements.Elem()
	for i := 0; i < e.NumField(); i++ {
		ef := e.Field(i)
		if (ef.Kind() == reflect.Ptr || ef.Kind() == reflect.Slice) && ef.IsNil() {
			continue
		}
		f := item.FieldByName(e.Type().Field(i).Name)
		if f.IsValid() && f.CanSet() {
			f.Set(reflect.Zero(f.Type()))
		}
	}
}

func copyNonNil(dst, src reflect.Value) {
	for i := 0; i < src.NumField(); i++ {
		sf := src.Field(i)
		switch sf.Kind() {
		case reflect.Ptr, reflect.Slice:
			if sf.IsNil() {
				continue
			}
		}
		dst.Field(i).Set(sf)
	}
}

// Fold applies one update to state and returns the new state (state itself is not modified).
func Fold(f *gen.Func, state []reflect.Value, u Update) []reflect.Value {
	if !u.HasFilter() {
		return CloneItems(u.Items)
	}
	cur := CloneItems(state)
	if u.Delete && (u.DeleteSelector.IsValid() || u.DeleteElements.IsValid()) {
		var kept []reflect.Value
		for _, it := range cur {
			match := !u.DeleteSelector.IsValid() || SelectorMatches(u.DeleteSelector, it)
			switch {
			case match && !u.DeleteElements.IsValid():
				// removed
			case match:
				clearElements(it, u.DeleteElements)
				kept = append(kept, it)
			default:
				kept = append(kept, it)
			}
		}
		cur = kept
	}
	if u.Partial && u.PartialSelector.IsValid() {
		if len(u.Items) > 0 {
			for _, it := range cur {
				if SelectorMatches(u.PartialSelector, it) {
					copyNonNil(it, u.Items[0])
					break
				}
			}
		}
		return cur
	}
	if len(u.Items) == 0 {
		return cur
	}
	if _, hasKey := gen.KeyOf(f, u.Items[0]); !hasKey {
		for _, it := range cur {
			copyNonNil(it, u.Items[0])
		}
		return cur
	}
	index := map[string]int{}
	for i, it := range cur {
		if k, ok := gen.KeyOf(f, it); ok {
			index[k] = i
		}
	}
	for _, n := range u.Items {
		k, _ := gen.KeyOf(f, n)
		if i, ok := index[k]; ok {
			copyNonNil(cur[i], n)
		} else {
			cur = append(cur, cloneItem(n))
			index[k] = len(cur) - 1
		}
	}
	return cur
}

// ItemJSON is the canonical text of one item.
func ItemJSON(v reflect.Value) string {
	b, err := json.Marshal(v.Interface())
	if err != nil {
		return "ERR:" + err.Error()
	}
	return string(b)
}

// Multiset renders items as a sorted list of canonical JSON texts.
func Multiset(items []reflect.Value) []string {
	out := make([]string, len(items))
	for i, it := range items {
		out[i] = ItemJSON(it)
	}
	sort.Strings(out)
	return out
}

// ItemsOf extracts the items of a payload (*T, possibly nil) as values.
func ItemsOf(f *gen.Func, payload any) []reflect.Value {
	if payload == nil {
		return nil
	}
	pv := reflect.ValueOf(payload)
	if pv.Kind() != reflect.Ptr || pv.IsNil() {
		return nil
	}
	l := pv.Elem().Field(f.ListField)
	out := make([]reflect.Value, l.Len())
	for i := range out {
		out[i] = l.Index(i)
	}
	return out
}

// Payload builds a *T carrying items.
func Payload(f *gen.Func, items []reflect.Value) any {
	p := f.NewPayload()
	if len(items) > 0 {
		l := reflect.MakeSlice(f.DataType.Field(f.ListField).Type, len(items), len(items))
		for i, it := range items {
			l.Index(i).Set(it)
		}
		p.Elem().Field(f.ListField).Set(l)
	}
	return p.Interface()
}

// OrderedByLeadingUintKeys checks that items are non-decreasing in the leading uint key fields
// (lexicographically); string-keyed, struct-keyed and key-less types have no order requirement.
func OrderedByLeadingUintKeys(f *gen.Func, items []reflect.Value) bool {
	var names []string
	for _, k := range f.KeyFields {
		sf, _ := f.ItemType.FieldByName(k)
		if sf.Type.Kind() == reflect.Ptr && sf.Type.Elem().Kind() == reflect.Uint {
			names = append(names, k)
		} else {
			break
		}
	}
	if len(names) == 0 {
		return true
	}
	key := func(v reflect.Value) ([]uint64, bool) {
		var out []uint64
		for _, n := range names {
			fv := v.FieldByName(n)
			if fv.IsNil() {
				return nil, false
			}
			out = append(out, fv.Elem().Uint())
		}
		return out, true
	}
	var prev []uint64
	for _, it := range items {
		k, ok := key(it)
		if !ok {
			continue
		}
		if prev != nil {
			for i := range k {
				if prev[i] < k[i] {
					break
				}
				if prev[i] > k[i] {
					return false
				}
			}
		}
		prev = k
	}
	return true
}

// UniqueIdentifiers checks that no two items carry the same complete identifier.
func UniqueIdentifiers(f *gen.Func, items []reflect.Value) (string, bool) {
	seen := map[string]bool{}
	for _, it := range items {
		if k, ok := gen.KeyOf(f, it); ok {
			if seen[k] {
				return k, false
			}
			seen[k] = true
		}
	}
	return "", true
}
