// Package regs builds the multi-peer world shared by the registry properties (C03, C08, C09, C10):
// three local server features of different types, a local client feature, NodeManagement, and
// several peers that deliberately use identical entity and feature numbers.
package regs

import (
	"fmt"
	"reflect"
	"sort"
	"time"

	"github.com/enbility/spine-go/api"
	"github.com/enbility/spine-go/model"
	"github.com/enbility/spine-go/util"
	"pgregory.net/rapid"

	"verifharness/world"
)

// LocalServer describes one local server feature.
type LocalServer struct {
	F        api.FeatureLocalInterface
	Type     model.FeatureTypeType
	Writable model.FunctionType // announced read+write
	ReadOnly model.FunctionType // announced read only
	// Unannounced is a function of the feature type that was never added to the feature
	Unannounced model.FunctionType
}

type W struct {
	*world.World
	Servers      []LocalServer
	LocalClient  api.FeatureLocalInterface // Measurement client on entity [1]
	LocalClient2 api.FeatureLocalInterface // LoadControl client on entity [1]
	Generic      api.FeatureLocalInterface // server feature of the type Generic on entity [2] (not in Servers)
	Entity       api.EntityLocalInterface
	Entity2      api.EntityLocalInterface
	Entity3      api.EntityLocalInterface // [1,1]
}

var serverSpecs = []struct {
	ft model.FeatureTypeType
	rw model.FunctionType
	ro model.FunctionType
	un model.FunctionType
}{
	{model.FeatureTypeTypeMeasurement, model.FunctionTypeMeasurementListData, model.FunctionTypeMeasurementDescriptionListData, model.FunctionTypeMeasurementConstraintsListData},
	{model.FeatureTypeTypeLoadControl, model.FunctionTypeLoadControlLimitListData, model.FunctionTypeLoadControlLimitDescriptionListData, model.FunctionTypeLoadControlLimitConstraintsListData},
	{model.FeatureTypeTypeElectricalConnection, model.FunctionTypeElectricalConnectionPermittedValueSetListData, model.FunctionTypeElectricalConnectionDescriptionListData, model.FunctionTypeElectricalConnectionParameterDescriptionListData},
}

// PeerEntities is the tree every peer announces (identical numbering on all peers).
func PeerEntities() []world.EntSpec {
	return []world.EntSpec{
		{Addr: []uint{1}, Type: model.EntityTypeTypeCEM, Feats: []world.FeatSpec{
			{ID: 1, Type: model.FeatureTypeTypeMeasurement, Role: model.RoleTypeClient},
			{ID: 2, Type: model.FeatureTypeTypeLoadControl, Role: model.RoleTypeClient},
			{ID: 3, Type: model.FeatureTypeTypeElectricalConnection, Role: model.RoleTypeClient},
			{ID: 4, Type: model.FeatureTypeTypeMeasurement, Role: model.RoleTypeServer, Funcs: []world.FuncSpec{{Fn: model.FunctionTypeMeasurementListData, Read: true}}},
			{ID: 5, Type: model.FeatureTypeTypeLoadControl, Role: model.RoleTypeClient},
			{ID: 6, Type: model.FeatureTypeTypeGeneric, Role: model.RoleTypeClient},
		}},
		{Addr: []uint{2}, Type: model.EntityTypeTypeEVSE, Feats: []world.FeatSpec{
			{ID: 1, Type: model.FeatureTypeTypeMeasurement, Role: model.RoleTypeClient},
			{ID: 2, Type: model.FeatureTypeTypeLoadControl, Role: model.RoleTypeClient},
			{ID: 3, Type: model.FeatureTypeTypeLoadControl, Role: model.RoleTypeServer, Funcs: []world.FuncSpec{{Fn: model.FunctionTypeLoadControlLimitListData, Read: true, Write: true}}},
		}},
		// a sub-entity of [2]: it stays when [2] is announced as removed
		{Addr: []uint{2, 1}, Type: model.EntityTypeTypeEV, Feats: []world.FeatSpec{
			{ID: 1, Type: model.FeatureTypeTypeMeasurement, Role: model.RoleTypeClient},
			{ID: 2, Type: model.FeatureTypeTypeElectricalConnection, Role: model.RoleTypeClient},
		}},
	}
}

// New builds the world with n peers.
func New(n int) *W { return NewWithUnannounced(n, 0) }

// NewWithUnannounced builds the world with n peers of which the last k are connected only: the
// stack has not received their discovery data, so it neither knows their device address nor any
// feature besides the node management feature every remote device starts with.
func NewWithUnannounced(n, k int) *W {
	w := &W{World: world.New()}
	le := w.AddLocalEntity([]uint{1}, model.EntityTypeTypeCEM, time.Second)
	w.Entity = le
	for _, s := range serverSpecs {
		f := w.AddLocalFeature(le, world.FeatSpec{Type: s.ft, Role: model.RoleTypeServer, Funcs: []world.FuncSpec{
			{Fn: s.rw, Read: true, Write: true}, {Fn: s.ro, Read: true},
		}})
		w.Servers = append(w.Servers, LocalServer{F: f, Type: s.ft, Writable: s.rw, ReadOnly: s.ro, Unannounced: s.un})
	}
	w.LocalClient = w.AddLocalFeature(le, world.FeatSpec{Type: model.FeatureTypeTypeMeasurement, Role: model.RoleTypeClient})
	w.LocalClient2 = w.AddLocalFeature(le, world.FeatSpec{Type: model.FeatureTypeTypeLoadControl, Role: model.RoleTypeClient})
	// a second entity with another Measurement server: one client can hold several bindings / subscriptions
	le2 := w.AddLocalEntity([]uint{2}, model.EntityTypeTypeEVSE, time.Second)
	w.Entity2 = le2
	s0 := serverSpecs[0]
	f2 := w.AddLocalFeature(le2, world.FeatSpec{Type: s0.ft, Role: model.RoleTypeServer, Funcs: []world.FuncSpec{
		{Fn: s0.rw, Read: true, Write: true}, {Fn: s0.ro, Read: true},
	}})
	w.Servers = append(w.Servers, LocalServer{F: f2, Type: s0.ft, Writable: s0.rw, ReadOnly: s0.ro, Unannounced: s0.un})
	// a server feature of the type Generic (devices that do not say what a feature is): it stands for
	// any feature type in subscription and binding requests. Not part of w.Servers.
	w.Generic = w.AddLocalFeature(le2, world.FeatSpec{Type: model.FeatureTypeTypeGeneric, Role: model.RoleTypeServer, Funcs: []world.FuncSpec{
		{Fn: model.FunctionTypeLoadControlLimitListData, Read: true, Write: true},
	}})
	// a sub-entity of [1] whose first feature has the same number as the first feature of [1]
	le3 := w.AddLocalEntity([]uint{1, 1}, model.EntityTypeTypeEV, time.Second)
	w.Entity3 = le3
	f3 := w.AddLocalFeature(le3, world.FeatSpec{Type: s0.ft, Role: model.RoleTypeServer, Funcs: []world.FuncSpec{
		{Fn: s0.rw, Read: true, Write: true}, {Fn: s0.ro, Read: true},
	}})
	w.Servers = append(w.Servers, LocalServer{F: f3, Type: s0.ft, Writable: s0.rw, ReadOnly: s0.ro, Unannounced: s0.un})
	for i := 0; i < n; i++ {
		if i >= n-k {
			p := w.Connect(fmt.Sprintf("ski-%d", i+1), fmt.Sprintf("d:_r:peer%d", i+1))
			w.Sync()
			p.Cap.Drain()
			continue
		}
		w.AddPeer(fmt.Sprintf("ski-%d", i+1), fmt.Sprintf("d:_r:peer%d", i+1), PeerEntities())
	}
	w.Events.Drain()
	return w
}

// Ref names a feature by entity and feature number.
type Ref struct {
	Ent  []uint
	Feat uint
}

func (r Ref) String() string { return fmt.Sprintf("%v/%d", r.Ent, r.Feat) }

// ClientRefs are the candidate client-side references on a peer (valid, wrong role, unknown, special).
var ClientRefs = []Ref{
	{[]uint{1}, 1}, {[]uint{1}, 2}, {[]uint{1}, 3}, {[]uint{1}, 5}, {[]uint{2}, 1}, {[]uint{2}, 2}, {[]uint{2, 1}, 1}, {[]uint{2, 1}, 2}, // clients
	{[]uint{1}, 4}, // a server feature (wrong role)
	{[]uint{1}, 9}, // unknown feature
	{[]uint{3}, 1}, // unknown entity
	{[]uint{0}, 0}, // NodeManagement (special)
	GenericClientRef,
}

// GenericRef is the local server feature of the type Generic, GenericClientRef the peers' client
// feature of that type.
var (
	GenericRef       = Ref{[]uint{2}, 2}
	GenericClientRef = Ref{[]uint{1}, 6}
)

// ServerRefs are the candidate server-side references on the local device.
var ServerRefs = []Ref{
	{[]uint{1}, 1}, {[]uint{1}, 2}, {[]uint{1}, 3}, {[]uint{2}, 1}, {[]uint{1, 1}, 1}, // the server features (same order as W.Servers)
	GenericRef,
	{[]uint{1}, 4}, // the local client feature (wrong role)
	{[]uint{1}, 9}, // unknown feature
	{[]uint{4}, 1}, // unknown entity
	{[]uint{0}, 0}, // NodeManagement (special)
}

// Call is one subscription / binding management call.
type Call struct {
	Peer          int
	Client        Ref
	Server        Ref
	Type          model.FeatureTypeType
	OmitClientDev bool
	OmitServerDev bool
	// ForeignClientDev: the client address names this device instead of the sender's own (delete requests of
	// announced peers only, see DrawForeignClientDev); "" = the sender's device
	ForeignClientDev string
}

// DrawForeignClientDev makes, now and then, the client address of a delete request name a device that is not
// the sender's: another connected peer (which uses the same entity / feature numbers) or a device nobody
// knows. Such an address denotes no entry of the sender - the registry stores the sender's device address -
// so the request addresses a pair that does not exist. Only for peers that have announced themselves: of an
// unannounced peer the stack cannot know the device address and has to take what the request says.
func DrawForeignClientDev(t *rapid.T, w *W, c *Call, label string) {
	if w.Peers[c.Peer].Ents == nil || rapid.IntRange(0, 4).Draw(t, label+".foreignClientDevice") != 0 {
		return
	}
	devs := []string{"d:_x:SOMEONE-ELSE"}
	for i, p := range w.Peers {
		if i != c.Peer {
			devs = append(devs, string(p.Addr))
		}
	}
	c.ForeignClientDev = rapid.SampledFrom(devs).Draw(t, label+".foreignDevice")
	c.OmitClientDev = false
}

func (c Call) String() string {
	foreign := ""
	if c.ForeignClientDev != "" {
		foreign = " clientDevice=" + c.ForeignClientDev
	}
	return fmt.Sprintf("peer%d client %s -> server %s type %s omitC=%v omitS=%v%s", c.Peer+1, c.Client, c.Server, c.Type, c.OmitClientDev, c.OmitServerDev, foreign)
}

var callTypes = []model.FeatureTypeType{model.FeatureTypeTypeMeasurement, model.FeatureTypeTypeLoadControl, model.FeatureTypeTypeElectricalConnection, model.FeatureTypeTypeNodeManagement}

// DrawCall draws a call; mostly well-typed pairs so that grants are frequent.
func DrawCall(t *rapid.T, w *W, label string) Call {
	c := Call{Peer: rapid.IntRange(0, len(w.Peers)-1).Draw(t, label+".peer")}
	if nm := (Ref{[]uint{0}, 0}); w.Peers[c.Peer].Ents == nil && rapid.IntRange(0, 3).Draw(t, label+".nodeManagement") != 0 {
		// all a peer can ask for before it has announced itself: node management to node management
		c.Server, c.Client, c.Type = nm, nm, model.FeatureTypeTypeNodeManagement
	} else if g := rapid.IntRange(0, 11).Draw(t, label+".generic"); g == 0 {
		// the Generic server feature, asked for as any type by a client of that type
		c.Server = GenericRef
		c.Type = rapid.SampledFrom(callTypes[:3]).Draw(t, label+".asType")
		var cands []Ref
		for _, e := range PeerEntities() {
			for _, f := range e.Feats {
				if f.Type == c.Type && f.Role == model.RoleTypeClient {
					cands = append(cands, Ref{e.Addr, f.ID})
				}
			}
		}
		c.Client = cands[rapid.IntRange(0, len(cands)-1).Draw(t, label+".client")]
	} else if g == 2 {
		// a matching pair of a typed server feature and a client of that type, asked for as the type Generic:
		// the server feature does not have the requested type (only a feature that IS Generic stands for any type)
		si := rapid.IntRange(0, len(w.Servers)-1).Draw(t, label+".server")
		c.Server, c.Type = ServerRefs[si], model.FeatureTypeTypeGeneric
		var cands []Ref
		for _, e := range PeerEntities() {
			for _, f := range e.Feats {
				if f.Type == w.Servers[si].Type && f.Role == model.RoleTypeClient {
					cands = append(cands, Ref{e.Addr, f.ID})
				}
			}
		}
		c.Client = cands[rapid.IntRange(0, len(cands)-1).Draw(t, label+".client")]
	} else if g == 1 {
		// the Generic client feature on a typed server feature
		si := rapid.IntRange(0, len(w.Servers)-1).Draw(t, label+".server")
		c.Server, c.Type, c.Client = ServerRefs[si], w.Servers[si].Type, GenericClientRef
	} else if rapid.IntRange(0, 3).Draw(t, label+".wellformed") != 0 {
		// matching pair by type
		si := rapid.IntRange(0, len(w.Servers)-1).Draw(t, label+".server")
		c.Server = ServerRefs[si]
		c.Type = w.Servers[si].Type
		var cands []Ref
		for _, e := range PeerEntities() {
			for _, f := range e.Feats {
				if f.Type == c.Type && f.Role == model.RoleTypeClient {
					cands = append(cands, Ref{e.Addr, f.ID})
				}
			}
		}
		c.Client = cands[rapid.IntRange(0, len(cands)-1).Draw(t, label+".client")]
	} else {
		c.Server = rapid.SampledFrom(ServerRefs).Draw(t, label+".serverAny")
		c.Client = rapid.SampledFrom(ClientRefs).Draw(t, label+".clientAny")
		c.Type = rapid.SampledFrom(callTypes).Draw(t, label+".type")
	}
	c.OmitClientDev = rapid.IntRange(0, 4).Draw(t, label+".omitC") == 0
	c.OmitServerDev = rapid.IntRange(0, 4).Draw(t, label+".omitS") == 0
	return c
}

func (w *W) ClientAddr(c Call) *model.FeatureAddressType {
	a := w.Peers[c.Peer].FA(c.Client.Ent, c.Client.Feat)
	if c.OmitClientDev {
		a.Device = nil
	}
	if c.ForeignClientDev != "" {
		a.Device = util.Ptr(model.AddressDeviceType(c.ForeignClientDev))
	}
	return a
}

func (w *W) ServerAddr(c Call) *model.FeatureAddressType {
	a := world.LA(c.Server.Ent, c.Server.Feat)
	if c.OmitServerDev {
		a.Device = nil
	}
	return a
}

// roleOK: special is accepted on both sides (as in the repository's own NodeManagement fixture).
func roleOK(role, want model.RoleType) bool { return role == want || role == model.RoleTypeSpecial }

// typeOK: a feature of the type Generic stands for any feature type (function_data_factory.go gives it
// every function for that reason); any other feature has to be of the requested type.
func typeOK(have, want model.FeatureTypeType) bool {
	return have == want || have == model.FeatureTypeTypeGeneric
}

// Eligible is the grant rule of the statement, minus the registry-state condition: the server
// feature exists with server (or special) role and the requested type, the client feature exists
// on that peer with client (or special) role and the same type.
func (w *W) Eligible(c Call) bool {
	sf := w.Local.FeatureByAddress(world.LA(c.Server.Ent, c.Server.Feat))
	if sf == nil || !roleOK(sf.Role(), model.RoleTypeServer) || !typeOK(sf.Type(), c.Type) {
		return false
	}
	ents := w.Peers[c.Peer].Ents
	if ents == nil {
		ents = world.WithDeviceInfo(nil) // what the stack assumes of a remote device it knows nothing about
	}
	for _, e := range ents {
		if !reflect.DeepEqual(e.Addr, c.Client.Ent) {
			continue
		}
		for _, f := range e.Feats {
			if f.ID == c.Client.Feat {
				return roleOK(f.Role, model.RoleTypeClient) && typeOK(f.Type, c.Type)
			}
		}
	}
	return false
}

// Key identifies a registry entry in the model.
type Key struct {
	Peer   int
	Client string
	Server string
}

func (c Call) Key() Key { return Key{c.Peer, c.Client.String(), c.Server.String()} }

// EntryKey renders an implementation registry entry in the model's terms.
func (w *W) EntryKey(client api.FeatureRemoteInterface, server api.FeatureLocalInterface) Key {
	peer := -1
	for i, p := range w.Peers {
		if p.Ski == client.Device().Ski() {
			peer = i
		}
	}
	return Key{peer, addrRef(client.Address()), addrRef(server.Address())}
}

func addrRef(a *model.FeatureAddressType) string {
	var ent []uint
	for _, e := range a.Entity {
		ent = append(ent, uint(e))
	}
	f := uint(0)
	if a.Feature != nil {
		f = uint(*a.Feature)
	}
	return Ref{ent, f}.String()
}

func SortedKeys(m map[Key]bool) []string {
	var out []string
	for k := range m {
		out = append(out, fmt.Sprintf("peer%d %s->%s", k.Peer+1, k.Client, k.Server))
	}
	sort.Strings(out)
	return out
}

// Subscriptions returns the implementation's subscription registry in model terms plus the ids.
func (w *W) Subscriptions() (map[Key]bool, map[int][]uint64) {
	out := map[Key]bool{}
	ids := map[int][]uint64{}
	for i, p := range w.Peers {
		if w.Local.RemoteDeviceForSki(p.Ski) == nil {
			continue
		}
		for _, e := range w.Local.SubscriptionManager().Subscriptions(p.Dev) {
			out[w.EntryKey(e.ClientFeature, e.ServerFeature)] = true
			ids[i] = append(ids[i], e.Id)
		}
	}
	return out, ids
}

// Bindings returns the implementation's binding registry in model terms plus the ids.
func (w *W) Bindings() (map[Key]bool, map[int][]uint64) {
	out := map[Key]bool{}
	ids := map[int][]uint64{}
	for i, p := range w.Peers {
		if w.Local.RemoteDeviceForSki(p.Ski) == nil {
			continue
		}
		for _, e := range w.Local.BindingManager().Bindings(p.Dev) {
			out[w.EntryKey(e.ClientFeature, e.ServerFeature)] = true
			ids[i] = append(ids[i], e.Id)
		}
	}
	return out, ids
}

// Result sends the call and returns (number of results, granted).
func (w *W) Do(c Call, cmd model.CmdType) (results int, ok bool) {
	res := w.Peers[c.Peer].Call(cmd)
	return len(res), len(res) == 1 && res[0].ErrorNumber() == 0
}

func KeysEqual(a, b map[Key]bool) bool {
	if len(a) != len(b) {
		return false
	}
	for k := range a {
		if !b[k] {
			return false
		}
	}
	return true
}
