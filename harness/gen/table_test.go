package gen

import (
	"fmt"
	"os"
	"testing"
)

func TestDumpTable(t *testing.T) {
	if os.Getenv("VERIF_DUMP") == "" {
		t.Skip()
	}
	n, nl := 0, 0
	for _, f := range Table() {
		n++
		if f.IsList {
			nl++
		}
		keyKinds := ""
		for _, k := range f.KeyFields {
			sf, _ := f.ItemType.FieldByName(k)
			keyKinds += k + ":" + sf.Type.Elem().Kind().String() + " "
		}
		selFields := ""
		if f.SelectorsType != nil {
			for i := 0; i < f.SelectorsType.NumField(); i++ {
				selFields += f.SelectorsType.Field(i).Name + ":" + f.SelectorsType.Field(i).Type.String() + " "
			}
		}
		fmt.Printf("%-55s ft=%-22s list=%v keys=[%s] wc=%s sel=%s{%s} el=%s cmd=%s settable=%v\n", f.Fn, f.FeatureType, f.IsList, keyKinds, f.WriteCheck, f.SelectorsField, selFields, f.ElementsField, f.CmdField, !f.IsList || KeysSettable(&f))
	}
	fmt.Println("functions", n, "lists", nl)
}
