package gen

import (
	"fmt"
	"reflect"
	"time"

	"github.com/enbility/spine-go/model"
	"pgregory.net/rapid"
)

// Opt tunes the reflective generator.
type Opt struct {
	MaxSlice        int      // maximum slice length (default 2)
	IDs             []uint64 // domain of unsigned integers (default 0..3)
	Dense           bool     // make pointer fields non-nil more often
	RelativePeriods bool     // allow TimePeriodType values with only a relative end time
	MaxDepth        int      // below this depth pointers to structs become nil (default 4)
	MixedIDs        bool     // listgen: a partial update with identifiers may carry a further item without any
	Extremes        bool     // integers and floats also take the boundaries of their type and values beyond 2^53
	UnsortedFull    bool     // listgen: the items of a full update may come in any identifier order
	NestedElements  bool     // listgen: delete elements may name sub elements (value:{scale:{}})
	LooseSelectors  bool     // listgen: delete selectors may name part of the key or non-key elements (several matches)
}

func (o Opt) norm() Opt {
	if o.MaxSlice == 0 {
		o.MaxSlice = 2
	}
	if len(o.IDs) == 0 {
		o.IDs = []uint64{0, 1, 2, 3}
	}
	if o.MaxDepth == 0 {
		o.MaxDepth = 4
	}
	return o
}

var (
	timePeriodT = reflect.TypeOf(model.TimePeriodType{})
	strings3    = []string{"a", "b", "c", "x y", "ä"}
	durations   = []string{"PT1S", "PT0.5S", "PT4M", "PT2H", "P1D", "P1DT2H3M4S", "PT0S"}
	datetimes   = []string{"2024-01-02T03:04:05Z", "1999-12-31T23:59:59Z", "2030-06-15T12:00:00Z"}
	times       = []string{"12:00:00", "23:59:59Z", "01:02:03"}
	dates       = []string{"2024-01-02", "2001-10-26Z"}
)

// Value generates a value of type typ.
func Value(t *rapid.T, typ reflect.Type, o Opt, label string) reflect.Value {
	o = o.norm()
	v := reflect.New(typ).Elem()
	fill(t, v, o, 0, label)
	return v
}

// Ptr generates a non-nil *typ.
func Ptr(t *rapid.T, typ reflect.Type, o Opt, label string) reflect.Value {
	o = o.norm()
	p := reflect.New(typ)
	fill(t, p.Elem(), o, 0, label)
	return p
}

func fill(t *rapid.T, v reflect.Value, o Opt, depth int, path string) {
	typ := v.Type()
	if typ == timePeriodT {
		fillTimePeriod(t, v, o, path)
		return
	}
	switch typ.Kind() {
	case reflect.Ptr:
		et := typ.Elem()
		isStruct := et.Kind() == reflect.Struct && et.NumField() > 0
		if isStruct && depth >= o.MaxDepth {
			return
		}
		hi := 1
		if o.Dense {
			hi = 3
		}
		if rapid.IntRange(0, hi).Draw(t, path+"?") == 0 {
			return
		}
		p := reflect.New(et)
		fill(t, p.Elem(), o, depth+1, path)
		v.Set(p)
	case reflect.Struct:
		for i := 0; i < typ.NumField(); i++ {
			sf := typ.Field(i)
			if !sf.IsExported() {
				continue
			}
			fill(t, v.Field(i), o, depth, path+"."+sf.Name)
		}
	case reflect.Slice:
		n := rapid.IntRange(0, o.MaxSlice).Draw(t, path+"#")
		if n == 0 {
			return
		}
		s := reflect.MakeSlice(typ, n, n)
		for i := 0; i < n; i++ {
			fill(t, s.Index(i), o, depth+1, fmt.Sprintf("%s[%d]", path, i))
		}
		v.Set(s)
	case reflect.String:
		v.SetString(stringFor(t, typ, path))
	case reflect.Uint, reflect.Uint8, reflect.Uint16, reflect.Uint32, reflect.Uint64:
		if o.Extremes && rapid.IntRange(0, 5).Draw(t, path+"/extreme") == 0 {
			bits := typ.Bits()
			hi := ^uint64(0) >> (64 - bits)
			cands := []uint64{hi, hi - 1}
			if bits == 64 {
				cands = append(cands, 1<<53+1, 1<<63, 12345678901234567890)
			}
			v.SetUint(rapid.SampledFrom(cands).Draw(t, path))
			return
		}
		v.SetUint(rapid.SampledFrom(o.IDs).Draw(t, path))
	case reflect.Int, reflect.Int8, reflect.Int16, reflect.Int32, reflect.Int64:
		if o.Extremes && rapid.IntRange(0, 3).Draw(t, path+"/extreme") == 0 {
			bits := typ.Bits()
			hi := int64(1)<<(bits-1) - 1
			cands := []int64{hi, -hi - 1, hi - 1, -hi}
			if bits == 64 {
				cands = append(cands, 1<<53, 1<<53+1, -(1<<53 + 1), 1234567890123456789, 4611686018427387905)
			}
			v.SetInt(rapid.SampledFrom(cands).Draw(t, path))
			return
		}
		v.SetInt(int64(rapid.IntRange(-3, 100).Draw(t, path)))
	case reflect.Float32, reflect.Float64:
		v.SetFloat(float64(rapid.IntRange(-1000, 1000).Draw(t, path)) / 8)
	case reflect.Bool:
		v.SetBool(rapid.Bool().Draw(t, path))
	default:
		panic(fmt.Sprintf("gen: unsupported kind %s at %s", typ.Kind(), path))
	}
}

func stringFor(t *rapid.T, typ reflect.Type, path string) string {
	switch typ.Name() {
	case "DurationType", "MaxResponseDelayType":
		return rapid.SampledFrom(durations).Draw(t, path)
	case "AbsoluteOrRelativeTimeType":
		if rapid.Bool().Draw(t, path+"/rel") {
			return rapid.SampledFrom(durations).Draw(t, path)
		}
		return rapid.SampledFrom(datetimes).Draw(t, path)
	case "DateTimeType":
		return rapid.SampledFrom(datetimes).Draw(t, path)
	case "TimeType":
		return rapid.SampledFrom(times).Draw(t, path)
	case "DateType":
		return rapid.SampledFrom(dates).Draw(t, path)
	}
	return rapid.SampledFrom(strings3).Draw(t, path)
}

func fillTimePeriod(t *rapid.T, v reflect.Value, o Opt, path string) {
	hi := 2
	if o.RelativePeriods {
		hi = 4
		if o.Extremes {
			hi = 5
		}
	}
	tp := model.TimePeriodType{}
	switch rapid.IntRange(0, hi).Draw(t, path+"/period") {
	case 0:
	case 1:
		tp.StartTime = model.NewAbsoluteOrRelativeTimeType(rapid.SampledFrom(datetimes).Draw(t, path+".start"))
	case 2:
		tp.StartTime = model.NewAbsoluteOrRelativeTimeType(rapid.SampledFrom(datetimes).Draw(t, path+".start"))
		tp.EndTime = model.NewAbsoluteOrRelativeTimeType(rapid.SampledFrom(append(append([]string{}, datetimes...), durations...)).Draw(t, path+".end"))
	case 3:
		tp.EndTime = model.NewAbsoluteOrRelativeTimeType(rapid.SampledFrom([]string{"PT1H", "PT30M", "P1D", "PT2H3M4S"}).Draw(t, path+".relend"))
	case 4:
		// open start, absolute end - in the past or in the future relative to the wall clock; on
		// the wire it is re-expressed as a (possibly negative) remaining duration
		off := rapid.SampledFrom([]time.Duration{-3 * 7 * 24 * time.Hour, -time.Hour, -90 * time.Second, 2 * time.Minute, time.Hour, 36 * time.Hour}).Draw(t, path+".absend")
		tp.EndTime = model.NewAbsoluteOrRelativeTimeTypeFromTime(time.Now().Add(off))
	case 5:
		// texts the stack cannot convert are passed on as they are
		tp.EndTime = model.NewAbsoluteOrRelativeTimeType(rapid.SampledFrom([]string{"", "never", "2035-01-01T12:00:00+02:00", "P"}).Draw(t, path+".oddend"))
		if rapid.Bool().Draw(t, path+".oddend.start") {
			tp.StartTime = model.NewAbsoluteOrRelativeTimeType(rapid.SampledFrom(datetimes).Draw(t, path+".start"))
		}
	}
	v.Set(reflect.ValueOf(tp))
}

// ---------------------------------------------------------------------------------------------
// list items

// KeyValue sets key field name of item (a struct value, settable) from the small id k.
// Returns false if the key type cannot carry an id (then the item is left untouched).
func SetKey(item reflect.Value, name string, k uint64) bool {
	f := item.FieldByName(name)
	if f.Kind() != reflect.Ptr {
		return false
	}
	et := f.Type().Elem()
	p := reflect.New(et)
	switch et.Kind() {
	case reflect.Uint, reflect.Uint8, reflect.Uint16, reflect.Uint32, reflect.Uint64:
		p.Elem().SetUint(k)
	case reflect.String:
		p.Elem().SetString(fmt.Sprintf("k%d", k))
	case reflect.Struct:
		// address-like keys (hashed through String()): encode the id into the device part
		if d := p.Elem().FieldByName("Device"); d.IsValid() && d.Kind() == reflect.Ptr && d.Type().Elem().Kind() == reflect.String {
			s := reflect.New(d.Type().Elem())
			s.Elem().SetString(fmt.Sprintf("dev%d", k))
			d.Set(s)
		} else {
			return false
		}
	default:
		return false
	}
	f.Set(p)
	return true
}

// KeyOf renders the identifier of an item as a canonical string ("" if any key field is nil).
func KeyOf(f *Func, item reflect.Value) (string, bool) {
	if len(f.KeyFields) == 0 {
		return "", false
	}
	out := ""
	for _, name := range f.KeyFields {
		fv := item.FieldByName(name)
		if fv.Kind() != reflect.Ptr || fv.IsNil() {
			return "", false
		}
		e := fv.Elem()
		switch e.Kind() {
		case reflect.Uint, reflect.Uint8, reflect.Uint16, reflect.Uint32, reflect.Uint64:
			out += fmt.Sprintf("%d|", e.Uint())
		case reflect.String:
			out += e.String() + "|"
		default:
			if s, ok := fv.Interface().(fmt.Stringer); ok {
				out += s.String() + "|"
			} else {
				out += fmt.Sprintf("%v|", e.Interface())
			}
		}
	}
	return out, true
}

// Item generates one list item. If keys != nil the key fields are set from it (one id per key
// field); otherwise all key fields are nil (an identifier-less item). Non-key fields are random.
func Item(t *rapid.T, f *Func, keys []uint64, o Opt, label string) reflect.Value {
	o = o.norm()
	it := reflect.New(f.ItemType).Elem()
	isKey := map[string]bool{}
	for _, k := range f.KeyFields {
		isKey[k] = true
	}
	for i := 0; i < f.ItemType.NumField(); i++ {
		sf := f.ItemType.Field(i)
		if isKey[sf.Name] || !sf.IsExported() {
			continue
		}
		fill(t, it.Field(i), o, 1, label+"."+sf.Name)
	}
	if keys != nil {
		for i, name := range f.KeyFields {
			SetKey(it, name, keys[i])
		}
	}
	return it
}

// KeysSettable reports whether every key field of f can carry a harness id.
func KeysSettable(f *Func) bool {
	it := reflect.New(f.ItemType).Elem()
	for _, name := range f.KeyFields {
		if !SetKey(it, name, 1) {
			return false
		}
	}
	return true
}

// NonKeyScalarFields lists item fields that are pointers and not keys (candidates for elements).
func NonKeyFields(f *Func) []string {
	isKey := map[string]bool{}
	for _, k := range f.KeyFields {
		isKey[k] = true
	}
	var out []string
	for i := 0; i < f.ItemType.NumField(); i++ {
		sf := f.ItemType.Field(i)
		if !isKey[sf.Name] && sf.IsExported() {
			out = append(out, sf.Name)
		}
	}
	return out
}
