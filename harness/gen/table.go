// Package gen holds the generators shared by the property packages: the table of registered
// functions (derived from the factory by reflection) and reflective value generators.
package gen

import (
	"reflect"
	"sort"
	"strings"
	"sync"

	"github.com/enbility/spine-go/api"
	"github.com/enbility/spine-go/model"
	"github.com/enbility/spine-go/spine"
)

// FeatureTypes are all feature type constants of the model.
var FeatureTypes = []model.FeatureTypeType{
	model.FeatureTypeTypeActuatorLevel, model.FeatureTypeTypeActuatorSwitch, model.FeatureTypeTypeAlarm,
	model.FeatureTypeTypeDataTunneling, model.FeatureTypeTypeDeviceClassification, model.FeatureTypeTypeDeviceDiagnosis,
	model.FeatureTypeTypeDirectControl, model.FeatureTypeTypeElectricalConnection, model.FeatureTypeTypeGeneric,
	model.FeatureTypeTypeHvac, model.FeatureTypeTypeLoadControl, model.FeatureTypeTypeMeasurement,
	model.FeatureTypeTypeMessaging, model.FeatureTypeTypeNetworkManagement, model.FeatureTypeTypeNodeManagement,
	model.FeatureTypeTypeOperatingConstraints, model.FeatureTypeTypePowerSequences, model.FeatureTypeTypeSensing,
	model.FeatureTypeTypeSetpoint, model.FeatureTypeTypeSmartEnergyManagementPs, model.FeatureTypeTypeTaskManagement,
	model.FeatureTypeTypeThreshold, model.FeatureTypeTypeTimeInformation, model.FeatureTypeTypeTimeTable,
	model.FeatureTypeTypeDeviceConfiguration, model.FeatureTypeTypeSupplyCondition, model.FeatureTypeTypeTimeSeries,
	model.FeatureTypeTypeTariffInformation, model.FeatureTypeTypeIncentiveTable, model.FeatureTypeTypeBill,
	model.FeatureTypeTypeIdentification, model.FeatureTypeTypeStateInformation,
}

// Func describes one registered function.
type Func struct {
	FeatureType model.FeatureTypeType // a non-generic feature type that registers it
	Fn          model.FunctionType
	DataType    reflect.Type // struct type T; payloads are *T
	IsList      bool         // *T implements model.Updater and has exactly one slice-of-struct field
	ListField   int
	ItemType    reflect.Type
	KeyFields   []string // item fields tagged eebus:"key", in declaration order
	WriteCheck  string   // item field tagged eebus:"writecheck"
	// By the SPINE XSD naming convention on JSON names (independent of the eebus tags):
	SelectorsField string // FilterType Go field name, "" if none
	ElementsField  string
	SelectorsType  reflect.Type // struct type
	ElementsType   reflect.Type
	CmdField       string // CmdType Go field name whose JSON name equals the function
}

func (f Func) NewPayload() reflect.Value { return reflect.New(f.DataType) }

// List returns the slice value inside payload (a *T).
func (f Func) List(payload any) reflect.Value {
	return reflect.ValueOf(payload).Elem().Field(f.ListField)
}

var (
	tableOnce sync.Once
	table     []Func
	byFn      map[model.FunctionType]*Func
	byFeature map[model.FeatureTypeType][]Func
)

func jsonName(sf reflect.StructField) string {
	return strings.Split(sf.Tag.Get("json"), ",")[0]
}

var updaterType = reflect.TypeOf((*model.Updater)(nil)).Elem()

func build() {
	byFn = map[model.FunctionType]*Func{}
	byFeature = map[model.FeatureTypeType][]Func{}
	filterT := reflect.TypeOf(model.FilterType{})
	cmdT := reflect.TypeOf(model.CmdType{})
	filterByJSON := map[string]reflect.StructField{}
	for i := 0; i < filterT.NumField(); i++ {
		filterByJSON[jsonName(filterT.Field(i))] = filterT.Field(i)
	}
	cmdByJSON := map[string]reflect.StructField{}
	for i := 0; i < cmdT.NumField(); i++ {
		cmdByJSON[jsonName(cmdT.Field(i))] = cmdT.Field(i)
	}
	for _, ft := range FeatureTypes {
		var fds []api.FunctionDataCmdInterface
		func() {
			defer func() { _ = recover() }() // feature types without functions panic in the factory
			fds = spine.CreateFunctionData[api.FunctionDataCmdInterface](ft)
		}()
		for _, fd := range fds {
			fn := fd.FunctionType()
			pt := reflect.TypeOf(fd.DataCopyAny()) // *T (typed nil)
			f := Func{FeatureType: ft, Fn: fn, DataType: pt.Elem()}
			if sf, ok := cmdByJSON[string(fn)]; ok {
				f.CmdField = sf.Name
			} else {
				// the function is registered under a name no command element carries: a peer can only send
				// the element of that data type, so that is what the checks send (and the stack has to serve)
				for i := 0; i < cmdT.NumField(); i++ {
					if cmdT.Field(i).Type == pt {
						if f.CmdField != "" {
							f.CmdField = ""
							break
						}
						f.CmdField = cmdT.Field(i).Name
					}
				}
			}
			if pt.Implements(updaterType) {
				n, idx := 0, -1
				for i := 0; i < f.DataType.NumField(); i++ {
					ft := f.DataType.Field(i).Type
					if ft.Kind() == reflect.Slice && ft.Elem().Kind() == reflect.Struct {
						n++
						idx = i
					}
				}
				if n == 1 {
					f.IsList = true
					f.ListField = idx
					f.ItemType = f.DataType.Field(idx).Type.Elem()
					for i := 0; i < f.ItemType.NumField(); i++ {
						sf := f.ItemType.Field(i)
						tags := model.EEBusTags(sf)
						if _, ok := tags[model.EEBusTagKey]; ok {
							f.KeyFields = append(f.KeyFields, sf.Name)
						}
						if _, ok := tags[model.EEBusTagWriteCheck]; ok {
							f.WriteCheck = sf.Name
						}
					}
				}
			}
			if sf, ok := filterByJSON[string(fn)+"Selectors"]; ok {
				f.SelectorsField, f.SelectorsType = sf.Name, sf.Type.Elem()
			}
			item := string(fn)
			if strings.HasSuffix(item, "ListData") {
				item = strings.TrimSuffix(item, "ListData") + "Data"
			}
			if sf, ok := filterByJSON[item+"Elements"]; ok {
				// electricalConnectionCharacteristicData and ...ListData share one elements field;
				// the tag scheme can name one function per field: assert it for the list function only
				if !(fn == model.FunctionTypeElectricalConnectionCharacteristicData) {
					f.ElementsField, f.ElementsType = sf.Name, sf.Type.Elem()
				}
			}
			byFeature[ft] = append(byFeature[ft], f)
			if ft == model.FeatureTypeTypeGeneric {
				continue
			}
			if _, dup := byFn[fn]; !dup {
				cp := f
				byFn[fn] = &cp
				table = append(table, f)
			}
		}
	}
	sort.Slice(table, func(i, j int) bool { return table[i].Fn < table[j].Fn })
}

// Table returns every function registered for a non-generic feature type (one entry per function).
func Table() []Func {
	tableOnce.Do(build)
	return table
}

// ByFunction looks a function up.
func ByFunction(fn model.FunctionType) *Func {
	tableOnce.Do(build)
	return byFn[fn]
}

// ForFeature returns the functions the factory registers for ft.
func ForFeature(ft model.FeatureTypeType) []Func {
	tableOnce.Do(build)
	return byFeature[ft]
}

// ListFuncs returns the list-typed functions (the Updater types).
func ListFuncs() []Func {
	var out []Func
	for _, f := range Table() {
		if f.IsList {
			out = append(out, f)
		}
	}
	return out
}

// UsableFeatureTypes are feature types for which the factory registers functions, without Generic
// and NodeManagement.
func UsableFeatureTypes() []model.FeatureTypeType {
	tableOnce.Do(build)
	var out []model.FeatureTypeType
	for _, ft := range FeatureTypes {
		if ft == model.FeatureTypeTypeGeneric || ft == model.FeatureTypeTypeNodeManagement {
			continue
		}
		if len(byFeature[ft]) > 0 {
			out = append(out, ft)
		}
	}
	return out
}
