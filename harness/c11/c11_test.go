// Package c11: data handed to the application is a stable snapshot; failed and non-persisting
// updates change nothing.
package c11

import (
	"fmt"
	"os"
	"reflect"
	"strings"
	"testing"
	"time"

	"github.com/enbility/spine-go/api"
	"github.com/enbility/spine-go/model"
	"pgregory.net/rapid"

	"verifharness/gen"
	"verifharness/listgen"
	"verifharness/refmodel"
	"verifharness/world"
)

func TestMain(m *testing.M) { world.Main(m) }

var quickSubset = []model.FunctionType{
	model.FunctionTypeAlarmListData,
	model.FunctionTypeBillListData, // items with a nested list (positions with ids of their own)
	model.FunctionTypeLoadControlLimitListData,
	model.FunctionTypeSetpointListData,
	model.FunctionTypeDeviceConfigurationKeyValueListData,
	model.FunctionTypeMeasurementListData,
	model.FunctionTypeMeasurementSeriesListData,
	model.FunctionTypeElectricalConnectionPermittedValueSetListData,
	model.FunctionTypeElectricalConnectionCharacteristicListData,
	model.FunctionTypeSetpointDescriptionListData,
	model.FunctionTypeTimeSeriesListData,
	model.FunctionTypeHvacOverrunListData,
	model.FunctionTypeIdentificationListData,
}

func funcs() []gen.Func {
	all := gen.ListFuncs()
	var out []gen.Func
	if only := os.Getenv("VERIF_FUNCS"); only != "" {
		for _, f := range all {
			if strings.Contains(","+only+",", ","+string(f.Fn)+",") {
				out = append(out, f)
			}
		}
		return out
	}
	for _, f := range all {
		if f.FeatureType == model.FeatureTypeTypeNodeManagement || !listgen.CapsOf(&f).Keyed {
			continue
		}
		if world.Thorough() {
			out = append(out, f)
			continue
		}
		for _, q := range quickSubset {
			if q == f.Fn {
				out = append(out, f)
			}
		}
	}
	return out
}

type snapshot struct {
	origin string
	value  any
	text   string
	at     int
	deep   any // deep copy made when the data set was obtained
}

func same(a, b string) bool {
	norm := func(s string) string {
		if s == "null" || s == "{}" {
			return ""
		}
		return s
	}
	return norm(a) == norm(b)
}

// sameData: equal in memory; no data and an empty data set are the same.
func sameData(a, b any) bool {
	empty := func(v any) bool {
		if v == nil {
			return true
		}
		rv := reflect.ValueOf(v)
		if rv.Kind() == reflect.Ptr {
			return rv.IsNil() || rv.Elem().IsZero()
		}
		return rv.IsZero()
	}
	if empty(a) && empty(b) {
		return true
	}
	return reflect.DeepEqual(a, b)
}

func sigShape(s string) string { return strings.NewReplacer("+", "-", "&", "-and-").Replace(s) }

type env struct {
	w          *world.World
	f          *gen.Func
	srv        api.FeatureLocalInterface  // local store
	cli        api.FeatureLocalInterface  // local client feature (destination of replies/notifies)
	p          *world.Peer                // peer: server feature [1]/1, client feature [1]/2 (bound)
	rf         api.FeatureRemoteInterface // remote store
	snaps      []snapshot
	subscribed bool // the peer has subscribed to the local server feature
	// model states, for well-formed update generation only
	lstate, rstate []reflect.Value
}

func newEnv(f *gen.Func) *env {
	w := world.New()
	le := w.AddLocalEntity([]uint{1}, model.EntityTypeTypeCEM, time.Second)
	e := &env{w: w, f: f}
	e.srv = w.AddLocalFeature(le, world.FeatSpec{Type: f.FeatureType, Role: model.RoleTypeServer, Funcs: []world.FuncSpec{{Fn: f.Fn, Read: true, Write: true}}})
	e.cli = w.AddLocalFeature(le, world.FeatSpec{Type: f.FeatureType, Role: model.RoleTypeClient})
	e.p = w.AddPeer("ski1", "d:_r:peer1", []world.EntSpec{{Addr: []uint{1}, Type: model.EntityTypeTypeEVSE, Feats: []world.FeatSpec{
		{ID: 1, Type: f.FeatureType, Role: model.RoleTypeServer, Funcs: []world.FuncSpec{{Fn: f.Fn, Read: true}}},
		{ID: 2, Type: f.FeatureType, Role: model.RoleTypeClient},
	}}})
	e.rf = e.p.Feature([]uint{1}, 1)
	if !e.p.CallOK(world.BindCall(e.p.FA([]uint{1}, 2), e.srv.Address(), f.FeatureType)) {
		panic("harness: binding not granted")
	}
	return e
}

func (e *env) take(origin string, v any, at int) {
	if v == nil || (reflect.ValueOf(v).Kind() == reflect.Ptr && reflect.ValueOf(v).IsNil()) {
		return
	}
	// (the harness never encodes a live data set itself: encoding is something the stack does, and
	// what it may do to the data while encoding is part of what is checked)
	deep := world.DeepCopy(v)
	e.snaps = append(e.snaps, snapshot{origin: origin, value: v, text: world.JSON(deep), at: at, deep: deep})
}

func (e *env) checkSnaps(t world.TB, step int, what string) {
	for _, s := range e.snaps {
		// compared in memory against a deep copy made when the data set was obtained (not as JSON text:
		// the model re-expresses relative end times against the clock when it encodes them)
		if !reflect.DeepEqual(s.value, s.deep) {
			now := world.JSON(world.DeepCopy(s.value))
			world.Fail(t, fmt.Sprintf("C11/snapshot-changed/%s/%s", s.origin, sigShape(what)),
				"a data set obtained at step %d (%s) changed when step %d (%s) was processed\n function: %s\n taken: %s\n now:   %s", s.at, s.origin, step, what, e.f.Fn, s.text, now)
		}
	}
}

// collectEventPayloads snapshots the Data of every data-change event delivered since the last call.
func (e *env) collectEventPayloads(step int) {
	for _, ev := range e.w.Events.Drain() {
		if ev.P.EventType == api.EventTypeDataChange && ev.P.Data != nil && ev.P.Function == e.f.Fn {
			e.take("event-payload", ev.P.Data, step)
		}
	}
}

func TestSnapshots(t *testing.T) {
	fs := funcs()
	rapid.Check(t, world.Prop(func(t *rapid.T) {
		f := fs[rapid.IntRange(0, len(fs)-1).Draw(t, "function")]
		e := newEnv(&f)
		defer e.w.Teardown()
		shapes := listgen.ShapesFor(&f)
		o := gen.Opt{Dense: true, NestedElements: true, UnsortedFull: true, RelativePeriods: true}
		// populate both stores
		initL := refmodel.Update{Items: listgen.Items(t, &f, 4, o, "initL")}
		e.srv.SetData(f.Fn, refmodel.Payload(&f, initL.Items))
		e.lstate = refmodel.Fold(&f, nil, initL)
		// (the remote store sometimes starts without any data for the function)
		if rapid.IntRange(0, 3).Draw(t, "remoteStartsEmpty") != 0 {
			initR := refmodel.Update{Items: listgen.Items(t, &f, 4, o, "initR")}
			e.p.Send(e.p.Msg(model.CmdClassifierTypeReply, e.p.FA([]uint{1}, 1), e.cli.Address(), false, e.p.DiscoveryRef, listgen.Cmd(&f, initR)))
			e.rstate = refmodel.Fold(&f, nil, initR)
		} else {
			world.Label("remote-store/starts-empty")
		}
		e.w.Sync()
		e.collectEventPayloads(0)
		e.take("local-DataCopy", e.srv.DataCopy(f.Fn), 0)
		e.take("remote-DataCopy", e.rf.DataCopy(f.Fn), 0)

		n := rapid.IntRange(1, 5).Draw(t, "updates")
		// quiet histories: the observer obtains nothing further while the updates run (every DataCopy is an
		// interaction with the store that a real holder of an old data set does not make); the data sets
		// obtained so far and the event payloads are watched all the same. The reference fold then
		// stands in for the stored lists when the next update is drawn.
		quiet := rapid.IntRange(0, 2).Draw(t, "observerStaysQuiet") == 0
		if quiet {
			world.Label("observer/quiet")
		}
		var seq []string
		nontrivial := false
		var hist []any
		for i := 1; i <= n; i++ {
			origin := rapid.SampledFrom([]string{"local-update", "local-set", "remote-write", "reply", "notify", "remote-nonpersist", "peer-read", "local-append-set", "local-mirror"}).Draw(t, fmt.Sprintf("origin%d", i))
			if origin == "local-append-set" {
				// read-modify-write by the application: it obtains the data, appends an item to the list of ITS copy
				// (Go's append writes into spare capacity of the array the copy shares with the store and with
				// data sets handed out earlier - beyond their length, invisible to them) and hands the longer list
				// back with SetData. What the stack then does with that list must not reach the earlier data sets.
				cur := e.srv.DataCopy(f.Fn)
				extra := listgen.Items(t, &f, 1, o, fmt.Sprintf("appended%d", i))
				fresh := cur != nil && !reflect.ValueOf(cur).IsNil() && len(extra) == 1
				if fresh {
					nk, _ := gen.KeyOf(&f, extra[0])
					for _, it := range refmodel.ItemsOf(&f, cur) {
						if k, ok := gen.KeyOf(&f, it); ok && k == nk {
							fresh = false
						}
					}
				}
				if fresh {
					nd := reflect.New(f.DataType)
					var list reflect.Value
					for q := 0; q < nd.Elem().NumField(); q++ {
						if nd.Elem().Field(q).Kind() == reflect.Slice {
							list = nd.Elem().Field(q)
							list.Set(reflect.Append(reflect.ValueOf(cur).Elem().Field(q), extra[0]))
						}
					}
					world.Label(fmt.Sprintf("append-set/spare-capacity=%v", list.IsValid() && list.Cap() > list.Len()-1 && list.Len() > 1))
					e.srv.SetData(f.Fn, nd.Interface())
					e.w.Sync()
					e.lstate = refmodel.CloneItems(refmodel.ItemsOf(&f, e.srv.DataCopy(f.Fn)))
					e.checkSnaps(t, i, "local-append-set/full")
					e.collectEventPayloads(i)
					if !quiet && rapid.Bool().Draw(t, fmt.Sprintf("snap%d", i)) {
						e.take("local-DataCopy", e.srv.DataCopy(f.Fn), i)
					}
					seq = append(seq, "local-append-set")
					world.Label("origin/local-append-set")
					hist = append(hist, map[string]any{"origin": origin, "appended": refmodel.Payload(&f, extra)})
					continue
				}
				origin = "local-set"
			}
			if origin == "local-mirror" {
				// the application mirrors data it obtained earlier into its own feature: a data set that is being
				// watched (DataCopy of the remote feature, an event payload) is handed in as the new data of a
				// partial update (merge by identifier). The data set handed in is still the application's: it must
				// not change by that
				if len(e.snaps) == 0 {
					origin = "local-update"
				} else {
					sn := e.snaps[rapid.IntRange(0, len(e.snaps)-1).Draw(t, fmt.Sprintf("mirrored%d", i))]
					if v := reflect.ValueOf(sn.value); sn.value == nil || v.Kind() != reflect.Ptr || v.IsNil() || v.Type() != reflect.PointerTo(f.DataType) {
						origin = "local-update"
					} else {
						failed := e.srv.UpdateData(f.Fn, sn.value, model.NewFilterTypePartial(), nil) != nil
						e.w.Sync()
						e.lstate = refmodel.CloneItems(refmodel.ItemsOf(&f, e.srv.DataCopy(f.Fn)))
						e.checkSnaps(t, i, "local-mirror/partial")
						e.collectEventPayloads(i)
						seq = append(seq, "local-mirror")
						world.Label("origin/local-mirror")
						hist = append(hist, map[string]any{"origin": origin, "mirrored_data_set_from_step": sn.at, "failed": failed})
						nontrivial = nontrivial || len(e.lstate) > 0
						continue
					}
				}
			}
			if origin == "peer-read" && !e.subscribed && rapid.Bool().Draw(t, fmt.Sprintf("subscribe%d", i)) {
				// from now on every change of the local data is encoded for a notification (data sets
				// obtained before have never been encoded by the stack so far)
				if !e.p.CallOK(world.SubscribeCall(e.p.FA([]uint{1}, 2), e.srv.Address(), f.FeatureType)) {
					t.Fatalf("harness: subscription not granted")
				}
				e.subscribed = true
				e.p.Cap.Drain()
				e.w.Events.Drain()
				seq = append(seq, "peer-subscribes")
				world.Label("origin/peer-subscribes")
				continue
			}
			if origin == "peer-read" {
				// no update at all: the peer reads the local data, the stack encodes it for the reply
				cmd := model.CmdType{}
				reflect.ValueOf(&cmd).Elem().FieldByName(f.CmdField).Set(reflect.New(f.DataType))
				e.p.Send(e.p.Msg(model.CmdClassifierTypeRead, e.p.FA([]uint{1}, 2), e.srv.Address(), false, nil, cmd))
				e.w.Sync()
				e.p.Cap.Drain()
				e.checkSnaps(t, i, "peer-read/encode")
				seq = append(seq, "peer-read")
				world.Label("origin/peer-read")
				continue
			}
			shape := rapid.SampledFrom(shapes).Draw(t, fmt.Sprintf("shape%d", i))
			local := origin == "local-update" || origin == "local-set" || origin == "remote-write"
			state := e.rstate
			if local {
				state = e.lstate
			}
			if origin == "local-set" {
				shape = listgen.Full
			}
			u := listgen.Update(t, &f, state, shape, o, fmt.Sprintf("u%d", i))
			what := origin + "/" + u.Shape()
			payload := refmodel.Payload(&f, u.Items)
			fp, fd := listgen.Filters(&f, u)
			var deepL, deepR any
			var beforeL, beforeR string
			if !quiet {
				deepL, deepR = world.DeepCopy(e.srv.DataCopy(f.Fn)), world.DeepCopy(e.rf.DataCopy(f.Fn))
				beforeL, beforeR = world.JSON(deepL), world.JSON(deepR)
			}
			failed, nonPersist := false, false
			switch origin {
			case "local-update":
				failed = e.srv.UpdateData(f.Fn, payload, fp, fd) != nil
			case "local-set":
				e.srv.SetData(f.Fn, payload)
			case "remote-write":
				// with an acknowledgement the success result tells, without one the absence of an error result
				ack := rapid.IntRange(0, 2).Draw(t, fmt.Sprintf("ack%d", i)) != 0
				d := e.p.Msg(model.CmdClassifierTypeWrite, e.p.FA([]uint{1}, 2), e.srv.Address(), ack, nil, listgen.Cmd(&f, u))
				e.p.Send(d)
				e.w.Sync()
				failed = ack
				for _, s := range e.p.Cap.Drain() {
					if s.Ref() != nil && *s.Ref() == *d.Header.MsgCounter {
						failed = s.ErrorNumber() != 0
					}
				}
			case "reply", "notify":
				cl, ref := model.CmdClassifierTypeNotify, (*model.MsgCounterType)(nil)
				if origin == "reply" {
					cl, ref = model.CmdClassifierTypeReply, e.p.DiscoveryRef
				}
				d := e.p.Msg(cl, e.p.FA([]uint{1}, 1), e.cli.Address(), true, ref, listgen.Cmd(&f, u))
				e.p.Send(d)
				e.w.Sync()
				failed = true
				for _, s := range e.p.Cap.Drain() {
					if s.Ref() != nil && *s.Ref() == *d.Header.MsgCounter && s.ErrorNumber() == 0 {
						failed = false
					}
				}
			case "remote-nonpersist":
				nonPersist = true
				_, err := e.rf.UpdateData(false, f.Fn, payload, fp, fd)
				failed = err != nil
			}
			e.w.Sync()
			if quiet {
				if !failed && !nonPersist {
					if local {
						e.lstate = refmodel.Fold(&f, e.lstate, u)
					} else {
						e.rstate = refmodel.Fold(&f, e.rstate, u)
					}
				}
				e.checkSnaps(t, i, what)
				if u.HasFilter() && len(state) > 0 {
					nontrivial = true
				}
				e.collectEventPayloads(i)
				seq = append(seq, what)
				world.Label("origin/"+origin, "shape/"+u.Shape())
				hist = append(hist, map[string]any{"origin": origin, "update": listgen.Describe(&f, u), "failed": failed, "quiet": true})
				continue
			}
			afterL, afterR := world.JSON(world.DeepCopy(e.srv.DataCopy(f.Fn))), world.JSON(world.DeepCopy(e.rf.DataCopy(f.Fn)))
			// clause 2: failed / non-persisting updates leave the stored data exactly as it was
			if failed || nonPersist {
				kind := "failed"
				if nonPersist {
					kind = "nonpersist"
				}
				// (in memory, against deep copies: the JSON texts are for the message only)
				if !sameData(deepL, e.srv.DataCopy(f.Fn)) || !sameData(deepR, e.rf.DataCopy(f.Fn)) {
					world.Fail(t, fmt.Sprintf("C11/%s-changed/%s", kind, sigShape(what)), "step %d (%s, %s) changed the stored data\n update: %s\n local before:  %s\n local after:   %s\n remote before: %s\n remote after:  %s", i, what, kind, world.JSON(listgen.Describe(&f, u)), beforeL, afterL, beforeR, afterR)
				}
			} else if local {
				e.lstate = refmodel.ItemsOf(&f, e.srv.DataCopy(f.Fn))
			} else {
				e.rstate = refmodel.ItemsOf(&f, e.rf.DataCopy(f.Fn))
			}
			if local {
				e.lstate = refmodel.CloneItems(refmodel.ItemsOf(&f, e.srv.DataCopy(f.Fn)))
			} else {
				e.rstate = refmodel.CloneItems(refmodel.ItemsOf(&f, e.rf.DataCopy(f.Fn)))
			}
			// clause 1: nothing handed out earlier changed
			e.checkSnaps(t, i, what)
			if u.HasFilter() && len(state) > 0 {
				nontrivial = true
			}
			// hand out more data
			e.collectEventPayloads(i)
			if rapid.Bool().Draw(t, fmt.Sprintf("snap%d", i)) {
				e.take("local-DataCopy", e.srv.DataCopy(f.Fn), i)
				e.take("remote-DataCopy", e.rf.DataCopy(f.Fn), i)
			}
			seq = append(seq, what)
			world.Label("origin/"+origin, "shape/"+u.Shape())
			if failed {
				world.Label("outcome/failed")
			}
			hist = append(hist, map[string]any{"origin": origin, "update": listgen.Describe(&f, u), "failed": failed})
		}
		world.Record(world.Hash(f.Fn, seq, quiet), nontrivial, "function/"+string(f.Fn))
		if nontrivial && world.WantSample() {
			world.Sample(map[string]any{"function": string(f.Fn), "history": hist, "snapshots_watched": len(e.snaps)})
		}
	}))
}

// TestUseCaseSnapshots: the use-case data of NodeManagement, with use-case operations as the
// later updates.
func TestUseCaseSnapshots(t *testing.T) {
	actors := []model.UseCaseActorType{model.UseCaseActorTypeCEM, model.UseCaseActorTypeEVSE, model.UseCaseActorTypeEV}
	names := []model.UseCaseNameType{model.UseCaseNameTypeLimitationOfPowerConsumption, model.UseCaseNameTypeEVSECommissioningAndConfiguration, model.UseCaseNameTypeMonitoringOfPowerConsumption}
	rapid.Check(t, world.Prop(func(t *rapid.T) {
		w := world.New()
		defer w.Teardown()
		ents := []api.EntityLocalInterface{
			w.AddLocalEntity([]uint{1}, model.EntityTypeTypeCEM, time.Second),
			w.AddLocalEntity([]uint{2}, model.EntityTypeTypeEVSE, time.Second),
		}
		nm := w.Local.NodeManagement()
		var snaps []snapshot
		n := rapid.IntRange(2, 8).Draw(t, "ops")
		var seq []string
		for i := 0; i < n; i++ {
			e := ents[rapid.IntRange(0, len(ents)-1).Draw(t, fmt.Sprintf("ent%d", i))]
			actor := rapid.SampledFrom(actors).Draw(t, fmt.Sprintf("actor%d", i))
			name := rapid.SampledFrom(names).Draw(t, fmt.Sprintf("name%d", i))
			op := rapid.SampledFrom([]string{"add", "add", "remove", "avail", "removeall"}).Draw(t, fmt.Sprintf("op%d", i))
			switch op {
			case "add":
				sc := []model.UseCaseScenarioSupportType{model.UseCaseScenarioSupportType(rapid.IntRange(1, 3).Draw(t, fmt.Sprintf("sc%d", i)))}
				e.AddUseCaseSupport(actor, name, model.SpecificationVersionType("1.0."+fmt.Sprint(i)), "release", rapid.Bool().Draw(t, fmt.Sprintf("av%d", i)), sc)
			case "remove":
				e.RemoveUseCaseSupport(actor, name)
			case "avail":
				e.SetUseCaseAvailability(actor, name, rapid.Bool().Draw(t, fmt.Sprintf("av%d", i)))
			case "removeall":
				e.RemoveAllUseCaseSupports()
			}
			for _, s := range snaps {
				if now := world.JSON(s.value); now != s.text {
					world.Fail(t, "C11/snapshot-changed/usecase-DataCopy/"+op, "use-case data obtained after op %d changed when op %d (%s) was executed\n taken: %s\n now:   %s", s.at, i, op, s.text, now)
				}
			}
			if v := nm.DataCopy(model.FunctionTypeNodeManagementUseCaseData); v != nil && !reflect.ValueOf(v).IsNil() {
				snaps = append(snaps, snapshot{origin: "usecase", value: v, text: world.JSON(v), at: i})
			}
			seq = append(seq, op)
		}
		world.Record(world.Hash("usecase", seq), len(snaps) >= 2, "usecase")
		if world.WantSample() {
			world.Sample(map[string]any{"kind": "usecase", "ops": seq})
		}
	}))
}
