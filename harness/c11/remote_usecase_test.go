package c11

import (
	"fmt"
	"reflect"
	"testing"

	"github.com/enbility/spine-go/api"
	"github.com/enbility/spine-go/model"
	"github.com/enbility/spine-go/util"
	"pgregory.net/rapid"

	"verifharness/world"
)

// TestRemoteUseCaseSnapshots: the use case data a peer reported is data "obtained from a remote feature" too.
// The application holds it in three forms - DataCopy of the peer's NodeManagement feature, the list
// DeviceRemote.UseCases() returns, and the payload of the data-change event of the reply / notification - and
// none of them may change afterwards, whatever the peer announces later: entities removed or added by discovery
// notifications, further use case replies and notifications (full or partial), a disconnect.
func TestRemoteUseCaseSnapshots(t *testing.T) {
	actors := []model.UseCaseActorType{model.UseCaseActorTypeCEM, model.UseCaseActorTypeEVSE, model.UseCaseActorTypeEV}
	names := []model.UseCaseNameType{model.UseCaseNameTypeLimitationOfPowerConsumption, model.UseCaseNameTypeEVSECommissioningAndConfiguration, model.UseCaseNameTypeMonitoringOfPowerConsumption}
	entAddrs := [][]uint{{1}, {2}, {1, 1}}
	tree := []world.EntSpec{
		{Addr: []uint{1}, Type: model.EntityTypeTypeCEM, Feats: []world.FeatSpec{{ID: 1, Type: model.FeatureTypeTypeMeasurement, Role: model.RoleTypeClient}}},
		{Addr: []uint{2}, Type: model.EntityTypeTypeEVSE, Feats: []world.FeatSpec{{ID: 1, Type: model.FeatureTypeTypeLoadControl, Role: model.RoleTypeClient}}},
		{Addr: []uint{1, 1}, Type: model.EntityTypeTypeEV, Feats: []world.FeatSpec{{ID: 1, Type: model.FeatureTypeTypeMeasurement, Role: model.RoleTypeClient}}},
	}
	rapid.Check(t, world.Prop(func(t *rapid.T) {
		w := world.New()
		defer w.Teardown()
		w.AddLocalEntity([]uint{1}, model.EntityTypeTypeCEM, 0)
		p := w.AddPeer("ski-1", "d:_r:peer1", tree)
		other := w.AddPeer("ski-2", "d:_r:peer2", tree)
		w.Events.Drain()

		useCaseData := func(label string) *model.NodeManagementUseCaseDataType {
			d := &model.NodeManagementUseCaseDataType{}
			n := rapid.IntRange(1, 4).Draw(t, label+".entries")
			seen := map[string]bool{}
			for i := 0; i < n; i++ {
				ea := entAddrs[rapid.IntRange(0, len(entAddrs)-1).Draw(t, fmt.Sprintf("%s.entity%d", label, i))]
				actor := rapid.SampledFrom(actors).Draw(t, fmt.Sprintf("%s.actor%d", label, i))
				if k := fmt.Sprint(ea, actor); seen[k] {
					continue
				} else {
					seen[k] = true
				}
				addr := p.FA(ea, 0)
				info := model.UseCaseInformationDataType{Address: &model.FeatureAddressType{Device: addr.Device, Entity: addr.Entity}, Actor: util.Ptr(actor)}
				if rapid.IntRange(0, 2).Draw(t, fmt.Sprintf("%s.withoutDevice%d", label, i)) == 0 {
					info.Address.Device = nil // the device part of the address is optional
				}
				m := rapid.IntRange(1, 2).Draw(t, fmt.Sprintf("%s.usecases%d", label, i))
				for j := 0; j < m; j++ {
					info.UseCaseSupport = append(info.UseCaseSupport, model.UseCaseSupportType{
						UseCaseName:      util.Ptr(names[(i+j)%len(names)]),
						UseCaseVersion:   util.Ptr(model.SpecificationVersionType("1.0.0")),
						UseCaseAvailable: util.Ptr(rapid.Bool().Draw(t, fmt.Sprintf("%s.available%d.%d", label, i, j))),
						ScenarioSupport:  []model.UseCaseScenarioSupportType{model.UseCaseScenarioSupportType(1 + j)},
					})
				}
				d.UseCaseInformation = append(d.UseCaseInformation, info)
			}
			return d
		}

		var snaps []snapshot
		var seq []string
		check := func(step int, op string) {
			for _, s := range snaps {
				if now := world.JSON(s.value); now != s.text {
					world.Fail(t, "C11/snapshot-changed/remote-usecase-"+s.origin+"/"+op, "use case data of the peer obtained at step %d (%s) changed when step %d (%s) was processed\n taken: %s\n now:   %s\n history: %v", s.at, s.origin, step, op, s.text, now, seq)
				}
			}
		}
		take := func(step int) {
			rf := p.Feature([]uint{0}, 0)
			if rf != nil {
				if v := rf.DataCopy(model.FunctionTypeNodeManagementUseCaseData); v != nil && !reflect.ValueOf(v).IsNil() {
					snaps = append(snaps, snapshot{origin: "DataCopy", value: v, text: world.JSON(v), at: step})
				}
			}
			if w.Local.RemoteDeviceForSki(p.Ski) != nil {
				if u := p.Dev.UseCases(); len(u) > 0 {
					snaps = append(snaps, snapshot{origin: "UseCases", value: u, text: world.JSON(u), at: step})
				}
			}
			for _, e := range w.Events.Drain() {
				if e.P.EventType == api.EventTypeDataChange && e.P.Data != nil {
					if _, ok := e.P.Data.(*model.NodeManagementUseCaseDataType); ok {
						snaps = append(snaps, snapshot{origin: "event-payload", value: e.P.Data, text: world.JSON(e.P.Data), at: step})
					}
				}
			}
		}

		// the first report
		p.Send(p.Msg(model.CmdClassifierTypeReply, p.NM(), world.LocalNM(), false, p.DiscoveryRef, model.CmdType{NodeManagementUseCaseData: useCaseData("first")}))
		w.Sync()
		take(0)
		seq = append(seq, "usecase-reply")
		present := map[string]bool{"[1]": true, "[2]": true, "[1 1]": true}
		connected := true
		steps := rapid.IntRange(1, 5).Draw(t, "steps")
		quiet := rapid.Bool().Draw(t, "observerStaysQuiet") // obtains nothing further after the first report
		removedWithEntries := false
		for i := 1; i <= steps && connected; i++ {
			op := rapid.SampledFrom([]string{"entity-removed", "entity-removed", "entity-added", "usecase-reply", "usecase-notify", "other-peer-removes-entity", "disconnect"}).Draw(t, fmt.Sprintf("op%d", i))
			switch op {
			case "entity-removed", "other-peer-removes-entity":
				q := p
				if op == "other-peer-removes-entity" {
					q = other
				}
				ea := entAddrs[rapid.IntRange(0, len(entAddrs)-1).Draw(t, fmt.Sprintf("removed%d", i))]
				if q == p {
					if rf := p.Feature([]uint{0}, 0); rf != nil && present[fmt.Sprint(ea)] {
						if d, ok := rf.DataCopy(model.FunctionTypeNodeManagementUseCaseData).(*model.NodeManagementUseCaseDataType); ok && d != nil {
							for _, info := range d.UseCaseInformation {
								if info.Address != nil && fmt.Sprint(info.Address.Entity) == fmt.Sprint(ea) {
									removedWithEntries = true
								}
							}
						}
					}
					present[fmt.Sprint(ea)] = false
				}
				removed := model.NetworkManagementStateChangeTypeRemoved
				cmd := model.CmdType{
					Function:                            util.Ptr(model.FunctionTypeNodeManagementDetailedDiscoveryData),
					Filter:                              []model.FilterType{*model.NewFilterTypePartial()},
					NodeManagementDetailedDiscoveryData: q.DiscoveryData([]world.EntSpec{{Addr: ea, Type: model.EntityTypeTypeEV}}, &removed),
				}
				q.Send(q.Msg(model.CmdClassifierTypeNotify, q.NM(), world.LocalNM(), false, nil, cmd))
			case "entity-added":
				ea := entAddrs[rapid.IntRange(0, len(entAddrs)-1).Draw(t, fmt.Sprintf("added%d", i))]
				present[fmt.Sprint(ea)] = true
				added := model.NetworkManagementStateChangeTypeAdded
				var spec world.EntSpec
				for _, e := range tree {
					if fmt.Sprint(e.Addr) == fmt.Sprint(ea) {
						spec = e
					}
				}
				cmd := model.CmdType{
					Function:                            util.Ptr(model.FunctionTypeNodeManagementDetailedDiscoveryData),
					Filter:                              []model.FilterType{*model.NewFilterTypePartial()},
					NodeManagementDetailedDiscoveryData: p.DiscoveryData([]world.EntSpec{spec}, &added),
				}
				p.Send(p.Msg(model.CmdClassifierTypeNotify, p.NM(), world.LocalNM(), false, nil, cmd))
			case "usecase-reply":
				p.Send(p.Msg(model.CmdClassifierTypeReply, p.NM(), world.LocalNM(), false, p.DiscoveryRef, model.CmdType{NodeManagementUseCaseData: useCaseData(fmt.Sprintf("reply%d", i))}))
			case "usecase-notify":
				cmd := model.CmdType{NodeManagementUseCaseData: useCaseData(fmt.Sprintf("notify%d", i))}
				if rapid.Bool().Draw(t, fmt.Sprintf("partial%d", i)) {
					cmd.Function = util.Ptr(model.FunctionTypeNodeManagementUseCaseData)
					cmd.Filter = []model.FilterType{*model.NewFilterTypePartial()}
				}
				p.Send(p.Msg(model.CmdClassifierTypeNotify, p.NM(), world.LocalNM(), false, nil, cmd))
			case "disconnect":
				w.Disconnect(p)
				connected = false
			}
			w.Sync()
			seq = append(seq, op)
			check(i, op)
			if quiet {
				w.Events.Drain()
			} else if connected {
				take(i)
			}
		}
		world.Label(fmt.Sprintf("remote-usecase/removed-entity-had-entries=%v", removedWithEntries), fmt.Sprintf("remote-usecase/quiet=%v", quiet))
		world.Record(world.Hash("remote-usecase", seq, removedWithEntries), removedWithEntries && len(snaps) >= 2, "remote-usecase")
		if removedWithEntries && world.WantSample() {
			world.Sample(map[string]any{"kind": "remote-usecase", "history": seq, "data_sets_watched": len(snaps)})
		}
	}))
}
