package c11

import (
	"fmt"
	"reflect"
	"sort"
	"testing"

	"github.com/enbility/spine-go/model"
	"pgregory.net/rapid"

	"verifharness/gen"
	"verifharness/listgen"
	"verifharness/world"
)

// TestNonPersistingOtherFunctions: clause 2 ("an update requested without persistence, and any update reported as
// failed, leave the stored data exactly as it was") for the functions the list histories do not reach: data types
// that are no lists, and list types that take no restricted updates (no identifiers to merge by). Both stores hold
// data; then FeatureRemote.UpdateData(persist=false) without and with filters and a local UpdateData with a filter
// (which fails for such types) are applied; data sets obtained before must not change either.
func TestNonPersistingOtherFunctions(t *testing.T) {
	var fs []gen.Func
	for _, f := range gen.Table() {
		if f.FeatureType == model.FeatureTypeTypeNodeManagement || f.FeatureType == model.FeatureTypeTypeGeneric || f.Fn == model.FunctionTypeDeviceDiagnosisHeartbeatData {
			continue
		}
		if f.IsList && listgen.CapsOf(&f).Keyed {
			continue // TestSnapshots' domain
		}
		fs = append(fs, f)
	}
	sort.Slice(fs, func(i, j int) bool { return fs[i].Fn < fs[j].Fn })
	rapid.Check(t, world.Prop(func(t *rapid.T) {
		f := fs[rapid.IntRange(0, len(fs)-1).Draw(t, "function")]
		e := newEnv(&f)
		defer e.w.Teardown()
		o := gen.Opt{MaxSlice: 2, MaxDepth: 3}
		mk := func(label string) any { return gen.Ptr(t, f.DataType, o, label).Interface() }
		cmdOf := func(payload any) model.CmdType {
			cmd := model.CmdType{}
			reflect.ValueOf(&cmd).Elem().FieldByName(f.CmdField).Set(reflect.ValueOf(payload))
			return cmd
		}
		e.srv.SetData(f.Fn, mk("initL"))
		e.p.Send(e.p.Msg(model.CmdClassifierTypeReply, e.p.FA([]uint{1}, 1), e.cli.Address(), false, e.p.DiscoveryRef, cmdOf(mk("initR"))))
		e.w.Sync()
		e.collectEventPayloads(0)
		e.take("local-DataCopy", e.srv.DataCopy(f.Fn), 0)
		e.take("remote-DataCopy", e.rf.DataCopy(f.Fn), 0)
		n := rapid.IntRange(1, 3).Draw(t, "updates")
		var seq []string
		for i := 1; i <= n; i++ {
			deepL, deepR := world.DeepCopy(e.srv.DataCopy(f.Fn)), world.DeepCopy(e.rf.DataCopy(f.Fn))
			kind := rapid.SampledFrom([]string{"remote-nonpersist/full", "remote-nonpersist/partial", "remote-nonpersist/delete", "local-update/partial"}).Draw(t, fmt.Sprintf("kind%d", i))
			var fp, fd *model.FilterType
			switch kind {
			case "remote-nonpersist/partial", "local-update/partial":
				fp = model.NewFilterTypePartial()
			case "remote-nonpersist/delete":
				fd = &model.FilterType{CmdControl: &model.CmdControlType{Delete: &model.ElementTagType{}}}
			}
			payload := mk(fmt.Sprintf("u%d", i))
			what := "nonpersist"
			if kind == "local-update/partial" {
				if err := e.srv.UpdateData(f.Fn, payload, fp, fd); err == nil {
					// the type took the restricted update after all: a persisting, succeeding update - nothing to judge
					world.Label("other-functions/local-restricted-update-accepted")
					seq = append(seq, kind+"/accepted")
					e.checkSnaps(t, i, kind)
					continue
				}
				what = "failed"
			} else {
				_, _ = e.rf.UpdateData(false, f.Fn, payload, fp, fd)
			}
			e.w.Sync()
			if !sameData(deepL, e.srv.DataCopy(f.Fn)) || !sameData(deepR, e.rf.DataCopy(f.Fn)) {
				world.Fail(t, fmt.Sprintf("C11/%s-changed/%s", what, sigShape(kind)), "step %d (%s, %s) changed the stored data of %s\n local before:  %s\n local after:   %s\n remote before: %s\n remote after:  %s", i, kind, what, f.Fn,
					world.JSON(deepL), world.JSON(world.DeepCopy(e.srv.DataCopy(f.Fn))), world.JSON(deepR), world.JSON(world.DeepCopy(e.rf.DataCopy(f.Fn))))
			}
			e.checkSnaps(t, i, kind)
			e.collectEventPayloads(i)
			seq = append(seq, kind)
			world.Label("other-functions/" + kind)
		}
		world.Record(world.Hash("other", f.Fn, seq), true, "other-functions")
		if world.WantSample() {
			world.Sample(map[string]any{"kind": "other-functions", "function": string(f.Fn), "is_list": f.IsList, "updates": seq})
		}
	}))
}
