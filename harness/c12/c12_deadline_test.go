package c12

import (
	"fmt"
	"sync/atomic"
	"testing"
	"time"

	"github.com/enbility/spine-go/model"
	"pgregory.net/rapid"

	"verifharness/world"
)

// TestTimeoutFromArrival: the approval time-out runs from the arrival of the write, whatever
// approvals come in meanwhile. 2-3 callbacks, at least one of them silent; the others approve at
// drawn moments before the time-out T (the last of them late in the period, at 0.6-0.8 T). The
// error result of the time-out has to be on the writer's connection at 1.5 T after the arrival.
//
// Real time with controls: two timers of the harness (T and 1.5 T) started with the write tell
// whether the machine let timers fire on time (<= 15 ms late); otherwise the case is discarded and
// counted, not judged.
func TestTimeoutFromArrival(t *testing.T) {
	const T = 120 * time.Millisecond
	rapid.Check(t, world.Prop(func(t *rapid.T) {
		nCb := rapid.IntRange(2, 3).Draw(t, "callbacks")
		silent := rapid.IntRange(0, nCb-1).Draw(t, "silentCallback")
		lastAt := time.Duration(rapid.IntRange(60, 80).Draw(t, "lastApprovalPercentOfT")) * T / 100
		e := newEnv(1, nCb)
		defer e.w.Teardown()
		e.srv.SetWriteApprovalTimeout(T)
		p := e.peers[0]
		if !p.CallOK(world.BindCall(p.FA([]uint{1}, 1), e.srv.Address(), model.FeatureTypeTypeAlarm)) {
			t.Fatalf("harness: binding not granted")
		}
		w := write{peer: 0, item: 1, ack: true, counter: 4242}
		var late1, late2 atomic.Int64
		late1.Store(-1)
		late2.Store(-1)
		t0 := time.Now()
		c1 := time.AfterFunc(T, func() { late1.Store(int64(time.Since(t0) - T)) })
		c2 := time.AfterFunc(T*3/2, func() { late2.Store(int64(time.Since(t0) - T*3/2)) })
		defer c1.Stop()
		defer c2.Stop()
		e.send(w)
		sendTook := time.Since(t0)
		// the approvals of the callbacks that answer: spread over (0, lastAt], the last one at lastAt
		var approvers []int
		for c := 0; c < nCb; c++ {
			if c != silent {
				approvers = append(approvers, c)
			}
		}
		ok := waitFor(func() bool {
			for _, c := range approvers {
				if e.msgFor(w, c) == nil {
					return false
				}
			}
			return true
		}, T/4)
		discard := func(why string) {
			world.Record(world.Hash("deadline-discarded", why), false, "deadline/discarded-"+why)
			time.Sleep(2 * T)
			e.w.Sync()
		}
		if !ok || sendTook > T/8 {
			discard("slow-start")
			return
		}
		for i, c := range approvers {
			at := lastAt * time.Duration(i+1) / time.Duration(len(approvers))
			time.Sleep(time.Until(t0.Add(at)))
			e.srv.ApproveOrDenyWrite(e.msgFor(w, c), errType(approve))
		}
		if time.Since(t0) > lastAt+T/10 {
			discard("slow-approvals")
			return
		}
		time.Sleep(time.Until(t0.Add(T * 3 / 2)))
		success, errs := e.outcomes(w)
		// let the controls report
		waitFor(func() bool { return late2.Load() >= 0 }, T)
		l1, l2 := time.Duration(late1.Load()), time.Duration(late2.Load())
		if l1 < 0 || l2 < 0 || l1 > 15*time.Millisecond || l2 > 15*time.Millisecond {
			discard("timers-late")
			return
		}
		if success != 0 || errs != 1 {
			world.Fail(t, "C12/timeout-not-from-arrival", "%d callbacks, callback %d silent, the others approved at up to %v after the arrival (time-out %v): at 1.5 x time-out after the arrival the writer has %d success and %d error results (exactly the error result of the time-out; the harness's own timers were %v and %v late)", nCb, silent, lastAt, T, success, errs, l1, l2)
		}
		time.Sleep(T) // a second outcome would show up by now
		e.w.Sync()
		if s2, e2 := e.outcomes(w); s2 != 0 || e2 != 1 {
			world.Fail(t, "C12/two-outcomes/after-timeout", "after another time-out period the writer has %d success and %d error results", s2, e2)
		}
		if e.description(w.item) == w.marker() {
			world.Fail(t, "C12/unapproved-write-applied/timeout", "the write that timed out was applied")
		}
		world.Record(world.Hash("deadline", nCb, silent, lastAt), true, fmt.Sprintf("deadline/callbacks-%d", nCb))
		if world.WantSample() {
			world.Sample(map[string]any{"kind": "timeout-from-arrival", "callbacks": nCb, "silent_callback": silent, "last_approval_ms": lastAt.Milliseconds(), "timeout_ms": T.Milliseconds()})
		}
	}))
}
