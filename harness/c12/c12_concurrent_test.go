package c12

import (
	"fmt"
	"sync"
	"sync/atomic"
	"testing"
	"time"

	"github.com/enbility/spine-go/api"
	"github.com/enbility/spine-go/model"
	"pgregory.net/rapid"

	"verifharness/world"
)

// TestConcurrentWriters: the free-running form of the property. The connection goroutine of the
// bound peer delivers one write after the other while the application's approval callbacks (the
// stack starts each in its own goroutine) give their verdicts right away, so verdicts for earlier
// writes overlap with the arrival of later ones; a second peer, not bound, keeps writing too
// (refused before approval) and unrelated peers disconnect. Every
// write gets exactly one outcome: success and applied iff every callback approved, one error
// otherwise (denied, or silent until the time-out).
func TestConcurrentWriters(t *testing.T) {
	rapid.Check(t, world.Prop(func(t *rapid.T) {
		nCb := rapid.IntRange(1, 3).Draw(t, "callbacks")
		nW := rapid.IntRange(20, 120).Draw(t, "writes")
		// verdict of callback c for write i
		pattern := rapid.SliceOfN(rapid.SampledFrom([]string{approve, approve, approve, approve, deny, silent}), 7, 7).Draw(t, "pattern")
		verdict := func(i, c int) string { return pattern[(i*3+c*5)%len(pattern)] }
		// some of the writes carry the complete list, without filter: always the same texts, the ones the
		// partial writes set too - so once such a write has been applied, the following ones repeat
		// what the feature holds (a device that sends its values periodically)
		shapes := rapid.SliceOfN(rapid.SampledFrom([]string{"partial", "partial", "partial", "full"}), 5, 5).Draw(t, "shapes")
		complete := []string{"w-0-0", "w-0-1", "w-0-2"}

		e := &env{w: world.New()}
		defer e.w.Teardown()
		e2 := newEnvInto(e, 2)
		_ = e2
		// a short time-out with paced writes makes time-outs of silent writes fire while verdicts for
		// other writes are being given
		T := rapid.SampledFrom([]time.Duration{150 * time.Millisecond, 150 * time.Millisecond, 12 * time.Millisecond}).Draw(t, "timeout")
		pace := time.Duration(rapid.SampledFrom([]int{0, 0, 100, 400}).Draw(t, "paceMicroseconds")) * time.Microsecond
		e.srv.SetWriteApprovalTimeout(T)
		sentAt := make([]atomic.Int64, nW)
		decidedAt := make([]atomic.Int64, nW) // when the last verdict for the write had been taken
		var inCallbacks atomic.Int32
		for c := 0; c < nCb; c++ {
			c := c
			_ = e.srv.AddWriteApprovalCallback(func(msg *api.Message) {
				inCallbacks.Add(1)
				defer inCallbacks.Add(-1)
				if msg.RequestHeader == nil || msg.RequestHeader.MsgCounter == nil {
					return
				}
				i := int(*msg.RequestHeader.MsgCounter) - 5000
				if v := verdict(i, c); v != silent {
					e.srv.ApproveOrDenyWrite(msg, errType(v))
					now := time.Now().UnixNano()
					for {
						old := decidedAt[i].Load()
						if old >= now || decidedAt[i].CompareAndSwap(old, now) {
							break
						}
					}
				}
			})
		}
		p := e.peers[0]
		if !p.CallOK(world.BindCall(p.FA([]uint{1}, 1), e.srv.Address(), model.FeatureTypeTypeAlarm)) {
			t.Fatalf("harness: binding not granted")
		}
		e.w.Sync()
		p.Cap.Drain()

		ws := make([]write, nW)
		for i := range ws {
			ws[i] = write{peer: 0, item: i % 3, ack: true, counter: model.MsgCounterType(5000 + i)}
			if shapes[i%len(shapes)] == "full" {
				ws[i].full, ws[i].payload = true, complete
			}
		}
		// the items a write sets
		itemsOf := func(w write) []int {
			if w.full {
				return []int{0, 1, 2}
			}
			return []int{w.item}
		}
		var stop atomic.Bool
		done := make(chan struct{})
		var wg sync.WaitGroup
		wg.Add(3)
		go func() { // the bound peer's connection
			defer wg.Done()
			for i, w := range ws {
				sentAt[i].Store(time.Now().UnixNano())
				e.send(w)
				if pace > 0 {
					time.Sleep(pace)
				}
			}
		}()
		go func() { // another peer's connection: refused writes
			defer wg.Done()
			for i := 0; i < nW && !stop.Load(); i++ {
				e.send(write{peer: 1, item: 0, ack: true, counter: model.MsgCounterType(5000 + i)})
			}
		}()
		go func() { // other peers come and go, the application reads the data
			defer wg.Done()
			for i := 0; i < 4*nW && !stop.Load(); i++ {
				// what the disconnect of an unrelated peer does on every feature
				e.srv.CleanWriteApprovalCaches("ski-unrelated")
				_ = e.srv.DataCopy(model.FunctionTypeAlarmListData)
				time.Sleep(50 * time.Microsecond)
			}
		}()
		go func() {
			wg.Wait()
			// every write has its outcome at the latest when the time-outs have fired
			waitFor(func() bool {
				for _, w := range ws {
					if s, er := e.outcomes(w); s+er == 0 {
						return false
					}
				}
				return inCallbacks.Load() == 0
			}, 3*time.Second+T)
			close(done)
		}()
		where, detail, inconclusive := world.AwaitOrDiagnose(done, 20*time.Second, 5*time.Minute, 2)
		stop.Store(true)
		if where != "" {
			world.Fail(t, "C12/no-outcome/deadlock/"+where, "%d writes of a bound peer with %d callbacks giving their verdicts at once: the stack did %s", nW, nCb, detail)
		}
		if inconclusive {
			t.Fatalf("inconclusive: the writes were not through after 5 minutes, without evidence of a lock cycle\n%s", detail)
		}
		time.Sleep(T + 10*time.Millisecond) // late duplicates of an outcome would show up by now
		e.w.SyncQuiet(2 * time.Second)

		approved, refused, timedOut, slow := 0, 0, 0, 0
		lastApproved := map[int]int{}
		unsure := map[int]bool{}
		for i, w := range ws {
			all, quiet := true, false
			for c := 0; c < nCb; c++ {
				switch verdict(i, c) {
				case deny:
					all = false
				case silent:
					all, quiet = false, true
				}
			}
			s, er := e.outcomes(w)
			what := fmt.Sprintf("write %d of %d (%s, msgCounter %d, verdicts of the %d callbacks: %v): %d success and %d error results", i, nW, w.shape(), w.counter, nCb, func() (v []string) {
				for c := 0; c < nCb; c++ {
					v = append(v, verdict(i, c))
				}
				return
			}(), s, er)
			switch {
			case all && time.Duration(decidedAt[i].Load()-sentAt[i].Load()) > T/2:
				// the machine was slow: the approvals may have come after the time-out
				slow++
				if s+er != 1 {
					world.Fail(t, "C12/outcome-count/concurrent-arrivals", "%s (exactly one result)", what)
				}
				for _, item := range itemsOf(w) {
					if s == 1 {
						lastApproved[item] = i
					}
					unsure[item] = true
				}
			case all:
				approved++
				for _, item := range itemsOf(w) {
					lastApproved[item] = i
				}
				if s != 1 || er != 0 {
					world.Fail(t, "C12/approved-write/concurrent-arrivals", "every callback approved within half the time-out of %v, but %s (exactly one success result)", T, what)
				}
			default:
				if quiet {
					timedOut++
				} else {
					refused++
				}
				if s != 0 || er != 1 {
					world.Fail(t, "C12/unapproved-write-outcome/concurrent-arrivals", "not approved by every callback, but %s (exactly one error result)", what)
				}
			}
		}
		// the approved writes are applied in the order of their approval, which is not fixed here; an
		// item nobody was allowed to write keeps its initial text, a written item carries the marker
		for item := 0; item < 3; item++ {
			if unsure[item] {
				continue
			}
			_, written := lastApproved[item]
			got := e.description(item)
			if !written && got != "initial" {
				world.Fail(t, "C12/unapproved-write-applied/concurrent-arrivals", "no write of item %d was approved by every callback, but its text is %q", item, got)
			}
			if written && got != fmt.Sprintf("w-0-%d", item) {
				world.Fail(t, "C12/approved-write/concurrent-arrivals-not-applied", "a write of item %d was approved by every callback, but its text is %q", item, got)
			}
		}
		nt := approved > 0 && (refused > 0 || timedOut > 0) && nW >= 20
		labels := []string{fmt.Sprintf("concurrent/callbacks-%d", nCb)}
		if timedOut > 0 {
			labels = append(labels, "concurrent/with-time-outs")
		}
		if timedOut > 0 && time.Duration(nW)*pace > T {
			labels = append(labels, "concurrent/time-outs-fire-while-writes-arrive")
		}
		if slow > 0 {
			labels = append(labels, "concurrent/slow-approvals-not-judged")
		}
		for _, sh := range shapes {
			if sh == "full" {
				labels = append(labels, "concurrent/with-repeated-full-writes")
				break
			}
		}
		world.Record(world.Hash("concurrent", nCb, nW, pattern, shapes), nt, labels...)
		world.AddExtra("concurrent_writes", int64(nW))
		if nt && world.WantSample() {
			world.Sample(map[string]any{"kind": "concurrent-writers", "callbacks": nCb, "writes": nW, "verdict_pattern": pattern, "shape_pattern": shapes, "approved": approved, "denied": refused, "timed_out": timedOut})
		}
	}))
}
