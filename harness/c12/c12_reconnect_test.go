package c12

import (
	"fmt"
	"testing"
	"time"

	"github.com/enbility/spine-go/model"
	"pgregory.net/rapid"

	"verifharness/world"
)

// TestApprovalsAcrossReconnect: a write is pending with some approvals when the writer's
// connection goes; the device connects again, binds again and writes again - message counters
// start over with a connection, so the new write carries the same (SKI, msgCounter). It is judged
// by its own verdicts alone: nothing collected for the old write counts for it, and the old write
// never gets an outcome on the new connection.
func TestApprovalsAcrossReconnect(t *testing.T) {
	rapid.Check(t, world.Prop(func(t *rapid.T) {
		nCb := rapid.IntRange(2, 3).Draw(t, "callbacks")
		e := newEnv(1, nCb)
		defer e.w.Teardown()
		// a longer time-out than elsewhere: the verdicts of the new write have to make it in time
		T := 4 * timeout
		e.srv.SetWriteApprovalTimeout(T)
		tree := e.peers[0].Ents
		bind := func() {
			p := e.peers[0]
			if !p.CallOK(world.BindCall(p.FA([]uint{1}, 1), e.srv.Address(), model.FeatureTypeTypeAlarm)) {
				t.Fatalf("harness: binding not granted")
			}
		}
		bind()
		w1 := write{peer: 0, item: 0, ack: true, counter: 7}
		e.send(w1)
		// some, not all, callbacks approve the first write
		first := rapid.SliceOfN(rapid.Bool(), nCb, nCb).Draw(t, "approvedBeforeDisconnect")
		all := true
		for _, a := range first {
			all = all && a
		}
		if all {
			first[rapid.IntRange(0, nCb-1).Draw(t, "notThisOne")] = false
		}
		if !waitFor(func() bool {
			for c := 0; c < nCb; c++ {
				if e.msgFor(w1, c) == nil {
					return false
				}
			}
			return true
		}, 400*timeout) {
			world.Fail(t, "C12/callback-not-invoked", "approval callbacks not invoked for the first write")
		}
		partly := 0
		for c, a := range first {
			if a {
				e.srv.ApproveOrDenyWrite(e.msgFor(w1, c), errType(approve))
				partly++
			}
		}
		withLateVerdict := rapid.Bool().Draw(t, "lateVerdictForOldWrite")
		// the first write may also have run into its time-out before the connection goes: what was
		// collected for it is no more to count for the new write than in the other case
		timedOutFirst := rapid.Bool().Draw(t, "firstWriteTimedOutBeforeDisconnect")
		if timedOutFirst {
			time.Sleep(T + 15*time.Millisecond)
			e.w.Sync()
		}
		old := e.peers[0]
		e.w.Local.RemoveRemoteDeviceConnection(old.Ski)
		old.Gone = true
		e.w.Sync()
		p := e.w.ReconnectOnly(old)
		p.Announce(tree[1:]) // (Announce adds the device information entity itself)
		e.peers[0] = p
		e.mu.Lock()
		oldCalls := len(e.calls)
		e.mu.Unlock()
		bind()
		w2 := write{peer: 0, item: 1, ack: true, counter: 7}
		for c := 0; c < nCb; c++ {
			w2.verdict = append(w2.verdict, rapid.SampledFrom([]string{approve, approve, deny, silent}).Draw(t, fmt.Sprintf("verdict%d", c)))
		}
		sent := time.Now()
		e.send(w2)
		newMsg := func(c int) bool {
			e.mu.Lock()
			defer e.mu.Unlock()
			for _, cl := range e.calls[oldCalls:] {
				if cl.cb == c {
					return true
				}
			}
			return false
		}
		if !waitFor(func() bool {
			for c := 0; c < nCb; c++ {
				if !newMsg(c) {
					return false
				}
			}
			return true
		}, 400*timeout) {
			world.Fail(t, "C12/callback-not-invoked", "approval callbacks not invoked for the write on the new connection")
		}
		approvedAll := true
		for c, v := range w2.verdict {
			if v != approve {
				approvedAll = false
			}
			if v == silent {
				continue
			}
			e.mu.Lock()
			var m = e.calls[oldCalls:]
			e.mu.Unlock()
			for _, cl := range m {
				if cl.cb == c {
					e.srv.ApproveOrDenyWrite(cl.msg, errType(v))
					break
				}
			}
		}
		if time.Since(sent) > T/2 {
			// the machine is too busy for "in time" to mean anything: the case is not judged
			world.Record(world.Hash("reconnect-discarded"), false, "reconnect/discarded-slow-verdicts")
			time.Sleep(T + 15*time.Millisecond)
			waitFor(func() bool { s, er := e.outcomes(w2); return s+er > 0 }, 400*timeout)
			return
		}
		if withLateVerdict {
			// a verdict for the old write arrives after all that (the application was slow)
			for c, a := range first {
				if !a {
					if m := e.msgFor(write{peer: 0, counter: 7}, c); m != nil {
						e.srv.ApproveOrDenyWrite(m, errType(approve))
					}
					break
				}
			}
		}
		time.Sleep(T + 15*time.Millisecond)
		// every write gets its one outcome, from the verdicts or from the timer: wait for it (on a busy
		// machine the timer can be late; how late is not judged), then a moment more for a second one
		waitFor(func() bool { s, er := e.outcomes(w2); return s+er > 0 }, 400*timeout)
		time.Sleep(10 * time.Millisecond)
		e.w.Sync()
		s, er := e.outcomes(w2)
		applied := e.description(w2.item) == w2.marker()
		what := fmt.Sprintf("%d callbacks; first write (msgCounter 7) approved by %d of them, then (timed out first: %v) the connection went; the device connected again and wrote with msgCounter 7 again, verdicts %v: %d success and %d error results, applied=%v", nCb, partly, timedOutFirst, w2.verdict, s, er, applied)
		if approvedAll {
			if s != 1 || er != 0 || !applied {
				world.Fail(t, "C12/approved-write/after-reconnect", "every callback approved the new write, but %s", what)
			}
		} else if s != 0 || er != 1 || applied {
			world.Fail(t, "C12/unapproved-write-outcome/after-reconnect", "the new write was not approved by every callback, but %s", what)
		}
		if e.description(w1.item) == w1.marker() {
			world.Fail(t, "C12/unapproved-write-applied/after-disconnect", "the first write, which never had all approvals, was applied; %s", what)
		}
		world.Record(world.Hash("reconnect", nCb, first, w2.verdict, withLateVerdict, timedOutFirst), true, fmt.Sprintf("reconnect/callbacks-%d", nCb), fmt.Sprintf("reconnect/first-write-timed-out/%v", timedOutFirst))
		if world.WantSample() {
			world.Sample(map[string]any{"kind": "approvals-across-reconnect", "callbacks": nCb, "approved_before_disconnect": first, "verdicts_new_write": w2.verdict})
		}
	}))
}
