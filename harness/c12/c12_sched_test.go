//go:build verif

package c12

import (
	"fmt"
	"runtime"
	"strconv"
	"strings"
	"sync/atomic"
	"testing"
	"time"

	"github.com/enbility/spine-go/model"
	"github.com/enbility/spine-go/spine"

	"verifharness/world"
)

const approvalPoint = "ApproveOrDenyWrite.afterLookup"

func goid() int64 {
	var buf [64]byte
	n := runtime.Stack(buf[:], false)
	f := strings.Fields(string(buf[:n]))
	if len(f) < 2 {
		return -1
	}
	id, _ := strconv.ParseInt(f[1], 10, 64)
	return id
}

// TestApprovalVsTimeout places the approval time-out deterministically inside the window
// between looking up the pending timer and stopping it: the chosen verdict delivery parks at the
// yield point until the harness has SEEN the time-out's error result, then continues. All
// placements are enumerated: number of callbacks x which delivery parks x verdict of the parked
// delivery (the other callbacks approve before).
func TestApprovalVsTimeout(t *testing.T) {
	reached := 0
	for nCb := 1; nCb <= 3; nCb++ {
		for parkAt := 0; parkAt < nCb; parkAt++ {
			for _, verdict := range []string{approve, deny} {
				nCb, parkAt, verdict := nCb, parkAt, verdict
				world.Guard(func() {
					e := newEnv(1, nCb)
					defer e.w.Teardown()
					p := e.peers[0]
					if !p.CallOK(world.BindCall(p.FA([]uint{1}, 1), e.srv.Address(), model.FeatureTypeTypeAlarm)) {
						t.Fatalf("harness: binding not granted")
					}
					w := write{peer: 0, item: 1, ack: true, counter: 100}
					var target atomic.Int64
					parked := make(chan struct{}, 1)
					resume := make(chan struct{})
					h := func(point string) {
						if point == approvalPoint && goid() == target.Load() {
							parked <- struct{}{}
							<-resume
						}
					}
					spine.VerifYield.Store(&h)
					defer spine.VerifYield.Store(nil)
					p.Cap.Drain()
					e.send(w)
					if !waitFor(func() bool { e.mu.Lock(); defer e.mu.Unlock(); return len(e.calls) >= nCb }, 400*timeout) {
						world.Fail(t, "C12/callback-not-invoked", "callbacks not invoked")
					}
					// the other callbacks approve right away
					for c := 0; c < nCb; c++ {
						if c != parkAt {
							e.srv.ApproveOrDenyWrite(e.msgFor(w, c), errType(approve))
						}
					}
					done := make(chan struct{})
					go func() {
						defer close(done)
						target.Store(goid())
						e.srv.ApproveOrDenyWrite(e.msgFor(w, parkAt), errType(verdict))
					}()
					inWindow := false
					select {
					case <-parked:
						inWindow = true
						reached++
						// wait until the time-out has produced its error result, then let the delivery continue
						if !waitFor(func() bool { _, er := e.outcomes(w); return er >= 1 }, 400*timeout) {
							world.Fail(t, "C12/timeout-missing", "no error result although the approval time-out elapsed")
						}
						close(resume)
					case <-done:
						// yield point not reached (hook removed): the delivery completed before the time-out
					}
					<-done
					waitFor(func() bool { s, er := e.outcomes(w); return s+er > 0 }, 400*timeout) // a late timer is not judged
					time.Sleep(timeout + 10*time.Millisecond)
					e.w.Sync()
					s, er := e.outcomes(w)
					applied := e.description(w.item) == w.marker()
					world.Record(world.Hash("window", nCb, parkAt, verdict), inWindow, "window/"+verdict)
					if inWindow && world.WantSample() {
						world.Sample(map[string]any{"kind": "approval-vs-timeout", "callbacks": nCb, "parked_delivery": parkAt, "verdict": verdict, "results": fmt.Sprintf("success=%d error=%d applied=%v", s, er, applied)})
					}
					if s+er != 1 {
						world.Fail(t, "C12/two-outcomes/approval-racing-timeout", "callbacks=%d, delivery %d (%s) raced the time-out: %d success and %d error results, applied=%v - a write must get exactly one outcome", nCb, parkAt, verdict, s, er, applied)
					}
					if inWindow && (applied || er != 1) {
						world.Fail(t, "C12/applied-after-timeout", "callbacks=%d, delivery %d (%s): the time-out's error result was sent, but applied=%v success=%d error=%d", nCb, parkAt, verdict, applied, s, er)
					}
				})
			}
		}
	}
	world.SetExtra("window_placements_exhaustive", true)
	world.SetExtra("yield_point_reached", reached > 0)
}
