// Package c12: write approval - unanimous, timely, exactly one outcome per write.
package c12

import (
	"fmt"
	"reflect"
	"sort"
	"strings"
	"sync"
	"testing"
	"time"

	"github.com/enbility/spine-go/api"
	"github.com/enbility/spine-go/model"
	"github.com/enbility/spine-go/util"
	"pgregory.net/rapid"

	"verifharness/world"
)

func TestMain(m *testing.M) { world.Main(m) }

const timeout = 25 * time.Millisecond

const (
	approve = "approve"
	deny    = "deny"
	silent  = "silent"
)

// env: a local Alarm server feature with alarm items 0..2; peers with a bound Alarm client each.
type env struct {
	w     *world.World
	srv   api.FeatureLocalInterface
	peers []*world.Peer
	mu    sync.Mutex
	calls []call // invocation log of the approval callbacks
	gates map[string]*gate
}

// gate: a callback that does not return at once. It stays inside the invocation for one write
// until the harness hands it its verdict (which it then gives itself, before returning) or tells it
// to return without one.
type gate struct {
	release  chan string   // the verdict to give from inside the callback; closed: return without a verdict
	done     chan struct{} // closed when the invocation has returned
	entered  bool          // an invocation is (or was) waiting at the gate
	released bool
}

func gateKey(cb int, ski string, counter model.MsgCounterType) string {
	return fmt.Sprintf("%d/%s/%d", cb, ski, counter)
}

// block makes callback cb stay inside its invocation for write w (to be called before the write is sent).
func (e *env) block(w write, cb int) {
	e.mu.Lock()
	defer e.mu.Unlock()
	if e.gates == nil {
		e.gates = map[string]*gate{}
	}
	e.gates[gateKey(cb, e.peers[w.peer].Ski, w.counter)] = &gate{release: make(chan string, 1), done: make(chan struct{})}
}

func (e *env) gateOf(w write, cb int) *gate {
	e.mu.Lock()
	defer e.mu.Unlock()
	return e.gates[gateKey(cb, e.peers[w.peer].Ski, w.counter)]
}

// enter is the callback's side: the first invocation for a gated write waits at the gate.
func (e *env) enter(cb int, msg *api.Message) {
	if msg.RequestHeader == nil || msg.RequestHeader.MsgCounter == nil || msg.DeviceRemote == nil {
		return
	}
	e.mu.Lock()
	g := e.gates[gateKey(cb, msg.DeviceRemote.Ski(), *msg.RequestHeader.MsgCounter)]
	if g == nil || g.entered {
		e.mu.Unlock()
		return
	}
	g.entered = true
	e.mu.Unlock()
	defer close(g.done)
	if v, ok := <-g.release; ok {
		e.srv.ApproveOrDenyWrite(msg, errType(v))
	}
}

// verdictInside lets the waiting invocation give verdict v and return; false: it did not return within max.
func (e *env) verdictInside(g *gate, v string, max time.Duration) bool {
	e.mu.Lock()
	if g.released {
		e.mu.Unlock()
		return true
	}
	g.released = true
	e.mu.Unlock()
	g.release <- v
	select {
	case <-g.done:
		return true
	case <-time.After(max):
		return false
	}
}

// releaseGates lets every invocation that is still waiting return without a verdict (idempotent).
func (e *env) releaseGates() {
	e.mu.Lock()
	defer e.mu.Unlock()
	for _, g := range e.gates {
		if !g.released {
			g.released = true
			close(g.release)
		}
	}
}

type call struct {
	cb  int
	msg *api.Message
}

func newEnv(nPeers, nCallbacks int) *env {
	e := &env{w: world.New()}
	newEnvInto(e, nPeers)
	e.srv.SetWriteApprovalTimeout(timeout)
	for c := 0; c < nCallbacks; c++ {
		c := c
		_ = e.srv.AddWriteApprovalCallback(func(msg *api.Message) {
			e.mu.Lock()
			e.calls = append(e.calls, call{c, msg})
			e.mu.Unlock()
			e.enter(c, msg)
		})
	}
	return e
}

// newEnvInto sets up the server feature and the peers (no callbacks).
func newEnvInto(e *env, nPeers int) *env {
	le := e.w.AddLocalEntity([]uint{1}, model.EntityTypeTypeCEM, time.Second)
	e.srv = e.w.AddLocalFeature(le, world.FeatSpec{Type: model.FeatureTypeTypeAlarm, Role: model.RoleTypeServer,
		Funcs: []world.FuncSpec{{Fn: model.FunctionTypeAlarmListData, Read: true, Write: true}}})
	data := &model.AlarmListDataType{}
	for i := 0; i < 3; i++ {
		data.AlarmListData = append(data.AlarmListData, model.AlarmDataType{AlarmId: util.Ptr(model.AlarmIdType(i)), Description: util.Ptr(model.DescriptionType("initial"))})
	}
	e.srv.SetData(model.FunctionTypeAlarmListData, data)
	for i := 0; i < nPeers; i++ {
		p := e.w.AddPeer(fmt.Sprintf("ski-%d", i+1), fmt.Sprintf("d:_r:peer%d", i+1), []world.EntSpec{{Addr: []uint{1}, Type: model.EntityTypeTypeCEM, Feats: []world.FeatSpec{
			{ID: 1, Type: model.FeatureTypeTypeAlarm, Role: model.RoleTypeClient},
			{ID: 2, Type: model.FeatureTypeTypeAlarm, Role: model.RoleTypeClient},
		}}})
		e.peers = append(e.peers, p)
	}
	return e
}

// write describes one pending write.
type write struct {
	peer     int
	item     int // alarm id it changes
	ack      bool
	ackFalse bool // (ack == false) the header carries "ackRequest": false instead of no ackRequest element
	counter  model.MsgCounterType
	verdict  []string // per callback
	late     []bool   // per callback: delivered after the time-out
	bareDst  bool     // the destination address of the write names no device (the device part is optional)
	// full: a write without filter, carrying the complete list (texts of the items 0..2 in payload).
	// same: its payload is the data the feature holds when the write is sent (the peer writes back
	// what it has read, or repeats what was written before).
	full, same bool
	payload    []string
}

func (w write) marker() string { return fmt.Sprintf("w-%d-%d", w.peer, w.item) }

func (w write) ackForm() string {
	switch {
	case w.ack:
		return "true"
	case w.ackFalse:
		return "false"
	}
	return "absent"
}

func (w write) shape() string {
	switch {
	case w.same:
		return "full-same"
	case w.full:
		return "full"
	}
	return "partial"
}

// fullPayload: the texts a full write with other data than the present ones carries.
func (w write) fullPayload() []string {
	return []string{w.marker() + "/0", w.marker() + "/1", w.marker() + "/2"}
}

// apply folds the write into the texts of the items 0..2.
func (w write) apply(state [3]string) [3]string {
	if w.full {
		copy(state[:], w.payload)
	} else {
		state[w.item] = w.marker()
	}
	return state
}

// callOK is Peer.CallOK without the goroutine barrier (which can not be passed while invocations of
// approval callbacks are waiting for their verdicts): it waits for the result of the call instead.
func (e *env) callOK(p *world.Peer, cmd model.CmdType) bool {
	d := p.Msg(model.CmdClassifierTypeCall, p.NM(), world.LocalNM(), true, nil, cmd)
	p.Send(d)
	n, ok := 0, true
	waitFor(func() bool {
		n, ok = 0, true
		for _, s := range p.Cap.All() {
			if s.Classifier() == model.CmdClassifierTypeResult && s.Ref() != nil && *s.Ref() == *d.Header.MsgCounter {
				n++
				ok = ok && s.ErrorNumber() == 0
			}
		}
		return n > 0
	}, 400*timeout)
	return n == 1 && ok
}

// listOf: the complete list with the given texts for the items 0, 1, ...
func listOf(texts []string) *model.AlarmListDataType {
	list := &model.AlarmListDataType{}
	for i, text := range texts {
		list.AlarmListData = append(list.AlarmListData, model.AlarmDataType{AlarmId: util.Ptr(model.AlarmIdType(i)), Description: util.Ptr(model.DescriptionType(text))})
	}
	return list
}

func (e *env) state() (st [3]string) {
	for i := range st {
		st[i] = e.description(i)
	}
	return
}

func (e *env) send(w write) {
	p := e.peers[w.peer]
	cmd := model.CmdType{
		Function: util.Ptr(model.FunctionTypeAlarmListData),
		Filter:   []model.FilterType{*model.NewFilterTypePartial()},
		AlarmListData: &model.AlarmListDataType{AlarmListData: []model.AlarmDataType{
			{AlarmId: util.Ptr(model.AlarmIdType(w.item)), Description: util.Ptr(model.DescriptionType(w.marker()))},
		}},
	}
	if w.full {
		cmd.Filter = nil
		cmd.AlarmListData = listOf(w.payload)
	}
	dst := *e.srv.Address()
	if w.bareDst {
		dst.Device = nil
	}
	d := p.Msg(model.CmdClassifierTypeWrite, p.FA([]uint{1}, 1), &dst, w.ack, nil, cmd)
	c := w.counter
	d.Header.MsgCounter = &c
	if !w.ack && w.ackFalse {
		d.Header.AckRequest = util.Ptr(false)
	}
	p.Send(d)
}

func (e *env) description(item int) string {
	data, _ := e.srv.DataCopy(model.FunctionTypeAlarmListData).(*model.AlarmListDataType)
	if data == nil {
		return "<nil>"
	}
	for _, a := range data.AlarmListData {
		if a.AlarmId != nil && int(*a.AlarmId) == item && a.Description != nil {
			return string(*a.Description)
		}
	}
	return "<missing>"
}

// outcomes returns the results on the writer's connection that reference the write.
func (e *env) outcomes(w write) (success, errors int) {
	for _, s := range e.peers[w.peer].Cap.All() {
		if s.Classifier() == model.CmdClassifierTypeResult && s.Ref() != nil && *s.Ref() == w.counter {
			if s.ErrorNumber() == 0 {
				success++
			} else {
				errors++
			}
		}
	}
	return
}

func (e *env) msgFor(w write, cb int) *api.Message {
	e.mu.Lock()
	defer e.mu.Unlock()
	for _, c := range e.calls {
		if c.cb == cb && c.msg.RequestHeader != nil && c.msg.RequestHeader.MsgCounter != nil && *c.msg.RequestHeader.MsgCounter == w.counter &&
			c.msg.DeviceRemote != nil && c.msg.DeviceRemote.Ski() == e.peers[w.peer].Ski {
			return c.msg
		}
	}
	return nil
}

func errType(v string) model.ErrorType {
	if v == approve {
		return model.ErrorType{ErrorNumber: 0}
	}
	return model.ErrorType{ErrorNumber: model.ErrorNumberTypeGeneralError, Description: util.Ptr(model.DescriptionType("denied by the application"))}
}

func waitFor(cond func() bool, max time.Duration) bool {
	deadline := time.Now().Add(max)
	for !cond() {
		if time.Now().After(deadline) {
			return false
		}
		time.Sleep(500 * time.Microsecond)
	}
	return true
}

func describe(ws []write) string {
	var l []string
	for _, w := range ws {
		l = append(l, fmt.Sprintf("write peer%d item%d %s counter=%d ackRequest=%s verdicts=%v late=%v", w.peer+1, w.item, w.shape(), w.counter, w.ackForm(), w.verdict, w.late))
	}
	return "\n " + strings.Join(l, "\n ")
}

// bindAll binds feature 1 of peer 0 and, for further peers, cannot (single binding): therefore the
// second peer writes through its own server feature - see newEnv2.
func TestApprovalMatrix(t *testing.T) {
	rapid.Check(t, world.Prop(func(t *rapid.T) {
		nCb := rapid.IntRange(1, 3).Draw(t, "callbacks")
		nW := rapid.IntRange(1, 3).Draw(t, "writes")
		e := newEnv(2, nCb)
		defer e.w.Teardown()
		defer e.releaseGates() // (before the teardown) no invocation stays behind, however the case ends
		// how a callback gives its verdicts: from outside after having returned at once (the application
		// decides later), or from inside the invocation, which lasts until the verdict is due - for a
		// silent callback until the case is over
		blocking := make([]bool, nCb)
		anyBlocking := false
		for c := range blocking {
			blocking[c] = rapid.IntRange(0, 3).Draw(t, fmt.Sprintf("verdictsFromInsideCallback%d", c)) == 0
			anyBlocking = anyBlocking || blocking[c]
		}
		var ws []write
		used := map[string]bool{}
		for i := 0; i < nW; i++ {
			w := write{peer: rapid.IntRange(0, 1).Draw(t, fmt.Sprintf("peer%d", i)), item: i}
			// the header asks for an acknowledgement, says nothing about it, or declines it explicitly
			switch rapid.SampledFrom([]string{"true", "true", "true", "absent", "false"}).Draw(t, fmt.Sprintf("ackRequest%d", i)) {
			case "true":
				w.ack = true
			case "false":
				w.ackFalse = true
			}
			w.bareDst = rapid.IntRange(0, 3).Draw(t, fmt.Sprintf("destinationWithoutDevice%d", i)) == 0
			// equal message counters on different peers are allowed (and wanted)
			w.counter = model.MsgCounterType(100 + rapid.IntRange(0, 2).Draw(t, fmt.Sprintf("counter%d", i)))
			for used[fmt.Sprint(w.peer, w.counter)] {
				w.counter++
			}
			used[fmt.Sprint(w.peer, w.counter)] = true
			for c := 0; c < nCb; c++ {
				w.verdict = append(w.verdict, rapid.SampledFrom([]string{approve, approve, approve, deny, silent}).Draw(t, fmt.Sprintf("verdict%d.%d", i, c)))
				w.late = append(w.late, rapid.IntRange(0, 5).Draw(t, fmt.Sprintf("late%d.%d", i, c)) == 0)
			}
			switch rapid.SampledFrom([]string{"partial", "partial", "partial", "partial", "full-same", "full-same", "full"}).Draw(t, fmt.Sprintf("shape%d", i)) {
			case "full-same":
				w.full, w.same = true, true // the payload is taken when the write is sent
			case "full":
				w.full, w.payload = true, w.fullPayload()
			}
			ws = append(ws, w)
		}
		// delivery order: a drawn permutation of all (write, callback) pairs
		type vd struct{ w, c int }
		var order []vd
		for i := range ws {
			for c := 0; c < nCb; c++ {
				order = append(order, vd{i, c})
			}
		}
		perm := rapid.Permutation(order).Draw(t, "order")
		// a writing peer may announce the entity its writes come from once more (detailed discovery
		// notification, lastStateChange "added", the same features) while the writes are pending: the
		// stack replaces its objects for that entity's features; the pending writes are not affected
		reannounce := make([]bool, 2)
		for pi := range reannounce {
			writes := false
			for _, w := range ws {
				writes = writes || w.peer == pi
			}
			reannounce[pi] = rapid.IntRange(0, 3).Draw(t, fmt.Sprintf("peer%dAnnouncesItsEntityAgainWhilePending", pi)) == 0 && writes
		}
		for _, w := range ws {
			for c := 0; c < nCb; c++ {
				if blocking[c] {
					e.block(w, c)
				}
			}
		}
		initial := e.state()
		// a server feature has one binding at a time: the binding is handed to the writer before
		// each write (authorisation is checked when the write arrives; it then stays pending)
		holder := -1
		var sent []time.Time
		call := func(p *world.Peer, cmd model.CmdType) bool {
			if anyBlocking {
				return e.callOK(p, cmd)
			}
			return p.CallOK(cmd)
		}
		for i := range ws {
			w := &ws[i]
			if holder != w.peer {
				if holder >= 0 {
					h := e.peers[holder]
					call(h, world.UnbindCall(h.FA([]uint{1}, 1), e.srv.Address()))
				}
				p := e.peers[w.peer]
				if !call(p, world.BindCall(p.FA([]uint{1}, 1), e.srv.Address(), model.FeatureTypeTypeAlarm)) {
					t.Fatalf("harness: binding not granted")
				}
				holder = w.peer
			}
			if w.same {
				now := e.state()
				w.payload = now[:]
				if !reflect.DeepEqual(e.srv.DataCopy(model.FunctionTypeAlarmListData), listOf(w.payload)) {
					t.Fatalf("harness: the repeated payload is not the data the feature holds")
				}
			}
			sent = append(sent, time.Now())
			e.send(*w)
		}
		// every callback is invoked once per write, whether or not the invocations of the other callbacks have returned
		if !waitFor(func() bool { e.mu.Lock(); defer e.mu.Unlock(); return len(e.calls) >= nW*nCb }, 400*timeout) {
			e.mu.Lock()
			n := len(e.calls)
			e.mu.Unlock()
			world.Fail(t, "C12/callback-not-invoked", "%d approval callback invocations for %d writes x %d callbacks (callbacks whose invocation lasts until the verdict is given: %v)%s", n, nW, nCb, blocking, describe(ws))
		}
		announced := ""
		if reannounce[0] || reannounce[1] {
			announced = fmt.Sprintf("\n peers that announced entity [1] again (added, same features) after their writes had arrived and before the verdicts: %v", reannounce)
		}
		replaced := 0
		for pi, again := range reannounce {
			if !again {
				continue
			}
			p := e.peers[pi]
			before := p.Feature([]uint{1}, 1)
			var ent []world.EntSpec
			for _, es := range p.Ents {
				if len(es.Addr) == 1 && es.Addr[0] == 1 {
					ent = append(ent, es)
				}
			}
			added := model.NetworkManagementStateChangeTypeAdded
			cmd := model.CmdType{Function: util.Ptr(model.FunctionTypeNodeManagementDetailedDiscoveryData), Filter: []model.FilterType{*model.NewFilterTypePartial()},
				NodeManagementDetailedDiscoveryData: p.DiscoveryData(ent, &added)}
			p.Send(p.Msg(model.CmdClassifierTypeNotify, p.NM(), world.LocalNM(), false, nil, cmd))
			if p.Feature([]uint{1}, 1) != before {
				replaced++
			}
		}
		// give hands the verdict of callback c for write w to the stack: from the test goroutine, or from
		// inside the waiting invocation (and waits until that invocation has returned)
		stuck := false
		give := func(w write, c int, msg *api.Message) {
			if g := e.gateOf(w, c); g != nil {
				if !e.verdictInside(g, w.verdict[c], 30*time.Second) {
					stuck = true
				}
				return
			}
			e.srv.ApproveOrDenyWrite(msg, errType(w.verdict[c]))
		}
		for _, v := range perm {
			w := ws[v.w]
			if w.verdict[v.c] == silent || w.late[v.c] {
				continue
			}
			msg := e.msgFor(w, v.c)
			if msg == nil {
				world.Fail(t, "C12/callback-wrong-message", "callback %d was not invoked with the message of %s%s", v.c, w.marker(), describe(ws)+announced)
			}
			give(w, v.c, msg)
		}
		early := time.Duration(0)
		for i := range ws {
			if d := time.Since(sent[i]); d > early {
				early = d
			}
		}
		if early > timeout/2 || stuck {
			// the harness was too slow to be sure the early verdicts arrived before the time-out
			world.Record(world.Hash("discarded"), false, "discarded/slow-harness")
			e.releaseGates()
			time.Sleep(2 * timeout)
			e.w.Sync()
			return
		}
		// the writes every callback approved in time, and what the data may be afterwards: the statement
		// does not fix the order in which approved writes are applied, so every order is accepted (with
		// partial writes of different items all orders give the same data)
		var approved []write
		isApproved := func(w write) bool {
			for c := range w.verdict {
				if w.verdict[c] != approve || w.late[c] {
					return false
				}
			}
			return true
		}
		for _, w := range ws {
			if isApproved(w) {
				approved = append(approved, w)
			}
		}
		allowed := map[[3]string]bool{}
		var fold func(st [3]string, rest []write)
		fold = func(st [3]string, rest []write) {
			if len(rest) == 0 {
				allowed[st] = true
				return
			}
			for i := range rest {
				var others []write
				others = append(others, rest[:i]...)
				others = append(others, rest[i+1:]...)
				fold(rest[i].apply(st), others)
			}
		}
		fold(initial, approved)
		// wait until every write has an outcome (the silent / late ones time out)
		expectOutcome := func(w write) bool {
			if isApproved(w) && !w.ack {
				return allowed[e.state()]
			}
			s, er := e.outcomes(w)
			return s+er >= 1
		}
		waitFor(func() bool {
			for _, w := range ws {
				if !expectOutcome(w) {
					return false
				}
			}
			return true
		}, 400*timeout)
		// late verdicts
		for _, v := range perm {
			w := ws[v.w]
			if w.verdict[v.c] == silent || !w.late[v.c] {
				continue
			}
			if msg := e.msgFor(w, v.c); msg != nil {
				give(w, v.c, msg)
			}
		}
		time.Sleep(timeout + 10*time.Millisecond) // a second outcome would show up now
		e.releaseGates()                          // the invocations of the silent callbacks end
		e.w.Sync()
		if stuck {
			world.Record(world.Hash("discarded"), false, "discarded/slow-harness")
			return
		}

		// ---- judge each write from its own verdict row only
		e.mu.Lock()
		perKey := map[string]int{}
		for _, c := range e.calls {
			ctr := uint64(0)
			if c.msg.RequestHeader != nil && c.msg.RequestHeader.MsgCounter != nil {
				ctr = uint64(*c.msg.RequestHeader.MsgCounter)
			}
			ski := ""
			if c.msg.DeviceRemote != nil {
				ski = c.msg.DeviceRemote.Ski()
			}
			perKey[fmt.Sprintf("%d/%s/%d", c.cb, ski, ctr)]++
		}
		e.mu.Unlock()
		nt := nW >= 2
		var rows []string
		final := e.state()
		approvedFulls := 0
		for _, w := range approved {
			if w.full {
				approvedFulls++
			}
		}
		for _, w := range ws {
			for c := 0; c < nCb; c++ {
				if n := perKey[fmt.Sprintf("%d/%s/%d", c, e.peers[w.peer].Ski, w.counter)]; n != 1 {
					world.Fail(t, "C12/callback-count", "callback %d was invoked %d times for %s%s", c, n, w.marker(), describe(ws)+announced)
				}
			}
			approvedEarly := isApproved(w)
			for c := range w.verdict {
				if w.late[c] && w.verdict[c] != silent {
					nt = true
				}
			}
			s, er := e.outcomes(w)
			// is the write visible in the data? (a write that repeats the present data never is; an approved
			// full write may have replaced what another approved write had written)
			visible, hidden := false, w.same
			switch {
			case w.same:
			case w.full:
				for i, text := range w.payload {
					visible = visible || final[i] == text
				}
				hidden = approvedFulls > 1
			default:
				visible = final[w.item] == w.marker()
				hidden = approvedFulls > 0
			}
			rows = append(rows, fmt.Sprintf("%s/%v/%v/%s", w.shape(), w.verdict, w.late, w.ackForm()))
			what := fmt.Sprintf("%s (%s): success results=%d error results=%d, visible in the data=%v (items now %q)", w.marker(), w.shape(), s, er, visible, final)
			if approvedEarly {
				wantS := 0
				if w.ack {
					wantS = 1
				}
				missing := !visible && !hidden
				if missing || er != 0 || s != wantS {
					kind := "not-applied"
					if !missing {
						kind = "result-count"
					}
					if er > 0 && !visible {
						kind = "timed-out-although-approved"
					}
					world.Fail(t, fmt.Sprintf("C12/approved-write/%s/pending-%d", kind, nW), "every callback approved %s in time, but %s%s", w.marker(), what, describe(ws)+announced)
				}
			} else {
				if visible {
					world.Fail(t, fmt.Sprintf("C12/unapproved-write-applied/pending-%d", nW), "%s was not approved by every callback in time, but %s%s", w.marker(), what, describe(ws)+announced)
				}
				if er != 1 || s != 0 {
					world.Fail(t, fmt.Sprintf("C12/unapproved-write-outcome/pending-%d", nW), "%s must get exactly one error result, but %s%s", w.marker(), what, describe(ws)+announced)
				}
			}
		}
		// the data are those of the approved writes applied (in some order) to the initial data, nothing else
		if !allowed[final] {
			var l []string
			for st := range allowed {
				l = append(l, fmt.Sprintf("%q", st))
			}
			sort.Strings(l)
			world.Fail(t, fmt.Sprintf("C12/data-not-of-approved-writes/pending-%d", nW), "%d writes were approved by every callback in time; the items are now %q, with the approved writes applied in any order they would be one of %s%s", len(approved), final, strings.Join(l, " | "), describe(ws)+announced)
		}
		sort.Strings(rows)
		labels := []string{fmt.Sprintf("callbacks/%d", nCb), fmt.Sprintf("pending/%d", nW)}
		if anyBlocking {
			labels = append(labels, "matrix/verdicts-from-inside-a-callback")
		}
		for _, sh := range []string{"full", "full-same"} {
			for _, w := range ws {
				if w.shape() == sh {
					labels = append(labels, "matrix/write-"+sh)
					break
				}
			}
		}
		if reannounce[0] || reannounce[1] {
			labels = append(labels, "matrix/writer-entity-announced-again-while-pending")
			if replaced > 0 {
				labels = append(labels, "matrix/writer-feature-objects-replaced-while-pending")
			}
		}
		world.Record(world.Hash(nCb, rows, fmt.Sprint(perm), blocking, reannounce), nt, labels...)
		if nt && world.WantSample() {
			world.Sample(map[string]any{"callbacks": nCb, "verdicts_from_inside_callback": blocking, "peers_announcing_their_entity_again_while_pending": reannounce, "writes": strings.Split(strings.TrimSpace(describe(ws)), "\n "), "delivery_order": fmt.Sprint(perm)})
		}
	}))
}

// TestStaggeredWrites: pending writes whose approval windows overlap only partly. Group-0 writes are
// sent at t0, group-1 writes half a time-out later; verdicts are delivered "early" (right after
// the write's group was sent), "mid" (for group 0: together with group 1's early verdicts; for
// group 1: right after the time-outs of group 0 fired, i.e. still before its own time-out) or
// "late" (after the write's own time-out). A write whose callbacks all approve in phases early/mid
// must be applied whatever happened to the other writes in between - in particular the time-out of
// another write of the same peer must not disturb it.
func TestStaggeredWrites(t *testing.T) {
	const T = 60 * time.Millisecond
	type sw struct {
		write
		group int
		phase []int // per callback: 0 early, 1 mid, 2 late
		sent  time.Time
	}
	rapid.Check(t, world.Prop(func(t *rapid.T) {
		nCb := rapid.IntRange(2, 3).Draw(t, "callbacks")
		nW := rapid.IntRange(2, 3).Draw(t, "writes")
		e := newEnv(1, nCb)
		defer e.w.Teardown()
		e.srv.SetWriteApprovalTimeout(T)
		p := e.peers[0]
		if !p.CallOK(world.BindCall(p.FA([]uint{1}, 1), e.srv.Address(), model.FeatureTypeTypeAlarm)) {
			t.Fatalf("harness: binding not granted")
		}
		var ws []*sw
		for i := 0; i < nW; i++ {
			w := &sw{write: write{peer: 0, item: i, ack: true, counter: model.MsgCounterType(200 + i)}, group: i % 2}
			if i == 2 {
				w.group = rapid.IntRange(0, 1).Draw(t, "group2")
			}
			for c := 0; c < nCb; c++ {
				w.verdict = append(w.verdict, rapid.SampledFrom([]string{approve, approve, approve, approve, deny, silent}).Draw(t, fmt.Sprintf("verdict%d.%d", i, c)))
				w.phase = append(w.phase, rapid.SampledFrom([]int{0, 0, 1, 1, 2}).Draw(t, fmt.Sprintf("phase%d.%d", i, c)))
			}
			ws = append(ws, w)
		}
		discard := func(why string) {
			world.Record(world.Hash("discarded", why), false, "discarded/"+why)
			time.Sleep(2 * T)
			e.w.Sync()
		}
		deliver := func(group, phase int) {
			for _, w := range ws {
				for c := range w.verdict {
					if w.group == group && w.phase[c] == phase && w.verdict[c] != silent {
						if msg := e.msgFor(w.write, c); msg != nil {
							e.srv.ApproveOrDenyWrite(msg, errType(w.verdict[c]))
						}
					}
				}
			}
		}
		sendGroup := func(g int) bool {
			n := 0
			for _, w := range ws {
				if w.group == g {
					w.sent = time.Now()
					e.send(w.write)
					n++
				}
			}
			e.mu.Lock()
			have := len(e.calls)
			e.mu.Unlock()
			_ = have
			return waitFor(func() bool {
				e.mu.Lock()
				defer e.mu.Unlock()
				cnt := 0
				for _, c := range e.calls {
					for _, w := range ws {
						if w.group <= g && c.msg.RequestHeader != nil && c.msg.RequestHeader.MsgCounter != nil && *c.msg.RequestHeader.MsgCounter == w.counter {
							cnt++
						}
					}
				}
				want := 0
				for _, w := range ws {
					if w.group <= g {
						want += nCb
					}
				}
				return cnt >= want
			}, 20*T)
		}
		outcome := func(w *sw) bool { s, er := e.outcomes(w.write); return s+er >= 1 }
		t0 := time.Now()
		if !sendGroup(0) {
			world.Fail(t, "C12/callback-not-invoked", "approval callbacks not invoked for the first group")
		}
		deliver(0, 0)
		if time.Since(t0) > T/4 {
			discard("slow-early-0")
			return
		}
		time.Sleep(time.Until(t0.Add(T / 2)))
		t1 := time.Now()
		if !sendGroup(1) {
			world.Fail(t, "C12/callback-not-invoked", "approval callbacks not invoked for the second group")
		}
		deliver(1, 0)
		deliver(0, 1)
		if time.Since(t1) > T/4 || time.Since(t0) > T*8/10 {
			discard("slow-early-1")
			return
		}
		// the time-outs of group 0 fire at t0+T; wait until every group-0 write has its outcome
		waitFor(func() bool {
			for _, w := range ws {
				if w.group == 0 && !outcome(w) {
					return false
				}
			}
			return time.Since(t0) > T
		}, 20*T)
		deliver(1, 1)
		if time.Since(t1) > T*8/10 {
			discard("slow-mid-1")
			return
		}
		waitFor(func() bool {
			for _, w := range ws {
				if !outcome(w) {
					return false
				}
			}
			return true
		}, 20*T)
		deliver(0, 2)
		deliver(1, 2)
		time.Sleep(T + 10*time.Millisecond)
		e.w.Sync()
		var rows []string
		nt := false
		for _, w := range ws {
			approvedInTime := true
			for c := range w.verdict {
				if w.verdict[c] != approve || w.phase[c] == 2 {
					approvedInTime = false
				}
				if w.group == 1 && w.phase[c] == 1 && w.verdict[c] != silent {
					nt = true // a verdict between another write's time-out and the own one
				}
			}
			s, er := e.outcomes(w.write)
			applied := e.description(w.item) == w.marker()
			rows = append(rows, fmt.Sprintf("g%d %v %v", w.group, w.verdict, w.phase))
			what := fmt.Sprintf("write %s (group %d, verdicts %v, phases %v): success results=%d error results=%d applied=%v", w.marker(), w.group, w.verdict, w.phase, s, er, applied)
			all := ""
			for _, x := range ws {
				all += fmt.Sprintf("\n  %s group %d verdicts %v phases %v", x.marker(), x.group, x.verdict, x.phase)
			}
			if approvedInTime {
				if !applied || s != 1 || er != 0 {
					world.Fail(t, "C12/approved-write/disturbed-by-other-write", "every callback approved in time, but %s\n all writes (T=%v, group 1 sent at T/2, phase 1 of group 1 = after the time-outs of group 0):%s", what, T, all)
				}
			} else {
				if applied || er != 1 || s != 0 {
					world.Fail(t, "C12/unapproved-write-outcome/staggered", "not approved by every callback in time, but %s\n all writes:%s", what, all)
				}
			}
		}
		world.Record(world.Hash("staggered", nCb, rows), nt, fmt.Sprintf("staggered/callbacks-%d", nCb))
		if nt && world.WantSample() {
			world.Sample(map[string]any{"kind": "staggered", "callbacks": nCb, "writes": rows})
		}
	}))
}
