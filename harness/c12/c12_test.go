// Package c12: write approval - unanimous, timely, exactly one outcome per write.
package c12

import (
	"fmt"
	"sort"
	"strings"
	"sync"
	"testing"
	"time"

	"github.com/enbility/spine-go/api"
	"github.com/enbility/spine-go/model"
	"github.com/enbility/spine-go/util"
	"pgregory.net/rapid"

	"verifharness/world"
)

func TestMain(m *testing.M) { world.Main(m) }

const timeout = 25 * time.Millisecond

const (
	approve = "approve"
	deny    = "deny"
	silent  = "silent"
)

// env: a local Alarm server feature with alarm items 0..2; peers with a bound Alarm client each.
type env struct {
	w     *world.World
	srv   api.FeatureLocalInterface
	peers []*world.Peer
	mu    sync.Mutex
	calls []call // invocation log of the approval callbacks
}

type call struct {
	cb  int
	msg *api.Message
}

func newEnv(nPeers, nCallbacks int) *env {
	e := &env{w: world.New()}
	newEnvInto(e, nPeers)
	e.srv.SetWriteApprovalTimeout(timeout)
	for c := 0; c < nCallbacks; c++ {
		c := c
		_ = e.srv.AddWriteApprovalCallback(func(msg *api.Message) {
			e.mu.Lock()
			e.calls = append(e.calls, call{c, msg})
			e.mu.Unlock()
		})
	}
	return e
}

// newEnvInto sets up the server feature and the peers (no callbacks).
func newEnvInto(e *env, nPeers int) *env {
	le := e.w.AddLocalEntity([]uint{1}, model.EntityTypeTypeCEM, time.Second)
	e.srv = e.w.AddLocalFeature(le, world.FeatSpec{Type: model.FeatureTypeTypeAlarm, Role: model.RoleTypeServer,
		Funcs: []world.FuncSpec{{Fn: model.FunctionTypeAlarmListData, Read: true, Write: true}}})
	data := &model.AlarmListDataType{}
	for i := 0; i < 3; i++ {
		data.AlarmListData = append(data.AlarmListData, model.AlarmDataType{AlarmId: util.Ptr(model.AlarmIdType(i)), Description: util.Ptr(model.DescriptionType("initial"))})
	}
	e.srv.SetData(model.FunctionTypeAlarmListData, data)
	for i := 0; i < nPeers; i++ {
		p := e.w.AddPeer(fmt.Sprintf("ski-%d", i+1), fmt.Sprintf("d:_r:peer%d", i+1), []world.EntSpec{{Addr: []uint{1}, Type: model.EntityTypeTypeCEM, Feats: []world.FeatSpec{
			{ID: 1, Type: model.FeatureTypeTypeAlarm, Role: model.RoleTypeClient},
			{ID: 2, Type: model.FeatureTypeTypeAlarm, Role: model.RoleTypeClient},
		}}})
		e.peers = append(e.peers, p)
	}
	return e
}

// write describes one pending write.
type write struct {
	peer    int
	item    int // alarm id it changes
	ack     bool
	counter model.MsgCounterType
	verdict []string // per callback
	late    []bool   // per callback: delivered after the time-out
	bareDst bool     // the destination address of the write names no device (the device part is optional)
}

func (w write) marker() string { return fmt.Sprintf("w-%d-%d", w.peer, w.item) }

func (e *env) send(w write) {
	p := e.peers[w.peer]
	cmd := model.CmdType{
		Function: util.Ptr(model.FunctionTypeAlarmListData),
		Filter:   []model.FilterType{*model.NewFilterTypePartial()},
		AlarmListData: &model.AlarmListDataType{AlarmListData: []model.AlarmDataType{
			{AlarmId: util.Ptr(model.AlarmIdType(w.item)), Description: util.Ptr(model.DescriptionType(w.marker()))},
		}},
	}
	dst := *e.srv.Address()
	if w.bareDst {
		dst.Device = nil
	}
	d := p.Msg(model.CmdClassifierTypeWrite, p.FA([]uint{1}, 1), &dst, w.ack, nil, cmd)
	c := w.counter
	d.Header.MsgCounter = &c
	p.Send(d)
}

func (e *env) description(item int) string {
	data, _ := e.srv.DataCopy(model.FunctionTypeAlarmListData).(*model.AlarmListDataType)
	if data == nil {
		return "<nil>"
	}
	for _, a := range data.AlarmListData {
		if a.AlarmId != nil && int(*a.AlarmId) == item && a.Description != nil {
			return string(*a.Description)
		}
	}
	return "<missing>"
}

// outcomes returns the results on the writer's connection that reference the write.
func (e *env) outcomes(w write) (success, errors int) {
	for _, s := range e.peers[w.peer].Cap.All() {
		if s.Classifier() == model.CmdClassifierTypeResult && s.Ref() != nil && *s.Ref() == w.counter {
			if s.ErrorNumber() == 0 {
				success++
			} else {
				errors++
			}
		}
	}
	return
}

func (e *env) msgFor(w write, cb int) *api.Message {
	e.mu.Lock()
	defer e.mu.Unlock()
	for _, c := range e.calls {
		if c.cb == cb && c.msg.RequestHeader != nil && c.msg.RequestHeader.MsgCounter != nil && *c.msg.RequestHeader.MsgCounter == w.counter &&
			c.msg.DeviceRemote != nil && c.msg.DeviceRemote.Ski() == e.peers[w.peer].Ski {
			return c.msg
		}
	}
	return nil
}

func errType(v string) model.ErrorType {
	if v == approve {
		return model.ErrorType{ErrorNumber: 0}
	}
	return model.ErrorType{ErrorNumber: model.ErrorNumberTypeGeneralError, Description: util.Ptr(model.DescriptionType("denied by the application"))}
}

func waitFor(cond func() bool, max time.Duration) bool {
	deadline := time.Now().Add(max)
	for !cond() {
		if time.Now().After(deadline) {
			return false
		}
		time.Sleep(500 * time.Microsecond)
	}
	return true
}

func describe(ws []write) string {
	var l []string
	for _, w := range ws {
		l = append(l, fmt.Sprintf("write peer%d item%d counter=%d ack=%v verdicts=%v late=%v", w.peer+1, w.item, w.counter, w.ack, w.verdict, w.late))
	}
	return "\n " + strings.Join(l, "\n ")
}

// bindAll binds feature 1 of peer 0 and, for further peers, cannot (single binding): therefore the
// second peer writes through its own server feature - see newEnv2.
func TestApprovalMatrix(t *testing.T) {
	rapid.Check(t, world.Prop(func(t *rapid.T) {
		nCb := rapid.IntRange(1, 3).Draw(t, "callbacks")
		nW := rapid.IntRange(1, 3).Draw(t, "writes")
		e := newEnv(2, nCb)
		defer e.w.Teardown()
		var ws []write
		used := map[string]bool{}
		for i := 0; i < nW; i++ {
			w := write{peer: rapid.IntRange(0, 1).Draw(t, fmt.Sprintf("peer%d", i)), item: i, ack: rapid.IntRange(0, 3).Draw(t, fmt.Sprintf("ack%d", i)) != 0}
			w.bareDst = rapid.IntRange(0, 3).Draw(t, fmt.Sprintf("destinationWithoutDevice%d", i)) == 0
			// equal message counters on different peers are allowed (and wanted)
			w.counter = model.MsgCounterType(100 + rapid.IntRange(0, 2).Draw(t, fmt.Sprintf("counter%d", i)))
			for used[fmt.Sprint(w.peer, w.counter)] {
				w.counter++
			}
			used[fmt.Sprint(w.peer, w.counter)] = true
			for c := 0; c < nCb; c++ {
				w.verdict = append(w.verdict, rapid.SampledFrom([]string{approve, approve, approve, deny, silent}).Draw(t, fmt.Sprintf("verdict%d.%d", i, c)))
				w.late = append(w.late, rapid.IntRange(0, 5).Draw(t, fmt.Sprintf("late%d.%d", i, c)) == 0)
			}
			ws = append(ws, w)
		}
		// delivery order: a drawn permutation of all (write, callback) pairs
		type vd struct{ w, c int }
		var order []vd
		for i := range ws {
			for c := 0; c < nCb; c++ {
				order = append(order, vd{i, c})
			}
		}
		perm := rapid.Permutation(order).Draw(t, "order")
		// a server feature has one binding at a time: the binding is handed to the writer before
		// each write (authorisation is checked when the write arrives; it then stays pending)
		holder := -1
		begin := time.Now()
		var sent []time.Time
		for _, w := range ws {
			if holder != w.peer {
				if holder >= 0 {
					h := e.peers[holder]
					h.CallOK(world.UnbindCall(h.FA([]uint{1}, 1), e.srv.Address()))
				}
				p := e.peers[w.peer]
				if !p.CallOK(world.BindCall(p.FA([]uint{1}, 1), e.srv.Address(), model.FeatureTypeTypeAlarm)) {
					t.Fatalf("harness: binding not granted")
				}
				holder = w.peer
			}
			sent = append(sent, time.Now())
			e.send(w)
		}
		_ = begin
		// every callback is invoked once per write
		if !waitFor(func() bool { e.mu.Lock(); defer e.mu.Unlock(); return len(e.calls) >= nW*nCb }, 400*timeout) {
			e.mu.Lock()
			n := len(e.calls)
			e.mu.Unlock()
			world.Fail(t, "C12/callback-not-invoked", "%d approval callback invocations for %d writes x %d callbacks%s", n, nW, nCb, describe(ws))
		}
		for _, v := range perm {
			w := ws[v.w]
			if w.verdict[v.c] == silent || w.late[v.c] {
				continue
			}
			msg := e.msgFor(w, v.c)
			if msg == nil {
				world.Fail(t, "C12/callback-wrong-message", "callback %d was not invoked with the message of %s%s", v.c, w.marker(), describe(ws))
			}
			e.srv.ApproveOrDenyWrite(msg, errType(w.verdict[v.c]))
		}
		early := time.Duration(0)
		for i := range ws {
			if d := time.Since(sent[i]); d > early {
				early = d
			}
		}
		if early > timeout/2 {
			// the harness was too slow to be sure the early verdicts arrived before the time-out
			world.Record(world.Hash("discarded"), false, "discarded/slow-harness")
			time.Sleep(2 * timeout)
			e.w.Sync()
			return
		}
		// wait until every write has an outcome (the silent / late ones time out)
		expectOutcome := func(w write) bool {
			s, er := e.outcomes(w)
			approvedEarly := true
			for c := range w.verdict {
				if w.verdict[c] != approve || w.late[c] {
					approvedEarly = false
				}
			}
			if approvedEarly && !w.ack {
				return e.description(w.item) == w.marker()
			}
			return s+er >= 1
		}
		waitFor(func() bool {
			for _, w := range ws {
				if !expectOutcome(w) {
					return false
				}
			}
			return true
		}, 400*timeout)
		// late verdicts
		for _, v := range perm {
			w := ws[v.w]
			if w.verdict[v.c] == silent || !w.late[v.c] {
				continue
			}
			if msg := e.msgFor(w, v.c); msg != nil {
				e.srv.ApproveOrDenyWrite(msg, errType(w.verdict[v.c]))
			}
		}
		time.Sleep(timeout + 10*time.Millisecond) // a second outcome would show up now
		e.w.Sync()

		// ---- judge each write from its own verdict row only
		e.mu.Lock()
		perKey := map[string]int{}
		for _, c := range e.calls {
			ctr := uint64(0)
			if c.msg.RequestHeader != nil && c.msg.RequestHeader.MsgCounter != nil {
				ctr = uint64(*c.msg.RequestHeader.MsgCounter)
			}
			ski := ""
			if c.msg.DeviceRemote != nil {
				ski = c.msg.DeviceRemote.Ski()
			}
			perKey[fmt.Sprintf("%d/%s/%d", c.cb, ski, ctr)]++
		}
		e.mu.Unlock()
		nt := nW >= 2
		var rows []string
		for _, w := range ws {
			for c := 0; c < nCb; c++ {
				if n := perKey[fmt.Sprintf("%d/%s/%d", c, e.peers[w.peer].Ski, w.counter)]; n != 1 {
					world.Fail(t, "C12/callback-count", "callback %d was invoked %d times for %s%s", c, n, w.marker(), describe(ws))
				}
			}
			approvedEarly := true
			for c := range w.verdict {
				if w.verdict[c] != approve || w.late[c] {
					approvedEarly = false
				}
				if w.late[c] && w.verdict[c] != silent {
					nt = true
				}
			}
			s, er := e.outcomes(w)
			applied := e.description(w.item) == w.marker()
			rows = append(rows, fmt.Sprintf("%v/%v/%v", w.verdict, w.late, w.ack))
			what := fmt.Sprintf("%s: success results=%d error results=%d applied=%v (item now %q)", w.marker(), s, er, applied, e.description(w.item))
			if approvedEarly {
				wantS := 0
				if w.ack {
					wantS = 1
				}
				if !applied || er != 0 || s != wantS {
					kind := "not-applied"
					if applied {
						kind = "result-count"
					}
					if er > 0 && !applied {
						kind = "timed-out-although-approved"
					}
					world.Fail(t, fmt.Sprintf("C12/approved-write/%s/pending-%d", kind, nW), "every callback approved %s in time, but %s%s", w.marker(), what, describe(ws))
				}
			} else {
				if applied {
					world.Fail(t, fmt.Sprintf("C12/unapproved-write-applied/pending-%d", nW), "%s was not approved by every callback in time, but %s%s", w.marker(), what, describe(ws))
				}
				if er != 1 || s != 0 {
					world.Fail(t, fmt.Sprintf("C12/unapproved-write-outcome/pending-%d", nW), "%s must get exactly one error result, but %s%s", w.marker(), what, describe(ws))
				}
			}
		}
		sort.Strings(rows)
		world.Record(world.Hash(nCb, rows, fmt.Sprint(perm)), nt, fmt.Sprintf("callbacks/%d", nCb), fmt.Sprintf("pending/%d", nW))
		if nt && world.WantSample() {
			world.Sample(map[string]any{"callbacks": nCb, "writes": strings.Split(strings.TrimSpace(describe(ws)), "\n "), "delivery_order": fmt.Sprint(perm)})
		}
	}))
}

// TestStaggeredWrites: pending writes whose approval windows overlap only partly. Group-0 writes are
// sent at t0, group-1 writes half a time-out later; verdicts are delivered "early" (right after
// the write's group was sent), "mid" (for group 0: together with group 1's early verdicts; for
// group 1: right after the time-outs of group 0 fired, i.e. still before its own time-out) or
// "late" (after the write's own time-out). A write whose callbacks all approve in phases early/mid
// must be applied whatever happened to the other writes in between - in particular the time-out of
// another write of the same peer must not disturb it.
func TestStaggeredWrites(t *testing.T) {
	const T = 60 * time.Millisecond
	type sw struct {
		write
		group int
		phase []int // per callback: 0 early, 1 mid, 2 late
		sent  time.Time
	}
	rapid.Check(t, world.Prop(func(t *rapid.T) {
		nCb := rapid.IntRange(2, 3).Draw(t, "callbacks")
		nW := rapid.IntRange(2, 3).Draw(t, "writes")
		e := newEnv(1, nCb)
		defer e.w.Teardown()
		e.srv.SetWriteApprovalTimeout(T)
		p := e.peers[0]
		if !p.CallOK(world.BindCall(p.FA([]uint{1}, 1), e.srv.Address(), model.FeatureTypeTypeAlarm)) {
			t.Fatalf("harness: binding not granted")
		}
		var ws []*sw
		for i := 0; i < nW; i++ {
			w := &sw{write: write{peer: 0, item: i, ack: true, counter: model.MsgCounterType(200 + i)}, group: i % 2}
			if i == 2 {
				w.group = rapid.IntRange(0, 1).Draw(t, "group2")
			}
			for c := 0; c < nCb; c++ {
				w.verdict = append(w.verdict, rapid.SampledFrom([]string{approve, approve, approve, approve, deny, silent}).Draw(t, fmt.Sprintf("verdict%d.%d", i, c)))
				w.phase = append(w.phase, rapid.SampledFrom([]int{0, 0, 1, 1, 2}).Draw(t, fmt.Sprintf("phase%d.%d", i, c)))
			}
			ws = append(ws, w)
		}
		discard := func(why string) {
			world.Record(world.Hash("discarded", why), false, "discarded/"+why)
			time.Sleep(2 * T)
			e.w.Sync()
		}
		deliver := func(group, phase int) {
			for _, w := range ws {
				for c := range w.verdict {
					if w.group == group && w.phase[c] == phase && w.verdict[c] != silent {
						if msg := e.msgFor(w.write, c); msg != nil {
							e.srv.ApproveOrDenyWrite(msg, errType(w.verdict[c]))
						}
					}
				}
			}
		}
		sendGroup := func(g int) bool {
			n := 0
			for _, w := range ws {
				if w.group == g {
					w.sent = time.Now()
					e.send(w.write)
					n++
				}
			}
			e.mu.Lock()
			have := len(e.calls)
			e.mu.Unlock()
			_ = have
			return waitFor(func() bool {
				e.mu.Lock()
				defer e.mu.Unlock()
				cnt := 0
				for _, c := range e.calls {
					for _, w := range ws {
						if w.group <= g && c.msg.RequestHeader != nil && c.msg.RequestHeader.MsgCounter != nil && *c.msg.RequestHeader.MsgCounter == w.counter {
							cnt++
						}
					}
				}
				want := 0
				for _, w := range ws {
					if w.group <= g {
						want += nCb
					}
				}
				return cnt >= want
			}, 20*T)
		}
		outcome := func(w *sw) bool { s, er := e.outcomes(w.write); return s+er >= 1 }
		t0 := time.Now()
		if !sendGroup(0) {
			world.Fail(t, "C12/callback-not-invoked", "approval callbacks not invoked for the first group")
		}
		deliver(0, 0)
		if time.Since(t0) > T/4 {
			discard("slow-early-0")
			return
		}
		time.Sleep(time.Until(t0.Add(T / 2)))
		t1 := time.Now()
		if !sendGroup(1) {
			world.Fail(t, "C12/callback-not-invoked", "approval callbacks not invoked for the second group")
		}
		deliver(1, 0)
		deliver(0, 1)
		if time.Since(t1) > T/4 || time.Since(t0) > T*8/10 {
			discard("slow-early-1")
			return
		}
		// the time-outs of group 0 fire at t0+T; wait until every group-0 write has its outcome
		waitFor(func() bool {
			for _, w := range ws {
				if w.group == 0 && !outcome(w) {
					return false
				}
			}
			return time.Since(t0) > T
		}, 20*T)
		deliver(1, 1)
		if time.Since(t1) > T*8/10 {
			discard("slow-mid-1")
			return
		}
		waitFor(func() bool {
			for _, w := range ws {
				if !outcome(w) {
					return false
				}
			}
			return true
		}, 20*T)
		deliver(0, 2)
		deliver(1, 2)
		time.Sleep(T + 10*time.Millisecond)
		e.w.Sync()
		var rows []string
		nt := false
		for _, w := range ws {
			approvedInTime := true
			for c := range w.verdict {
				if w.verdict[c] != approve || w.phase[c] == 2 {
					approvedInTime = false
				}
				if w.group == 1 && w.phase[c] == 1 && w.verdict[c] != silent {
					nt = true // a verdict between another write's time-out and the own one
				}
			}
			s, er := e.outcomes(w.write)
			applied := e.description(w.item) == w.marker()
			rows = append(rows, fmt.Sprintf("g%d %v %v", w.group, w.verdict, w.phase))
			what := fmt.Sprintf("write %s (group %d, verdicts %v, phases %v): success results=%d error results=%d applied=%v", w.marker(), w.group, w.verdict, w.phase, s, er, applied)
			all := ""
			for _, x := range ws {
				all += fmt.Sprintf("\n  %s group %d verdicts %v phases %v", x.marker(), x.group, x.verdict, x.phase)
			}
			if approvedInTime {
				if !applied || s != 1 || er != 0 {
					world.Fail(t, "C12/approved-write/disturbed-by-other-write", "every callback approved in time, but %s\n all writes (T=%v, group 1 sent at T/2, phase 1 of group 1 = after the time-outs of group 0):%s", what, T, all)
				}
			} else {
				if applied || er != 1 || s != 0 {
					world.Fail(t, "C12/unapproved-write-outcome/staggered", "not approved by every callback in time, but %s\n all writes:%s", what, all)
				}
			}
		}
		world.Record(world.Hash("staggered", nCb, rows), nt, fmt.Sprintf("staggered/callbacks-%d", nCb))
		if nt && world.WantSample() {
			world.Sample(map[string]any{"kind": "staggered", "callbacks": nCb, "writes": rows})
		}
	}))
}
