package c06

import (
	"testing"

	"verifharness/scen"
)

// see scen.RemovalDuringPublication
func TestRemovalDuringPublication(t *testing.T) { scen.RemovalDuringPublication(t, "C06") }
