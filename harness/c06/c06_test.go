// Package c06: the remote device tree converges to what the peer announced.
//
// A rapid state machine drives two peers (identical numbering) through detailed-discovery
// replies, partial add/remove notifications and full notifications over a small entity-address
// domain and compares, after every message, what the API reports for BOTH remote devices with a
// reference tree, the entity events with the entity-set delta, and the registries / client-side
// bookkeeping with the snapshot taken before the message (removal cascade and nothing else).
//
// Deliberately not asserted (DESIGN §4 C06 "NA"), avoided by the generator:
//   - repeated adds, later replies and full notifications list a known entity exactly as it is
//     (type, description, feature set): replace vs keep is a design choice of the code;
//   - replies after the first one carry the current entity set plus additions (the code only
//     adds on replies);
//   - a peer never removes or omits its own entity [0] (that silences the peer: F24, property
//     C05), so full notifications always list [0] with NodeManagement and are never empty;
//   - whether subscription / binding calls are granted is taken from the stack (C08 / C09); only
//     what a removal does to the entries that exist is asserted;
//   - a function listed without possibleOperations and a function listed with an empty
//     possibleOperations both announce "no operation": all-false entries and missing entries of
//     Operations() are not distinguished.
//
// Signatures: C06/<clause>/<input shape>, clause = tree-mismatch | tree-mismatch-lookup |
// other-peer-tree-changed | entity-events | entity-events-attribution | removal-cascade/<part> |
// other-peer-state-changed/<part> | crash; shape = reply | initial-reply | end-of-history |
// no-discovery-message | {add-only, remove-only, add-and-remove-in-one-notification,
// no-change}/{partial, full}.
package c06

import (
	"fmt"
	"reflect"
	"sort"
	"strings"
	"testing"
	"time"

	"github.com/enbility/spine-go/api"
	"github.com/enbility/spine-go/model"
	"github.com/enbility/spine-go/spine"
	"github.com/enbility/spine-go/util"
	"pgregory.net/rapid"

	"verifharness/world"
)

func TestMain(m *testing.M) { world.Main(m) }

// ---------------------------------------------------------------------------------------------
// domain

// entity addresses a peer may announce besides its DeviceInformation entity [0]
var addrDomain = [][]uint{{1}, {2}, {1, 1}, {1, 2}, {2, 1}}

var entTypes = []model.EntityTypeType{
	model.EntityTypeTypeCEM, model.EntityTypeTypeEVSE, model.EntityTypeTypeEV, model.EntityTypeTypeHeatPumpAppliance,
}

var featKinds = []struct {
	ft  model.FeatureTypeType
	fns []model.FunctionType
}{
	{model.FeatureTypeTypeMeasurement, []model.FunctionType{model.FunctionTypeMeasurementListData, model.FunctionTypeMeasurementDescriptionListData, model.FunctionTypeMeasurementConstraintsListData}},
	{model.FeatureTypeTypeLoadControl, []model.FunctionType{model.FunctionTypeLoadControlLimitListData, model.FunctionTypeLoadControlLimitDescriptionListData, model.FunctionTypeLoadControlLimitConstraintsListData}},
	{model.FeatureTypeTypeElectricalConnection, []model.FunctionType{model.FunctionTypeElectricalConnectionPermittedValueSetListData, model.FunctionTypeElectricalConnectionDescriptionListData, model.FunctionTypeElectricalConnectionParameterDescriptionListData}},
}

var descs = []string{"", "", "alpha", "beta"}

const (
	opRead = 1 << iota
	opReadPartial
	opWrite
	opWritePartial
)

// the operation combinations a peer can put on the wire (partial needs its classifier), plus
// opsAbsent: the function is listed without possibleOperations
var opChoices = []int{0, opRead, opRead | opReadPartial, opWrite, opWrite | opWritePartial, opRead | opWrite, opRead | opReadPartial | opWrite | opWritePartial, opRead | opWrite | opWritePartial, opsAbsent}

const opsAbsent = -1

type funcSpec struct {
	Fn  model.FunctionType
	Ops int
}

type featSpec struct {
	ID    uint
	Type  model.FeatureTypeType
	Role  model.RoleType
	Desc  string
	Funcs []funcSpec
}

type entSpec struct {
	Addr  []uint
	Type  model.EntityTypeType
	Desc  string
	Feats []featSpec
}

func key(addr []uint) string { return fmt.Sprint(addr) }

// entAddr / featAddr build addresses without the (slow, reflective) helper of the stack.
func entAddr(addr []uint) []model.AddressEntityType {
	out := make([]model.AddressEntityType, len(addr))
	for i, x := range addr {
		out[i] = model.AddressEntityType(x)
	}
	return out
}

func featAddr(p *world.Peer, addr []uint, feat uint) *model.FeatureAddressType {
	a := p.Addr
	return &model.FeatureAddressType{Device: &a, Entity: entAddr(addr), Feature: util.Ptr(model.AddressFeatureType(feat))}
}

func keyOf(a []model.AddressEntityType) string {
	out := make([]uint, 0, len(a))
	for _, x := range a {
		out = append(out, uint(x))
	}
	return key(out)
}

// deviceInfo is the DeviceInformation entity every message that lists all entities carries.
func deviceInfo() entSpec {
	nm := featSpec{ID: 0, Type: model.FeatureTypeTypeNodeManagement, Role: model.RoleTypeSpecial}
	for _, fn := range []model.FunctionType{model.FunctionTypeNodeManagementDetailedDiscoveryData, model.FunctionTypeNodeManagementUseCaseData,
		model.FunctionTypeNodeManagementSubscriptionData, model.FunctionTypeNodeManagementBindingData} {
		nm.Funcs = append(nm.Funcs, funcSpec{fn, opRead})
	}
	for _, fn := range []model.FunctionType{model.FunctionTypeNodeManagementSubscriptionRequestCall, model.FunctionTypeNodeManagementSubscriptionDeleteCall,
		model.FunctionTypeNodeManagementBindingRequestCall, model.FunctionTypeNodeManagementBindingDeleteCall} {
		nm.Funcs = append(nm.Funcs, funcSpec{fn, 0})
	}
	return entSpec{Addr: []uint{0}, Type: model.EntityTypeTypeDeviceInformation, Feats: []featSpec{nm}}
}

func drawEntity(t *rapid.T, addr []uint, label string) entSpec {
	e := entSpec{Addr: addr,
		Type: rapid.SampledFrom(entTypes).Draw(t, label+".type"),
		Desc: rapid.SampledFrom(descs).Draw(t, label+".desc")}
	n := rapid.IntRange(0, 3).Draw(t, label+".features")
	ids := []uint{1, 2, 3, 4}
	for i := 0; i < n; i++ {
		// unique feature ids inside the entity
		j := rapid.IntRange(0, len(ids)-1).Draw(t, fmt.Sprintf("%s.f%d.id", label, i))
		id := ids[j]
		ids = append(append([]uint{}, ids[:j]...), ids[j+1:]...)
		k := featKinds[rapid.IntRange(0, len(featKinds)-1).Draw(t, fmt.Sprintf("%s.f%d.type", label, i))]
		f := featSpec{ID: id, Type: k.ft, Desc: rapid.SampledFrom(descs).Draw(t, fmt.Sprintf("%s.f%d.desc", label, i))}
		switch r := rapid.IntRange(0, 9).Draw(t, fmt.Sprintf("%s.f%d.role", label, i)); {
		case r < 5:
			f.Role = model.RoleTypeClient
		case r < 9:
			f.Role = model.RoleTypeServer
		default:
			f.Role = model.RoleTypeSpecial
		}
		nf := rapid.IntRange(0, len(k.fns)).Draw(t, fmt.Sprintf("%s.f%d.functions", label, i))
		for q := 0; q < nf; q++ {
			f.Funcs = append(f.Funcs, funcSpec{k.fns[q], rapid.SampledFrom(opChoices).Draw(t, fmt.Sprintf("%s.f%d.fn%d.ops", label, i, q))})
		}
		e.Feats = append(e.Feats, f)
	}
	sort.Slice(e.Feats, func(a, b int) bool { return e.Feats[a].ID < e.Feats[b].ID })
	return e
}

// ---------------------------------------------------------------------------------------------
// wire format

type change int

const (
	chNone change = iota // no lastStateChange (replies, full notifications)
	chAdded
	chRemoved
)

// entry is one entityInformation element of a message.
type entry struct {
	Spec     entSpec
	Change   change
	OmitType bool // removed entries only: as in the wallbox fixture, no entityType
}

func entityInfo(dev *model.AddressDeviceType, en entry) model.NodeManagementDetailedDiscoveryEntityInformationType {
	d := &model.NetworkManagementEntityDescriptionDataType{
		EntityAddress: &model.EntityAddressType{Device: dev, Entity: spine.NewAddressEntityType(en.Spec.Addr)},
	}
	if !en.OmitType {
		et := en.Spec.Type
		d.EntityType = &et
	}
	switch en.Change {
	case chAdded:
		d.LastStateChange = util.Ptr(model.NetworkManagementStateChangeTypeAdded)
	case chRemoved:
		d.LastStateChange = util.Ptr(model.NetworkManagementStateChangeTypeRemoved)
	}
	if en.Spec.Desc != "" && en.Change != chRemoved {
		d.Description = util.Ptr(model.DescriptionType(en.Spec.Desc))
	}
	return model.NodeManagementDetailedDiscoveryEntityInformationType{Description: d}
}

func featureInfo(dev *model.AddressDeviceType, addr []uint, f featSpec) model.NodeManagementDetailedDiscoveryFeatureInformationType {
	ft, role := f.Type, f.Role
	var funs []model.FunctionPropertyType
	for _, fs := range f.Funcs {
		fn := fs.Fn
		fp := model.FunctionPropertyType{Function: &fn}
		if fs.Ops != opsAbsent {
			ops := &model.PossibleOperationsType{}
			if fs.Ops&opRead != 0 {
				ops.Read = &model.PossibleOperationsReadType{}
				if fs.Ops&opReadPartial != 0 {
					ops.Read.Partial = &model.ElementTagType{}
				}
			}
			if fs.Ops&opWrite != 0 {
				ops.Write = &model.PossibleOperationsWriteType{}
				if fs.Ops&opWritePartial != 0 {
					ops.Write.Partial = &model.ElementTagType{}
				}
			}
			fp.PossibleOperations = ops
		}
		funs = append(funs, fp)
	}
	d := &model.NetworkManagementFeatureDescriptionDataType{
		FeatureAddress:    &model.FeatureAddressType{Device: dev, Entity: spine.NewAddressEntityType(addr), Feature: util.Ptr(model.AddressFeatureType(f.ID))},
		FeatureType:       &ft,
		Role:              &role,
		SupportedFunction: funs,
	}
	if f.Desc != "" {
		d.Description = util.Ptr(model.DescriptionType(f.Desc))
	}
	return model.NodeManagementDetailedDiscoveryFeatureInformationType{Description: d}
}

// discoveryData renders the entries. The features of an entity are listed once per message (for
// the entries that announce the entity as present); withDev puts the device into the entity and
// feature addresses (both forms occur in the field: spine-go sends it, the wallbox fixtures do not).
func discoveryData(p *world.Peer, entries []entry, withDev bool) *model.NodeManagementDetailedDiscoveryDataType {
	addr := p.Addr
	data := &model.NodeManagementDetailedDiscoveryDataType{
		SpecificationVersionList: &model.NodeManagementSpecificationVersionListType{
			SpecificationVersion: []model.SpecificationVersionDataType{"1.3.0"},
		},
		DeviceInformation: &model.NodeManagementDetailedDiscoveryDeviceInformationType{
			Description: &model.NetworkManagementDeviceDescriptionDataType{
				DeviceAddress: &model.DeviceAddressType{Device: &addr},
				DeviceType:    util.Ptr(model.DeviceTypeTypeGeneric),
			},
		},
	}
	var dev *model.AddressDeviceType
	if withDev {
		dev = &addr
	}
	listed := map[string]bool{}
	for _, en := range entries {
		data.EntityInformation = append(data.EntityInformation, entityInfo(dev, en))
		if en.Change == chRemoved || listed[key(en.Spec.Addr)] {
			continue
		}
		listed[key(en.Spec.Addr)] = true
		for _, f := range en.Spec.Feats {
			data.FeatureInformation = append(data.FeatureInformation, featureInfo(dev, en.Spec.Addr, f))
		}
	}
	return data
}

// shuffledFeatures: the order of the feature information list carries no meaning - in a third of the messages
// the features of different entities come interleaved (those of one entity in several runs).
func shuffledFeatures(t *rapid.T, data *model.NodeManagementDetailedDiscoveryDataType) *model.NodeManagementDetailedDiscoveryDataType {
	if len(data.FeatureInformation) < 3 || rapid.IntRange(0, 2).Draw(t, "featureListShuffled") != 0 {
		return data
	}
	data.FeatureInformation = rapid.Permutation(data.FeatureInformation).Draw(t, "featureOrder")
	world.Label("msg/feature-information-in-any-order")
	return data
}

// ---------------------------------------------------------------------------------------------
// canonical rendering of trees (model and implementation in the same terms)

func opsString(read, readPartial, write, writePartial bool) string {
	s := ""
	if read {
		s += "r"
	}
	if readPartial {
		s += "p"
	}
	if write {
		s += "W"
	}
	if writePartial {
		s += "P"
	}
	return s
}

func descString(d *model.DescriptionType) string {
	if d == nil {
		return "-"
	}
	return fmt.Sprintf("%q", string(*d))
}

func modelDesc(s string) string {
	if s == "" {
		return "-"
	}
	return fmt.Sprintf("%q", s)
}

// A function that is listed without any possible operation and a function that is not listed
// announce the same operations (none); both renderings leave such functions out.
func renderModelFeature(dev string, addr []uint, f featSpec) string {
	var fns []string
	for _, fs := range f.Funcs {
		if fs.Ops == opsAbsent || fs.Ops == 0 {
			continue
		}
		fns = append(fns, fmt.Sprintf("%s=%s", fs.Fn, opsString(fs.Ops&opRead != 0, fs.Ops&opReadPartial != 0, fs.Ops&opWrite != 0, fs.Ops&opWritePartial != 0)))
	}
	sort.Strings(fns)
	return fmt.Sprintf("%s %s/%d %s %s %s {%s}", dev, key(addr), f.ID, f.Type, f.Role, modelDesc(f.Desc), strings.Join(fns, ","))
}

func renderModelEntity(dev string, e *entSpec) string {
	var fs []string
	for _, f := range e.Feats {
		fs = append(fs, renderModelFeature(dev, e.Addr, f))
	}
	sort.Strings(fs)
	return fmt.Sprintf("%s %s %s %s features[%s]", dev, key(e.Addr), e.Type, modelDesc(e.Desc), strings.Join(fs, " | "))
}

func devString(d *model.AddressDeviceType) string {
	if d == nil {
		return "<no device>"
	}
	return string(*d)
}

func renderImplFeature(f api.FeatureRemoteInterface) string {
	a := f.Address()
	var fns []string
	for fn, o := range f.Operations() {
		if o == nil {
			continue
		}
		if s := opsString(o.Read(), o.ReadPartial(), o.Write(), o.WritePartial()); s != "" {
			fns = append(fns, fmt.Sprintf("%s=%s", fn, s))
		}
	}
	sort.Strings(fns)
	id := "<nil>"
	if a.Feature != nil {
		id = fmt.Sprint(uint(*a.Feature))
	}
	return fmt.Sprintf("%s %s/%s %s %s %s {%s}", devString(a.Device), keyOf(a.Entity), id, f.Type(), f.Role(), descString(f.Description()), strings.Join(fns, ","))
}

func renderImplEntity(e api.EntityRemoteInterface) string {
	var fs []string
	for _, f := range e.Features() {
		fs = append(fs, renderImplFeature(f))
	}
	sort.Strings(fs)
	a := e.Address()
	return fmt.Sprintf("%s %s %s %s features[%s]", devString(a.Device), keyOf(a.Entity), e.EntityType(), descString(e.Description()), strings.Join(fs, " | "))
}

// ---------------------------------------------------------------------------------------------
// machine

type tree map[string]*entSpec

func (tr tree) keys() []string {
	var out []string
	for k := range tr {
		out = append(out, k)
	}
	sort.Strings(out)
	return out
}

// bookkeeping reference created through a local client feature towards a peer's server feature
type bookRef struct {
	client int // index into machine.clients
	ent    []uint
	feat   uint
}

type snap struct {
	Subs, Binds, Book []string
}

type machine struct {
	w              *world.World
	servers        []api.FeatureLocalInterface // local server features (targets of the peers' clients)
	clients        []api.FeatureLocalInterface // local client features, one per feature kind
	trees          []tree                      // reference tree per peer
	books          [][]bookRef                 // bookkeeping candidates per peer
	hist           []string
	dkey           []string // distinctness key: (peer, kind, entity-set delta) per message
	msgs           int
	maxMsgs        int
	setChanged     bool // a notification changed the entity set after the initial reply
	cascadeEntries int  // registry / bookkeeping entries removed by entity removals
	// peers whose initial discovery reply is still missing (slow, lost or asked for again): the stack
	// knows entity [0] with the node management feature only and not yet the device address.
	// Notifications of such a peer are applied like any other; entity [0] itself is compared from the
	// reply on (what a notification may change about it before that is not stated).
	unannounced map[int]bool
	earlyMsgs   int // notifications applied before the initial reply of their peer
}

func (m *machine) logf(format string, a ...any) { m.hist = append(m.hist, fmt.Sprintf(format, a...)) }
func (m *machine) history() string              { return "\n history:\n  " + strings.Join(m.hist, "\n  ") }

func entOfRef(s string) string { return s[:strings.Index(s, "/")] }

func refString(a *model.FeatureAddressType) string {
	f := "?"
	if a.Feature != nil {
		f = fmt.Sprint(uint(*a.Feature))
	}
	return keyOf(a.Entity) + "/" + f
}

// snapshot: everything the stack holds on behalf of one peer, each entry prefixed with the
// address of the peer-side entity it belongs to ("<entity>/<feature> ...").
func (m *machine) snapshot(pi int) snap {
	p := m.w.Peers[pi]
	s := snap{}
	for _, e := range m.w.Local.SubscriptionManager().Subscriptions(p.Dev) {
		s.Subs = append(s.Subs, fmt.Sprintf("%s -> local %s #%d", refString(e.ClientFeature.Address()), refString(e.ServerFeature.Address()), e.Id))
	}
	for _, e := range m.w.Local.BindingManager().Bindings(p.Dev) {
		s.Binds = append(s.Binds, fmt.Sprintf("%s -> local %s #%d", refString(e.ClientFeature.Address()), refString(e.ServerFeature.Address()), e.Id))
	}
	for _, b := range m.books[pi] {
		a := featAddr(p, b.ent, b.feat)
		if m.clients[b.client].HasSubscriptionToRemote(a) {
			s.Book = append(s.Book, fmt.Sprintf("%s <- subscription of local client #%d", refString(a), b.client))
		}
		if m.clients[b.client].HasBindingToRemote(a) {
			s.Book = append(s.Book, fmt.Sprintf("%s <- binding of local client #%d", refString(a), b.client))
		}
	}
	sort.Strings(s.Subs)
	sort.Strings(s.Binds)
	sort.Strings(s.Book)
	return s
}

func without(l []string, gone map[string]bool) []string {
	out := []string{}
	for _, x := range l {
		if !gone[entOfRef(x)] {
			out = append(out, x)
		}
	}
	return out
}

func nz(l []string) []string {
	if l == nil {
		return []string{}
	}
	return l
}

// checkTree compares what the API reports for peer pi with the reference tree.
func (m *machine) checkTree(t *rapid.T, pi int, clause, shape, after string) {
	p := m.w.Peers[pi]
	dev := string(p.Addr)
	var want, got []string
	for _, k := range m.trees[pi].keys() {
		if m.unannounced[pi] && k == key([]uint{0}) {
			continue
		}
		want = append(want, renderModelEntity(dev, m.trees[pi][k]))
	}
	for _, e := range p.Dev.Entities() {
		if m.unannounced[pi] && keyOf(e.Address().Entity) == key([]uint{0}) {
			continue
		}
		got = append(got, renderImplEntity(e))
	}
	sort.Strings(want)
	sort.Strings(got)
	if !reflect.DeepEqual(want, got) {
		world.Fail(t, fmt.Sprintf("C06/%s/%s", clause, shape), "after %s the tree reported for peer%d differs from the announcements applied in order\n got:\n   %s\n want:\n   %s%s",
			after, pi+1, strings.Join(got, "\n   "), strings.Join(want, "\n   "), m.history())
	}
	// look-ups by address: every address of the domain (and the direct neighbours of the feature ids)
	for _, addr := range append([][]uint{{0}, {3}, {1, 3}}, addrDomain...) {
		if m.unannounced[pi] && len(addr) == 1 && addr[0] == 0 {
			continue
		}
		e := p.Dev.Entity(entAddr(addr))
		me := m.trees[pi][key(addr)]
		if (e != nil) != (me != nil) || (e != nil && keyOf(e.Address().Entity) != key(addr)) {
			gotS := "nil"
			if e != nil {
				gotS = "the entity " + keyOf(e.Address().Entity)
			}
			world.Fail(t, fmt.Sprintf("C06/%s-lookup/%s", clause, shape), "after %s Entity(%s) of peer%d returns %s, announced: %v%s", after, key(addr), pi+1, gotS, me != nil, m.history())
		}
		for id := uint(0); id <= 5; id++ {
			f := p.Dev.FeatureByAddress(featAddr(p, addr, id))
			var mf *featSpec
			if me != nil {
				for i := range me.Feats {
					if me.Feats[i].ID == id {
						mf = &me.Feats[i]
					}
				}
			}
			switch {
			case (f != nil) != (mf != nil):
				world.Fail(t, fmt.Sprintf("C06/%s-lookup/%s", clause, shape), "after %s FeatureByAddress(%s/%d) of peer%d: found=%v, announced=%v%s", after, key(addr), id, pi+1, f != nil, mf != nil, m.history())
			case f != nil:
				if g, w := renderImplFeature(f), renderModelFeature(dev, addr, *mf); g != w {
					world.Fail(t, fmt.Sprintf("C06/%s-lookup/%s", clause, shape), "after %s FeatureByAddress(%s/%d) of peer%d returns\n   %s\n announced\n   %s%s", after, key(addr), id, pi+1, g, w, m.history())
				}
				if f.Device() == nil || f.Device().Ski() != p.Ski || f.Entity() == nil || keyOf(f.Entity().Address().Entity) != key(addr) {
					world.Fail(t, fmt.Sprintf("C06/%s-lookup/%s", clause, shape), "after %s the feature %s/%d of peer%d is linked to a wrong device or entity%s", after, key(addr), id, pi+1, m.history())
				}
				// no operations entry for a function that was never announced
				for fn := range f.Operations() {
					found := false
					for _, fs := range mf.Funcs {
						found = found || fs.Fn == fn
					}
					if !found {
						world.Fail(t, fmt.Sprintf("C06/%s/%s", clause, shape), "after %s the feature %s/%d of peer%d reports operations for %s, which was not announced%s", after, key(addr), id, pi+1, fn, m.history())
					}
				}
			}
		}
	}
}

// entityEvents renders the entity events of a drained event log, sorted.
func entityEvents(evs []world.Ev) (out []string, malformed string) {
	for _, e := range evs {
		if e.P.EventType != api.EventTypeEntityChange {
			continue
		}
		ch := "add"
		if e.P.ChangeType == api.ElementChangeRemove {
			ch = "remove"
		} else if e.P.ChangeType != api.ElementChangeAdd {
			ch = fmt.Sprintf("change(%v)", e.P.ChangeType)
		}
		ent := "<no entity>"
		if e.P.Entity != nil {
			ent = keyOf(e.P.Entity.Address().Entity)
			if e.P.Entity.Device() == nil || e.P.Entity.Device().Ski() != e.P.Ski {
				malformed = fmt.Sprintf("entity event %s %s for ski %q carries an entity of another device", ch, ent, e.P.Ski)
			}
		}
		if e.P.Device == nil || e.P.Device.Ski() != e.P.Ski {
			malformed = fmt.Sprintf("entity event %s %s for ski %q carries another device", ch, ent, e.P.Ski)
		}
		out = append(out, fmt.Sprintf("%s %s %s", e.P.Ski, ch, ent))
	}
	sort.Strings(out)
	return nz(out), malformed
}

// settle waits for the stack and asserts that exactly the expected entity events were published.
func (m *machine) settle(t *rapid.T, want []string, clause, shape, after string) {
	m.w.Sync()
	for _, p := range m.w.Peers {
		p.Cap.Drain()
	}
	got, malformed := entityEvents(m.w.Events.Drain())
	want = nz(append([]string{}, want...))
	sort.Strings(want)
	if !reflect.DeepEqual(got, want) {
		world.Fail(t, fmt.Sprintf("C06/%s/%s", clause, shape), "%s published the entity events %v, expected exactly %v (one per entity that appeared or disappeared)%s", after, got, want, m.history())
	}
	if malformed != "" {
		world.Fail(t, fmt.Sprintf("C06/%s-attribution/%s", clause, shape), "%s: %s%s", after, malformed, m.history())
	}
}

// ---- operations that create state for the removal cascade

// budget: state that no later message can observe is not worth creating; once the message budget
// is used the remaining steps of the history are spent in idle.
// (The step then does nothing instead of being skipped: with the idle action as the only one that is not
// skipped, rapid's 100 attempts to draw a valid action fail about once in a million steps - in the thorough
// tier that ended a shard with "can't find a valid (non-skipped) action".)
func (m *machine) budget(t *rapid.T) bool {
	return m.msgs >= m.maxMsgs
}

func (m *machine) idle(t *rapid.T) {
	if m.msgs < m.maxMsgs {
		t.Skip("message budget not used yet")
	}
}

type featRef struct {
	ent []uint
	f   featSpec
}

func (m *machine) featuresOf(pi int, pred func(featSpec) bool) []featRef {
	var out []featRef
	for _, k := range m.trees[pi].keys() {
		if k == key([]uint{0}) {
			continue
		}
		e := m.trees[pi][k]
		for _, f := range e.Feats {
			if pred(f) {
				out = append(out, featRef{e.Addr, f})
			}
		}
	}
	return out
}

func (m *machine) localServersOf(ft model.FeatureTypeType) []api.FeatureLocalInterface {
	var out []api.FeatureLocalInterface
	for _, s := range m.servers {
		if s.Type() == ft {
			out = append(out, s)
		}
	}
	return out
}

// peerCall: a client feature of the peer subscribes or binds to a local server feature.
func (m *machine) peerCall(t *rapid.T, bind bool) {
	if m.budget(t) {
		return
	}
	pi := rapid.IntRange(0, len(m.w.Peers)-1).Draw(t, "peer")
	cands := m.featuresOf(pi, func(f featSpec) bool { return f.Role != model.RoleTypeServer })
	if len(cands) == 0 {
		t.Skip("the peer has no client feature")
	}
	c := cands[rapid.IntRange(0, len(cands)-1).Draw(t, "client")]
	servers := m.localServersOf(c.f.Type)
	srv := servers[rapid.IntRange(0, len(servers)-1).Draw(t, "server")]
	p := m.w.Peers[pi]
	var ok bool
	what := "subscribes"
	if bind {
		what = "binds"
		ok = p.CallOK(world.BindCall(p.FA(c.ent, c.f.ID), srv.Address(), c.f.Type))
	} else {
		ok = p.CallOK(world.SubscribeCall(p.FA(c.ent, c.f.ID), srv.Address(), c.f.Type))
	}
	m.logf("peer%d: client %s/%d %s to local %s => granted=%v", pi+1, key(c.ent), c.f.ID, what, refString(srv.Address()), ok)
	world.Label("op/peer-" + what)
	m.settle(t, nil, "entity-events", "no-discovery-message", "a "+what+" call")
}

func (m *machine) peerSubscribe(t *rapid.T) { m.peerCall(t, false) }
func (m *machine) peerBind(t *rapid.T)      { m.peerCall(t, true) }

// localClient: a local client feature subscribes / binds to a server feature of the peer, which
// the stack remembers per remote feature address.
func (m *machine) localClient(t *rapid.T) {
	if m.budget(t) {
		return
	}
	pi := rapid.IntRange(0, len(m.w.Peers)-1).Draw(t, "peer")
	cands := m.featuresOf(pi, func(f featSpec) bool { return f.Role != model.RoleTypeClient })
	if len(cands) == 0 {
		t.Skip("the peer has no server feature")
	}
	c := cands[rapid.IntRange(0, len(cands)-1).Draw(t, "server")]
	ci := 0
	for i, k := range featKinds {
		if k.ft == c.f.Type {
			ci = i
		}
	}
	p := m.w.Peers[pi]
	a := p.FA(c.ent, c.f.ID)
	bind := rapid.Bool().Draw(t, "bindNotSubscribe")
	if (bind && m.clients[ci].HasBindingToRemote(a)) || (!bind && m.clients[ci].HasSubscriptionToRemote(a)) {
		t.Skip("already remembered")
	}
	var err *model.ErrorType
	what := "subscribes"
	if bind {
		what = "binds"
		_, err = m.clients[ci].BindToRemote(a)
	} else {
		_, err = m.clients[ci].SubscribeToRemote(a)
	}
	known := false
	for _, b := range m.books[pi] {
		known = known || (b.client == ci && b.feat == c.f.ID && key(b.ent) == key(c.ent))
	}
	if !known {
		m.books[pi] = append(m.books[pi], bookRef{ci, c.ent, c.f.ID})
	}
	m.logf("local client #%d %s to peer%d %s/%d => err=%v", ci, what, pi+1, key(c.ent), c.f.ID, err != nil)
	world.Label("op/local-client-" + what)
	m.settle(t, nil, "entity-events", "no-discovery-message", "a local client request")
}

// ---- discovery messages

type delta struct {
	appeared    []string // entity keys, one per appearance
	disappeared []string // one per disappearance
}

func (d delta) String() string {
	return fmt.Sprintf("+%v -%v", d.appeared, d.disappeared)
}

// mix classifies the input shape of a message (what the signature is keyed by).
func mix(entries []entry, d delta, kind string) string {
	adds, removes := 0, 0
	if kind == "partial" {
		for _, en := range entries {
			if en.Change == chAdded {
				adds++
			} else {
				removes++
			}
		}
	} else {
		adds, removes = len(d.appeared), len(d.disappeared)
	}
	switch {
	case adds > 0 && removes > 0:
		return "add-and-remove-in-one-notification"
	case adds > 0:
		return "add-only"
	case removes > 0:
		return "remove-only"
	}
	return "no-change"
}

func clone(e entSpec) *entSpec {
	c := e
	c.Feats = append([]featSpec(nil), e.Feats...)
	return &c
}

// drawPartial draws 1-3 entries and applies them in order to the reference tree.
func (m *machine) drawPartial(t *rapid.T, pi int) ([]entry, delta) {
	tr := m.trees[pi]
	n := rapid.IntRange(1, 3).Draw(t, "entries")
	var entries []entry
	var d delta
	inMsg := map[string]entSpec{} // an address announced as present in this message keeps its description
	for i := 0; i < n; i++ {
		addr := addrDomain[rapid.IntRange(0, len(addrDomain)-1).Draw(t, fmt.Sprintf("e%d.addr", i))]
		k := key(addr)
		cur := tr[k]
		lbl := fmt.Sprintf("e%d", i)
		// known entities are mostly removed or re-announced, unknown ones mostly added
		var add bool
		if cur != nil {
			add = rapid.IntRange(0, 9).Draw(t, lbl+".readdNotRemove") < 4
		} else {
			add = rapid.IntRange(0, 9).Draw(t, lbl+".addNotRemoveUnknown") < 7
		}
		if add {
			var spec entSpec
			if s, ok := inMsg[k]; ok {
				spec = s // the features of an entity are listed once per message
			} else if cur != nil {
				// repeated add: the entity is announced again exactly as it is (whether a changed
				// feature set replaces the old one is a design choice of the code: not asserted)
				spec = *clone(*cur)
				world.Label("entry/re-add")
				// ... or with the same features offering other functions / operations and other
				// descriptions: the later announcement counts. (Whether a changed feature SET keeps the
				// registry entries of vanished features is a design choice of the code: not generated.)
				if len(spec.Feats) > 0 && rapid.Bool().Draw(t, lbl+".readdChanged") {
					spec.Desc = rapid.SampledFrom(descs).Draw(t, lbl+".desc")
					for fi := range spec.Feats {
						f := &spec.Feats[fi]
						kind := featKinds[0]
						for _, k := range featKinds {
							if k.ft == f.Type {
								kind = k
							}
						}
						f.Desc = rapid.SampledFrom(descs).Draw(t, fmt.Sprintf("%s.f%d.desc", lbl, fi))
						f.Funcs = nil
						nf := rapid.IntRange(0, len(kind.fns)).Draw(t, fmt.Sprintf("%s.f%d.functions", lbl, fi))
						for q := 0; q < nf; q++ {
							f.Funcs = append(f.Funcs, funcSpec{kind.fns[q], rapid.SampledFrom(opChoices).Draw(t, fmt.Sprintf("%s.f%d.fn%d.ops", lbl, fi, q))})
						}
					}
					world.Label("entry/re-add-changed-operations")
				}
			} else {
				spec = drawEntity(t, addr, lbl)
			}
			inMsg[k] = spec
			entries = append(entries, entry{Spec: spec, Change: chAdded})
			if cur == nil {
				d.appeared = append(d.appeared, k)
				world.Label("entry/add")
			}
			tr[k] = clone(spec)
		} else {
			en := entry{Spec: entSpec{Addr: addr}, Change: chRemoved}
			if cur != nil {
				en.Spec.Type = cur.Type
				d.disappeared = append(d.disappeared, k)
				delete(tr, k)
				world.Label("entry/remove")
			} else {
				en.Spec.Type = rapid.SampledFrom(entTypes).Draw(t, lbl+".type")
				if s, ok := inMsg[k]; ok {
					en.Spec.Type = s.Type
				}
				world.Label("entry/remove-unknown")
			}
			en.OmitType = rapid.Bool().Draw(t, lbl+".omitType")
			entries = append(entries, en)
		}
	}
	return entries, d
}

// drawAnnounced draws the entity set of a message that lists all entities: entity [0], the
// entities of the reference tree (all of them for replies, a subset for full notifications;
// always as they are) and additions.
func (m *machine) drawAnnounced(t *rapid.T, pi int, reply bool) ([]entry, delta) {
	tr := m.trees[pi]
	entries := []entry{{Spec: deviceInfo()}}
	if !reply && rapid.IntRange(0, 5).Draw(t, "withoutEntityZero") == 0 {
		// a complete notification that leaves the device information entity [0] out (down to an empty list when
		// nothing else is left): [0] cannot go, everything else that is not listed does
		entries = nil
		world.Label("full/entity-0-not-listed")
	}
	var d delta
	for i, addr := range addrDomain {
		k := key(addr)
		lbl := fmt.Sprintf("a%d", i)
		if cur := tr[k]; cur != nil {
			if reply || rapid.IntRange(0, 2).Draw(t, lbl+".drop") != 2 {
				entries = append(entries, entry{Spec: *clone(*cur)})
			} else {
				d.disappeared = append(d.disappeared, k)
				delete(tr, k)
			}
		} else if rapid.IntRange(0, 3).Draw(t, lbl+".add") == 3 {
			spec := drawEntity(t, addr, lbl)
			entries = append(entries, entry{Spec: spec})
			d.appeared = append(d.appeared, k)
			tr[k] = clone(spec)
			if rapid.IntRange(0, 4).Draw(t, lbl+".listedTwice") == 0 {
				// a repeated add inside one message: the new entity is listed twice (as it is); it
				// appears once
				entries = append(entries, entry{Spec: *clone(spec)})
				world.Label("entry/new-entity-listed-twice")
			}
		}
	}
	// the order of the list carries no meaning
	if len(entries) > 2 && rapid.Bool().Draw(t, "rotate") {
		r := rapid.IntRange(1, len(entries)-1).Draw(t, "rotation")
		entries = append(append([]entry{}, entries[r:]...), entries[:r]...)
	}
	return entries, d
}

func (m *machine) message(t *rapid.T) {
	if m.budget(t) {
		return
	}
	pi := rapid.IntRange(0, len(m.w.Peers)-1).Draw(t, "peer")
	p := m.w.Peers[pi]
	kind := "partial"
	switch k := rapid.IntRange(0, 9).Draw(t, "kind"); {
	case k >= 9:
		kind = "reply"
	case k >= 6:
		kind = "full"
	}
	late := m.unannounced[pi]
	if late && rapid.IntRange(0, 2).Draw(t, "initialReplyNow") == 0 {
		kind = "reply"
	}
	withDev := rapid.Bool().Draw(t, "withDeviceInAddresses")
	before := make([]snap, len(m.w.Peers))
	for i := range m.w.Peers {
		before[i] = m.snapshot(i)
	}
	var entries []entry
	var d delta
	var d1 model.DatagramType
	switch kind {
	case "partial":
		entries, d = m.drawPartial(t, pi)
		cmd := model.CmdType{Function: util.Ptr(model.FunctionTypeNodeManagementDetailedDiscoveryData), Filter: []model.FilterType{*model.NewFilterTypePartial()},
			NodeManagementDetailedDiscoveryData: shuffledFeatures(t, discoveryData(p, entries, withDev))}
		d1 = p.Msg(model.CmdClassifierTypeNotify, p.NM(), world.LocalNM(), false, nil, cmd)
	case "full":
		entries, d = m.drawAnnounced(t, pi, false)
		cmd := model.CmdType{NodeManagementDetailedDiscoveryData: shuffledFeatures(t, discoveryData(p, entries, withDev))}
		d1 = p.Msg(model.CmdClassifierTypeNotify, p.NM(), world.LocalNM(), false, nil, cmd)
	case "reply":
		entries, d = m.drawAnnounced(t, pi, true)
		// the application asks again; the reply references that read
		p.Cap.Drain()
		ctr := p.DiscoveryRef
		if !late || rapid.Bool().Draw(t, "askedAgain") {
			var err *model.ErrorType
			ctr, err = m.w.Local.RequestRemoteDetailedDiscoveryData(p.Dev)
			if err != nil || ctr == nil {
				panic(fmt.Sprintf("harness: cannot request the discovery data again: %v", err))
			}
		}
		if late {
			// the initial reply at last: from now on entity [0] is what the reply says
			m.trees[pi][key([]uint{0})] = clone(deviceInfo())
			delete(m.unannounced, pi)
			world.Label("msg/late-initial-reply")
		}
		cmd := model.CmdType{NodeManagementDetailedDiscoveryData: shuffledFeatures(t, discoveryData(p, entries, withDev))}
		d1 = p.Msg(model.CmdClassifierTypeReply, p.NM(), world.LocalNM(), false, ctr, cmd)
	}
	shape := mix(entries, d, kind) + "/" + kind
	if kind == "reply" {
		shape = "reply"
	}
	m.msgs++
	if late && kind != "reply" {
		m.earlyMsgs++
		world.Label("msg/before-the-initial-reply")
	}
	m.logf("peer%d sends %s (%s, device in addresses: %v): %s  => entity set %s", pi+1, kind, shape, withDev, describe(entries), d)
	m.dkey = append(m.dkey, fmt.Sprintf("%d:%s:%s", pi, kind, d))
	world.Label("msg/" + shape)
	if kind != "reply" && !reflect.DeepEqual(sortedCopy(d.appeared), sortedCopy(d.disappeared)) {
		m.setChanged = true
	}
	for _, k := range append(append([]string{}, d.appeared...), d.disappeared...) {
		if strings.Contains(k, " ") {
			world.Label("delta/nested-address")
			break
		}
	}

	func() {
		defer func() {
			if r := recover(); r != nil {
				world.Fail(t, "C06/crash/"+shape, "the stack panicked while handling the message: %v%s", r, m.history())
			}
		}()
		p.Send(d1)
	}()

	// 1. events: one per entity that appeared / disappeared, for this peer only
	var wantEv []string
	for _, k := range d.appeared {
		wantEv = append(wantEv, fmt.Sprintf("%s add %s", p.Ski, k))
	}
	for _, k := range d.disappeared {
		wantEv = append(wantEv, fmt.Sprintf("%s remove %s", p.Ski, k))
	}
	// (the tree is compared first: it is the primary clause)
	after := fmt.Sprintf("the %s of peer%d", kind, pi+1)
	m.w.Sync()
	m.checkTree(t, pi, "tree-mismatch", shape, after)
	for oi := range m.w.Peers {
		if oi != pi {
			m.checkTree(t, oi, "other-peer-tree-changed", shape, after)
		}
	}
	m.settle(t, wantEv, "entity-events", shape, after)

	// 2. removal cascade and nothing else
	gone := map[string]bool{}
	for _, k := range d.disappeared {
		gone[k] = true
	}
	for i := range m.w.Peers {
		want := before[i]
		if i == pi {
			want = snap{Subs: without(before[i].Subs, gone), Binds: without(before[i].Binds, gone), Book: without(before[i].Book, gone)}
			n := len(before[i].Subs) + len(before[i].Binds) + len(before[i].Book) - len(want.Subs) - len(want.Binds) - len(want.Book)
			m.cascadeEntries += n
			if n > 0 {
				world.Label("cascade/non-empty")
			}
		}
		got := m.snapshot(i)
		if reflect.DeepEqual(nz(got.Subs), nz(want.Subs)) && reflect.DeepEqual(nz(got.Binds), nz(want.Binds)) && reflect.DeepEqual(nz(got.Book), nz(want.Book)) {
			continue
		}
		part := "subscriptions"
		if reflect.DeepEqual(nz(got.Subs), nz(want.Subs)) {
			part = "bindings"
			if reflect.DeepEqual(nz(got.Binds), nz(want.Binds)) {
				part = "client-side-references"
			}
		}
		clause := "removal-cascade"
		if i != pi {
			clause = "other-peer-state-changed"
		}
		world.Fail(t, fmt.Sprintf("C06/%s/%s/%s", clause, part, shape), "after %s (entities that disappeared: %v) the state held for peer%d is\n   %+v\n expected (state before minus the entries of the removed entities)\n   %+v\n before:\n   %+v%s",
			after, d.disappeared, i+1, got, want, before[i], m.history())
	}
}

func sortedCopy(l []string) []string {
	out := append([]string{}, l...)
	sort.Strings(out)
	return out
}

func describe(entries []entry) string {
	var out []string
	for _, en := range entries {
		if key(en.Spec.Addr) == key([]uint{0}) {
			out = append(out, "[0] DeviceInformation <0:NodeManagement/special>")
			continue
		}
		switch en.Change {
		case chRemoved:
			ty := string(en.Spec.Type)
			if en.OmitType {
				ty = "no type"
			}
			out = append(out, fmt.Sprintf("removed %s (%s)", key(en.Spec.Addr), ty))
		default:
			pre := "added "
			if en.Change == chNone {
				pre = ""
			}
			var fs []string
			for _, f := range en.Spec.Feats {
				var fns []string
				for _, fn := range f.Funcs {
					o := "absent"
					if fn.Ops != opsAbsent {
						o = "[" + opsString(fn.Ops&opRead != 0, fn.Ops&opReadPartial != 0, fn.Ops&opWrite != 0, fn.Ops&opWritePartial != 0) + "]"
					}
					fns = append(fns, fmt.Sprintf("%s%s", fn.Fn, o))
				}
				fs = append(fs, fmt.Sprintf("%d:%s/%s%s{%s}", f.ID, f.Type, f.Role, modelDesc(f.Desc), strings.Join(fns, ",")))
			}
			out = append(out, fmt.Sprintf("%s%s %s %s <%s>", pre, key(en.Spec.Addr), en.Spec.Type, modelDesc(en.Spec.Desc), strings.Join(fs, " ")))
		}
	}
	return strings.Join(out, "; ")
}

// announce sends the initial discovery reply (same as world.Announce, with this package's specs).
func (m *machine) announce(t *rapid.T, pi int, ents []entSpec) {
	p := m.w.Peers[pi]
	entries := []entry{{Spec: deviceInfo()}}
	m.trees[pi][key([]uint{0})] = clone(deviceInfo())
	var want []string
	for _, e := range ents {
		entries = append(entries, entry{Spec: e})
		m.trees[pi][key(e.Addr)] = clone(e)
		want = append(want, fmt.Sprintf("%s add %s", p.Ski, key(e.Addr)))
	}
	cmd := model.CmdType{NodeManagementDetailedDiscoveryData: discoveryData(p, entries, true)}
	m.logf("peer%d initial reply: %s", pi+1, describe(entries))
	func() {
		defer func() {
			if r := recover(); r != nil {
				world.Fail(t, "C06/crash/initial-reply", "the stack panicked while handling the message: %v%s", r, m.history())
			}
		}()
		p.Send(p.Msg(model.CmdClassifierTypeReply, p.NM(), world.LocalNM(), false, p.DiscoveryRef, cmd))
	}()
	m.w.Sync()
	m.checkTree(t, pi, "tree-mismatch", "initial-reply", "the initial reply")
	// entity [0] exists since the connection was set up: no event for it
	m.settle(t, want, "entity-events", "initial-reply", "the initial reply")
}

// reconnect: the connection of a peer goes and the device connects again; what the stack knows
// about it starts from scratch with the new initial reply.
func (m *machine) reconnect(t *rapid.T) {
	if m.budget(t) {
		return
	}
	pi := rapid.IntRange(0, len(m.w.Peers)-1).Draw(t, "peer")
	old := m.w.Peers[pi]
	m.w.Local.RemoveRemoteDeviceConnection(old.Ski)
	m.w.Sync()
	old.Gone = true
	m.w.ReconnectOnly(old)
	m.w.Sync()
	m.w.Events.Drain()
	m.trees[pi] = tree{}
	m.books[pi] = nil
	m.logf("peer%d: connection removed, the device connects again", pi+1)
	m.dkey = append(m.dkey, fmt.Sprintf("p%d reconnect", pi+1))
	world.Label("op/reconnect")
	delete(m.unannounced, pi)
	if rapid.IntRange(0, 3).Draw(t, "re.replyLate") == 0 {
		m.unannounced[pi] = true
		m.trees[pi][key([]uint{0})] = clone(deviceInfo())
		m.logf("peer%d: the initial reply has not arrived yet", pi+1)
		return
	}
	var ents []entSpec
	for j, addr := range addrDomain {
		if rapid.IntRange(0, 2).Draw(t, fmt.Sprintf("re.initial%d", j)) == 2 {
			ents = append(ents, drawEntity(t, addr, fmt.Sprintf("re.i%d", j)))
		}
	}
	m.announce(t, pi, ents)
	for i := range m.w.Peers {
		m.checkTree(t, i, "tree-mismatch", "reconnect", "the reconnect of a peer")
	}
}

func maxMessages() int {
	def := 8
	if world.Thorough() {
		def = 15
	}
	return world.EnvInt("C06_MAX_MESSAGES", def)
}

func TestRemoteTree(t *testing.T) {
	rapid.Check(t, world.Prop(func(t *rapid.T) {
		m := &machine{w: world.New(), maxMsgs: maxMessages(), unannounced: map[int]bool{}}
		defer m.w.Teardown()
		// two local entities with one server feature per kind (a server feature takes one binding),
		// one local client feature per kind
		for _, addr := range [][]uint{{1}, {2}} {
			le := m.w.AddLocalEntity(addr, model.EntityTypeTypeCEM, time.Second)
			for _, k := range featKinds {
				m.servers = append(m.servers, m.w.AddLocalFeature(le, world.FeatSpec{Type: k.ft, Role: model.RoleTypeServer,
					Funcs: []world.FuncSpec{{Fn: k.fns[0], Read: true, Write: true}}}))
			}
			if len(addr) == 1 && addr[0] == 1 {
				for _, k := range featKinds {
					m.clients = append(m.clients, m.w.AddLocalFeature(le, world.FeatSpec{Type: k.ft, Role: model.RoleTypeClient}))
				}
			}
		}
		for i := 0; i < 2; i++ {
			m.w.Connect(fmt.Sprintf("ski-%d", i+1), fmt.Sprintf("d:_r:peer%d", i+1))
			m.trees = append(m.trees, tree{})
			m.books = append(m.books, nil)
		}
		m.w.Sync()
		m.w.Events.Drain()
		for i := range m.w.Peers {
			if rapid.IntRange(0, 4).Draw(t, fmt.Sprintf("p%d.replyLate", i+1)) == 0 {
				m.unannounced[i] = true
				m.trees[i][key([]uint{0})] = clone(deviceInfo())
				m.logf("peer%d: the initial reply has not arrived yet", i+1)
				continue
			}
			var ents []entSpec
			for j, addr := range addrDomain {
				if rapid.IntRange(0, 2).Draw(t, fmt.Sprintf("p%d.initial%d", i+1, j)) == 2 {
					ents = append(ents, drawEntity(t, addr, fmt.Sprintf("p%d.i%d", i+1, j)))
				}
			}
			m.announce(t, i, ents)
		}
		for i := range m.w.Peers {
			m.checkTree(t, i, "tree-mismatch", "initial-reply", "both initial replies")
		}

		// every history has at least one discovery message after the initial replies (rapid's
		// Repeat produces a good share of very short action sequences)
		m.message(t)

		t.Repeat(map[string]func(*rapid.T){
			"message":       m.message,
			"message2":      m.message,
			"message3":      m.message,
			"peerSubscribe": m.peerSubscribe,
			"peerBind":      m.peerBind,
			"localClient":   m.localClient,
			"idle":          m.idle,
			"reconnect":     m.reconnect,
		})

		// no further event: the handlers run asynchronously, so look once more after a grace period
		if rapid.IntRange(0, 7).Draw(t, "grace") == 0 {
			time.Sleep(20 * time.Millisecond)
		}
		m.settle(t, nil, "entity-events", "end-of-history", "the end of the history")
		for i := range m.w.Peers {
			m.checkTree(t, i, "tree-mismatch", "end-of-history", "the end of the history")
		}

		nt := m.setChanged
		labels := []string{fmt.Sprintf("messages/%d", m.msgs)}
		if m.cascadeEntries > 0 {
			labels = append(labels, "case/cascade-removed-state")
		}
		world.Record(world.Hash(m.dkey), nt, labels...)
		if nt && world.WantSample() {
			world.Sample(map[string]any{"history": m.hist})
		}
	}))
}
