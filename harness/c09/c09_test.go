// Package c09: bindings - exact registry with at most one binding per server feature.
package c09

import (
	"fmt"
	"github.com/enbility/spine-go/model"
	"github.com/enbility/spine-go/util"
	"sort"
	"strings"
	"testing"

	"github.com/enbility/spine-go/api"
	"pgregory.net/rapid"

	"verifharness/regs"
	"verifharness/world"
)

func TestMain(m *testing.M) { world.Main(m) }

type machine struct {
	w          *regs.W
	binds      map[regs.Key]bool
	ops        []string
	hist       []string
	contention bool // a bind was attempted on an already bound feature by another client
	multi      bool // one client held >= 2 bindings
}

func (m *machine) logf(format string, a ...any) { m.hist = append(m.hist, fmt.Sprintf(format, a...)) }
func (m *machine) history() string              { return "\n history:\n  " + strings.Join(m.hist, "\n  ") }

func countEvents(evs []world.Ev, ct api.ElementChangeType) int {
	n := 0
	for _, e := range evs {
		if e.P.EventType == api.EventTypeBindingChange && e.P.ChangeType == ct {
			n++
		}
	}
	return n
}

func (m *machine) boundServer(server string) bool {
	for k := range m.binds {
		if k.Server == server {
			return true
		}
	}
	return false
}

func (m *machine) checkRegistry(t *rapid.T, after string) {
	got, ids := m.w.Bindings()
	if !regs.KeysEqual(got, m.binds) {
		world.Fail(t, "C09/registry-mismatch/"+after, "after %s the binding registry differs from the model\n got:  %v\n want: %v%s", after, regs.SortedKeys(got), regs.SortedKeys(m.binds), m.history())
	}
	seen := map[uint64]bool{}
	n := 0
	for _, l := range ids {
		for _, id := range l {
			if seen[id] {
				world.Fail(t, "C09/duplicate-id", "binding id %d occurs twice%s", id, m.history())
			}
			seen[id] = true
			n++
		}
	}
	if n != len(m.binds) {
		world.Fail(t, "C09/registry-mismatch/count", "%d entries reported, model has %d%s", n, len(m.binds), m.history())
	}
	// ... and the same as a peer sees it: the reply to its request for the binding data (this
	// implementation serves the list on a call)
	for pi, p := range m.w.Peers {
		p.Cap.Drain()
		d := p.Msg(model.CmdClassifierTypeCall, p.NM(), world.LocalNM(), false, nil, model.CmdType{NodeManagementBindingData: &model.NodeManagementBindingDataType{}})
		p.Send(d)
		m.w.Sync()
		var reply *model.NodeManagementBindingDataType
		for _, s := range p.Cap.Drain() {
			if s.Classifier() == model.CmdClassifierTypeReply && s.Ref() != nil && *s.Ref() == *d.Header.MsgCounter {
				reply = s.Cmd().NodeManagementBindingData
				if reply == nil {
					reply = &model.NodeManagementBindingDataType{}
				}
			}
		}
		if reply == nil {
			world.Fail(t, "C09/reported-list/no-reply", "peer%d's request for the binding data was not answered%s", pi+1, m.history())
		}
		want := map[string]bool{}
		for k := range m.binds {
			if k.Peer == pi {
				want[k.Client+"->"+k.Server] = true
			}
		}
		gotPairs := map[string]int{}
		idsSeen := map[uint64]bool{}
		for _, e := range reply.BindingEntry {
			if e.ClientAddress == nil || e.ServerAddress == nil || e.BindingId == nil {
				world.Fail(t, "C09/reported-list/incomplete-entry", "peer%d's binding list holds an incomplete entry: %s%s", pi+1, world.JSON(e), m.history())
			}
			gotPairs[refOfAddr(e.ClientAddress)+"->"+refOfAddr(e.ServerAddress)]++
			if idsSeen[uint64(*e.BindingId)] {
				world.Fail(t, "C09/reported-list/duplicate-id", "peer%d's binding list holds id %d twice%s", pi+1, *e.BindingId, m.history())
			}
			idsSeen[uint64(*e.BindingId)] = true
		}
		okList := len(gotPairs) == len(want) && len(reply.BindingEntry) == len(want)
		for k, c := range gotPairs {
			if !want[k] || c != 1 {
				okList = false
			}
		}
		if !okList {
			var w []string
			for k := range want {
				w = append(w, k)
			}
			sort.Strings(w)
			world.Fail(t, "C09/reported-list/differs-from-registry", "after %s the binding list peer%d reads (%s) is not its entries %v%s", after, pi+1, world.JSON(reply), w, m.history())
		}
	}
	// at no time more than one binding per server feature
	for i, r := range regs.ServerRefs {
		a := world.LA(r.Ent, r.Feat)
		if l := m.w.Local.BindingManager().BindingsOnFeature(*a); len(l) > 1 {
			world.Fail(t, "C09/two-bindings-on-feature", "server feature %s (#%d) has %d bindings%s", r, i, len(l), m.history())
		}
	}
	perClient := map[string]int{}
	for k := range m.binds {
		perClient[fmt.Sprint(k.Peer, k.Client)]++
		if perClient[fmt.Sprint(k.Peer, k.Client)] >= 2 {
			m.multi = true
		}
	}
}

func (m *machine) bind(t *rapid.T) {
	c := regs.DrawCall(t, m.w, "bind")
	want := m.w.Eligible(c) && !m.boundServer(c.Server.String())
	if m.w.Eligible(c) && m.boundServer(c.Server.String()) {
		m.contention = true
	}
	m.w.Events.Drain()
	n, ok := m.w.Do(c, world.BindCall(m.w.ClientAddr(c), m.w.ServerAddr(c), c.Type))
	m.logf("bind %s => results=%d granted=%v (model %v)", c, n, ok, want)
	if n != 1 {
		world.Fail(t, "C09/result-count/bind", "a binding call with ack got %d results%s", n, m.history())
	}
	if ok != want {
		kind := "granted-wrongly"
		if want {
			kind = "refused-wrongly"
		}
		world.Fail(t, "C09/bind-verdict/"+kind, "binding call %s: granted=%v, the grant rule says %v (eligible=%v, feature already bound=%v)%s", c, ok, want, m.w.Eligible(c), m.boundServer(c.Server.String()), m.history())
	}
	if ok {
		m.binds[c.Key()] = true
	}
	evs := m.w.Events.Drain()
	wantEv := 0
	if ok {
		wantEv = 1
	}
	if got := countEvents(evs, api.ElementChangeAdd); got != wantEv || countEvents(evs, api.ElementChangeRemove) != 0 {
		world.Fail(t, "C09/event-count/bind", "binding call (granted=%v) published %d add events%s", ok, got, m.history())
	}
	m.ops = append(m.ops, fmt.Sprintf("bind:%v", ok))
	m.checkRegistry(t, "bind")
}

func (m *machine) unbind(t *rapid.T) {
	var c regs.Call
	if len(m.binds) > 0 && rapid.IntRange(0, 3).Draw(t, "existing") != 0 {
		var list []regs.Key
		for k := range m.binds {
			list = append(list, k)
		}
		sort.Slice(list, func(i, j int) bool { return fmt.Sprint(list[i]) < fmt.Sprint(list[j]) })
		k := list[rapid.IntRange(0, len(list)-1).Draw(t, "entry")]
		c = regs.Call{Peer: k.Peer}
		for _, r := range regs.ClientRefs {
			if r.String() == k.Client {
				c.Client = r
			}
		}
		for _, r := range regs.ServerRefs {
			if r.String() == k.Server {
				c.Server = r
			}
		}
		switch rapid.IntRange(0, 5).Draw(t, "variant") {
		case 0: // the same addresses from another peer (identical numbering)
			c.Peer = rapid.IntRange(0, len(m.w.Peers)-1).Draw(t, "peer")
		case 1: // the right client, another server feature
			c.Server = regs.ServerRefs[rapid.IntRange(0, len(m.w.Servers)-1).Draw(t, "otherServer")]
		}
		c.OmitClientDev = rapid.Bool().Draw(t, "omitC")
		c.OmitServerDev = rapid.Bool().Draw(t, "omitS")
	} else {
		c = regs.DrawCall(t, m.w, "unbind")
	}
	regs.DrawForeignClientDev(t, m.w, &c, "unbind")
	// a client address that names another device denotes no binding of the sender
	want := m.binds[c.Key()] && c.ForeignClientDev == ""
	if c.ForeignClientDev != "" {
		world.Label("unbind/client-address-names-foreign-device")
	}
	m.w.Events.Drain()
	n, ok := m.w.Do(c, world.UnbindCall(m.w.ClientAddr(c), m.w.ServerAddr(c)))
	m.logf("unbind %s => results=%d ok=%v (model %v)", c, n, ok, want)
	if n != 1 {
		world.Fail(t, "C09/result-count/unbind", "a binding delete call with ack got %d results%s", n, m.history())
	}
	if ok != want {
		kind := "succeeded-wrongly"
		if want {
			kind = "failed-wrongly"
		}
		world.Fail(t, "C09/unbind-verdict/"+kind, "delete call %s: ok=%v, but the binding present=%v%s", c, ok, want, m.history())
	}
	if ok {
		delete(m.binds, c.Key())
	}
	evs := m.w.Events.Drain()
	wantEv := 0
	if ok {
		wantEv = 1
	}
	if got := countEvents(evs, api.ElementChangeRemove); got != wantEv || countEvents(evs, api.ElementChangeAdd) != 0 {
		world.Fail(t, "C09/event-count/unbind", "delete call (ok=%v) published %d remove events%s", ok, got, m.history())
	}
	m.ops = append(m.ops, fmt.Sprintf("unbind:%v", ok))
	m.checkRegistry(t, "unbind")
}

func TestBindings(t *testing.T) {
	rapid.Check(t, world.Prop(func(t *rapid.T) {
		// up to two of the three peers have not announced themselves yet
		silent := rapid.SampledFrom([]int{0, 0, 0, 1, 2}).Draw(t, "unannouncedPeers")
		world.Label(fmt.Sprintf("unannouncedPeers/%d", silent))
		m := &machine{w: regs.NewWithUnannounced(3, silent), binds: map[regs.Key]bool{}}
		defer m.w.Teardown()
		t.Repeat(map[string]func(*rapid.T){
			"bind":        m.bind,
			"bind2":       m.bind,
			"unbind":      m.unbind,
			"unbind2":     m.unbind,
			"rediscovery": m.rediscovery,
			"subEntity":   m.subEntityGoesAndComes,
		})
		nt := m.contention || m.multi
		world.Record(world.Hash(m.ops, regs.SortedKeys(m.binds)), nt, fmt.Sprintf("contention/%v", m.contention), fmt.Sprintf("multi/%v", m.multi))
		if nt && world.WantSample() {
			world.Sample(map[string]any{"history": m.hist})
		}
	}))
}

// rediscovery: a peer that has announced itself sends its detailed discovery data once more (a second reply to the
// stack's read, as after the application asked again). Nothing is added or removed by it: the registry stays exactly
// as it is, and the bindings in it can be deleted afterwards like before (the unbind operation draws them).
func (m *machine) rediscovery(t *rapid.T) {
	pi := rapid.IntRange(0, len(m.w.Peers)-1).Draw(t, "peer")
	p := m.w.Peers[pi]
	if p.Ents == nil {
		t.Skip("the peer has not announced itself")
	}
	p.Send(p.Msg(model.CmdClassifierTypeReply, p.NM(), world.LocalNM(), false, p.DiscoveryRef, model.CmdType{NodeManagementDetailedDiscoveryData: p.DiscoveryData(p.Ents, nil)}))
	m.w.Sync()
	m.w.Events.Drain()
	m.logf("peer%d sends its discovery data again", pi+1)
	m.ops = append(m.ops, "rediscovery")
	m.checkRegistry(t, "rediscovery")
}

// subEntityGoesAndComes: a peer announces its sub entity [2,1] as removed and, in the same operation, as added again
// (the vehicle at a wallbox). The bindings held by client features of [2,1] go with it; every other binding - of the
// parent entity [2] in particular, whose address is a prefix of [2,1] - stays.
func (m *machine) subEntityGoesAndComes(t *rapid.T) {
	pi := rapid.IntRange(0, len(m.w.Peers)-1).Draw(t, "peer")
	p := m.w.Peers[pi]
	if p.Ents == nil {
		t.Skip("the peer has not announced itself")
	}
	var sub world.EntSpec
	for _, e := range p.Ents {
		if len(e.Addr) == 2 && e.Addr[0] == 2 && e.Addr[1] == 1 {
			sub = e
		}
	}
	if sub.Addr == nil {
		t.Skip("no sub entity")
	}
	notify := func(change model.NetworkManagementStateChangeType, ent world.EntSpec) {
		cmd := model.CmdType{Function: util.Ptr(model.FunctionTypeNodeManagementDetailedDiscoveryData), Filter: []model.FilterType{*model.NewFilterTypePartial()},
			NodeManagementDetailedDiscoveryData: p.DiscoveryData([]world.EntSpec{ent}, &change)}
		p.Send(p.Msg(model.CmdClassifierTypeNotify, p.NM(), world.LocalNM(), false, nil, cmd))
		m.w.Sync()
	}
	notify(model.NetworkManagementStateChangeTypeRemoved, world.EntSpec{Addr: sub.Addr, Type: sub.Type})
	subRefPrefix := regs.Ref{Ent: sub.Addr, Feat: 0}.String()
	subRefPrefix = subRefPrefix[:strings.LastIndex(subRefPrefix, "/")+1]
	for k := range m.binds {
		if k.Peer == pi && strings.HasPrefix(k.Client, subRefPrefix) {
			delete(m.binds, k)
		}
	}
	m.logf("peer%d announces its sub entity %v as removed", pi+1, sub.Addr)
	m.w.Events.Drain()
	m.checkRegistry(t, "sub-entity-removed")
	notify(model.NetworkManagementStateChangeTypeAdded, sub)
	m.w.Events.Drain()
	m.logf("peer%d announces its sub entity %v again", pi+1, sub.Addr)
	m.ops = append(m.ops, "sub-entity")
	m.checkRegistry(t, "sub-entity-added-again")
}

func refOfAddr(a *model.FeatureAddressType) string {
	var ent []uint
	for _, e := range a.Entity {
		ent = append(ent, uint(e))
	}
	f := uint(0)
	if a.Feature != nil {
		f = uint(*a.Feature)
	}
	return regs.Ref{Ent: ent, Feat: f}.String()
}
