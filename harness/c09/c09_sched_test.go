//go:build verif

package c09

import (
	"fmt"
	"sync"
	"testing"

	"github.com/enbility/spine-go/model"

	"verifharness/regs"
	"verifharness/scen"
	"verifharness/sched"
	"verifharness/world"
)

const bindPoint = "AddBinding.afterCheck"

type bindAttempt struct {
	peer   int
	client regs.Ref
	server regs.Ref
	ft     model.FeatureTypeType
}

// judgeContention checks the single-binding rule after concurrent bind requests.
func judgeContention(t world.TB, w *regs.W, attempts []bindAttempt, counters []*model.MsgCounterType, how string) {
	w.Sync()
	granted := 0
	for i, a := range attempts {
		n, ok := 0, false
		for _, s := range w.Peers[a.peer].Cap.Drain() {
			if s.Ref() != nil && *s.Ref() == *counters[i] {
				n++
				ok = s.ErrorNumber() == 0
			}
		}
		if n != 1 {
			world.Fail(t, "C09/concurrent/result-count", "%s: bind request %d got %d results", how, i, n)
		}
		if ok {
			granted++
		}
	}
	for si, r := range regs.ServerRefs[:len(w.Servers)] {
		if l := w.Local.BindingManager().BindingsOnFeature(*world.LA(r.Ent, r.Feat)); len(l) > 1 {
			world.Fail(t, "C09/concurrent/two-bindings-on-feature", "%s: server feature #%d %s has %d bindings after concurrent bind requests from different peers", how, si, r, len(l))
		}
	}
	got, _ := w.Bindings()
	if len(got) != granted {
		world.Fail(t, "C09/concurrent/registry-vs-results", "%s: %d requests were granted but the registry holds %d bindings", how, granted, len(got))
	}
	if granted != 1 {
		world.Fail(t, "C09/concurrent/grant-count", "%s: %d of %d contending requests for one free server feature were granted (expected exactly one)", how, granted, len(attempts))
	}
}

// TestBindInterleavings enumerates all interleavings of two (and three) bind requests for the
// same server feature arriving on different connections, over the yield point between the
// single-binding check and the insertion.
func TestBindInterleavings(t *testing.T) {
	total, nontrivial, reached := 0, 0, 0
	replay := sched.LoadReplay("TestBindInterleavings")
	for _, peers := range []int{2, 3} {
		for si := 0; si < 2; si++ {
			peers, si := peers, si
			if replay != nil && (replay.Params["peers"] != peers || replay.Params["server"] != si) {
				continue
			}
			world.Guard(func() {
				enumerate := func(sc func() ([]sched.Op, func(*sched.Result))) int {
					if replay != nil {
						ops, judge := sc()
						judge(sched.RunChoices(ops, []string{bindPoint}, replay.Choices))
						return 1
					}
					return sched.Enumerate([]string{bindPoint}, 400, sc)
				}
				n := enumerate(func() ([]sched.Op, func(*sched.Result)) {
					w := regs.New(peers)
					srv := regs.ServerRefs[si]
					var attempts []bindAttempt
					counters := make([]*model.MsgCounterType, peers)
					var ops []sched.Op
					for p := 0; p < peers; p++ {
						p := p
						a := bindAttempt{peer: p, client: regs.Ref{Ent: []uint{1}, Feat: uint(si + 1)}, server: srv, ft: w.Servers[si].Type}
						attempts = append(attempts, a)
						peer := w.Peers[p]
						d := peer.Msg(model.CmdClassifierTypeCall, peer.NM(), world.LocalNM(), true, nil,
							world.BindCall(peer.FA(a.client.Ent, a.client.Feat), world.LA(srv.Ent, srv.Feat), a.ft))
						counters[p] = d.Header.MsgCounter
						ops = append(ops, sched.Op{Name: fmt.Sprintf("peer%d.bind", p+1), Fn: func() { peer.Send(d) }})
					}
					return ops, func(r *sched.Result) {
						defer w.Teardown()
						defer func() {
							if t.Failed() {
								world.SaveReplay("TestBindInterleavings.json", sched.ReplaySpec{Test: "TestBindInterleavings", Params: map[string]int{"peers": peers, "server": si}, Choices: r.Choices, Trace: r.Trace})
							}
						}()
						total++
						nt := r.Parked[bindPoint] >= 2
						if nt {
							nontrivial++
						}
						if r.Parked[bindPoint] > 0 {
							reached++
						}
						world.Record(world.Hash("sched", peers, si, r.Choices), nt, "sched/bind")
						if nt && world.WantSample() {
							world.Sample(map[string]any{"kind": "schedule", "peers": peers, "trace": r.Trace})
						}
						if len(r.Panics) > 0 || r.Deadlock {
							world.Fail(t, "C09/concurrent/panic-or-deadlock", "schedule %s: panics=%v deadlock=%v", r, r.Panics, r.Deadlock)
						}
						judgeContention(t, w, attempts, counters, "schedule ["+r.String()+"]")
					}
				})
				world.AddExtra("schedules", int64(n))
			})
		}
	}
	world.SetExtra("schedule_enumeration_exhaustive", true)
	world.SetExtra("yield_point_reached", reached > 0)
	if reached == 0 {
		t.Logf("yield point %s never reached: only the free-running stress explores this window", bindPoint)
	}
}

// TestBindStress: free-running goroutines inject contending bind requests on different connections.
func TestBindStress(t *testing.T) {
	rounds := world.EnvInt("VERIF_ROUNDS", 300)
	world.Guard(func() {
		for r := 0; r < rounds; r++ {
			w := regs.New(3)
			var attempts []bindAttempt
			counters := make([]*model.MsgCounterType, 3)
			start := make(chan struct{})
			var wg sync.WaitGroup
			si := r % 2
			srv := regs.ServerRefs[si]
			for p := 0; p < 3; p++ {
				a := bindAttempt{peer: p, client: regs.Ref{Ent: []uint{1}, Feat: uint(si + 1)}, server: srv, ft: w.Servers[si].Type}
				attempts = append(attempts, a)
				peer := w.Peers[p]
				d := peer.Msg(model.CmdClassifierTypeCall, peer.NM(), world.LocalNM(), true, nil,
					world.BindCall(peer.FA(a.client.Ent, a.client.Feat), world.LA(srv.Ent, srv.Feat), a.ft))
				counters[p] = d.Header.MsgCounter
				wg.Add(1)
				go func() {
					defer wg.Done()
					<-start
					peer.Send(d)
				}()
			}
			close(start)
			world.WaitOrDiagnose(t, &wg, "C09/concurrent", fmt.Sprintf("three bind requests for one server feature at once (round %d)", r))
			world.Record(world.Hash("stress", r), true, "stress/bind")
			judgeContention(t, w, attempts, counters, fmt.Sprintf("free-running round %d", r))
			w.Teardown()
		}
	})
}

// see scen.RegistryMix
func TestRegistryMixStress(t *testing.T) { scen.RegistryMix(t, "C09") }
