// Package c19: numeric and temporal conversions are exact within their declared precision.
package c19

import (
	"encoding/json"
	"fmt"
	"math"
	"math/big"
	"strconv"
	"testing"
	"time"

	"github.com/enbility/spine-go/model"
	"pgregory.net/rapid"

	"verifharness/world"
)

func TestMain(m *testing.M) { world.Main(m) }

var pow10 = []int64{1, 10, 100, 1000, 10000}

// decimalFloat returns the float64 nearest to k*10^-d, the way a caller writes a decimal literal.
func decimalFloat(k int64, d int) float64 {
	v, err := strconv.ParseFloat(fmt.Sprintf("%de-%d", k, d), 64)
	if err != nil {
		panic(err)
	}
	return v
}

func ratOfScaled(n *model.ScaledNumberType) *big.Rat {
	r := new(big.Rat)
	if n.Number == nil {
		return r
	}
	r.SetInt64(int64(*n.Number))
	sc := 0
	if n.Scale != nil {
		sc = int(*n.Scale)
	}
	p := new(big.Rat).SetInt(new(big.Int).Exp(big.NewInt(10), big.NewInt(int64(abs(sc))), nil))
	if sc >= 0 {
		return r.Mul(r, p)
	}
	return r.Quo(r, p)
}

func abs(i int) int {
	if i < 0 {
		return -i
	}
	return i
}

func ulpDiff(a, b float64) float64 {
	if a == b {
		return 0
	}
	u := math.Abs(math.Nextafter(b, math.Inf(1)) - b)
	if u == 0 {
		return math.Inf(1)
	}
	return math.Abs(a-b) / u
}

// checkDecimal is the oracle for "a decimal with at most four fractional digits converts to
// the scaled representation and back to the same number".
func checkDecimal(t world.TB, k int64, d int) {
	v := decimalFloat(k, d)
	n := model.NewScaledNumberType(v)
	want := big.NewRat(k, pow10[d])
	got := ratOfScaled(n)
	if got.Cmp(want) != 0 {
		dir := "low"
		if got.Cmp(want) > 0 {
			dir = "high"
		}
		world.Fail(t, "C19/scaled/decimal-off-by-unit/"+dir,
			"NewScaledNumberType(%v) [k=%d d=%d] = number %d scale %d = %s, want %s",
			v, k, d, *n.Number, *n.Scale, got.RatString(), want.RatString())
	}
	if back := n.GetValue(); ulpDiff(back, v) > 4 {
		world.Fail(t, "C19/scaled/getvalue", "GetValue()=%v for %v (k=%d d=%d), %.1f ulp apart", back, v, k, d, ulpDiff(back, v))
	}
}

func nontrivialDecimal(k int64, d int) bool {
	// not exactly representable in binary after scaling: v*10^d differs from k as reals
	v := decimalFloat(k, d)
	exact := new(big.Rat).SetFloat64(v)
	exact.Mul(exact, big.NewRat(pow10[d], 1))
	return exact.Cmp(big.NewRat(k, 1)) != 0
}

func TestScaledDecimal(t *testing.T) {
	rapid.Check(t, world.Prop(func(t *rapid.T) {
		d := rapid.IntRange(0, 4).Draw(t, "d")
		var k int64
		if rapid.Bool().Draw(t, "dense") {
			k = rapid.Int64Range(-300000, 300000).Draw(t, "k")
		} else {
			k = rapid.Int64Range(-9_999_999_999_999, 9_999_999_999_999).Draw(t, "k")
		}
		nt := nontrivialDecimal(k, d)
		world.Record(world.Hash("dec", k, d), nt, fmt.Sprintf("decimal/d=%d", d))
		if nt && world.WantSample() {
			world.Sample(map[string]any{"kind": "decimal", "k": k, "d": d, "float": decimalFloat(k, d)})
		}
		if rapid.IntRange(0, 3).Draw(t, "earlierValueUsedAsReceiver") == 0 {
			// a value the conversion returned earlier (same number of decimals) serves as the receiver of a decoded
			// scaled number afterwards - the decoder writes through the pointers the value holds. What belongs to one
			// value must not reach the conversion of another
			earlier := model.NewScaledNumberType(decimalFloat(rapid.Int64Range(-99999, 99999).Draw(t, "earlierK")*10+1, d))
			if err := json.Unmarshal([]byte(`{"number":7,"scale":3}`), earlier); err != nil {
				world.Fail(t, "C19/scaled/unmarshal", "unmarshal into an earlier value: %v", err)
			}
			world.Label("decimal/earlier-value-used-as-receiver")
		}
		checkDecimal(t, k, d)
	}))
}

// TestScaledFloat: any number of magnitude below 1e14 converts to within 0.0001 of itself.
func TestScaledFloat(t *testing.T) {
	rapid.Check(t, world.Prop(func(t *rapid.T) {
		exp := rapid.IntRange(-8, 13).Draw(t, "exp")
		m := rapid.Float64Range(1, 10).Draw(t, "mant")
		v := m * math.Pow(10, float64(exp))
		if rapid.Bool().Draw(t, "neg") {
			v = -v
		}
		if math.Abs(v) >= 1e14 {
			v = math.Copysign(9.9999e13, v)
		}
		n := model.NewScaledNumberType(v)
		exact := new(big.Rat).SetFloat64(v)
		diff := new(big.Rat).Sub(ratOfScaled(n), exact)
		diff.Abs(diff)
		world.Record(world.Hash("flt", v), true, fmt.Sprintf("float/exp=%d", exp))
		if world.WantSample() {
			world.Sample(map[string]any{"kind": "float", "v": v})
		}
		if diff.Cmp(big.NewRat(1, 10000)) > 0 {
			f, _ := diff.Float64()
			world.Fail(t, "C19/scaled/float-tolerance", "NewScaledNumberType(%v) = %d e%d, off by %g", v, *n.Number, *n.Scale, f)
		}
		gv, _ := ratOfScaled(n).Float64()
		if ulpDiff(n.GetValue(), gv) > 4 {
			world.Fail(t, "C19/scaled/getvalue", "GetValue()=%v but number*10^scale=%v", n.GetValue(), gv)
		}
	}))
}

const maxTenths = int64(3276) * 24 * 3600 * 10 // documented exact range of the period type: 3276 days

func checkDuration(t world.TB, tenths int64) {
	d := time.Duration(tenths) * 100 * time.Millisecond
	s := model.NewDurationType(d)
	got, err := s.GetTimeDuration()
	if err != nil || got != d {
		world.Fail(t, "C19/duration/roundtrip", "NewDurationType(%v)=%q reads back as %v (err %v)", d, *s, got, err)
	}
	// the same through the absolute-or-relative type
	a := model.NewAbsoluteOrRelativeTimeTypeFromDuration(d)
	got2, err2 := a.GetTimeDuration()
	if err2 != nil || got2 != d || !a.IsRelativeTime() {
		world.Fail(t, "C19/duration/roundtrip-relative", "NewAbsoluteOrRelativeTimeTypeFromDuration(%v)=%q reads back as %v (err %v)", d, *a, got2, err2)
	}
	// ... and through the duration text the absolute-or-relative type hands out (a third way from text to duration and back)
	dt, err3 := a.GetDurationType()
	if err3 != nil || dt == nil {
		world.Fail(t, "C19/duration/roundtrip-relative-durationtype", "GetDurationType of %q (%v): %v", *a, d, err3)
		return
	}
	if got3, err4 := dt.GetTimeDuration(); err4 != nil || got3 != d {
		world.Fail(t, "C19/duration/roundtrip-relative-durationtype", "%v -> %q -> GetDurationType %q reads back as %v (err %v)", d, *a, *dt, got3, err4)
	}
	// the textual form of a duration is not unique: a peer may spell two hours PT2H, PT120M or PT7200S. Every
	// legal spelling of a whole number of seconds reads back as that duration (from text to duration only; what
	// the stack itself writes is checked above)
	if tenths >= 0 && tenths%10 == 0 {
		secs := tenths / 10
		texts := []string{fmt.Sprintf("PT%dS", secs), fmt.Sprintf("PT%dM%dS", secs/60, secs%60)}
		if secs%60 == 0 {
			texts = append(texts, fmt.Sprintf("PT%dM", secs/60))
		}
		if secs%3600 == 0 {
			texts = append(texts, fmt.Sprintf("PT%dH", secs/3600))
		}
		for _, tx := range texts {
			other := model.DurationType(tx)
			if got, err := other.GetTimeDuration(); err != nil || got != d {
				world.Fail(t, "C19/duration/other-spelling", "the duration text %q reads back as %v (err %v), it denotes %v", tx, got, err, d)
			}
			rel := model.AbsoluteOrRelativeTimeType(tx)
			if got, err := rel.GetTimeDuration(); err != nil || got != d || !rel.IsRelativeTime() {
				world.Fail(t, "C19/duration/other-spelling", "the relative time %q reads back as %v (err %v, relative=%v), it denotes %v", tx, got, err, rel.IsRelativeTime(), d)
			}
		}
	}
}

func unitsOf(tenths int64) int {
	n := 0
	if tenths%10 != 0 {
		n++
	}
	s := tenths / 10
	for _, u := range []int64{60, 60, 24} {
		if s%u != 0 {
			n++
		}
		s /= u
	}
	if s != 0 {
		n++
	}
	return n
}

func TestDuration(t *testing.T) {
	rapid.Check(t, world.Prop(func(t *rapid.T) {
		var tenths int64
		switch rapid.IntRange(0, 2).Draw(t, "range") {
		case 0:
			tenths = rapid.Int64Range(0, 55*3600*10).Draw(t, "tenths")
		case 1:
			tenths = rapid.Int64Range(0, maxTenths).Draw(t, "tenths")
		default: // unit boundaries
			base := rapid.SampledFrom([]int64{10, 600, 36000, 864000, 864000 * 7, 864000 * 365}).Draw(t, "unit")
			tenths = base*rapid.Int64Range(1, 60).Draw(t, "mul") + rapid.Int64Range(-11, 11).Draw(t, "off")
			if tenths < 0 {
				tenths = -tenths
			}
			if tenths > maxTenths {
				tenths = maxTenths
			}
		}
		if rapid.Bool().Draw(t, "neg") {
			tenths = -tenths
		}
		nt := unitsOf(absI(tenths)) >= 2
		world.Record(world.Hash("dur", tenths), nt, "duration")
		if nt && world.WantSample() {
			world.Sample(map[string]any{"kind": "duration", "tenths_of_second": tenths, "text": string(*model.NewDurationType(time.Duration(tenths) * 100 * time.Millisecond))})
		}
		checkDuration(t, tenths)
	}))
}

func absI(i int64) int64 {
	if i < 0 {
		return -i
	}
	return i
}

var (
	minInstant = time.Date(1, 1, 1, 0, 0, 0, 0, time.UTC).Unix()
	maxInstant = time.Date(9999, 12, 31, 23, 59, 59, 0, time.UTC).Unix()
)

func TestInstant(t *testing.T) {
	locs := []*time.Location{time.UTC, time.FixedZone("p", 3600*5+1800), time.FixedZone("m", -3600*11)}
	rapid.Check(t, world.Prop(func(t *rapid.T) {
		var sec int64
		if rapid.Bool().Draw(t, "recent") {
			sec = rapid.Int64Range(0, 4102444800).Draw(t, "sec")
		} else {
			sec = rapid.Int64Range(minInstant, maxInstant).Draw(t, "sec")
		}
		loc := rapid.SampledFrom(locs).Draw(t, "loc")
		ts := time.Unix(sec, 0).In(loc)
		a := model.NewAbsoluteOrRelativeTimeTypeFromTime(ts)
		got, err := a.GetTime()
		world.Record(world.Hash("inst", sec), true, "instant")
		if world.WantSample() {
			world.Sample(map[string]any{"kind": "instant", "unix": sec, "text": string(*a)})
		}
		if err != nil || !got.Equal(ts) {
			world.Fail(t, "C19/instant/roundtrip", "instant %v -> %q -> %v (err %v)", ts.UTC(), *a, got, err)
		}
		dt := model.NewDateTimeTypeFromTime(ts)
		got2, err2 := dt.GetTime()
		if err2 != nil || !got2.Equal(ts) {
			world.Fail(t, "C19/instant/roundtrip-datetime", "instant %v -> %q -> %v (err %v)", ts.UTC(), *dt, got2, err2)
		}
		if a.IsRelativeTime() {
			world.Fail(t, "C19/instant/is-relative", "absolute instant %q reported as relative", *a)
		}
		// the date-time text the absolute-or-relative type hands out names the same instant
		if got3, err3 := a.GetDateTimeType().GetTime(); err3 != nil || !got3.Equal(ts) {
			world.Fail(t, "C19/instant/roundtrip-datetime", "instant %v -> %q -> GetDateTimeType -> %v (err %v)", ts.UTC(), *a, got3, err3)
		}
	}))
}

// TestTimePeriod: a relative end time of a time period is read back as the remaining duration
// to the second, also after a JSON round trip.
func TestTimePeriod(t *testing.T) {
	rapid.Check(t, world.Prop(func(t *rapid.T) {
		secs := rapid.Int64Range(1, 3276*24*3600-10).Draw(t, "secs")
		if rapid.Bool().Draw(t, "small") {
			secs = secs%(48*3600) + 1
		}
		if g := rapid.SampledFrom([]int64{0, 0, 0, 60, 3600, 86400}).Draw(t, "endsJustBeforeBoundary"); g != 0 {
			// clock-aware: the period ends in the last second before a minute / hour / day boundary
			// (UTC) - with the sub-second part of the current time it is rounded across that boundary
			// half of the time
			now := time.Now().UTC().Unix()
			secs = (g - now%g - 1) + g*int64(rapid.IntRange(1, 3).Draw(t, "boundariesAhead"))
			world.Label(fmt.Sprintf("timeperiod/ends-before-%ds-boundary", g))
		}
		d := time.Duration(secs) * time.Second
		viaCtor := rapid.Bool().Draw(t, "ctor")
		var tp *model.TimePeriodType
		created := time.Now()
		if viaCtor {
			tp = model.NewTimePeriodTypeWithRelativeEndTime(d)
		} else {
			tp = &model.TimePeriodType{EndTime: model.NewAbsoluteOrRelativeTimeTypeFromDuration(d)}
		}
		world.Record(world.Hash("tp", secs, viaCtor), true, "timeperiod")
		if world.WantSample() {
			world.Sample(map[string]any{"kind": "timeperiod", "seconds": secs, "via_constructor": viaCtor})
		}
		near := func(what string, got time.Duration, err error) {
			if err != nil {
				world.Fail(t, "C19/timeperiod/"+what, "%s: error %v for %v", what, err, d)
			}
			// what is read back is the REMAINING duration: it counts down while the case runs (on a busy machine the
			// steps of one case can be seconds apart), so the time that has passed since the period was made is
			// allowed for on the low side
			tol := time.Second + 200*time.Millisecond
			if diff := got - d; diff > tol || diff < -(tol+time.Since(created)) {
				world.Fail(t, "C19/timeperiod/"+what, "%s: duration %v read back as %v, %v after the period was made", what, d, got, time.Since(created).Round(time.Millisecond))
			}
		}
		g, errD := tp.GetDuration()
		near("direct", g, errD)
		// the period reaches the encoder through a pointer (as the members of the data model do), as a plain value,
		// as a member of a struct encoded by value, or as a map value
		var b []byte
		var err error
		switch how := rapid.SampledFrom([]string{"pointer", "pointer", "value", "struct-member", "map-value"}).Draw(t, "encodedAs"); how {
		case "pointer":
			b, err = json.Marshal(tp)
		case "value":
			b, err = json.Marshal(*tp)
			world.Label("timeperiod/encoded-as-" + how)
		case "struct-member":
			var wrapped []byte
			wrapped, err = json.Marshal(struct {
				P model.TimePeriodType `json:"p"`
			}{*tp})
			var un struct {
				P json.RawMessage `json:"p"`
			}
			if err == nil {
				err = json.Unmarshal(wrapped, &un)
			}
			b = un.P
			world.Label("timeperiod/encoded-as-" + how)
		default:
			var wrapped []byte
			wrapped, err = json.Marshal(map[string]model.TimePeriodType{"p": *tp})
			var un map[string]json.RawMessage
			if err == nil {
				err = json.Unmarshal(wrapped, &un)
			}
			b = un["p"]
			world.Label("timeperiod/encoded-as-" + how)
		}
		if err != nil {
			world.Fail(t, "C19/timeperiod/marshal", "marshal: %v", err)
		}
		var back model.TimePeriodType
		// the variable the text is decoded into may have held another period before (a receiver that
		// is used again, or the period member of a data item that is decoded a second time): what is
		// read back is the period of the text, nothing of the earlier one
		switch rapid.SampledFrom([]string{"fresh", "fresh", "reused", "reused-in-item"}).Draw(t, "receiver") {
		case "reused":
			world.Label("timeperiod/receiver-reused")
			earlier := `{"startTime":"2020-01-01T00:00:00Z","endTime":"2040-01-01T00:00:00Z"}`
			if err := json.Unmarshal([]byte(earlier), &back); err != nil {
				world.Fail(t, "C19/timeperiod/unmarshal", "unmarshal %s: %v", earlier, err)
			}
		case "reused-in-item":
			world.Label("timeperiod/receiver-reused-in-item")
			var item model.LoadControlLimitDataType
			earlier := `{"limitId":1,"timePeriod":{"startTime":"2020-01-01T00:00:00Z","endTime":"2040-01-01T00:00:00Z"}}`
			if err := json.Unmarshal([]byte(earlier), &item); err != nil {
				world.Fail(t, "C19/timeperiod/unmarshal", "unmarshal %s: %v", earlier, err)
			}
			again := []byte(`{"limitId":1,"timePeriod":` + string(b) + `}`)
			if err := json.Unmarshal(again, &item); err != nil || item.TimePeriod == nil {
				world.Fail(t, "C19/timeperiod/unmarshal", "unmarshal %s: %v", again, err)
			}
			gi, err := item.TimePeriod.GetDuration()
			near("json-reused-receiver", gi, err)
		}
		if err := json.Unmarshal(b, &back); err != nil {
			world.Fail(t, "C19/timeperiod/unmarshal", "unmarshal %s: %v", b, err)
		}
		g2, err := back.GetDuration()
		near("json", g2, err)
		// second hop: re-encoding the decoded value still yields the remaining duration
		b2, _ := json.Marshal(back)
		var back2 model.TimePeriodType
		_ = json.Unmarshal(b2, &back2)
		g3, err := back2.GetDuration()
		near("json2", g3, err)
	}))
}

// TestSweepDecimals enumerates k in [-300000,300000] x d in 0..4 exhaustively (thorough),
// or a stride of it (quick).
func TestSweepDecimals(t *testing.T) {
	shard, shards := world.EnvInt("VERIF_SHARD", 0), world.EnvInt("VERIF_SHARDS", 1)
	stride := int64(world.EnvInt("VERIF_STRIDE", 1))
	off := int64(world.EnvInt("VERIF_SEED", 1) % int(stride))
	var total, nontriv int64
	world.Guard(func() {
		for d := 0; d <= 4; d++ {
			for k := int64(-300000) + off; k <= 300000; k += stride {
				if int((k+300000)/stride)%shards != shard {
					continue
				}
				total++
				nt := nontrivialDecimal(k, d)
				if nt {
					nontriv++
				}
				world.Record(world.Hash("dec", k, d), nt, fmt.Sprintf("sweep/d=%d", d))
				checkDecimal(t, k, d)
			}
		}
	})
	world.SetExtra("sweep_exhaustive", stride == 1)
	world.Sample(map[string]any{"kind": "sweep", "k_range": []int64{-300000, 300000}, "d_range": []int{0, 4}, "stride": stride, "values": total})
}

// TestSweepDurations enumerates n*100ms densely up to 55 h (thorough) or with a stride (quick).
func TestSweepDurations(t *testing.T) {
	shard, shards := int64(world.EnvInt("VERIF_SHARD", 0)), int64(world.EnvInt("VERIF_SHARDS", 1))
	stride := int64(world.EnvInt("VERIF_STRIDE", 1))
	off := int64(world.EnvInt("VERIF_SEED", 1)) % stride
	var total int64
	world.Guard(func() {
		for n := off; n <= 55*3600*10; n += stride {
			if (n/stride)%shards != shard {
				continue
			}
			total++
			world.Record(world.Hash("dur", n), unitsOf(n) >= 2, "sweep/duration")
			checkDuration(t, n)
		}
	})
	world.Sample(map[string]any{"kind": "sweep-durations", "max": "55h", "stride_tenths": stride, "values": total})
}

// Regression cases: the shrunk failures found on the pinned tree (F22), kept as plain checks.
func TestRegression(t *testing.T) {
	for _, c := range []struct {
		k int64
		d int
	}{{29, 2}, {435, 2}, {-29, 2}, {1005, 3}, {57, 2}, {58, 2}, {1009, 3}, {20035, 4}} {
		abandoned := world.Guard(func() { checkDecimal(t, c.k, c.d) })
		world.Record(world.Hash("reg", c.k, c.d), true, "regression")
		_ = abandoned
	}
	world.Sample(map[string]any{"kind": "regression", "cases": "0.29 4.35 -0.29 1.005 0.57 0.58 1.009 2.0035"})
}
