package c04

import (
	"fmt"
	"reflect"
	"sync"
	"testing"
	"time"

	"github.com/enbility/spine-go/model"

	"verifharness/gen"
	"verifharness/listgen"
	"verifharness/refmodel"
	"verifharness/world"
)

// TestWriteVsLocalUpdate: "a write answered with success has applied all of its changes" - also when the
// application changes ANOTHER element of the same list through the local API at the same moment (a server
// feature has one bound client, whose writes are handled one after the other; the application's goroutine is
// what runs beside them). Each round: a changeable element 0 and a changeable element 1; the bound peer writes
// a new value to element 0 (partial, by identifier), the application writes a new value to element 1 (partial, by
// identifier) from its own goroutine, both leave a spinning rendezvous together. Whatever the order, afterwards
// the list holds both new values; the peer's write was answered with exactly one success result.
func TestWriteVsLocalUpdate(t *testing.T) {
	rounds := world.EnvInt("VERIF_ROUNDS", 300)
	world.Guard(func() {
		for _, fn := range functions {
			f := gen.ByFunction(fn)
			valueField := firstScalarNonKey(f)
			if valueField == "" {
				continue
			}
			mk := func(id uint64, val int) reflect.Value {
				it := reflect.New(f.ItemType).Elem()
				for _, k := range f.KeyFields {
					gen.SetKey(it, k, id)
				}
				setScalar(it.FieldByName(valueField), val)
				return it
			}
			w := world.New()
			le := w.AddLocalEntity([]uint{1}, model.EntityTypeTypeCEM, time.Second)
			srv := w.AddLocalFeature(le, world.FeatSpec{Type: f.FeatureType, Role: model.RoleTypeServer, Funcs: []world.FuncSpec{{Fn: f.Fn, Read: true, Write: true}}})
			p := w.AddPeer("ski1", "d:_r:peer1", []world.EntSpec{{Addr: []uint{1}, Type: model.EntityTypeTypeCEM, Feats: []world.FeatSpec{
				{ID: 1, Type: f.FeatureType, Role: model.RoleTypeClient},
			}}})
			if !p.CallOK(world.BindCall(p.FA([]uint{1}, 1), srv.Address(), f.FeatureType)) {
				t.Fatalf("harness: binding not granted")
			}
			a, b := mk(0, 0), mk(1, 0)
			setFlag(f, a, flagTrue)
			setFlag(f, b, flagTrue)
			srv.SetData(f.Fn, refmodel.Payload(f, []reflect.Value{a, b}))
			overlapped := 0
			for r := 1; r <= rounds; r++ {
				remote := refmodel.Update{Partial: true, Items: []reflect.Value{mk(0, r)}}
				local := refmodel.Update{Partial: true, Items: []reflect.Value{mk(1, r)}}
				d := p.Msg(model.CmdClassifierTypeWrite, p.FA([]uint{1}, 1), srv.Address(), true, nil, listgen.Cmd(f, remote))
				fp, fd := listgen.Filters(f, local)
				p.Cap.Drain()
				var wg sync.WaitGroup
				var ready sync.WaitGroup
				gate := make(chan struct{})
				var t0, t1 [2]time.Time
				var localErr *model.ErrorType
				wg.Add(2)
				ready.Add(2)
				go func() {
					defer wg.Done()
					ready.Done()
					<-gate
					t0[0] = time.Now()
					p.Send(d)
					t1[0] = time.Now()
				}()
				go func() {
					defer wg.Done()
					ready.Done()
					<-gate
					t0[1] = time.Now()
					localErr = srv.UpdateData(f.Fn, refmodel.Payload(f, local.Items), fp, fd)
					t1[1] = time.Now()
				}()
				ready.Wait()
				close(gate)
				wg.Wait()
				w.Sync()
				overlap := t0[0].Before(t1[1]) && t0[1].Before(t1[0])
				if overlap {
					overlapped++
				}
				results, errNo := 0, 0
				for _, s := range p.Cap.Drain() {
					if s.Classifier() == model.CmdClassifierTypeResult && s.Ref() != nil && *s.Ref() == *d.Header.MsgCounter {
						results++
						errNo = s.ErrorNumber()
					}
				}
				got := map[string]string{}
				for _, it := range refmodel.ItemsOf(f, srv.DataCopy(f.Fn)) {
					k, _ := gen.KeyOf(f, it)
					got[k] = withoutFlag(f, it)
				}
				k0, _ := gen.KeyOf(f, mk(0, r))
				k1, _ := gen.KeyOf(f, mk(1, r))
				desc := fmt.Sprintf("%s round %d: remote partial write of element 0 (results=%d, error=%d) beside a local partial update of element 1 (err=%v)\n data: %s", f.Fn, r, results, errNo, localErr != nil, world.JSON(srv.DataCopy(f.Fn)))
				if results != 1 || errNo != 0 || localErr != nil {
					world.Fail(t, "C04/changeable-write-rejected/partial/beside-local-update", "a write of a changeable element was not answered with one success result, or the local update failed: %s", desc)
				}
				if got[k0] != withoutFlag(f, mk(0, r)) {
					world.Fail(t, "C04/success-not-applied/partial/beside-local-update", "success result, but the written value is not in the data: %s", desc)
				}
				if got[k1] != withoutFlag(f, mk(1, r)) {
					world.Fail(t, "C04/unaddressed-element-changed/partial/beside-local-update", "the element the application updated at the same moment does not hold the application's value (the write does not address it): %s", desc)
				}
				// non-trivial: the two calls overlapped in time
				world.Record(world.Hash("write-vs-local", fn, r), overlap, "write-vs-local-update")
			}
			world.Label(fmt.Sprintf("write-vs-local-update/overlapped-rounds/%s", bucket(overlapped, rounds)))
			world.Sample(map[string]any{"kind": "write-vs-local-update", "function": string(fn), "rounds": rounds, "rounds_overlapping_in_time": overlapped})
			w.Teardown()
		}
	})
}

func bucket(n, of int) string {
	switch {
	case n == 0:
		return "none"
	case n*4 < of:
		return "under-25%"
	case n*2 < of:
		return "25-50%"
	}
	return "over-50%"
}
