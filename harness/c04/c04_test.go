// Package c04: write-protected elements stay untouched and remote writes are all-or-nothing.
package c04

import (
	"fmt"
	"reflect"
	"sort"
	"strings"
	"testing"
	"time"

	"github.com/enbility/spine-go/model"
	"pgregory.net/rapid"

	"verifharness/gen"
	"verifharness/listgen"
	"verifharness/refmodel"
	"verifharness/world"
)

func TestMain(m *testing.M) { world.Main(m) }

var functions = []model.FunctionType{
	model.FunctionTypeLoadControlLimitListData,
	model.FunctionTypeSetpointListData,
	model.FunctionTypeDeviceConfigurationKeyValueListData,
}

// flag states of an element
const (
	flagTrue   = "T"
	flagFalse  = "F"
	flagAbsent = "-"
)

func setFlag(f *gen.Func, item reflect.Value, state string) {
	fv := item.FieldByName(f.WriteCheck)
	switch state {
	case flagAbsent:
		fv.Set(reflect.Zero(fv.Type()))
	default:
		b := state == flagTrue
		fv.Set(reflect.ValueOf(&b))
	}
}

func flagOf(f *gen.Func, item reflect.Value) string {
	fv := item.FieldByName(f.WriteCheck)
	if fv.IsNil() {
		return flagAbsent
	}
	if fv.Elem().Bool() {
		return flagTrue
	}
	return flagFalse
}

func changeable(f *gen.Func, item reflect.Value) bool { return flagOf(f, item) == flagTrue }

// outcome of one remote write against a fresh world
type outcome struct {
	ack      string // "true" | "false" | "absent": the ackRequest element of the write
	accepted bool
	results  int
	errNo    int
	before   []reflect.Value
	after    []reflect.Value
	beforeJS string
	afterJS  string
}

// execute builds a world whose server feature holds init, lets a bound peer send the write and
// observes the result datagram and the data afterwards.
func execute(t world.TB, f *gen.Func, init []reflect.Value, u refmodel.Update) outcome {
	return executeAck(t, f, init, u, "true")
}

// executeAck: the acknowledgement is optional - requested, declined explicitly or not mentioned.
// Without it an accepted write is answered with nothing, a refused one still with an error result.
func executeAck(t world.TB, f *gen.Func, init []reflect.Value, u refmodel.Update, ack string) outcome {
	w := world.New()
	defer w.Teardown()
	le := w.AddLocalEntity([]uint{1}, model.EntityTypeTypeCEM, time.Second)
	srv := w.AddLocalFeature(le, world.FeatSpec{Type: f.FeatureType, Role: model.RoleTypeServer, Funcs: []world.FuncSpec{{Fn: f.Fn, Read: true, Write: true}}})
	p := w.AddPeer("ski1", "d:_r:peer1", []world.EntSpec{{Addr: []uint{1}, Type: model.EntityTypeTypeCEM, Feats: []world.FeatSpec{
		{ID: 1, Type: f.FeatureType, Role: model.RoleTypeClient},
	}}})
	if !p.CallOK(world.BindCall(p.FA([]uint{1}, 1), srv.Address(), f.FeatureType)) {
		t.Fatalf("harness: binding not granted")
	}
	srv.SetData(f.Fn, refmodel.Payload(f, refmodel.CloneItems(init)))
	o := outcome{ack: ack}
	o.before = refmodel.CloneItems(refmodel.ItemsOf(f, srv.DataCopy(f.Fn)))
	o.beforeJS = world.JSON(srv.DataCopy(f.Fn))
	d := p.Msg(model.CmdClassifierTypeWrite, p.FA([]uint{1}, 1), srv.Address(), ack == "true", nil, listgen.Cmd(f, u))
	if ack == "false" {
		no := false
		d.Header.AckRequest = &no
	}
	p.Send(d)
	w.Sync()
	for _, s := range p.Cap.Drain() {
		if s.Classifier() == model.CmdClassifierTypeResult && s.Ref() != nil && *s.Ref() == *d.Header.MsgCounter {
			o.results++
			o.errNo = s.ErrorNumber()
		}
	}
	o.accepted = o.results == 1 && o.errNo == 0
	if ack != "true" {
		o.accepted = o.results == 0
	}
	o.after = refmodel.CloneItems(refmodel.ItemsOf(f, srv.DataCopy(f.Fn)))
	o.afterJS = world.JSON(srv.DataCopy(f.Fn))
	return o
}

// addressed returns, per element of list, whether the write addresses it.
func addressed(f *gen.Func, list []reflect.Value, u refmodel.Update) []bool {
	out := make([]bool, len(list))
	if !u.HasFilter() {
		for i := range out {
			out[i] = true // a full write addresses the whole list
		}
		return out
	}
	written := map[string]bool{}
	idless := false
	for _, it := range u.Items {
		if k, ok := gen.KeyOf(f, it); ok {
			written[k] = true
		} else {
			idless = true
		}
	}
	for i, it := range list {
		if u.Delete {
			switch {
			case u.DeleteSelector.IsValid():
				if refmodel.SelectorMatches(u.DeleteSelector, it) {
					out[i] = true
				}
			case u.DeleteElements.IsValid():
				out[i] = true
			}
		}
		if u.Partial {
			switch {
			case u.PartialSelector.IsValid():
				if refmodel.SelectorMatches(u.PartialSelector, it) {
					out[i] = true
				}
			case idless:
				out[i] = true
			default:
				if k, ok := gen.KeyOf(f, it); ok && written[k] {
					out[i] = true
				}
			}
		}
	}
	return out
}

func byKey(f *gen.Func, items []reflect.Value) map[string]reflect.Value {
	m := map[string]reflect.Value{}
	for _, it := range items {
		if k, ok := gen.KeyOf(f, it); ok {
			m[k] = it
		}
	}
	return m
}

func sigShape(u refmodel.Update) string {
	return strings.NewReplacer("+", "-", "&", "-and-").Replace(u.Shape())
}

// withoutFlag renders an item with the flag removed (for comparing payload fields only).
func withoutFlag(f *gen.Func, it reflect.Value) string {
	c := reflect.New(it.Type()).Elem()
	c.Set(it)
	setFlag(f, c, flagAbsent)
	return refmodel.ItemJSON(c)
}

// namesSubElement: the delete elements name a sub element of a structured element ("value":{"scale":{}}).
// Whether that clears the sub element or the whole element is not fixed by the statement, so P4 does not
// compare the element's new content then; everything else (P1-P3, P5, P7) is independent of that meaning.
func namesSubElement(u refmodel.Update) bool {
	if !u.DeleteElements.IsValid() {
		return false
	}
	e := u.DeleteElements.Elem()
	for i := 0; i < e.NumField(); i++ {
		ef := e.Field(i)
		if ef.Kind() != reflect.Ptr || ef.IsNil() || ef.Elem().Kind() != reflect.Struct {
			continue
		}
		for j := 0; j < ef.Elem().NumField(); j++ {
			if sf := ef.Elem().Field(j); (sf.Kind() == reflect.Ptr || sf.Kind() == reflect.Slice) && !sf.IsNil() {
				return true
			}
		}
	}
	return false
}

// judge evaluates P1..P5 and P7 on one outcome.
func judge(t world.TB, f *gen.Func, u refmodel.Update, o outcome) {
	shape := sigShape(u)
	desc := func() string {
		return fmt.Sprintf("\n write:  %s\n before: %s\n after:  %s\n result: count=%d error=%d", world.JSON(listgen.Describe(f, u)), o.beforeJS, o.afterJS, o.results, o.errNo)
	}
	if o.ack == "true" && o.results != 1 {
		world.Fail(t, "C04/result-count/"+shape, "an acknowledged authorised write got %d results%s", o.results, desc())
	}
	if o.ack != "true" && (o.results > 1 || (o.results == 1 && o.errNo == 0)) {
		world.Fail(t, "C04/result-count/"+shape+"/no-ack", "an authorised write with ackRequest %s got %d results (last error number %d): nothing when accepted, one error result when refused%s", o.ack, o.results, o.errNo, desc())
	}
	addr := addressed(f, o.before, u)
	after := byKey(f, o.after)
	// P1 + P2 + P5
	for i, b := range o.before {
		k, _ := gen.KeyOf(f, b)
		a, present := after[k]
		if !changeable(f, b) {
			if !present || refmodel.ItemJSON(a) != refmodel.ItemJSON(b) {
				world.Fail(t, "C04/protected-element-changed/"+shape, "P1: element %s (flag %s) was modified or deleted by a remote write%s", k, flagOf(f, b), desc())
			}
			continue
		}
		if present && flagOf(f, a) != flagOf(f, b) {
			world.Fail(t, "C04/flag-altered/"+shape, "P2: the changeability flag of element %s went from %s to %s%s", k, flagOf(f, b), flagOf(f, a), desc())
		}
		if !addr[i] && (!present || refmodel.ItemJSON(a) != refmodel.ItemJSON(b)) {
			world.Fail(t, "C04/unaddressed-element-changed/"+shape, "P5: element %s is not addressed by the write but changed%s", k, desc())
		}
	}
	// P3
	if !o.accepted && o.afterJS != o.beforeJS {
		world.Fail(t, "C04/rejected-write-applied/"+shape, "P3: the write was answered with an error but the data changed%s", desc())
	}
	// P4: success => all changes applied (compared with the reference fold on the addressed changeable elements)
	if o.accepted {
		want := byKey(f, refmodel.Fold(f, o.before, u))
		for i, b := range o.before {
			if !addr[i] {
				continue
			}
			k, _ := gen.KeyOf(f, b)
			w, wantPresent := want[k]
			a, present := after[k]
			if !changeable(f, b) {
				// P1 has established that the protected element is untouched; if the write asked for a
				// change of it, that change was dropped silently while the peer was told "success"
				// (the full write is the open finding of P1 and replaces the data wholesale)
				if u.HasFilter() && (!wantPresent || withoutFlag(f, w) != withoutFlag(f, b)) {
					world.Fail(t, "C04/success-not-applied/"+shape+"/refused-part-dropped", "P4: success result, but the part of the write that addresses the protected element %s (flag %s) was not applied%s", k, flagOf(f, b), desc())
				}
				continue
			}
			if wantPresent != present {
				world.Fail(t, "C04/success-not-applied/"+shape, "P4: success result, but element %s present=%v, expected present=%v%s", k, present, wantPresent, desc())
			}
			if present && withoutFlag(f, a) != withoutFlag(f, w) && !namesSubElement(u) {
				world.Fail(t, "C04/success-not-applied/"+shape, "P4: success result, but element %s is %s, expected %s%s", k, withoutFlag(f, a), withoutFlag(f, w), desc())
			}
		}
	}
	// P7: a write that addresses only existing changeable elements (and at least one) is accepted
	onlyChangeable, any := true, false
	for i, b := range o.before {
		if addr[i] {
			any = true
			if !changeable(f, b) {
				onlyChangeable = false
			}
		}
	}
	existing := byKey(f, o.before)
	allExist := true
	if u.Partial && !u.PartialSelector.IsValid() {
		for _, it := range u.Items {
			if k, ok := gen.KeyOf(f, it); ok {
				if _, ok := existing[k]; !ok {
					allExist = false
				}
			}
		}
	}
	namesFlag := u.DeleteElements.IsValid() && !u.DeleteElements.Elem().FieldByName(f.WriteCheck).IsNil()
	// (a combined delete+partial re-creates the element it deleted; whether a remote write may
	// create elements is left open by the statement, so its verdict is not fixed here)
	// (a partial write that mixes items with and without identifiers is a sender's slip: what the
	// identifier-less item is to be applied to is not defined, so its verdict is not fixed either)
	keyed, idless := 0, 0
	for _, it := range u.Items {
		if _, ok := gen.KeyOf(f, it); ok {
			keyed++
		} else {
			idless++
		}
	}
	mixed := keyed > 0 && idless > 0
	if u.HasFilter() && !(u.Delete && u.Partial) && !mixed && any && onlyChangeable && allExist && !namesFlag && !o.accepted {
		world.Fail(t, "C04/changeable-write-rejected/"+shape, "P7: the write addresses only existing changeable elements but was rejected%s", desc())
	}
}

func flagPattern(f *gen.Func, items []reflect.Value) string {
	s := ""
	for _, it := range items {
		s += flagOf(f, it)
	}
	return s
}

func addrPattern(a []bool) string {
	s := ""
	for _, b := range a {
		if b {
			s += "x"
		} else {
			s += "."
		}
	}
	return s
}

// genCase draws the existing list and a write of the given shape.
func genCase(t *rapid.T, f *gen.Func, shape string) ([]reflect.Value, refmodel.Update) {
	// (the elements of a full write come in any order, and so does the list the application stored)
	// (delete selectors may name something else than the identifier, or nothing at all, and so select several
	// elements; delete elements may name a sub element such as value.scale)
	o := gen.Opt{Dense: true, MixedIDs: true, UnsortedFull: true, LooseSelectors: true, NestedElements: true}
	var init []reflect.Value
	n := rapid.IntRange(1, 4).Draw(t, "n")
	seen := map[uint64]bool{}
	for i := 0; i < n; i++ {
		id := uint64(rapid.IntRange(0, 3).Draw(t, fmt.Sprintf("id%d", i)))
		if seen[id] {
			continue
		}
		seen[id] = true
		it := gen.Item(t, f, []uint64{id}, o, fmt.Sprintf("init%d", i))
		setFlag(f, it, rapid.SampledFrom([]string{flagTrue, flagTrue, flagFalse, flagAbsent}).Draw(t, fmt.Sprintf("flag%d", i)))
		init = append(init, it)
	}
	sort.Slice(init, func(i, j int) bool {
		a, _ := gen.KeyOf(f, init[i])
		b, _ := gen.KeyOf(f, init[j])
		return a < b
	})
	if len(init) > 1 && rapid.IntRange(0, 3).Draw(t, "storedUnsorted") == 0 {
		r := rapid.IntRange(1, len(init)-1).Draw(t, "rotation")
		init = append(append([]reflect.Value{}, init[r:]...), init[:r]...)
	}
	u := listgen.Update(t, f, init, shape, o, "w")
	if u.Delete && u.Partial && u.PartialSelector.IsValid() && rapid.IntRange(0, 3).Draw(t, "partialPartWithoutItem") == 0 {
		// a sender's slip in the combined shape: the partial part names an element by selector but the command
		// carries no item to take new values from. Whether the stack refuses the write or applies its delete
		// part, the answer has to fit what happened (P3 / P4)
		u.Items = nil
		world.Label("write/partial-selector-without-item")
	}
	// the written items may or may not carry a (different) flag value
	for i, it := range u.Items {
		setFlag(f, it, rapid.SampledFrom([]string{flagAbsent, flagAbsent, flagTrue, flagFalse}).Draw(t, fmt.Sprintf("wflag%d", i)))
	}
	return init, u
}

func TestWriteProtection(t *testing.T) {
	rapid.Check(t, world.Prop(func(t *rapid.T) {
		f := gen.ByFunction(rapid.SampledFrom(functions).Draw(t, "function"))
		shape := rapid.SampledFrom(listgen.ShapesFor(f)).Draw(t, "shape")
		init, u := genCase(t, f, shape)
		ack := rapid.SampledFrom([]string{"true", "true", "false", "absent"}).Draw(t, "ackRequest")
		world.Label("ackRequest/" + ack)
		o := executeAck(t, f, init, u, ack)
		addr := addressed(f, o.before, u)
		nAddr := 0
		for _, a := range addr {
			if a {
				nAddr++
			}
		}
		states := map[string]bool{}
		for _, it := range init {
			states[flagOf(f, it)] = true
		}
		nt := len(states) >= 2 && nAddr >= 1
		verdict := "rejected"
		if o.accepted {
			verdict = "accepted"
		}
		world.Record(world.Hash(f.Fn, u.Shape(), flagPattern(f, init), addrPattern(addr), verdict), nt, "shape/"+u.Shape(), "verdict/"+verdict)
		if nt && world.WantSample() {
			world.Sample(map[string]any{"function": string(f.Fn), "existing": refmodel.Payload(f, init), "write": listgen.Describe(f, u), "verdict": verdict})
		}
		judge(t, f, u, o)

		// P6 metamorphic independence: unaddressed elements neither change nor influence the verdict
		if !u.HasFilter() || nAddr == len(init) {
			return
		}
		var onlyAddressed, toggled []reflect.Value
		for i, it := range init {
			if addr[i] {
				onlyAddressed = append(onlyAddressed, it)
				toggled = append(toggled, it)
			} else {
				c := refmodel.CloneItems([]reflect.Value{it})[0]
				if changeable(f, it) {
					setFlag(f, c, flagFalse)
				} else {
					setFlag(f, c, flagTrue)
				}
				toggled = append(toggled, c)
			}
		}
		for name, variant := range map[string][]reflect.Value{"without-unaddressed": onlyAddressed, "unaddressed-flags-toggled": toggled} {
			if len(variant) == 0 {
				continue
			}
			o2 := executeAck(t, f, variant, u, ack)
			world.Label("metamorphic/" + name)
			if o2.accepted != o.accepted {
				world.Fail(t, "C04/unaddressed-element-influences-verdict/"+sigShape(u), "P6 (%s): verdict accepted=%v, but accepted=%v on the variant world\n write: %s\n world 1: %s\n world 2: %s", name, o.accepted, o2.accepted, world.JSON(listgen.Describe(f, u)), o.beforeJS, o2.beforeJS)
			}
			a1, a2 := byKey(f, o.after), byKey(f, o2.after)
			for i, it := range init {
				if !addr[i] {
					continue
				}
				k, _ := gen.KeyOf(f, it)
				x, ok1 := a1[k]
				y, ok2 := a2[k]
				if ok1 != ok2 || (ok1 && refmodel.ItemJSON(x) != refmodel.ItemJSON(y)) {
					world.Fail(t, "C04/unaddressed-element-influences-effect/"+sigShape(u), "P6 (%s): effect on addressed element %s differs between the worlds\n write: %s\n after 1: %s\n after 2: %s", name, k, world.JSON(listgen.Describe(f, u)), o.afterJS, o2.afterJS)
				}
			}
		}
	}))
}

// TestSweep enumerates lists of <= 3 elements over ids {0,1,2} x 3 flag states x all shapes x
// addressed ids, with fixed field values (the field values do not influence the decisions).
func TestSweep(t *testing.T) {
	shard, shards := world.EnvInt("VERIF_SHARD", 0), world.EnvInt("VERIF_SHARDS", 1)
	maxLen := world.EnvInt("VERIF_SWEEP_LEN", 2)
	flags := []string{flagTrue, flagFalse, flagAbsent}
	n := 0
	for _, fn := range functions {
		f := gen.ByFunction(fn)
		valueField := firstScalarNonKey(f)
		mk := func(id uint64, flag string, val int) reflect.Value {
			it := reflect.New(f.ItemType).Elem()
			gen.SetKey(it, f.KeyFields[0], id)
			setFlag(f, it, flag)
			setScalar(it.FieldByName(valueField), val)
			return it
		}
		var lists [][]reflect.Value
		var rec func(id uint64, cur []reflect.Value)
		rec = func(id uint64, cur []reflect.Value) {
			if len(cur) > 0 {
				lists = append(lists, append([]reflect.Value(nil), cur...))
			}
			if int(id) >= maxLen {
				return
			}
			for _, fl := range flags {
				rec(id+1, append(cur, mk(id, fl, 1)))
			}
		}
		rec(0, nil)
		for _, list := range lists {
			for _, shape := range listgen.ShapesFor(f) {
				for target := uint64(0); target <= uint64(maxLen); target++ { // maxLen = an id that does not exist
					n++
					if n%shards != shard {
						continue
					}
					u := sweepUpdate(f, shape, target, mk, valueField)
					o := execute(t, f, list, u)
					addr := addressed(f, o.before, u)
					nt := strings.ContainsAny(flagPattern(f, list), "F-") && strings.Contains(addrPattern(addr), "x")
					world.Record(world.Hash("sweep", fn, shape, flagPattern(f, list), target), nt, "sweep/"+shape)
					world.Guard(func() { judge(t, f, u, o) })
				}
			}
			// combinations: a delete filter on one element together with a partial filter on another
			// (or the same) one, the partial part with identifier / with a selector / without either
			if c := listgen.CapsOf(f); !c.Selectors || !c.Elements {
				continue
			}
			for dt := uint64(0); dt <= uint64(maxLen); dt++ {
				for pt := uint64(0); pt <= uint64(maxLen); pt++ {
					for variant := 0; variant < 6; variant++ {
						n++
						if n%shards != shard {
							continue
						}
						u := refmodel.Update{Delete: true, Partial: true, DeleteSelector: listgen.SelectorFor(f, []uint64{dt})}
						if variant >= 3 {
							e := reflect.New(f.ElementsType)
							ef := e.Elem().FieldByName(valueField)
							ef.Set(reflect.New(ef.Type().Elem()))
							u.DeleteElements = e
						}
						idless := reflect.New(f.ItemType).Elem()
						setScalar(idless.FieldByName(valueField), 2)
						switch variant % 3 {
						case 0:
							u.Items = []reflect.Value{mk(pt, flagAbsent, 2)}
						case 1:
							u.PartialSelector = listgen.SelectorFor(f, []uint64{pt})
							u.Items = []reflect.Value{idless}
						case 2:
							if pt != 0 {
								continue // the identifier-less partial part has no target
							}
							u.Items = []reflect.Value{idless}
						}
						o := execute(t, f, list, u)
						addr := addressed(f, o.before, u)
						nt := strings.ContainsAny(flagPattern(f, list), "F-") && strings.Contains(addrPattern(addr), "x")
						world.Record(world.Hash("sweep-combined", fn, variant, flagPattern(f, list), dt, pt), nt, "sweep/combined/"+u.Shape())
						world.Guard(func() { judge(t, f, u, o) })
					}
				}
			}
		}
	}
	world.SetExtra("sweep_exhaustive", true)
	world.SetExtra("sweep_max_list_len", maxLen)
	world.Sample(map[string]any{"kind": "sweep", "lists": "all lists over ids 0.." + fmt.Sprint(maxLen-1) + " x flags {true,false,absent}", "shapes": listgen.AllShapes})
}

func firstScalarNonKey(f *gen.Func) string {
	for _, name := range gen.NonKeyFields(f) {
		if name == f.WriteCheck {
			continue
		}
		sf, _ := f.ItemType.FieldByName(name)
		if sf.Type.Kind() == reflect.Ptr && canSetScalar(sf.Type.Elem()) {
			return name
		}
	}
	panic("no value field in " + f.ItemType.Name())
}

func canSetScalar(t reflect.Type) bool {
	switch t.Kind() {
	case reflect.Bool, reflect.String, reflect.Uint, reflect.Int, reflect.Int64, reflect.Float64:
		return true
	case reflect.Struct:
		for i := 0; i < t.NumField(); i++ {
			if ft := t.Field(i).Type; ft.Kind() == reflect.Ptr && canSetScalar(ft.Elem()) {
				return true
			}
		}
	}
	return false
}

// setScalar stores a value derived from val in the pointer field fv (for struct pointees: in
// its first settable member).
func setScalar(fv reflect.Value, val int) {
	p := reflect.New(fv.Type().Elem())
	switch p.Elem().Kind() {
	case reflect.Bool:
		p.Elem().SetBool(val%2 == 0)
	case reflect.String:
		p.Elem().SetString(fmt.Sprintf("v%d", val))
	case reflect.Uint:
		p.Elem().SetUint(uint64(val))
	case reflect.Int, reflect.Int64:
		p.Elem().SetInt(int64(val))
	case reflect.Float64:
		p.Elem().SetFloat(float64(val))
	case reflect.Struct:
		for i := 0; i < p.Elem().NumField(); i++ {
			if ft := p.Elem().Type().Field(i).Type; ft.Kind() == reflect.Ptr && canSetScalar(ft.Elem()) {
				setScalar(p.Elem().Field(i), val)
				break
			}
		}
	}
	fv.Set(p)
}

func sweepUpdate(f *gen.Func, shape string, target uint64, mk func(uint64, string, int) reflect.Value, valueField string) refmodel.Update {
	u := refmodel.Update{}
	idless := reflect.New(f.ItemType).Elem()
	setScalar(idless.FieldByName(valueField), 2)
	el := func() reflect.Value {
		e := reflect.New(f.ElementsType)
		ef := e.Elem().FieldByName(valueField)
		ef.Set(reflect.New(ef.Type().Elem()))
		return e
	}
	switch shape {
	case listgen.Full:
		u.Items = []reflect.Value{mk(target, flagAbsent, 2)}
	case listgen.PartialIDs:
		u.Partial = true
		u.Items = []reflect.Value{mk(target, flagAbsent, 2)}
	case listgen.PartialNoIDs:
		u.Partial = true
		u.Items = []reflect.Value{idless}
	case listgen.PartialSelector:
		u.Partial = true
		u.PartialSelector = listgen.SelectorFor(f, []uint64{target})
		u.Items = []reflect.Value{idless}
	case listgen.DeleteSelector:
		u.Delete = true
		u.DeleteSelector = listgen.SelectorFor(f, []uint64{target})
	case listgen.DeleteElements:
		u.Delete = true
		u.DeleteElements = el()
	case listgen.DeleteSelElements:
		u.Delete = true
		u.DeleteSelector = listgen.SelectorFor(f, []uint64{target})
		u.DeleteElements = el()
	case listgen.DeleteAndPartial:
		u.Delete = true
		u.DeleteSelector = listgen.SelectorFor(f, []uint64{target})
		u.Partial = true
		u.Items = []reflect.Value{mk(target, flagAbsent, 2)}
	}
	return u
}
