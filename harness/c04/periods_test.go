package c04

import (
	"fmt"
	"reflect"
	"testing"
	"time"

	"github.com/enbility/spine-go/model"
	"pgregory.net/rapid"

	"verifharness/gen"
	"verifharness/listgen"
	"verifharness/refmodel"
	"verifharness/world"
)

var periodType = reflect.TypeOf((*model.TimePeriodType)(nil))

func periodText(p *model.TimePeriodType) string {
	if p == nil {
		return "<none>"
	}
	s := "start="
	if p.StartTime != nil {
		s += string(*p.StartTime)
	}
	s += " end="
	if p.EndTime != nil {
		s += string(*p.EndTime)
	}
	return s
}

// TestUnaddressedPeriods: P1 / P5 for the element whose text cannot be compared after encoding - the time period.
// The application stores a list whose write-protected, flag-less and changeable elements carry relative periods (an end
// time such as PT2H only), absolute ones or none; a bound peer writes a new value to ONE changeable element (partial
// by identifier, by selector, or a delete of another changeable element) without mentioning any period. Afterwards the
// period of every element the write does not address - and of the protected ones in any case - is what it was, compared
// as held in memory.
func TestUnaddressedPeriods(t *testing.T) {
	texts := [][2]string{{"", "PT2H"}, {"", "PT90M"}, {"2030-01-01T00:00:00Z", "2030-01-02T00:00:00Z"}, {"", "2031-06-01T12:00:00Z"}}
	var fs []*gen.Func
	for _, fn := range functions {
		f := gen.ByFunction(fn)
		for i := 0; i < f.ItemType.NumField(); i++ {
			if f.ItemType.Field(i).Type == periodType {
				fs = append(fs, f)
				break
			}
		}
	}
	if len(fs) == 0 {
		t.Fatal("harness: no function with changeability flag and time period")
	}
	rapid.Check(t, world.Prop(func(t *rapid.T) {
		f := fs[rapid.IntRange(0, len(fs)-1).Draw(t, "function")]
		valueField := firstScalarNonKey(f)
		w := world.New()
		defer w.Teardown()
		le := w.AddLocalEntity([]uint{1}, model.EntityTypeTypeCEM, time.Second)
		srv := w.AddLocalFeature(le, world.FeatSpec{Type: f.FeatureType, Role: model.RoleTypeServer, Funcs: []world.FuncSpec{{Fn: f.Fn, Read: true, Write: true}}})
		p := w.AddPeer("ski1", "d:_r:peer1", []world.EntSpec{{Addr: []uint{1}, Type: model.EntityTypeTypeCEM, Feats: []world.FeatSpec{
			{ID: 1, Type: f.FeatureType, Role: model.RoleTypeClient},
		}}})
		if !p.CallOK(world.BindCall(p.FA([]uint{1}, 1), srv.Address(), f.FeatureType)) {
			t.Fatalf("harness: binding not granted")
		}
		// element 0 is changeable (the one written), the others draw their flag
		n := rapid.IntRange(2, 4).Draw(t, "elements")
		var items []reflect.Value
		flags := []string{flagTrue}
		for id := 0; id < n; id++ {
			it := reflect.New(f.ItemType).Elem()
			gen.SetKey(it, f.KeyFields[0], uint64(id))
			if valueField != "" {
				setScalar(it.FieldByName(valueField), id)
			}
			if id > 0 {
				flags = append(flags, rapid.SampledFrom([]string{flagTrue, flagFalse, flagFalse, flagAbsent}).Draw(t, fmt.Sprintf("flag%d", id)))
			}
			setFlag(f, it, flags[id])
			for i := 0; i < it.NumField(); i++ {
				if it.Field(i).Type() != periodType {
					continue
				}
				c := rapid.IntRange(0, len(texts)).Draw(t, fmt.Sprintf("period%d", id))
				if c == len(texts) {
					continue
				}
				tp := &model.TimePeriodType{EndTime: model.NewAbsoluteOrRelativeTimeType(texts[c][1])}
				if texts[c][0] != "" {
					tp.StartTime = model.NewAbsoluteOrRelativeTimeType(texts[c][0])
				}
				it.Field(i).Set(reflect.ValueOf(tp))
			}
			items = append(items, it)
		}
		srv.SetData(f.Fn, refmodel.Payload(f, items))
		periods := func() map[string]string {
			out := map[string]string{}
			for _, it := range refmodel.ItemsOf(f, srv.DataCopy(f.Fn)) {
				k, _ := gen.KeyOf(f, it)
				for i := 0; i < it.NumField(); i++ {
					if it.Field(i).Type() == periodType {
						out[k] = periodText(it.Field(i).Interface().(*model.TimePeriodType))
					}
				}
			}
			return out
		}
		before := periods()
		upd := reflect.New(f.ItemType).Elem()
		gen.SetKey(upd, f.KeyFields[0], 0)
		if valueField != "" {
			setScalar(upd.FieldByName(valueField), 77)
		}
		shape := rapid.SampledFrom([]string{"partial", "partial-sel"}).Draw(t, "shape")
		u := refmodel.Update{Partial: true, Items: []reflect.Value{upd}}
		if shape == "partial-sel" && listgen.CapsOf(f).Selectors {
			u.PartialSelector = listgen.SelectorFor(f, []uint64{0})
		} else {
			shape = "partial"
		}
		d := p.Msg(model.CmdClassifierTypeWrite, p.FA([]uint{1}, 1), srv.Address(), true, nil, listgen.Cmd(f, u))
		p.Cap.Drain()
		p.Send(d)
		w.Sync()
		results, errNo := 0, 0
		for _, s := range p.Cap.Drain() {
			if s.Classifier() == model.CmdClassifierTypeResult && s.Ref() != nil && *s.Ref() == *d.Header.MsgCounter {
				results++
				errNo = s.ErrorNumber()
			}
		}
		after := periods()
		if !reflect.DeepEqual(before, after) {
			sig := "C04/unaddressed-element-changed/" + shape
			for id := 1; id < n; id++ {
				k, _ := gen.KeyOf(f, items[id])
				if before[k] != after[k] && flags[id] != flagTrue {
					sig = "C04/protected-element-changed/" + shape
				}
			}
			world.Fail(t, sig, "a remote write (%s, results=%d error=%d) of the value of element 0 changed time periods it does not mention (flags %v)\n before: %v\n after:  %v", shape, results, errNo, flags, before, after)
		}
		relative := false
		for _, v := range before {
			relative = relative || v == "start= end=PT2H" || v == "start= end=PT90M"
		}
		world.Record(world.Hash("periods", f.Fn, shape, flags, before), relative, "unaddressed-periods/"+shape)
		if relative && world.WantSample() {
			world.Sample(map[string]any{"kind": "unaddressed-periods", "function": string(f.Fn), "shape": shape, "flags": flags, "periods": before, "accepted": results == 1 && errNo == 0})
		}
	}))
}
