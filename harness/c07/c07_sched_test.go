//go:build verif

package c07

import (
	"fmt"
	"runtime"
	"sync"
	"sync/atomic"
	"testing"
	"time"

	"github.com/enbility/spine-go/api"
	"github.com/enbility/spine-go/model"
	"github.com/enbility/spine-go/spine"

	"verifharness/sched"
	"verifharness/world"
)

const getOrAddPoint = "GetOrAddFeature.afterLookup"

type featKeyTR struct {
	typ  model.FeatureTypeType
	role model.RoleType
}

func (k featKeyTR) String() string { return string(k.typ) + "/" + string(k.role) }

// variants of the concurrent scenario: which type/role each caller asks for and what the entity
// holds beforehand.
type variant struct {
	name  string
	calls func(threads int) []featKeyTR
	pre   []featKeyTR // features the entity already has
}

var (
	keyA = featKeyTR{model.FeatureTypeTypeMeasurement, model.RoleTypeServer}
	keyB = featKeyTR{model.FeatureTypeTypeMeasurement, model.RoleTypeClient}
	keyC = featKeyTR{model.FeatureTypeTypeLoadControl, model.RoleTypeServer}
)

func sameKey(k featKeyTR) func(int) []featKeyTR {
	return func(n int) []featKeyTR {
		out := make([]featKeyTR, n)
		for i := range out {
			out[i] = k
		}
		return out
	}
}

var variants = []variant{
	{name: "same type and role, empty entity", calls: sameKey(keyA)},
	{name: "same type and role, entity with two other features", calls: sameKey(keyA), pre: []featKeyTR{keyB, keyC}},
	{name: "last caller asks for the other role", calls: func(n int) []featKeyTR {
		out := sameKey(keyA)(n)
		out[n-1] = keyB
		return out
	}, pre: []featKeyTR{keyC}},
	{name: "the feature exists already", calls: sameKey(keyA), pre: []featKeyTR{keyA}},
}

// concurrentCase is one entity plus the concurrent callers' requests and results.
type concurrentCase struct {
	w       *world.World
	e       *spine.EntityLocal
	pre     []api.FeatureLocalInterface
	calls   []featKeyTR
	results []api.FeatureLocalInterface
}

func newConcurrentCase(v variant, threads int) *concurrentCase {
	c := &concurrentCase{w: world.New(), calls: v.calls(threads)}
	c.e = c.w.AddLocalEntity([]uint{1}, model.EntityTypeTypeCEM, time.Second)
	for _, k := range v.pre {
		f := spine.NewFeatureLocal(c.e.NextFeatureId(), c.e, k.typ, k.role)
		c.e.AddFeature(f)
		c.pre = append(c.pre, f)
	}
	c.results = make([]api.FeatureLocalInterface, len(c.calls))
	return c
}

func (c *concurrentCase) call(i int) {
	c.results[i] = c.e.GetOrAddFeature(c.calls[i].typ, c.calls[i].role)
}

// judge: all callers of one type and role got the identical feature, the entity holds exactly one
// feature of that type and role, numbers are pairwise distinct and resolve.
func (c *concurrentCase) judge(t world.TB, how string) {
	feats := c.e.Features()
	render := func() string {
		s := ""
		for _, f := range feats {
			s += fmt.Sprintf("\n   feature %d %s/%s (%p)", *f.Address().Feature, f.Type(), f.Role(), f)
		}
		for i, r := range c.results {
			if r == nil {
				s += fmt.Sprintf("\n   caller %d asked for %s and got nil", i+1, c.calls[i])
			} else {
				s += fmt.Sprintf("\n   caller %d asked for %s and got feature %d (%p)", i+1, c.calls[i], *r.Address().Feature, r)
			}
		}
		return s
	}
	for i, r := range c.results {
		if r == nil {
			world.Fail(t, "C07/concurrent/nil-result", "%s: caller %d got no feature%s", how, i+1, render())
		}
		if r.Type() != c.calls[i].typ || r.Role() != c.calls[i].role {
			world.Fail(t, "C07/concurrent/wrong-type-or-role", "%s: caller %d asked for %s and got %s/%s%s", how, i+1, c.calls[i], r.Type(), r.Role(), render())
		}
	}
	wantKeys := map[featKeyTR]bool{}
	for _, f := range c.pre {
		wantKeys[featKeyTR{f.Type(), f.Role()}] = true
	}
	for _, k := range c.calls {
		wantKeys[k] = true
	}
	count := map[featKeyTR]int{}
	for _, f := range feats {
		count[featKeyTR{f.Type(), f.Role()}]++
	}
	for _, k := range c.calls {
		if count[k] > 1 {
			world.Fail(t, "C07/concurrent/duplicate-feature", "%s: after %d concurrent GetOrAddFeature calls the entity holds %d features of %s%s", how, len(c.calls), count[k], k, render())
		}
		if count[k] == 0 {
			world.Fail(t, "C07/concurrent/feature-missing", "%s: the entity holds no feature of %s%s", how, k, render())
		}
	}
	for i := range c.results {
		for j := i + 1; j < len(c.results); j++ {
			if c.calls[i] == c.calls[j] && !same(c.results[i], c.results[j]) {
				world.Fail(t, "C07/concurrent/different-feature-returned", "%s: callers %d and %d asked for %s and got different features%s", how, i+1, j+1, c.calls[i], render())
			}
		}
	}
	if len(feats) != len(wantKeys) {
		world.Fail(t, "C07/concurrent/feature-count", "%s: the entity holds %d features, expected %d%s", how, len(feats), len(wantKeys), render())
	}
	ids := map[model.AddressFeatureType]bool{}
	for _, f := range feats {
		id := *f.Address().Feature
		if ids[id] {
			world.Fail(t, "C07/concurrent/duplicate-number", "%s: two features carry number %d%s", how, id, render())
		}
		ids[id] = true
	}
	for i, f := range c.pre {
		kept := false
		for _, g := range feats {
			kept = kept || same(g, f)
		}
		if !kept {
			world.Fail(t, "C07/concurrent/earlier-feature-lost", "%s: feature #%d attached before the calls is no longer attached%s", how, i, render())
		}
	}
	for i, r := range c.results {
		if got := c.e.FeatureOfAddress(r.Address().Feature); !same(got, r) {
			world.Fail(t, "C07/concurrent/address-does-not-resolve", "%s: the number of the feature caller %d got resolves to another feature%s", how, i+1, render())
		}
		if k := c.calls[i]; !same(c.e.FeatureOfTypeAndRole(k.typ, k.role), r) && count[k] == 1 {
			world.Fail(t, "C07/concurrent/lookup-differs", "%s: a later lookup of %s does not yield the feature caller %d got%s", how, k, i+1, render())
		}
	}
}

// TestGetOrAddInterleavings enumerates every interleaving of 2 and 3 concurrent
// GetOrAddFeature(type, role) calls on one entity over the yield point between the lookup miss and
// the creation.
func TestGetOrAddInterleavings(t *testing.T) {
	replay := sched.LoadReplay("TestGetOrAddInterleavings")
	total, nontrivial, reached, failing := 0, 0, 0, 0
	const maxSchedules = 400
	exhaustive := replay == nil
	for _, threads := range []int{2, 3} {
		for vi, v := range variants {
			threads, vi, v := threads, vi, v
			if replay != nil && (replay.Params["threads"] != threads || replay.Params["variant"] != vi) {
				continue
			}
			scenario := func() ([]sched.Op, func(*sched.Result)) {
				c := newConcurrentCase(v, threads)
				var ops []sched.Op
				for i := range c.calls {
					i := i
					ops = append(ops, sched.Op{Name: fmt.Sprintf("caller%d", i+1), Fn: func() { c.call(i) }})
				}
				return ops, func(r *sched.Result) {
					defer c.w.Teardown()
					defer func() {
						if t.Failed() {
							world.SaveReplay("TestGetOrAddInterleavings.json", sched.ReplaySpec{Test: "TestGetOrAddInterleavings", Params: map[string]int{"threads": threads, "variant": vi}, Choices: r.Choices, Trace: r.Trace})
						}
					}()
					total++
					// both callers passed the lookup before either created
					nt := r.Parked[getOrAddPoint] >= 2
					if nt {
						nontrivial++
					}
					if r.Parked[getOrAddPoint] > 0 {
						reached++
					}
					world.Record(world.Hash("sched", threads, vi, r.Choices), nt, fmt.Sprintf("sched/%d-callers/%s", threads, v.name))
					if nt && world.WantSample() {
						world.Sample(map[string]any{"kind": "schedule", "callers": threads, "variant": v.name, "trace": r.Trace})
					}
					// one known-finding guard per schedule: the enumeration goes on behind a known defect
					if world.Guard(func() {
						if len(r.Panics) > 0 || r.Deadlock {
							world.Fail(t, "C07/concurrent/panic-or-deadlock", "schedule %s: panics=%v deadlock=%v", r, r.Panics, r.Deadlock)
						}
						c.judge(t, fmt.Sprintf("%d callers, %s, schedule [%s]", threads, v.name, r))
					}) {
						failing++
					}
				}
			}
			if replay != nil {
				ops, judge := scenario()
				judge(sched.RunChoices(ops, []string{getOrAddPoint}, replay.Choices))
				continue
			}
			n := sched.Enumerate([]string{getOrAddPoint}, maxSchedules, scenario)
			world.AddExtra("schedules", int64(n))
			if n >= maxSchedules {
				exhaustive = false
			}
			if t.Failed() {
				return
			}
		}
	}
	world.SetExtra("schedule_enumeration_exhaustive", exhaustive)
	world.SetExtra("yield_point_reached", reached > 0)
	world.SetExtra("schedules_nontrivial", nontrivial)
	world.SetExtra("schedules_ending_in_known_finding", failing)
	t.Logf("schedules=%d nontrivial=%d known-finding=%d", total, nontrivial, failing)
	if reached == 0 {
		t.Logf("yield point %s never reached: only the free-running stress explores this window", getOrAddPoint)
	}
}

// TestGetOrAddStress: 8..16 barrier-started free-running goroutines ask one entity for the feature
// of one type and role (every third round: of two roles). A hook at the yield point counts the
// callers that missed the lookup (non-triviality) and, in every second round, yields the
// processor there, which widens the window without controlling the schedule.
func TestGetOrAddStress(t *testing.T) {
	rounds := world.EnvInt("VERIF_ROUNDS", 300)
	var missed atomic.Int64
	var yield atomic.Bool
	h := func(point string) {
		if point != getOrAddPoint {
			return
		}
		missed.Add(1)
		if yield.Load() {
			runtime.Gosched()
		}
	}
	spine.VerifYield.Store(&h)
	defer spine.VerifYield.Store(nil)
	failing, windows := 0, 0
	for r := 0; r < rounds && !t.Failed(); r++ {
		n := 8 + r%9
		v := variants[0]
		switch r % 3 {
		case 1:
			v = variants[1]
		case 2:
			v = variant{name: "two roles alternating", calls: func(n int) []featKeyTR {
				out := make([]featKeyTR, n)
				for i := range out {
					out[i] = keyA
					if i%2 == 1 {
						out[i] = keyB
					}
				}
				return out
			}, pre: []featKeyTR{keyC}}
		}
		c := newConcurrentCase(v, n)
		missed.Store(0)
		yield.Store(r%2 == 0)
		start := make(chan struct{})
		var wg sync.WaitGroup
		for i := 0; i < n; i++ {
			i := i
			wg.Add(1)
			go func() {
				defer wg.Done()
				<-start
				c.call(i)
			}()
		}
		close(start)
		world.WaitOrDiagnose(t, &wg, "C07/concurrent", "concurrent GetOrAddFeature calls")
		k := missed.Load()
		distinct := int64(1)
		if r%3 == 2 {
			distinct = 2
		}
		nt := k > distinct // more callers missed the lookup than there are features to create
		if nt {
			windows++
		}
		world.Record(world.Hash("stress", n, v.name, yield.Load(), k), nt, "stress/"+v.name, fmt.Sprintf("stress/yield-in-window/%v", yield.Load()))
		if world.Guard(func() {
			c.judge(t, fmt.Sprintf("free-running round %d, %d goroutines, %s, %d callers missed the lookup", r, n, v.name, k))
		}) {
			failing++
		}
		c.w.Teardown()
	}
	world.SetExtra("stress_rounds", rounds)
	world.SetExtra("stress_rounds_with_contended_window", windows)
	world.SetExtra("stress_rounds_ending_in_known_finding", failing)
	t.Logf("rounds=%d contended=%d known-finding=%d", rounds, windows, failing)
}

// TestGetOrAddRegressionF23a replays the shrunk schedule that exposed F23a: two callers, both miss
// the lookup, then both create.
func TestGetOrAddRegressionF23a(t *testing.T) {
	c := newConcurrentCase(variants[0], 2)
	defer c.w.Teardown()
	var ops []sched.Op
	for i := range c.calls {
		i := i
		ops = append(ops, sched.Op{Name: fmt.Sprintf("caller%d", i+1), Fn: func() { c.call(i) }})
	}
	r := sched.RunChoices(ops, []string{getOrAddPoint}, []int{0, 1, 0})
	world.Record(world.Hash("regression", "F23a"), r.Parked[getOrAddPoint] >= 2, "regression/F23a")
	world.Guard(func() {
		if len(r.Panics) > 0 || r.Deadlock {
			world.Fail(t, "C07/concurrent/panic-or-deadlock", "schedule %s: panics=%v deadlock=%v", r, r.Panics, r.Deadlock)
		}
		c.judge(t, fmt.Sprintf("regression F23a, schedule [%s]", r))
	})
}
