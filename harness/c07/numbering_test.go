package c07

import (
	"fmt"
	"sync"
	"testing"
	"time"

	"github.com/enbility/spine-go/api"
	"github.com/enbility/spine-go/model"
	"github.com/enbility/spine-go/spine"

	"verifharness/gen"
	"verifharness/world"
)

// TestNumberingStress: the two ways a feature gets its number on one entity at the same moment -
// GetOrAddFeature creating features of types that do not exist yet, and the application taking
// numbers with NextFeatureId (for features it configures before AddFeature, or never adds).
// Whatever the interleaving, no number is handed out twice and every feature resolves by its address.
func TestNumberingStress(t *testing.T) {
	rounds := world.EnvInt("VERIF_ROUNDS", 200)
	world.Guard(func() {
		for r := 0; r < rounds; r++ {
			w := world.New()
			ent := w.AddLocalEntity([]uint{1}, model.EntityTypeTypeCEM, time.Second)
			types := gen.FeatureTypes
			half := len(types) / 2
			var mu sync.Mutex
			numbers := map[uint][]string{}
			note := func(id uint, who string) {
				mu.Lock()
				numbers[id] = append(numbers[id], who)
				mu.Unlock()
			}
			var created []api.FeatureLocalInterface
			start := make(chan struct{})
			var wg sync.WaitGroup
			wg.Add(3)
			go func() { // features the stack numbers itself
				defer wg.Done()
				<-start
				for _, ft := range types[:half] {
					f := ent.GetOrAddFeature(ft, model.RoleTypeServer)
					note(uint(*f.Address().Feature), fmt.Sprintf("GetOrAddFeature(%s)", ft))
					mu.Lock()
					created = append(created, f)
					mu.Unlock()
				}
			}()
			go func() { // numbers the application takes and keeps
				defer wg.Done()
				<-start
				for i := 0; i < 40; i++ {
					note(ent.NextFeatureId(), "NextFeatureId")
				}
			}()
			go func() { // features the application numbers, configures and adds
				defer wg.Done()
				<-start
				for _, ft := range types[half:] {
					id := ent.NextFeatureId()
					f := spine.NewFeatureLocal(id, ent, ft, model.RoleTypeClient)
					ent.AddFeature(f)
					note(id, fmt.Sprintf("NextFeatureId+AddFeature(%s)", ft))
					mu.Lock()
					created = append(created, f)
					mu.Unlock()
				}
			}()
			close(start)
			world.WaitOrDiagnose(t, &wg, "C07/concurrent", "concurrent feature numbering")
			for id, who := range numbers {
				if len(who) > 1 {
					world.Fail(t, "C07/feature-id/handed-out-twice/concurrent-numbering", "round %d: feature number %d of entity [1] was handed out %d times: %v", r, id, len(who), who)
				}
			}
			for _, f := range created {
				if got := w.Local.FeatureByAddress(f.Address()); got == nil || got.Type() != f.Type() || got.Role() != f.Role() {
					world.Fail(t, "C07/resolve/concurrent-numbering", "round %d: the address %s of the %s/%s feature resolves to %v", r, f.Address(), f.Type(), f.Role(), got)
				}
			}
			world.Record(world.Hash("numbering", r), true, "stress/numbering")
			w.Teardown()
		}
	})
}
