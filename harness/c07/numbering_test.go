package c07

import (
	"fmt"
	"runtime"
	"sync"
	"sync/atomic"
	"testing"
	"time"

	"github.com/enbility/spine-go/api"
	"github.com/enbility/spine-go/model"
	"github.com/enbility/spine-go/spine"

	"verifharness/gen"
	"verifharness/world"
)

// TestNumberingStress: the two ways a feature gets its number on one entity at the same moment -
// GetOrAddFeature creating features of types that do not exist yet, and the application taking
// numbers with NextFeatureId (for features it configures before AddFeature, or never adds).
// Whatever the interleaving, no number is handed out twice and every feature resolves by its address.
func TestNumberingStress(t *testing.T) {
	rounds := world.EnvInt("VERIF_ROUNDS", 200)
	world.Guard(func() {
		for r := 0; r < rounds; r++ {
			w := world.New()
			ent := w.AddLocalEntity([]uint{1}, model.EntityTypeTypeCEM, time.Second)
			types := gen.FeatureTypes
			half := len(types) / 2
			var mu sync.Mutex
			numbers := map[uint][]string{}
			note := func(id uint, who string) {
				mu.Lock()
				numbers[id] = append(numbers[id], who)
				mu.Unlock()
			}
			var created []api.FeatureLocalInterface
			start := make(chan struct{})
			var wg sync.WaitGroup
			wg.Add(3)
			go func() { // features the stack numbers itself
				defer wg.Done()
				<-start
				for _, ft := range types[:half] {
					f := ent.GetOrAddFeature(ft, model.RoleTypeServer)
					note(uint(*f.Address().Feature), fmt.Sprintf("GetOrAddFeature(%s)", ft))
					mu.Lock()
					created = append(created, f)
					mu.Unlock()
				}
			}()
			go func() { // numbers the application takes and keeps
				defer wg.Done()
				<-start
				for i := 0; i < 40; i++ {
					note(ent.NextFeatureId(), "NextFeatureId")
				}
			}()
			go func() { // features the application numbers, configures and adds
				defer wg.Done()
				<-start
				for _, ft := range types[half:] {
					id := ent.NextFeatureId()
					f := spine.NewFeatureLocal(id, ent, ft, model.RoleTypeClient)
					ent.AddFeature(f)
					note(id, fmt.Sprintf("NextFeatureId+AddFeature(%s)", ft))
					mu.Lock()
					created = append(created, f)
					mu.Unlock()
				}
			}()
			close(start)
			world.WaitOrDiagnose(t, &wg, "C07/concurrent", "concurrent feature numbering")
			for id, who := range numbers {
				if len(who) > 1 {
					world.Fail(t, "C07/feature-id/handed-out-twice/concurrent-numbering", "round %d: feature number %d of entity [1] was handed out %d times: %v", r, id, len(who), who)
				}
			}
			for _, f := range created {
				if got := w.Local.FeatureByAddress(f.Address()); got == nil || got.Type() != f.Type() || got.Role() != f.Role() {
					world.Fail(t, "C07/resolve/concurrent-numbering", "round %d: the address %s of the %s/%s feature resolves to %v", r, f.Address(), f.Type(), f.Role(), got)
				}
			}
			world.Record(world.Hash("numbering", r), true, "stress/numbering")
			w.Teardown()
		}
	})
}

// TestAddFeatureStress: the two ways a feature of one type and role gets onto an entity at the same
// moment - the application attaching a feature it built itself (AddFeature: "if it is not already
// added") and callers asking for the feature (GetOrAddFeature). Whatever the interleaving, the
// entity ends up with one feature of that type and role, and everybody who asked for it, then or
// later, gets that one.
func TestAddFeatureStress(t *testing.T) {
	rounds := world.EnvInt("VERIF_ROUNDS", 2000)
	w := world.New()
	defer w.Teardown()
	const adders, askers = 4, 4
	overlaps := 0
	world.Guard(func() {
		for r := 0; r < rounds; r++ {
			ent := spine.NewEntityLocal(w.Local, model.EntityTypeTypeCEM, spine.NewAddressEntityType([]uint{uint(r + 10)}), 0)
			ft, role := model.FeatureTypeTypeMeasurement, model.RoleTypeServer
			if r%3 == 1 {
				// the entity has other features already
				ent.AddFeature(spine.NewFeatureLocal(ent.NextFeatureId(), ent, model.FeatureTypeTypeLoadControl, model.RoleTypeServer))
				ent.AddFeature(spine.NewFeatureLocal(ent.NextFeatureId(), ent, ft, model.RoleTypeClient))
			}
			pre := len(ent.Features())
			built := make([]api.FeatureLocalInterface, adders)
			for i := range built {
				built[i] = spine.NewFeatureLocal(ent.NextFeatureId(), ent, ft, role)
			}
			got := make([]api.FeatureLocalInterface, askers)
			var wg sync.WaitGroup
			wg.Add(adders + askers)
			var arrived atomic.Int32 // spinning rendezvous: all callers leave it within nanoseconds
			var stamps [adders + askers][2]uint64
			for i := 0; i < adders+askers; i++ {
				i := i
				go func() {
					defer wg.Done()
					arrived.Add(1)
					for spins := 0; arrived.Load() < adders+askers; spins++ {
						if spins > 1<<16 {
							runtime.Gosched() // (fewer free cores than callers)
						}
					}
					stamps[i][0] = world.Stamp()
					if i < adders {
						ent.AddFeature(built[i])
					} else {
						got[i-adders] = ent.GetOrAddFeature(ft, role)
					}
					stamps[i][1] = world.Stamp()
				}()
			}
			world.WaitOrDiagnose(t, &wg, "C07/concurrent", "concurrent AddFeature and GetOrAddFeature calls")
			overlapped := false
			for i := range stamps {
				for j := range stamps {
					if i != j && stamps[i][0] < stamps[j][1] && stamps[j][0] < stamps[i][1] {
						overlapped = true
					}
				}
			}
			if overlapped {
				overlaps++
			}
			n := 0
			var render string
			for _, f := range ent.Features() {
				if f.Type() == ft && f.Role() == role {
					n++
				}
				render += fmt.Sprintf("\n   feature %d %s/%s (%p)", *f.Address().Feature, f.Type(), f.Role(), f)
			}
			how := fmt.Sprintf("round %d: %d AddFeature and %d GetOrAddFeature calls for %s/%s at the same moment", r, adders, askers, ft, role)
			if n != 1 || len(ent.Features()) != pre+1 {
				world.Fail(t, "C07/concurrent/duplicate-feature/add-feature", "%s: the entity holds %d features of that type and role (%d features in all, %d before)%s", how, n, len(ent.Features()), pre, render)
			}
			now := ent.FeatureOfTypeAndRole(ft, role)
			for i, f := range got {
				if f == nil || !same(f, now) {
					world.Fail(t, "C07/concurrent/different-feature-returned/add-feature", "%s: asker %d got %p, a lookup afterwards yields %p%s", how, i+1, f, now, render)
				}
			}
			if again := ent.GetOrAddFeature(ft, role); !same(again, now) {
				world.Fail(t, "C07/concurrent/lookup-differs/add-feature", "%s: GetOrAddFeature afterwards yields another feature than the lookup%s", how, render)
			}
			world.Record(world.Hash("add-feature-stress", r%3, overlapped), overlapped, "stress/add-feature")
		}
	})
	world.SetExtra("add_feature_stress_rounds", rounds)
	world.SetExtra("add_feature_stress_rounds_with_overlapping_calls", overlaps)
}
