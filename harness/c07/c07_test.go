// Package c07: the local device tree is announced faithfully and addressed uniquely.
//
// TestLocalTree (rapid state machine) drives histories of entity / feature / function /
// description changes interleaved with detailed-discovery reads from subscribed and unsubscribed
// peers and compares every reply and every entity notification with a harness-side model.
// The schedule part (concurrent GetOrAddFeature) is in c07_sched_test.go (build tag verif).
package c07

import (
	"fmt"
	"reflect"
	"sort"
	"strconv"
	"strings"
	"testing"
	"time"

	"github.com/enbility/spine-go/api"
	"github.com/enbility/spine-go/model"
	"github.com/enbility/spine-go/spine"
	"github.com/enbility/spine-go/util"
	"pgregory.net/rapid"

	"verifharness/gen"
	"verifharness/world"
)

func TestMain(m *testing.M) { world.Main(m) }

// ---------------------------------------------------------------------------------------------
// model of the configuration

type opsM struct{ read, readPartial, write, writePartial bool }

func (o opsM) String() string {
	b := func(v bool) string {
		if v {
			return "1"
		}
		return "0"
	}
	return "r" + b(o.read) + "p" + b(o.readPartial) + "w" + b(o.write) + "p" + b(o.writePartial)
}

type featM struct {
	id    uint
	typ   model.FeatureTypeType
	role  model.RoleType
	desc  *string
	funcs map[model.FunctionType]opsM
	obj   api.FeatureLocalInterface
}

type entM struct {
	addr     []uint
	typ      model.EntityTypeType
	obj      api.EntityLocalInterface
	feats    []*featM      // in the order they were attached
	pending  []*featM      // numbered and created, AddFeature still to come
	handed   map[uint]bool // every feature number this entity ever handed out
	attached bool
	fixed    bool // entity [0], created by NewDeviceLocal
	gen      int  // how many entity objects used this address before (for the log only)
}

func (e *entM) find(typ model.FeatureTypeType, role model.RoleType) *featM {
	for _, f := range e.feats {
		if f.typ == typ && f.role == role {
			return f
		}
	}
	return nil
}

// featRec is the canonical form of one announced / modelled feature.
type featRec struct {
	key   string // "<entity address>/<feature number>"
	dev   string
	typ   string
	role  string
	desc  string
	fns   map[string]string
	dupFn string // a function listed twice on the wire
}

func descString(d *string) string {
	if d == nil {
		return "<none>"
	}
	return strconv.Quote(*d)
}

func featKey(ent []uint, id uint) string { return fmt.Sprintf("%v/%d", ent, id) }

func (e *entM) rec(f *featM) featRec {
	r := featRec{key: featKey(e.addr, f.id), dev: world.LocalAddr, typ: string(f.typ), role: string(f.role), desc: descString(f.desc), fns: map[string]string{}}
	for fn, o := range f.funcs {
		r.fns[string(fn)] = o.String()
	}
	return r
}

func entAddr(a []model.AddressEntityType) []uint {
	out := make([]uint, 0, len(a))
	for _, x := range a {
		out = append(out, uint(x))
	}
	return out
}

// wireRec canonicalises one feature entry of a discovery payload. ok=false: the entry lacks the
// description or the address.
func wireRec(fi model.NodeManagementDetailedDiscoveryFeatureInformationType) (featRec, bool) {
	d := fi.Description
	if d == nil || d.FeatureAddress == nil || d.FeatureAddress.Feature == nil {
		return featRec{}, false
	}
	r := featRec{key: featKey(entAddr(d.FeatureAddress.Entity), uint(*d.FeatureAddress.Feature)), fns: map[string]string{}}
	if d.FeatureAddress.Device != nil {
		r.dev = string(*d.FeatureAddress.Device)
	}
	if d.FeatureType != nil {
		r.typ = string(*d.FeatureType)
	}
	if d.Role != nil {
		r.role = string(*d.Role)
	}
	if d.Description != nil {
		s := string(*d.Description)
		r.desc = descString(&s)
	} else {
		r.desc = descString(nil)
	}
	for _, sf := range d.SupportedFunction {
		if sf.Function == nil {
			r.dupFn = "<function without name>"
			continue
		}
		var o opsM
		if po := sf.PossibleOperations; po != nil {
			if po.Read != nil {
				o.read = true
				o.readPartial = po.Read.Partial != nil
			}
			if po.Write != nil {
				o.write = true
				o.writePartial = po.Write.Partial != nil
			}
		}
		if _, dup := r.fns[string(*sf.Function)]; dup {
			r.dupFn = string(*sf.Function)
		}
		r.fns[string(*sf.Function)] = o.String()
	}
	return r, true
}

func sortedKeys[V any](m map[string]V) []string {
	out := make([]string, 0, len(m))
	for k := range m {
		out = append(out, k)
	}
	sort.Strings(out)
	return out
}

func (r featRec) String() string {
	var fns []string
	for _, k := range sortedKeys(r.fns) {
		fns = append(fns, k+":"+r.fns[k])
	}
	return fmt.Sprintf("%s %s/%s desc=%s fns=[%s]", r.key, r.typ, r.role, r.desc, strings.Join(fns, " "))
}

// diffFeatures compares announced feature entries with the modelled ones (as sets, keyed by
// address). It returns "" or the violated aspect plus a description.
func diffFeatures(got []model.NodeManagementDetailedDiscoveryFeatureInformationType, want []featRec) (aspect, detail string) {
	wantBy := map[string]featRec{}
	for _, r := range want {
		wantBy[r.key] = r
	}
	seen := map[string]bool{}
	for _, fi := range got {
		g, ok := wireRec(fi)
		if !ok {
			return "feature-entry-malformed", fmt.Sprintf("feature entry without description or address: %s", world.JSON(fi))
		}
		if seen[g.key] {
			return "feature-listed-twice", fmt.Sprintf("feature %s is listed twice", g.key)
		}
		seen[g.key] = true
		w, ok := wantBy[g.key]
		if !ok {
			return "feature-not-in-tree", fmt.Sprintf("announced feature {%s} is not a feature of the local tree", g)
		}
		switch {
		case g.dev != "" && g.dev != w.dev:
			return "feature-device-address", fmt.Sprintf("feature %s is announced with device address %q, the local device is %q", g.key, g.dev, w.dev)
		case g.typ != w.typ || g.role != w.role:
			return "type-or-role", fmt.Sprintf("feature %s announced as %s/%s, it is %s/%s", g.key, g.typ, g.role, w.typ, w.role)
		case g.desc != w.desc:
			return "description", fmt.Sprintf("feature %s announced with description %s, it has %s", g.key, g.desc, w.desc)
		case g.dupFn != "":
			return "function-listed-twice", fmt.Sprintf("feature %s lists function %s twice", g.key, g.dupFn)
		}
		for _, fn := range sortedKeys(w.fns) {
			if _, ok := g.fns[fn]; !ok {
				return "function-missing", fmt.Sprintf("feature %s: added function %s is not announced\n announced: {%s}\n model:     {%s}", g.key, fn, g, w)
			}
		}
		for _, fn := range sortedKeys(g.fns) {
			wo, ok := w.fns[fn]
			if !ok {
				return "function-never-added", fmt.Sprintf("feature %s announces function %s which was never added\n announced: {%s}\n model:     {%s}", g.key, fn, g, w)
			}
			if gOps := g.fns[fn]; gOps != wo {
				which := "operations"
				switch {
				case gOps[:2] != wo[:2]:
					which = "operations-read"
				case gOps[4:6] != wo[4:6]:
					which = "operations-write"
				case gOps[2:4] != wo[2:4] || gOps[6:] != wo[6:]:
					which = "operations-partial"
				}
				return which, fmt.Sprintf("feature %s function %s announced with operations %s, added with %s (r=read w=write p=partial)", g.key, fn, gOps, wo)
			}
		}
	}
	for _, k := range sortedKeys(wantBy) {
		if !seen[k] {
			return "feature-missing", fmt.Sprintf("feature {%s} of the local tree is not announced", wantBy[k])
		}
	}
	return "", ""
}

// ---------------------------------------------------------------------------------------------
// the state machine

type machine struct {
	w     *world.World
	peers []*world.Peer
	sub   []bool
	ents  []*entM // index 0 = entity [0]; includes detached entities
	hist  []string
	ops   []string

	lastMut         string
	reads           int
	mutAfterRead    bool // some mutation came after some read
	nontrivial      bool // a read saw >= 2 application entities after such a mutation
	maxEnts         int
	sawDedup        bool
	sawLateAdd      bool
	sawReadd        bool
	sawNested       bool
	sawClientFn     bool
	sawRemoveNotify bool
}

func (m *machine) logf(format string, a ...any) { m.hist = append(m.hist, fmt.Sprintf(format, a...)) }
func (m *machine) history() string              { return "\n history:\n  " + strings.Join(m.hist, "\n  ") }

func (m *machine) mutated(kind string) {
	m.lastMut = kind
	if m.reads > 0 {
		m.mutAfterRead = true
	}
	m.ops = append(m.ops, kind)
	world.Label("op/" + kind)
}

var addrPool = [][]uint{{1}, {2}, {3}, {4}, {1, 1}, {1, 2}, {2, 1}, {1, 1, 1}}

var entityTypes = []model.EntityTypeType{
	model.EntityTypeTypeCEM, model.EntityTypeTypeEVSE, model.EntityTypeTypeEV, model.EntityTypeTypeHeatPumpAppliance,
	model.EntityTypeTypeBattery, model.EntityTypeTypeGeneric, model.EntityTypeTypeCompressor,
	model.EntityTypeTypeDeviceInformation, // the type of entity [0]; an application entity may carry it as well
}

// commonTypes are drawn most of the time so that a second feature of the same type and role on
// one entity (de-duplication, GetOrAddFeature hits) is frequent.
var commonTypes = []model.FeatureTypeType{
	model.FeatureTypeTypeMeasurement, model.FeatureTypeTypeLoadControl,
	model.FeatureTypeTypeDeviceDiagnosis, model.FeatureTypeTypeElectricalConnection,
}

var allTypes = append(append([]model.FeatureTypeType(nil), gen.UsableFeatureTypes()...), model.FeatureTypeTypeGeneric)

func drawType(t *rapid.T) model.FeatureTypeType {
	if rapid.IntRange(0, 3).Draw(t, "anyType") == 0 {
		return rapid.SampledFrom(allTypes).Draw(t, "type")
	}
	return rapid.SampledFrom(commonTypes).Draw(t, "commonType")
}

var updaterType = reflect.TypeOf((*model.Updater)(nil)).Elem()

// functionsOf: the functions the feature type has. deviceDiagnosisHeartbeatData is left out: with
// the read flag on a DeviceDiagnosis server feature it starts the heartbeat goroutine (C16's subject).
func functionsOf(ft model.FeatureTypeType) []gen.Func {
	var out []gen.Func
	for _, f := range gen.ForFeature(ft) {
		if f.Fn == model.FunctionTypeDeviceDiagnosisHeartbeatData {
			continue
		}
		out = append(out, f)
	}
	return out
}

func (m *machine) attachedApp() []*entM {
	var out []*entM
	for _, e := range m.ents {
		if e.attached && !e.fixed {
			out = append(out, e)
		}
	}
	return out
}

func (m *machine) appEnts() []*entM {
	var out []*entM
	for _, e := range m.ents {
		if !e.fixed {
			out = append(out, e)
		}
	}
	return out
}

func (m *machine) addrInUse(a []uint) bool {
	for _, e := range m.ents {
		if e.attached && reflect.DeepEqual(e.addr, a) {
			return true
		}
	}
	return false
}

func (e *entM) name() string {
	s := fmt.Sprint(e.addr)
	if e.gen > 0 {
		s += fmt.Sprintf("#%d", e.gen+1)
	}
	return s
}

// handOut records a feature number the entity handed out; numbers are never handed out twice.
func (m *machine) handOut(t *rapid.T, e *entM, id uint, how string) {
	if e.handed[id] {
		world.Fail(t, "C07/feature-id/handed-out-twice/"+how, "entity %s: %s handed out feature number %d which it had handed out before (all so far: %v)%s", e.name(), how, id, sortedIDs(e.handed), m.history())
	}
	e.handed[id] = true
}

func sortedIDs(m map[uint]bool) []uint {
	var out []uint
	for k := range m {
		out = append(out, k)
	}
	sort.Slice(out, func(i, j int) bool { return out[i] < out[j] })
	return out
}

func same(a, b any) bool { return a == b }

// addFunctions draws 0..max functions and adds them to the feature and to the model.
func (m *machine) addFunctions(t *rapid.T, e *entM, f *featM, target api.FeatureLocalInterface, max int, label string) {
	fns := functionsOf(f.typ)
	if len(fns) == 0 {
		return
	}
	n := rapid.IntRange(0, max).Draw(t, label+".nFunctions")
	for i := 0; i < n; i++ {
		gf := fns[rapid.IntRange(0, len(fns)-1).Draw(t, label+".function")]
		read := rapid.Bool().Draw(t, label+".read")
		write := rapid.Bool().Draw(t, label+".write")
		if have, ok := f.funcs[gf.Fn]; ok {
			// adding a function again: with the flags it already has (the statement does not say
			// which flags win otherwise); it must stay listed once
			read, write = have.read, have.write
		}
		target.AddFunctionType(gf.Fn, read, write)
		if f.role == model.RoleTypeClient {
			// client features do not serve functions: the stack ignores the addition, so does the model
			m.sawClientFn = true
			m.logf("  %s/%d AddFunctionType(%s, read=%v, write=%v) on a client feature (ignored)", e.name(), f.id, gf.Fn, read, write)
			continue
		}
		if _, ok := f.funcs[gf.Fn]; !ok {
			wp := write && reflect.PointerTo(gf.DataType).Implements(updaterType)
			f.funcs[gf.Fn] = opsM{read: read, write: write, writePartial: wp}
		}
		m.logf("  %s/%d AddFunctionType(%s, read=%v, write=%v)", e.name(), f.id, gf.Fn, read, write)
	}
}

// newFeature creates one feature on e, either with an explicit number from NextFeatureId plus
// AddFeature, or through GetOrAddFeature.
func (m *machine) newFeature(t *rapid.T, e *entM, label string) string {
	typ := drawType(t)
	// (a feature of the role special is rare outside node management but nothing forbids it; it is a feature of
	// its own type-and-role and stands for neither the client nor the server feature of its type)
	role := rapid.SampledFrom([]model.RoleType{model.RoleTypeServer, model.RoleTypeServer, model.RoleTypeClient, model.RoleTypeServer, model.RoleTypeServer, model.RoleTypeClient, model.RoleTypeSpecial}).Draw(t, label+".role")
	existing := e.find(typ, role)
	if rapid.IntRange(0, 2).Draw(t, label+".viaGetOrAdd") == 0 {
		f := e.obj.GetOrAddFeature(typ, role)
		if f == nil {
			world.Fail(t, "C07/get-or-add/nil", "GetOrAddFeature(%s, %s) on entity %s returned nil%s", typ, role, e.name(), m.history())
		}
		kind := "getOrAdd-existing"
		var fm *featM
		if existing != nil {
			if !same(f, existing.obj) {
				world.Fail(t, "C07/get-or-add/not-the-existing-feature", "entity %s has feature %d of %s/%s, GetOrAddFeature returned another object (number %v)%s", e.name(), existing.id, typ, role, f.Address().Feature, m.history())
			}
			fm = existing
			m.logf("%s GetOrAddFeature(%s, %s) => existing feature %d", e.name(), typ, role, fm.id)
		} else {
			kind = "getOrAdd-new"
			if f.Address() == nil || f.Address().Feature == nil {
				world.Fail(t, "C07/get-or-add/no-address", "GetOrAddFeature returned a feature without number%s", m.history())
			}
			id := uint(*f.Address().Feature)
			m.logf("%s GetOrAddFeature(%s, %s) => new feature %d", e.name(), typ, role, id)
			m.handOut(t, e, id, "GetOrAddFeature")
			if f.Type() != typ || f.Role() != role {
				world.Fail(t, "C07/get-or-add/wrong-type-or-role", "GetOrAddFeature(%s, %s) returned a %s/%s feature%s", typ, role, f.Type(), f.Role(), m.history())
			}
			fm = &featM{id: id, typ: typ, role: role, funcs: map[model.FunctionType]opsM{}, obj: f}
			// the description GetOrAddFeature chooses is not fixed by the statement: observed
			if d := f.Description(); d != nil {
				s := string(*d)
				fm.desc = &s
			}
			e.feats = append(e.feats, fm)
		}
		// asking again yields one and the same feature
		if again := e.obj.GetOrAddFeature(typ, role); !same(again, f) {
			world.Fail(t, "C07/get-or-add/second-call-differs", "two consecutive GetOrAddFeature(%s, %s) on entity %s returned different objects%s", typ, role, e.name(), m.history())
		}
		m.addFunctions(t, e, fm, f, 2, label)
		return kind
	}
	id := e.obj.NextFeatureId()
	m.logf("%s NextFeatureId => %d; NewFeatureLocal(%d, %s, %s)", e.name(), id, id, typ, role)
	m.handOut(t, e, id, "NextFeatureId")
	f := spine.NewFeatureLocal(id, e.obj, typ, role)
	fm := &featM{id: id, typ: typ, role: role, funcs: map[model.FunctionType]opsM{}, obj: f}
	if rapid.Bool().Draw(t, label+".withDescription") {
		s := rapid.StringMatching(`[A-Za-z0-9 äß_-]{1,10}`).Draw(t, label+".description")
		f.SetDescriptionString(s)
		fm.desc = &s
		m.logf("  %s/%d SetDescriptionString(%q)", e.name(), id, s)
	}
	m.addFunctions(t, e, fm, f, 3, label)
	if rapid.IntRange(0, 3).Draw(t, label+".addLater") == 0 {
		// numbering and adding are two steps: the features need not be added in the order they were numbered
		e.pending = append(e.pending, fm)
		m.sawLateAdd = true
		m.logf("  (AddFeature of %s/%d comes later)", e.name(), id)
		return "feature-numbered-add-later"
	}
	e.obj.AddFeature(f)
	if existing != nil {
		// AddFeature keeps the first feature of a type and role; the number stays used up
		m.sawDedup = true
		m.logf("  (entity already has feature %d of %s/%s: the new one is dropped)", existing.id, typ, role)
		return "addFeature-duplicate"
	}
	e.feats = append(e.feats, fm)
	return "addFeature"
}

func (m *machine) drainAll() {
	for _, p := range m.peers {
		p.Cap.Drain()
	}
}

func isDiscoveryNotify(s world.Sent) bool {
	c := s.Cmd()
	return c.NodeManagementDetailedDiscoveryData != nil ||
		(c.Function != nil && *c.Function == model.FunctionTypeNodeManagementDetailedDiscoveryData)
}

// expectEntityNotify: every subscribed peer got exactly one partial notification describing e as
// added (with its features) or removed (without), unsubscribed peers got none.
func (m *machine) expectEntityNotify(t *rapid.T, e *entM, state model.NetworkManagementStateChangeType) {
	m.w.Sync()
	what := string(state)
	for pi, p := range m.peers {
		var notes []world.Sent
		for _, s := range p.Cap.Drain() {
			if s.Err != nil {
				world.Fail(t, "C07/notify/undecodable/"+what, "peer%d got an undecodable datagram: %v%s", pi+1, s.Err, m.history())
			}
			if isDiscoveryNotify(s) {
				notes = append(notes, s)
				continue
			}
			// anything else (e.g. the use case data notification of RemoveEntity) is another property's subject
			world.Label("notify/other-datagram")
		}
		if !m.sub[pi] {
			if len(notes) != 0 {
				world.Fail(t, "C07/notify/to-unsubscribed-peer/"+what, "entity %s %s: peer%d is not subscribed to node management but got %d discovery datagram(s): %s%s", e.name(), what, pi+1, len(notes), string(notes[0].Raw), m.history())
			}
			continue
		}
		if len(notes) != 1 {
			kind := "missing"
			if len(notes) > 1 {
				kind = "duplicate"
			}
			world.Fail(t, "C07/notify/"+kind+"/"+what, "entity %s %s: subscribed peer%d got %d discovery notifications (expected exactly one)%s", e.name(), what, pi+1, len(notes), m.history())
		}
		s := notes[0]
		if s.Classifier() != model.CmdClassifierTypeNotify {
			world.Fail(t, "C07/notify/classifier/"+what, "entity %s %s: peer%d got a %s instead of a notify%s", e.name(), what, pi+1, s.Classifier(), m.history())
		}
		if !reflect.DeepEqual(s.D.Header.AddressSource, world.LocalNM()) {
			world.Fail(t, "C07/notify/source/"+what, "notification source is %v, not the local node management%s", s.D.Header.AddressSource, m.history())
		}
		// (the stack learns a peer's device address from its discovery data: a peer that subscribed
		// before is addressed without the device part)
		dst := s.D.Header.AddressDestination
		if dst != nil && dst.Device == nil && p.Ents == nil {
			c := *dst
			a := p.Addr
			c.Device = &a
			dst = &c
		}
		if !reflect.DeepEqual(dst, p.NM()) {
			world.Fail(t, "C07/notify/destination/"+what, "notification on peer%d's connection is addressed to %v, the subscribed feature is %v%s", pi+1, s.D.Header.AddressDestination, p.NM(), m.history())
		}
		cmd := s.Cmd()
		partial := false
		if len(cmd.Filter) == 1 && cmd.Filter[0].CmdControl != nil && cmd.Filter[0].CmdControl.Partial != nil && cmd.Filter[0].CmdControl.Delete == nil {
			partial = true
		}
		if !partial {
			world.Fail(t, "C07/notify/not-partial/"+what, "entity %s %s: the notification does not carry exactly one partial filter: %s%s", e.name(), what, string(s.Raw), m.history())
		}
		data := cmd.NodeManagementDetailedDiscoveryData
		if data == nil {
			world.Fail(t, "C07/notify/no-payload/"+what, "notification without discovery data: %s%s", string(s.Raw), m.history())
		}
		if len(data.EntityInformation) != 1 {
			world.Fail(t, "C07/notify/entity-count/"+what, "entity %s %s: the notification lists %d entities (expected the one entity)%s", e.name(), what, len(data.EntityInformation), m.history())
		}
		ed := data.EntityInformation[0].Description
		if ed == nil || ed.EntityAddress == nil || !reflect.DeepEqual(entAddr(ed.EntityAddress.Entity), e.addr) {
			world.Fail(t, "C07/notify/entity-address/"+what, "entity %s %s: the notification describes %s%s", e.name(), what, world.JSON(data.EntityInformation[0]), m.history())
		}
		if ed.EntityType == nil || *ed.EntityType != e.typ {
			world.Fail(t, "C07/notify/entity-type/"+what, "entity %s (%s) %s: announced with type %v%s", e.name(), e.typ, what, ed.EntityType, m.history())
		}
		if ed.LastStateChange == nil || *ed.LastStateChange != state {
			world.Fail(t, "C07/notify/state-change/"+what, "entity %s %s: lastStateChange is %s%s", e.name(), what, world.JSON(ed.LastStateChange), m.history())
		}
		var want []featRec
		if state == model.NetworkManagementStateChangeTypeAdded {
			for _, f := range e.feats {
				want = append(want, e.rec(f))
			}
		}
		if aspect, detail := diffFeatures(data.FeatureInformation, want); aspect != "" {
			world.Fail(t, "C07/notify/"+aspect+"/"+what, "entity %s %s, notification to peer%d: %s%s", e.name(), what, pi+1, detail, m.history())
		}
		if state == model.NetworkManagementStateChangeTypeRemoved {
			m.sawRemoveNotify = true
		}
	}
}

func (m *machine) subscribedPeers() int {
	n := 0
	for _, s := range m.sub {
		if s {
			n++
		}
	}
	return n
}

func (m *machine) addEntity(t *rapid.T) {
	if len(m.attachedApp()) >= 4 {
		t.Skip("four application entities")
	}
	// a removed entity object whose address is free again may be added back
	var detached []*entM
	for _, e := range m.appEnts() {
		if !e.attached && !m.addrInUse(e.addr) {
			detached = append(detached, e)
		}
	}
	var e *entM
	kind := "addEntity"
	if len(detached) > 0 && rapid.IntRange(0, 2).Draw(t, "readd") == 0 {
		e = detached[rapid.IntRange(0, len(detached)-1).Draw(t, "detached")]
		kind = "readdEntity"
		m.sawReadd = true
		m.logf("AddEntity(%s) again (the object removed earlier, %d features)", e.name(), len(e.feats))
	} else {
		var free [][]uint
		for _, a := range addrPool {
			if !m.addrInUse(a) {
				free = append(free, a)
			}
		}
		addr := free[rapid.IntRange(0, len(free)-1).Draw(t, "address")]
		et := rapid.SampledFrom(entityTypes).Draw(t, "entityType")
		e = &entM{addr: addr, typ: et, handed: map[uint]bool{}}
		for _, o := range m.ents {
			if reflect.DeepEqual(o.addr, addr) {
				e.gen++
			}
		}
		e.obj = spine.NewEntityLocal(m.w.Local, et, spine.NewAddressEntityType(addr), time.Second)
		m.ents = append(m.ents, e)
		m.logf("NewEntityLocal(%s, %s)", e.name(), et)
		n := rapid.IntRange(0, 3).Draw(t, "nFeatures")
		for i := 0; i < n; i++ {
			m.newFeature(t, e, "pre")
		}
		m.logf("AddEntity(%s) with %d features", e.name(), len(e.feats))
		if len(addr) > 1 {
			m.sawNested = true
		}
	}
	m.drainAll()
	m.w.Local.AddEntity(e.obj)
	e.attached = true
	m.mutated(kind)
	if n := len(m.attachedApp()); n > m.maxEnts {
		m.maxEnts = n
	}
	m.expectEntityNotify(t, e, model.NetworkManagementStateChangeTypeAdded)
}

func (m *machine) removeEntity(t *rapid.T) {
	att := m.attachedApp()
	if len(att) == 0 {
		t.Skip("no application entity")
	}
	e := att[rapid.IntRange(0, len(att)-1).Draw(t, "entity")]
	m.logf("RemoveEntity(%s)", e.name())
	m.drainAll()
	m.w.Local.RemoveEntity(e.obj)
	e.attached = false
	m.mutated("removeEntity")
	m.expectEntityNotify(t, e, model.NetworkManagementStateChangeTypeRemoved)
}

// removeAllInLoop: the application removes its entities the obvious way,
// for _, e := range device.Entities() { device.RemoveEntity(e) }.
func (m *machine) removeAllInLoop(t *rapid.T) {
	if len(m.attachedApp()) < 2 {
		t.Skip("fewer than two application entities")
	}
	m.logf("for _, e := range Entities() { RemoveEntity(e) } (all but entity [0])")
	list := m.w.Local.Entities()
	for i, obj := range list {
		if obj == nil {
			world.Fail(t, "C07/entities-accessor/nil-while-removing", "the list obtained from Entities() before the loop holds nil at position %d after %d removals%s", i, i, m.history())
		}
		var e *entM
		for _, x := range m.ents {
			if x.attached && same(x.obj, obj) {
				e = x
			}
		}
		if e == nil || e.fixed {
			continue // entity [0], or an entity the loop sees a second time
		}
		m.drainAll()
		m.w.Local.RemoveEntity(obj)
		e.attached = false
		m.logf("  RemoveEntity(%s)", e.name())
		m.mutated("removeEntity-in-loop")
		m.expectEntityNotify(t, e, model.NetworkManagementStateChangeTypeRemoved)
	}
	if left := m.attachedApp(); len(left) != 0 {
		world.Fail(t, "C07/entities-accessor/loop-missed-entity", "the loop over Entities() did not come across %d of the entities (first: %s)%s", len(left), left[0].name(), m.history())
	}
	world.Label("op/remove-all-in-loop")
}

// pickEntity prefers attached entities; detached ones (changed while away, announced when added
// back) are picked now and then.
func (m *machine) pickEntity(t *rapid.T) *entM {
	all := m.appEnts()
	if len(all) == 0 {
		t.Skip("no application entity")
	}
	att := m.attachedApp()
	if len(att) > 0 && rapid.IntRange(0, 5).Draw(t, "anyEntity") != 0 {
		return att[rapid.IntRange(0, len(att)-1).Draw(t, "entity")]
	}
	return all[rapid.IntRange(0, len(all)-1).Draw(t, "entityAny")]
}

func (m *machine) addFeature(t *rapid.T) {
	e := m.pickEntity(t)
	if rapid.IntRange(0, 7).Draw(t, "onDeviceInformationEntity") == 0 {
		// the application may give the device information entity [0] features of its own, next to the
		// stack's node management and device classification features
		for _, x := range m.ents {
			if x.fixed {
				e = x
				world.Label("addFeature/on-entity-0")
			}
		}
	}
	m.mutated(m.newFeature(t, e, "feat"))
}

// probe resolves a feature address that may not exist (yet): applications and inbound messages
// do that all the time. Nothing may come of it - in particular not for later.
func (m *machine) probe(t *rapid.T) {
	e := m.pickEntity(t)
	id := uint(rapid.IntRange(1, len(e.handed)+2).Draw(t, "featureNumber"))
	// the device resolves the address through the entity that is attached under it at present
	var want *featM
	for _, x := range m.ents {
		if x.attached && reflect.DeepEqual(x.addr, e.addr) {
			for _, f := range x.feats {
				if f.id == id {
					want = f
				}
			}
		}
	}
	got := m.w.Local.FeatureByAddress(world.LA(e.addr, id))
	direct := e.obj.FeatureOfAddress(util.Ptr(model.AddressFeatureType(id)))
	m.logf("FeatureByAddress(%s/%d) => found=%v", e.name(), id, got != nil)
	if (want == nil) != (got == nil) || (want != nil && !same(got, want.obj)) {
		world.Fail(t, "C07/resolve/probe", "FeatureByAddress(%s/%d) returned %v, the model says %v%s", e.name(), id, got, want != nil, m.history())
	}
	var wantDirect *featM
	for _, f := range e.feats {
		if f.id == id {
			wantDirect = f
		}
	}
	if (wantDirect == nil) != (direct == nil) {
		world.Fail(t, "C07/resolve/probe-entity", "FeatureOfAddress(%d) on entity %s returned %v, the model says %v%s", id, e.name(), direct, wantDirect != nil, m.history())
	}
	world.Label("op/probe-address")
}

// addPending adds a feature that was numbered and created earlier.
func (m *machine) addPending(t *rapid.T) {
	var with []*entM
	for _, e := range m.appEnts() {
		if len(e.pending) > 0 {
			with = append(with, e)
		}
	}
	if len(with) == 0 {
		t.Skip("no feature waits for AddFeature")
	}
	e := with[rapid.IntRange(0, len(with)-1).Draw(t, "entity")]
	i := rapid.IntRange(0, len(e.pending)-1).Draw(t, "pending")
	fm := e.pending[i]
	e.pending = append(e.pending[:i:i], e.pending[i+1:]...)
	existing := e.find(fm.typ, fm.role)
	e.obj.AddFeature(fm.obj)
	m.logf("%s AddFeature(feature %d, %s/%s) numbered earlier", e.name(), fm.id, fm.typ, fm.role)
	if existing != nil {
		m.sawDedup = true
		m.logf("  (entity already has feature %d of %s/%s: the new one is dropped)", existing.id, fm.typ, fm.role)
		m.mutated("addFeature-late-duplicate")
		return
	}
	e.feats = append(e.feats, fm)
	m.mutated("addFeature-late")
}

func (m *machine) pickFeature(t *rapid.T) (*entM, *featM) {
	e := m.pickEntity(t)
	if len(e.feats) == 0 {
		t.Skip("entity without features")
	}
	return e, e.feats[rapid.IntRange(0, len(e.feats)-1).Draw(t, "feature")]
}

func (m *machine) addFunction(t *rapid.T) {
	e, f := m.pickFeature(t)
	fns := functionsOf(f.typ)
	if len(fns) == 0 {
		t.Skip("feature type without functions")
	}
	gf := fns[rapid.IntRange(0, len(fns)-1).Draw(t, "function")]
	foreign := false
	if rapid.IntRange(0, 5).Draw(t, "foreignFunction") == 0 {
		// an unusual but accepted configuration: a function that belongs to another feature type (the feature
		// holds no data for it); it is a function "added to the feature" and is announced with the flags given
		all := gen.Table()
		if c := all[rapid.IntRange(0, len(all)-1).Draw(t, "anyFunction")]; c.FeatureType != f.typ && f.typ != model.FeatureTypeTypeGeneric && c.Fn != model.FunctionTypeDeviceDiagnosisHeartbeatData {
			if _, isOwn := ownFunction(fns, c.Fn); !isOwn {
				gf, foreign = c, true
				world.Label("addFunction/foreign-function")
			}
		}
	}
	read := rapid.Bool().Draw(t, "read")
	write := rapid.Bool().Draw(t, "write")
	kind := "addFunction"
	if have, ok := f.funcs[gf.Fn]; ok {
		read, write = have.read, have.write
		kind = "addFunction-again"
	}
	f.obj.AddFunctionType(gf.Fn, read, write)
	m.logf("%s/%d (%s/%s) AddFunctionType(%s, read=%v, write=%v)", e.name(), f.id, f.typ, f.role, gf.Fn, read, write)
	if f.role == model.RoleTypeClient {
		m.sawClientFn = true
		kind = "addFunction-client"
	} else if _, ok := f.funcs[gf.Fn]; !ok {
		// (restricted writes need the function's data, which the feature does not hold for a foreign function)
		wp := write && reflect.PointerTo(gf.DataType).Implements(updaterType) && !foreign
		f.funcs[gf.Fn] = opsM{read: read, write: write, writePartial: wp}
	}
	m.mutated(kind)
}

func ownFunction(fns []gen.Func, fn model.FunctionType) (gen.Func, bool) {
	for _, x := range fns {
		if x.Fn == fn {
			return x, true
		}
	}
	return gen.Func{}, false
}

func (m *machine) describe(t *rapid.T) {
	e, f := m.pickFeature(t)
	s := rapid.StringMatching(`[A-Za-z0-9 äß_-]{1,10}`).Draw(t, "description")
	f.obj.SetDescriptionString(s)
	f.desc = &s
	m.logf("%s/%d SetDescriptionString(%q)", e.name(), f.id, s)
	m.mutated("description")
}

func (m *machine) subscribe(t *rapid.T) {
	pi := rapid.IntRange(0, len(m.peers)-1).Draw(t, "peer")
	p := m.peers[pi]
	if m.sub[pi] {
		ok := p.CallOK(world.UnsubscribeCall(p.NM(), world.LocalNM()))
		m.logf("peer%d unsubscribes from node management => %v", pi+1, ok)
		if !ok {
			world.Fail(t, "C07/precondition/unsubscribe-refused", "the delete call for an existing node management subscription was refused%s", m.history())
		}
		m.sub[pi] = false
		m.ops = append(m.ops, fmt.Sprintf("unsubscribe:%d", pi))
	} else {
		ok := p.CallOK(world.SubscribeCall(p.NM(), world.LocalNM(), model.FeatureTypeTypeNodeManagement))
		m.logf("peer%d subscribes to node management => %v", pi+1, ok)
		if !ok {
			world.Fail(t, "C07/precondition/subscribe-refused", "the node management subscription call of peer%d was refused%s", pi+1, m.history())
		}
		m.sub[pi] = true
		m.ops = append(m.ops, fmt.Sprintf("subscribe:%d", pi))
	}
	m.w.Events.Drain()
	world.Label("op/subscription-change")
}

var useCases = []model.UseCaseNameType{model.UseCaseNameTypeLimitationOfPowerConsumption, model.UseCaseNameTypeEVSECommissioningAndConfiguration}

// useCase adds a use case to an entity: RemoveEntity then also sends a use case data notification,
// which must not be mistaken for (nor replace) the entity notification.
func (m *machine) useCase(t *rapid.T) {
	att := m.attachedApp()
	if len(att) == 0 {
		t.Skip("no application entity")
	}
	e := att[rapid.IntRange(0, len(att)-1).Draw(t, "entity")]
	uc := rapid.SampledFrom(useCases).Draw(t, "useCase")
	e.obj.AddUseCaseSupport(model.UseCaseActorTypeCEM, uc, model.SpecificationVersionType("1.0.0"), "release", true, []model.UseCaseScenarioSupportType{1, 2})
	m.w.Sync()
	m.logf("%s AddUseCaseSupport(CEM, %s)", e.name(), uc)
	m.ops = append(m.ops, "useCase")
	world.Label("op/useCase")
}

func (m *machine) read(t *rapid.T) {
	m.readFrom(t, rapid.IntRange(0, len(m.peers)-1).Draw(t, "peer"))
}

// readFrom: detailed-discovery read from one peer, the reply is compared with the model.
func (m *machine) readFrom(t *rapid.T, pi int) {
	p := m.peers[pi]
	m.drainAll()
	d := p.Msg(model.CmdClassifierTypeRead, p.NM(), world.LocalNM(), false, nil,
		model.CmdType{NodeManagementDetailedDiscoveryData: &model.NodeManagementDetailedDiscoveryDataType{}})
	p.Send(d)
	m.w.Sync()
	after := m.lastMut
	m.logf("peer%d (subscribed=%v) reads the detailed discovery data", pi+1, m.sub[pi])
	var replies []world.Sent
	for _, s := range p.Cap.Drain() {
		if s.Classifier() == model.CmdClassifierTypeReply && s.Ref() != nil && *s.Ref() == *d.Header.MsgCounter {
			replies = append(replies, s)
		}
	}
	if len(replies) != 1 {
		world.Fail(t, "C07/reply/count/"+after, "the discovery read of peer%d got %d replies%s", pi+1, len(replies), m.history())
	}
	data := replies[0].Cmd().NodeManagementDetailedDiscoveryData
	if replies[0].Err != nil || data == nil {
		world.Fail(t, "C07/reply/no-payload/"+after, "the reply carries no discovery data: %s%s", string(replies[0].Raw), m.history())
	}
	// entities: exactly the current ones
	want := map[string]string{}
	var wantFeats []featRec
	byKey := map[string]*featM{}
	apps := 0
	for _, e := range m.ents {
		if !e.attached {
			continue
		}
		if !e.fixed {
			apps++
		}
		want[fmt.Sprint(e.addr)] = string(e.typ)
		for _, f := range e.feats {
			r := e.rec(f)
			wantFeats = append(wantFeats, r)
			byKey[r.key] = f
		}
	}
	got := map[string]string{}
	for _, ei := range data.EntityInformation {
		ed := ei.Description
		if ed == nil || ed.EntityAddress == nil {
			world.Fail(t, "C07/reply/entity-entry-malformed/"+after, "entity entry without address: %s%s", world.JSON(ei), m.history())
		}
		k := fmt.Sprint(entAddr(ed.EntityAddress.Entity))
		if _, dup := got[k]; dup {
			world.Fail(t, "C07/reply/entity-listed-twice/"+after, "entity %s is listed twice in the reply%s", k, m.history())
		}
		if ed.EntityAddress.Device != nil && string(*ed.EntityAddress.Device) != world.LocalAddr {
			world.Fail(t, "C07/reply/entity-device-address/"+after, "entity %s announced with device address %v%s", k, ed.EntityAddress.Device, m.history())
		}
		got[k] = ""
		if ed.EntityType != nil {
			got[k] = string(*ed.EntityType)
		}
	}
	for _, k := range sortedKeys(got) {
		wt, ok := want[k]
		if !ok {
			world.Fail(t, "C07/reply/entity-not-in-tree/"+after, "the reply lists entity %s (%s) which is not a current entity of the local device (current: %v)%s", k, got[k], sortedKeys(want), m.history())
		}
		if got[k] != wt {
			world.Fail(t, "C07/reply/entity-type/"+after, "entity %s announced as %q, it is %q%s", k, got[k], wt, m.history())
		}
	}
	for _, k := range sortedKeys(want) {
		if _, ok := got[k]; !ok {
			world.Fail(t, "C07/reply/entity-missing/"+after, "current entity %s is not listed in the reply (listed: %v)%s", k, sortedKeys(got), m.history())
		}
	}
	if aspect, detail := diffFeatures(data.FeatureInformation, wantFeats); aspect != "" {
		world.Fail(t, "C07/reply/"+aspect+"/"+after, "reply to peer%d: %s%s", pi+1, detail, m.history())
	}
	// every announced feature address resolves back to that feature
	for _, fi := range data.FeatureInformation {
		r, _ := wireRec(fi)
		res := m.w.Local.FeatureByAddress(fi.Description.FeatureAddress)
		if res == nil || !same(res, byKey[r.key].obj) {
			world.Fail(t, "C07/resolve/"+after, "announced feature address %s resolves to %v, not to the feature announced there (%s/%s)%s", r.key, res, r.typ, r.role, m.history())
		}
	}
	m.reads++
	if m.mutAfterRead && apps >= 2 {
		m.nontrivial = true
	}
	m.ops = append(m.ops, fmt.Sprintf("read:%d:%v", pi, m.sub[pi]))
	world.Label(fmt.Sprintf("op/read/subscribed=%v", m.sub[pi]))
}

// invariant: what the accessors named by the property show between the steps.
func (m *machine) invariant(t *rapid.T) {
	att := 0
	for _, e := range m.ents {
		if e.attached {
			att++
		}
		if e.fixed {
			continue
		}
		fs := e.obj.Features()
		if len(fs) != len(e.feats) {
			world.Fail(t, "C07/features-accessor/count/"+m.lastMut, "entity %s has %d features, the model %d%s", e.name(), len(fs), len(e.feats), m.history())
		}
		ids := map[uint]bool{}
		for _, f := range fs {
			id := uint(*f.Address().Feature)
			if ids[id] {
				world.Fail(t, "C07/feature-id/duplicate-in-entity/"+m.lastMut, "entity %s holds two features with number %d%s", e.name(), id, m.history())
			}
			ids[id] = true
			attached := false
			for _, fm := range e.feats {
				attached = attached || same(f, fm.obj)
			}
			if !attached {
				world.Fail(t, "C07/features-accessor/other-object/"+m.lastMut, "entity %s: Features() holds feature %d (%s/%s) which is not one of the features attached to it%s", e.name(), id, f.Type(), f.Role(), m.history())
			}
		}
	}
	if n := len(m.w.Local.Entities()); n != att {
		world.Fail(t, "C07/entities-accessor/count/"+m.lastMut, "the device has %d entities, the model %d%s", n, att, m.history())
	}
}

// snapshotEntityZero models entity [0] as NewDeviceLocal built it, read through the accessors
// (not through Information(), which is what the reply is rendered with).
func (m *machine) snapshotEntityZero(t *rapid.T) {
	obj := m.w.Local.Entity(spine.DeviceInformationAddressEntity)
	if obj == nil {
		t.Fatalf("harness: the local device has no entity [0]")
	}
	e := &entM{addr: []uint{0}, typ: obj.EntityType(), obj: obj, attached: true, fixed: true, handed: map[uint]bool{}}
	for _, f := range obj.Features() {
		fm := &featM{id: uint(*f.Address().Feature), typ: f.Type(), role: f.Role(), funcs: map[model.FunctionType]opsM{}, obj: f}
		if d := f.Description(); d != nil {
			s := string(*d)
			fm.desc = &s
		}
		for fn, o := range f.Operations() {
			fm.funcs[fn] = opsM{read: o.Read(), readPartial: o.ReadPartial(), write: o.Write(), writePartial: o.WritePartial()}
		}
		e.feats = append(e.feats, fm)
		e.handed[fm.id] = true // the numbers of the stack's own features of entity [0] are taken
	}
	nm := e.find(model.FeatureTypeTypeNodeManagement, model.RoleTypeSpecial)
	if nm == nil || nm.id != 0 || !nm.funcs[model.FunctionTypeNodeManagementDetailedDiscoveryData].read || e.typ != model.EntityTypeTypeDeviceInformation {
		t.Fatalf("harness: entity [0] does not hold the node management feature 0 with a readable discovery function")
	}
	if !same(m.w.Local.NodeManagement(), nm.obj) {
		t.Fatalf("harness: DeviceLocal.NodeManagement() is not feature [0]/0")
	}
	m.ents = append(m.ents, e)
}

func TestLocalTree(t *testing.T) {
	rapid.Check(t, world.Prop(func(t *rapid.T) {
		m := &machine{w: world.New(), lastMut: "initial"}
		defer m.w.Teardown()
		m.snapshotEntityZero(t)
		if rapid.IntRange(0, 2).Draw(t, "muteConnection") == 0 {
			// fault: a connection without a SHIP writer (nothing can be sent to it - every send reports an error)
			// whose device subscribed to node management before everybody else. What cannot be delivered to it
			// must not keep the other subscribers from getting their notification.
			mute := &world.Peer{W: m.w, Idx: 99, Ski: "ski-mute", Addr: "d:_r:mute", Cap: &world.Capture{}}
			mute.Reader = m.w.Local.SetupRemoteDevice(mute.Ski, nil)
			defer m.w.Local.RemoveRemoteDeviceConnection(mute.Ski)
			mute.Send(mute.Msg(model.CmdClassifierTypeCall, mute.NM(), world.LocalNM(), true, nil, world.SubscribeCall(mute.NM(), world.LocalNM(), model.FeatureTypeTypeNodeManagement)))
			m.w.Sync()
			world.Label("peer/mute-connection-subscribed-first")
			m.logf("a connection without writer subscribed to node management")
		}
		nPeers := rapid.IntRange(2, 3).Draw(t, "peers")
		for i := 0; i < nPeers; i++ {
			// a peer may subscribe before the stack has received its discovery data (its device
			// address is unknown to the stack then)
			var p *world.Peer
			if rapid.IntRange(0, 2).Draw(t, fmt.Sprintf("peer%d.announced", i+1)) == 0 {
				p = m.w.Connect(fmt.Sprintf("ski-%d", i+1), fmt.Sprintf("d:_r:peer%d", i+1))
				world.Label("peer/not-announced")
			} else {
				p = m.w.AddPeer(fmt.Sprintf("ski-%d", i+1), fmt.Sprintf("d:_r:peer%d", i+1), nil)
			}
			m.peers = append(m.peers, p)
			m.sub = append(m.sub, false)
			if rapid.Bool().Draw(t, fmt.Sprintf("peer%d.subscribed", i+1)) {
				if !p.CallOK(world.SubscribeCall(p.NM(), world.LocalNM(), model.FeatureTypeTypeNodeManagement)) {
					world.Fail(t, "C07/precondition/subscribe-refused", "the node management subscription call of peer%d was refused", i+1)
				}
				m.sub[i] = true
			}
			m.logf("peer%d connected, subscribed to node management: %v", i+1, m.sub[i])
		}
		m.w.Events.Drain()
		// initial configuration: 1..3 entities
		n0 := rapid.IntRange(1, 3).Draw(t, "initialEntities")
		for i := 0; i < n0; i++ {
			m.addEntity(t)
		}
		m.invariant(t)
		t.Repeat(map[string]func(*rapid.T){
			"addEntity":    m.addEntity,
			"removeEntity": m.removeEntity,
			"addFeature":   m.addFeature,
			"addFeature2":  m.addFeature,
			"addPending":   m.addPending,
			"probe":        m.probe,
			"removeAll":    m.removeAllInLoop,
			"addFunction":  m.addFunction,
			"addFunction2": m.addFunction,
			"describe":     m.describe,
			"subscribe":    m.subscribe,
			"useCase":      m.useCase,
			"read":         m.read,
			"read2":        m.read,
			"read3":        m.read,
			"":             m.invariant,
		})
		// at the end every peer reads once more (subscribed and unsubscribed ones)
		for pi := range m.peers {
			m.readFrom(t, pi)
		}
		world.Record(world.Hash(m.hist), m.nontrivial,
			fmt.Sprintf("maxEntities/%d", m.maxEnts), fmt.Sprintf("subscribedPeersAtEnd/%d-of-%d", m.subscribedPeers(), len(m.peers)),
			fmt.Sprintf("dedup/%v", m.sawDedup), fmt.Sprintf("addedOutOfNumberingOrder/%v", m.sawLateAdd), fmt.Sprintf("readd/%v", m.sawReadd), fmt.Sprintf("nested/%v", m.sawNested),
			fmt.Sprintf("clientFunctionIgnored/%v", m.sawClientFn), fmt.Sprintf("removeNotifyChecked/%v", m.sawRemoveNotify))
		if m.nontrivial && world.WantSample() {
			world.Sample(map[string]any{"kind": "history", "history": m.hist})
		}
	}))
}
