package c14

import (
	"fmt"
	"runtime"
	"sync"
	"sync/atomic"
	"testing"

	"github.com/enbility/spine-go/model"

	"verifharness/world"
)

// TestSameCallbackRegisteredConcurrently: "registering the same callback twice for one counter is
// refused" when the registrations are made at the same moment. Per round 2-4 free-running goroutines
// leave a spinning rendezvous together and each registers the same callback (closures of one function
// literal) for the same 64 fresh counters on one local feature, one counter after the other; in some
// rounds another callback is registered for these counters beforehand, and a further goroutine
// registers a different callback for them at the same time (never refused). For every counter exactly
// one of the registrations of the same callback may be accepted; then the accepted reply or result
// referencing the counter arrives and the invocation log is judged by the model of TestCallbacks: the
// accepted closure runs exactly once, a refused one never.
//
// Free-running (no schedule control): rounds from VERIF_ROUNDS; whether the registrations of a round
// overlapped in time is recorded (stamps around each registrar's loop).
func TestSameCallbackRegisteredConcurrently(t *testing.T) {
	rounds := world.EnvInt("VERIF_ROUNDS", 300)
	const perRound, roundsPerWorld = 64, 20
	defs := []featDef{{model.FeatureTypeTypeMeasurement, model.RoleTypeClient}, {model.FeatureTypeTypeLoadControl, model.RoleTypeServer}, {model.FeatureTypeTypeElectricalConnection, model.RoleTypeClient}}
	var m *machine
	defer func() {
		if m != nil {
			m.w.Teardown()
		}
	}()
	overlaps := 0
	world.Guard(func() {
		for r := 0; r < rounds; r++ {
			if r%roundsPerWorld == 0 {
				if m != nil {
					m.w.Teardown()
				}
				m = newMachine(defs)
			}
			feat, site, same := r%len(defs), (r/3)%len(sites), 2+r%3
			other := (site + 1) % len(sites)
			first := uint64(1000 + (r%roundsPerWorld)*perRound)
			withOther := r%5 == 2 // a goroutine registering another callback for the same counters
			if r%4 == 1 {
				// every second counter has a callback already
				for c := first; c < first+perRound; c += 2 {
					m.register(t, feat, c, (site+2)%len(sites), nil)
				}
			}
			n := same
			if withOther {
				n++
			}
			regs := make([][]*reg, n) // [registrar][counter]
			fns := make([][]func(), n)
			errs := make([][]error, n)
			for i := 0; i < n; i++ {
				s := site
				if i >= same {
					s = other
				}
				errs[i] = make([]error, perRound)
				for j := 0; j < perRound; j++ {
					rg := m.newReg(s, feat, first+uint64(j), false, true)
					regs[i] = append(regs[i], rg)
					cb := sites[s](m.log, rg.id, nil)
					i, j := i, j
					fns[i] = append(fns[i], func() {
						errs[i][j] = m.feats[feat].AddResponseCallback(model.MsgCounterType(rg.counter), cb)
					})
				}
			}
			var arrived atomic.Int32 // spinning rendezvous: all registrars leave it within nanoseconds
			stamps := make([][2]uint64, n)
			at := make([]atomic.Int32, perRound)
			var wg sync.WaitGroup
			wg.Add(n)
			for i := 0; i < n; i++ {
				i := i
				go func() {
					defer wg.Done()
					arrived.Add(1)
					for spins := 0; int(arrived.Load()) < n; spins++ {
						if spins > 1<<16 {
							runtime.Gosched() // (fewer free cores than registrars)
						}
					}
					stamps[i][0] = world.Stamp()
					for j, f := range fns[i] {
						// ... and meet again before every counter (a registrar that lost its processor is not waited for for long)
						at[j].Add(1)
						for spins := 0; int(at[j].Load()) < n && spins < 1<<12; spins++ {
						}
						f()
					}
					stamps[i][1] = world.Stamp()
				}()
			}
			how := fmt.Sprintf("round %d: %d goroutines register the callback of site %d on feature %d for the counters %d..%d at the same moment", r, same, site, feat, first, first+perRound-1)
			world.WaitOrDiagnose(t, &wg, "C14/concurrent-registration", how)
			overlapped := false
			for i := 0; i < same; i++ {
				for j := 0; j < same; j++ {
					if i != j && stamps[i][0] < stamps[j][1] && stamps[j][0] < stamps[i][1] {
						overlapped = true
					}
				}
			}
			if overlapped {
				overlaps++
			}
			m.ops = append(m.ops, how)

			for j := 0; j < perRound; j++ {
				k := key{feat, first + uint64(j)}
				var accepted []*reg
				for i := 0; i < n; i++ {
					rg := regs[i][j]
					switch {
					case errs[i][j] != nil && i >= same:
						world.Fail(t, "C14/registration-refused/fresh-concurrent", "%s; %v, a different callback registered by a further goroutine, was refused (%v)", how, rg, errs[i][j])
					case errs[i][j] != nil:
						rg.refused = true
						continue
					case i < same:
						accepted = append(accepted, rg)
					}
					m.pending[k] = append(m.pending[k], rg)
					m.siteEver[keySite{k, rg.site}] = true
				}
				switch {
				case len(accepted) == 0:
					world.Fail(t, "C14/registration-refused/fresh-concurrent", "%s; for counter %d every one of them was refused although the callback was not registered for it", how, k.counter)
				case len(accepted) > 1:
					world.Fail(t, "C14/duplicate-registration/accepted-concurrent", "%s; for counter %d %d of these registrations of the same callback returned no error: %v", how, k.counter, len(accepted), accepted)
				}
			}

			// the answers: accepted replies and results from both peers; every accepted closure runs once
			for j := 0; j < perRound; j++ {
				s := spec{peer: j % 2, src: feat, dst: feat, ref: first + uint64(j), kind: kReply, fn: functionsOf[defs[feat].ft][j%2], items: 1 + j%2, ack: j%4 == 0, direct: j%8 == 5}
				switch j % 3 {
				case 1:
					s.kind, s.fn, s.items, s.ack = kResult0, "", 0, false
				case 2:
					s.kind, s.fn, s.items, s.ack, s.errNo = kResultE, "", 0, false, uint(1+j%9)
				}
				m.deliver(t, s)
			}
			m.check(t)
			for j := 0; j < perRound; j++ {
				if len(m.pending[key{feat, first + uint64(j)}]) > 0 {
					t.Fatalf("harness: the answer for counter %d of round %d was not accepted", first+uint64(j), r)
				}
			}
			world.Record(world.Hash("same-callback", r), overlapped, "stress/same-callback-round", fmt.Sprintf("stress/same-callback-%d-registrars", same))
			if overlapped {
				world.Label("stress/same-callback-registrations-overlapped")
			}
		}
	})
	world.SetExtra("same_callback_rounds_overlapped", overlaps)
	t.Logf("rounds=%d overlapped=%d", rounds, overlaps)
}
