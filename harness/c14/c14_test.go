// Package c14: response and result callbacks fire exactly once for the right message.
//
// A rapid state machine registers response callbacks (per message counter) and result callbacks
// on 2-3 ordinary local features and lets two peers deliver replies and results with matching,
// other feature's, unknown and repeated references, accepted and rejected replies, partly while
// a second goroutine registers further callbacks. A model (map (feature, counter) -> registered
// callbacks, consumed on the first accepted delivery) predicts the invocation log.
//
// Every delivered message carries a unique serial inside its payload, so an invocation is
// attributed to exactly one delivery by the data it was handed.
//
// Missing references: a reply or result without msgCounterReference that comes in through the SHIP
// reader never reaches a feature (DatagramType.PrintMessageOverview dereferences the absent element
// inside ProcessCmd; HandleSpineMesssage recovers and drops the message - C05's subject). The way
// a feature receives such a message is its exported HandleMessage, so a share of the deliveries is
// handed to FeatureLocal.HandleMessage directly (the api.Message built exactly as ProcessCmd builds it
// from the decoded datagram), with and without a reference; a message without reference references
// no request and no counter: no callback of either kind may run for it.
//
// Registrations from inside a callback: some callbacks, when they are invoked (the first time),
// register a follow-up callback (response callback for a further counter or a further result
// callback) on a local feature, mostly their own; the follow-up is a registration concurrent with the
// arrival that triggered it, so every outcome a linearisation allows is accepted for the messages of
// that step, and from then on it is an ordinary registration (served by later deliveries / the final
// flush). Every delivery runs under a watchdog (world.AwaitOrDiagnose): handling that never returns is
// reported with the lock evidence, a merely slow machine is not.
//
// Counters of real requests: besides callbacks for drawn counters, client features send read requests
// (FeatureLocal.RequestRemoteData) to one of the peers and register callbacks for the counter the
// request returned (the counter of the read datagram on that peer's writer). The connections count
// their messages independently from the same start, so the same counter belongs to requests towards
// both peers; callbacks are keyed by local feature and counter, whoever of the peers sends the accepted
// reply or result that references it (the answering peer is drawn independently of the asked one).
//
// Peers come and go: a peer that no pending callback has sent a request to is disconnected
// (RemoveRemoteDeviceConnection) and possibly connected and announced again; every registration
// stays and has to be served exactly once by the messages of the peers that are connected. (What
// becomes of a callback that waits for the answer of the removed peer itself is not generated.)
package c14

import (
	"encoding/json"
	"fmt"
	"reflect"
	"runtime"
	"runtime/debug"
	"sort"
	"strings"
	"sync"
	"sync/atomic"
	"testing"
	"time"

	"github.com/enbility/spine-go/api"
	"github.com/enbility/spine-go/model"
	"github.com/enbility/spine-go/util"
	"pgregory.net/rapid"

	"verifharness/world"
)

func TestMain(m *testing.M) { world.Main(m) }

// ---------------------------------------------------------------------------------------------
// callbacks: the stack identifies "the same callback" by code pointer, so every "different
// callback" is its own function literal; two closures made at one site are "the same callback".

type invocation struct {
	reg    int // registration the closure belongs to
	site   int
	ref    model.MsgCounterType
	data   string // canonical JSON of ResponseMessage.Data, taken inside the callback
	remote api.FeatureRemoteInterface
}

// chainExec is one follow-up registration performed from inside a callback.
type chainExec struct {
	child    int // registration id of the follow-up
	finished bool
	err      error
}

type callLog struct {
	mu     sync.Mutex
	calls  []invocation
	chains []*chainExec
}

func (l *callLog) chainStart(child int) *chainExec {
	e := &chainExec{child: child}
	l.mu.Lock()
	l.chains = append(l.chains, e)
	l.mu.Unlock()
	return e
}

func (l *callLog) chainDone(e *chainExec, err error) {
	l.mu.Lock()
	e.finished, e.err = true, err
	l.mu.Unlock()
}

// chainsFrom returns copies of the follow-up registrations logged from position from on.
func (l *callLog) chainsFrom(from int) []chainExec {
	l.mu.Lock()
	defer l.mu.Unlock()
	var out []chainExec
	for _, e := range l.chains[from:] {
		out = append(out, *e)
	}
	return out
}

func (l *callLog) add(reg, site int, m api.ResponseMessage) {
	inv := invocation{reg: reg, site: site, ref: m.MsgCounterReference, data: world.JSON(m.Data), remote: m.FeatureRemote}
	l.mu.Lock()
	l.calls = append(l.calls, inv)
	l.mu.Unlock()
}

func (l *callLog) snapshot() []invocation {
	l.mu.Lock()
	defer l.mu.Unlock()
	return append([]invocation(nil), l.calls...)
}

// then (may be nil) is what the application does inside the callback after it has looked at the message.
var sites = []func(l *callLog, reg int, then func()) func(api.ResponseMessage){
	func(l *callLog, reg int, then func()) func(api.ResponseMessage) {
		return func(m api.ResponseMessage) {
			l.add(reg, 0, m)
			if then != nil {
				then()
			}
		}
	},
	func(l *callLog, reg int, then func()) func(api.ResponseMessage) {
		return func(m api.ResponseMessage) {
			l.add(reg, 1, m)
			if then != nil {
				then()
			}
		}
	},
	func(l *callLog, reg int, then func()) func(api.ResponseMessage) {
		return func(m api.ResponseMessage) {
			l.add(reg, 2, m)
			if then != nil {
				then()
			}
		}
	},
	func(l *callLog, reg int, then func()) func(api.ResponseMessage) {
		return func(m api.ResponseMessage) {
			l.add(reg, 3, m)
			if then != nil {
				then()
			}
		}
	},
}

// TestSites is a harness self-check: the literal sites have pairwise distinct code pointers and
// two closures of one site share theirs (the premise of the duplicate-registration model).
func TestSites(t *testing.T) {
	l := &callLog{}
	for i := range sites {
		a, b := sites[i](l, 1, nil), sites[i](l, 2, func() {})
		if reflect.ValueOf(a).Pointer() != reflect.ValueOf(b).Pointer() {
			t.Fatalf("harness: two closures of site %d have different code pointers", i)
		}
		for j := i + 1; j < len(sites); j++ {
			if reflect.ValueOf(a).Pointer() == reflect.ValueOf(sites[j](l, 3, nil)).Pointer() {
				t.Fatalf("harness: sites %d and %d share a code pointer", i, j)
			}
		}
	}
}

// ---------------------------------------------------------------------------------------------
// payloads

var palette = []model.FeatureTypeType{
	model.FeatureTypeTypeMeasurement,
	model.FeatureTypeTypeLoadControl,
	model.FeatureTypeTypeElectricalConnection,
}

var functionsOf = map[model.FeatureTypeType][]model.FunctionType{
	model.FeatureTypeTypeMeasurement:          {model.FunctionTypeMeasurementListData, model.FunctionTypeMeasurementDescriptionListData},
	model.FeatureTypeTypeLoadControl:          {model.FunctionTypeLoadControlLimitListData, model.FunctionTypeLoadControlLimitDescriptionListData},
	model.FeatureTypeTypeElectricalConnection: {model.FunctionTypeElectricalConnectionDescriptionListData, model.FunctionTypeElectricalConnectionParameterDescriptionListData},
}

func number(n int) *model.ScaledNumberType {
	return &model.ScaledNumberType{Number: util.Ptr(model.NumberType(n)), Scale: util.Ptr(model.ScaleType(0))}
}

// payload builds a list payload of 1-2 items (identifiers id, id+1) whose first item carries the
// serial, and the command holding it.
func payload(fn model.FunctionType, serial int, id uint, items int) (model.CmdType, any) {
	desc := func(i int) *model.DescriptionType {
		if i == 0 {
			return util.Ptr(model.DescriptionType(fmt.Sprintf("s%d", serial)))
		}
		return util.Ptr(model.DescriptionType("x"))
	}
	val := func(i int) *model.ScaledNumberType {
		if i == 0 {
			return number(serial)
		}
		return number(-1)
	}
	switch fn {
	case model.FunctionTypeMeasurementListData:
		p := &model.MeasurementListDataType{}
		for i := 0; i < items; i++ {
			p.MeasurementData = append(p.MeasurementData, model.MeasurementDataType{MeasurementId: util.Ptr(model.MeasurementIdType(id + uint(i))), Value: val(i)})
		}
		return model.CmdType{MeasurementListData: p}, p
	case model.FunctionTypeMeasurementDescriptionListData:
		p := &model.MeasurementDescriptionListDataType{}
		for i := 0; i < items; i++ {
			p.MeasurementDescriptionData = append(p.MeasurementDescriptionData, model.MeasurementDescriptionDataType{MeasurementId: util.Ptr(model.MeasurementIdType(id + uint(i))), Description: desc(i)})
		}
		return model.CmdType{MeasurementDescriptionListData: p}, p
	case model.FunctionTypeLoadControlLimitListData:
		p := &model.LoadControlLimitListDataType{}
		for i := 0; i < items; i++ {
			p.LoadControlLimitData = append(p.LoadControlLimitData, model.LoadControlLimitDataType{LimitId: util.Ptr(model.LoadControlLimitIdType(id + uint(i))), IsLimitActive: util.Ptr(i == 0), Value: val(i)})
		}
		return model.CmdType{LoadControlLimitListData: p}, p
	case model.FunctionTypeLoadControlLimitDescriptionListData:
		p := &model.LoadControlLimitDescriptionListDataType{}
		for i := 0; i < items; i++ {
			p.LoadControlLimitDescriptionData = append(p.LoadControlLimitDescriptionData, model.LoadControlLimitDescriptionDataType{LimitId: util.Ptr(model.LoadControlLimitIdType(id + uint(i))), Description: desc(i)})
		}
		return model.CmdType{LoadControlLimitDescriptionListData: p}, p
	case model.FunctionTypeElectricalConnectionDescriptionListData:
		p := &model.ElectricalConnectionDescriptionListDataType{}
		for i := 0; i < items; i++ {
			p.ElectricalConnectionDescriptionData = append(p.ElectricalConnectionDescriptionData, model.ElectricalConnectionDescriptionDataType{ElectricalConnectionId: util.Ptr(model.ElectricalConnectionIdType(id + uint(i))), Description: desc(i)})
		}
		return model.CmdType{ElectricalConnectionDescriptionListData: p}, p
	case model.FunctionTypeElectricalConnectionParameterDescriptionListData:
		p := &model.ElectricalConnectionParameterDescriptionListDataType{}
		for i := 0; i < items; i++ {
			p.ElectricalConnectionParameterDescriptionData = append(p.ElectricalConnectionParameterDescriptionData, model.ElectricalConnectionParameterDescriptionDataType{
				ElectricalConnectionId: util.Ptr(model.ElectricalConnectionIdType(id)), ParameterId: util.Ptr(model.ElectricalConnectionParameterIdType(uint(i))), Description: desc(i)})
		}
		return model.CmdType{ElectricalConnectionParameterDescriptionListData: p}, p
	}
	panic("harness: no payload builder for " + string(fn))
}

// ---------------------------------------------------------------------------------------------
// model

type key struct {
	feat    int
	counter uint64
}

type keySite struct {
	key
	site int
}

// reg is one registration attempt.
type reg struct {
	id       int
	site     int
	feat     int
	counter  uint64 // response callbacks only
	result   bool   // a result callback
	conc     bool   // registered from the second goroutine
	refused  bool   // the registration returned an error: the closure must never run
	consumed bool
	want     []int // serials of the deliveries that have to have invoked it

	reqPeer int  // >= 0: the counter was returned by a read request of this feature to that peer
	chained bool // a follow-up: registered from inside the callback of registration parent
	parent  int
	unreg   bool // (follow-ups) the registering callback has not run: not registered
	then    *reg // the follow-up this callback registers when it is invoked for the first time
}

func (r *reg) String() string {
	from := ""
	if r.chained {
		from = fmt.Sprintf(", registered from inside callback #%d", r.parent)
	}
	if r.result {
		return fmt.Sprintf("result callback #%d (site %d) on feature %d%s", r.id, r.site, r.feat, from)
	}
	return fmt.Sprintf("response callback #%d (site %d) on feature %d for counter %d%s", r.id, r.site, r.feat, r.counter, from)
}

// suffix marks the signatures of registrations whose time of effect is not fixed by the history.
func (r *reg) suffix() string {
	switch {
	case r.chained:
		return "-from-callback"
	case r.conc:
		return "-concurrent"
	}
	return ""
}

const (
	kReply    = "reply"
	kRejected = "reply-rejected"
	kResult0  = "result0"
	kResultE  = "resultErr"
)

// spec is the drawn description of one message a peer delivers.
type spec struct {
	peer, src, dst int // src/dst index the feature list; dst -1 = a local feature that does not exist
	kind           string
	fn             model.FunctionType // replies
	errNo          uint               // results
	ref            uint64
	ack            bool
	id             uint
	items          int
	filter         string // replies: "" | "partial" (restricted function exchange: the cmd carries function and filter)
	bare           bool   // error results: no description element (it is optional); the error number identifies the message
	noRef          bool   // the header carries no msgCounterReference (ref is not used)
	direct         bool   // handed to the local feature's HandleMessage instead of the SHIP reader
}

func (s spec) isResult() bool { return s.kind == kResult0 || s.kind == kResultE }

func (s spec) shape() string {
	if s.isResult() {
		return "result"
	}
	return "reply"
}

func (s spec) String() string {
	what := string(s.fn)
	if s.isResult() {
		what = fmt.Sprintf("errorNumber=%d", s.errNo)
	}
	if s.filter != "" {
		what += "," + s.filter
	}
	ref := fmt.Sprintf("ref=%d", s.ref)
	if s.noRef {
		ref = "no reference"
	}
	via := ""
	if s.direct {
		via = " via HandleMessage"
	}
	return fmt.Sprintf("%s(%s) peer%d/feature%d -> local feature %d %s ack=%v%s", s.kind, what, s.peer, s.src, s.dst, ref, s.ack, via)
}

type delivery struct {
	spec
	serial   int
	accepted bool // observed: no error result came back (replies); results are always taken
	data     string
	remote   api.FeatureRemoteInterface
}

type featDef struct {
	ft   model.FeatureTypeType
	role model.RoleType
}

type machine struct {
	w     *world.World
	defs  []featDef
	feats []api.FeatureLocalInterface
	peers []*world.Peer
	log   *callLog

	regs      []*reg
	pending   map[key][]*reg
	consumed  map[key]bool     // a registration for this key was consumed by a delivery
	siteEver  map[keySite]bool // this site was registered successfully for this key at some time
	resultCBs map[int][]*reg
	counters  map[uint64]bool
	dels      []*delivery
	byData    map[string]*delivery
	chainsAt  int              // follow-up registrations of the log that are booked already
	planned   map[keySite]bool // response follow-ups that are planned and not yet registered

	ents    []world.EntSpec // what every peer announces
	gone    []bool          // the peer's connection is removed at the moment
	nRemote int             // features every peer announces (numbered 1..nRemote); the local feature on the sub entity has no own counterpart
	base    int             // goroutines alive when nothing is going on
	abort   atomic.Bool     // a wedge was diagnosed: helper goroutines that still poll give up
	inConc  bool

	ops        []string // abstract history (distinctness key, samples)
	nontrivial bool
	invoked    bool
}

func opposite(r model.RoleType) model.RoleType {
	if r == model.RoleTypeClient {
		return model.RoleTypeServer
	}
	return model.RoleTypeClient
}

func funcSpecs(ft model.FeatureTypeType, role model.RoleType) []world.FuncSpec {
	if role != model.RoleTypeServer {
		return nil
	}
	var out []world.FuncSpec
	for _, fn := range functionsOf[ft] {
		out = append(out, world.FuncSpec{Fn: fn, Read: true})
	}
	return out
}

// newMachine builds the world: one local entity with the given features, two peers announcing a
// matching remote feature (same type, opposite role) for each of them under identical addresses.
func newMachine(defs []featDef) *machine {
	m := &machine{
		w: world.New(), defs: append([]featDef(nil), defs...), log: &callLog{},
		pending: map[key][]*reg{}, consumed: map[key]bool{}, siteEver: map[keySite]bool{},
		resultCBs: map[int][]*reg{}, counters: map[uint64]bool{}, byData: map[string]*delivery{},
		planned: map[keySite]bool{},
	}
	le := m.w.AddLocalEntity([]uint{1}, model.EntityTypeTypeCEM, time.Second)
	var remote []world.FeatSpec
	for i, d := range defs {
		m.feats = append(m.feats, m.w.AddLocalFeature(le, world.FeatSpec{Type: d.ft, Role: d.role, Funcs: funcSpecs(d.ft, d.role)}))
		remote = append(remote, world.FeatSpec{ID: uint(i + 1), Type: d.ft, Role: opposite(d.role), Funcs: funcSpecs(d.ft, opposite(d.role))})
		m.ops = append(m.ops, fmt.Sprintf("feature %d: %s %s", i, d.ft, d.role))
	}
	// the last local feature lives on the sub entity [1,1], added after its parent [1], and carries the same
	// feature number, type and role as feature 0 of the parent (its counterpart on the peers is the same remote
	// feature): a message addressed to one of the two must never reach the callbacks of the other
	m.nRemote = len(defs)
	sub := m.w.AddLocalEntity([]uint{1, 1}, model.EntityTypeTypeCompressor, time.Second)
	nested := m.w.AddLocalFeature(sub, world.FeatSpec{Type: defs[0].ft, Role: defs[0].role, Funcs: funcSpecs(defs[0].ft, defs[0].role)})
	if *nested.Address().Feature != *m.feats[0].Address().Feature {
		panic(fmt.Sprintf("harness: the feature of the sub entity is numbered %d, feature 0 of the parent %d", *nested.Address().Feature, *m.feats[0].Address().Feature))
	}
	m.feats = append(m.feats, nested)
	m.defs = append(m.defs, defs[0])
	m.ops = append(m.ops, fmt.Sprintf("feature %d: %s %s with the number of feature 0, on the sub entity [1,1]", len(m.feats)-1, defs[0].ft, defs[0].role))
	m.ents = []world.EntSpec{{Addr: []uint{1}, Type: model.EntityTypeTypeEVSE, Feats: remote}}
	for i := 0; i < 2; i++ {
		m.peers = append(m.peers, m.w.AddPeer(fmt.Sprintf("ski%d", i+1), fmt.Sprintf("d:_r:peer%d", i+1), m.ents))
		m.gone = append(m.gone, false)
	}
	m.w.Sync()
	m.base = runtime.NumGoroutine()
	return m
}

func (m *machine) newReg(site, feat int, counter uint64, result, conc bool) *reg {
	r := &reg{id: len(m.regs), site: site, feat: feat, counter: counter, result: result, conc: conc, reqPeer: -1}
	m.regs = append(m.regs, r)
	return r
}

func (m *machine) pendingSite(k key, site int) bool {
	for _, r := range m.pending[k] {
		if r.site == site {
			return true
		}
	}
	return false
}

// settle books the outcome of an AddResponseCallback call that was not concurrent with a
// delivery for its key.
func (m *machine) settle(t world.TB, r *reg, err error, dup bool) {
	k := key{r.feat, r.counter}
	ks := keySite{k, r.site}
	switch {
	case dup:
		world.Label("register/duplicate")
		if err == nil {
			world.Fail(t, "C14/duplicate-registration/accepted", "the callback of site %d is already registered on feature %d for counter %d and not yet delivered; registering it again returned no error", r.site, r.feat, r.counter)
		}
		r.refused = true
		return
	case m.siteEver[ks]:
		// same callback again after its first registration was delivered: the statement leaves
		// open whether this counts as "twice"; take the stack's answer
		world.Label("register/again-after-delivery")
		if err != nil {
			r.refused = true
			return
		}
	default:
		world.Label("register/fresh")
		if err != nil {
			world.Fail(t, "C14/registration-refused/fresh", "%v was refused (%v) although this callback is not registered for that counter", r, err)
		}
	}
	m.pending[k] = append(m.pending[k], r)
	m.siteEver[ks] = true
	m.counters[r.counter] = true
}

// followUp is the plan of a registration a callback makes from inside its (first) invocation.
type followUp struct {
	result  bool
	feat    int
	counter uint64 // response callbacks
	site    int
}

func (f *followUp) String() string {
	if f == nil {
		return ""
	}
	if f.result {
		return fmt.Sprintf(", which registers result callback site %d on feature %d when it is invoked", f.site, f.feat)
	}
	return fmt.Sprintf(", which registers response callback site %d on feature %d counter %d when it is invoked", f.site, f.feat, f.counter)
}

// callback builds the closure of registration r. With a follow-up plan the closure, the first time it
// is invoked, registers the follow-up callback from inside the invocation (as an application does that
// sends the next request when the answer to the previous one arrives).
func (m *machine) callback(r *reg, fu *followUp) func(api.ResponseMessage) {
	if fu == nil {
		return sites[r.site](m.log, r.id, nil)
	}
	c := m.newReg(fu.site, fu.feat, fu.counter, fu.result, false)
	c.chained, c.parent, c.unreg = true, r.id, true
	r.then = c
	if !c.result {
		m.planned[keySite{key{c.feat, c.counter}, c.site}] = true
	}
	world.Label("register/with-follow-up")
	fn := sites[c.site](m.log, c.id, nil)
	feat, log, child, result, counter := m.feats[c.feat], m.log, c.id, c.result, model.MsgCounterType(c.counter)
	var fired atomic.Bool
	return sites[r.site](m.log, r.id, func() {
		if !fired.CompareAndSwap(false, true) {
			return
		}
		e := log.chainStart(child)
		var err error
		if result {
			feat.AddResultCallback(fn)
		} else {
			err = feat.AddResponseCallback(counter, fn)
		}
		log.chainDone(e, err)
	})
}

// unplan: the callback that was to register r.then will never run.
func (m *machine) unplan(r *reg) {
	if c := r.then; c != nil && !c.result {
		delete(m.planned, keySite{key{c.feat, c.counter}, c.site})
	}
}

func (m *machine) register(t world.TB, feat int, counter uint64, site int, fu *followUp) *reg {
	k := key{feat, counter}
	dup := m.pendingSite(k, site)
	r := m.newReg(site, feat, counter, false, false)
	err := m.feats[feat].AddResponseCallback(model.MsgCounterType(counter), m.callback(r, fu))
	m.ops = append(m.ops, fmt.Sprintf("register response callback site %d on feature %d counter %d (duplicate=%v)%v", site, feat, counter, dup, fu))
	m.settle(t, r, err, dup)
	if r.refused {
		m.unplan(r)
	}
	return r
}

// request lets local (client) feature feat read function fn from the matching server feature of a
// peer; the counter the request returned is what the application registers its callback for.
func (m *machine) request(t world.TB, feat, peer int, fn model.FunctionType) uint64 {
	p := m.peers[peer]
	dest := p.Dev.FeatureByAddress(p.FA([]uint{1}, uint(feat%m.nRemote+1))) // (the sub entity's feature asks the counterpart of feature 0)
	if dest == nil {
		t.Fatalf("harness: peer %d has not announced the counterpart of feature %d", peer, feat)
	}
	p.Cap.Drain()
	c, e := m.feats[feat].RequestRemoteData(fn, nil, nil, dest)
	if e != nil || c == nil {
		t.Fatalf("harness: RequestRemoteData(%s) of feature %d to peer %d failed: %v", fn, feat, peer, e)
	}
	wire := "an unanswered identical request is pending: no new datagram"
	for _, s := range p.Cap.Drain() {
		if s.Classifier() == model.CmdClassifierTypeRead && s.D.Header.MsgCounter != nil {
			wire = fmt.Sprintf("read datagram with msgCounter %d on the writer of peer %d", *s.D.Header.MsgCounter, peer)
			if *s.D.Header.MsgCounter != *c {
				world.Label("request/counter-on-the-wire-differs") // the numbering of requests is C13's subject
			}
		}
	}
	m.ops = append(m.ops, fmt.Sprintf("feature %d requests %s from peer %d: counter %d (%s)", feat, fn, peer, *c, wire))
	world.Label("register/for-counter-of-real-request")
	return uint64(*c)
}

// awaited: a pending callback waits for the answer to a request that was sent to this peer.
func (m *machine) awaited(peer int) bool {
	for _, rs := range m.pending {
		for _, r := range rs {
			if r.reqPeer == peer {
				return true
			}
		}
	}
	return false
}

func (m *machine) connected() int {
	n := 0
	for _, g := range m.gone {
		if !g {
			n++
		}
	}
	return n
}

// livePeer maps a drawn peer index to a peer whose connection exists (one always does).
func (m *machine) livePeer(i int) int {
	for m.gone[i] {
		i = (i + 1) % len(m.peers)
	}
	return i
}

func (m *machine) disconnect(t world.TB, peer int) {
	open := 0
	for _, rs := range m.pending {
		open += len(rs)
	}
	p := m.peers[peer]
	m.w.Local.RemoveRemoteDeviceConnection(p.Ski)
	p.Gone = true
	m.gone[peer] = true
	m.sync(t, nil)
	m.ops = append(m.ops, fmt.Sprintf("peer %d disconnects (%d response callbacks pending, none for a request to it)", peer, open))
	world.Label("peer/disconnect", fmt.Sprintf("peer/disconnect-with-pending-callbacks-%v", open > 0))
	if open > 0 {
		m.nontrivial = true
	}
}

func (m *machine) reconnect(t world.TB, peer int) {
	m.peers[peer] = m.w.Reconnect(m.peers[peer], m.ents)
	m.gone[peer] = false
	m.sync(t, nil)
	m.ops = append(m.ops, fmt.Sprintf("peer %d connects again and announces its features", peer))
	world.Label("peer/reconnect")
}

func (m *machine) registerResult(feat, site int, fu *followUp) {
	r := m.newReg(site, feat, 0, true, false)
	m.feats[feat].AddResultCallback(m.callback(r, fu))
	m.resultCBs[feat] = append(m.resultCBs[feat], r)
	m.ops = append(m.ops, fmt.Sprintf("register result callback site %d on feature %d%v", site, feat, fu))
	world.Label("register/result-callback")
}

// build turns a spec into the datagram and its bookkeeping record.
func (m *machine) build(t world.TB, s spec) (*delivery, model.DatagramType) {
	p := m.peers[s.peer]
	d := &delivery{spec: s, serial: len(m.dels) + 1}
	src := p.FA([]uint{1}, uint(s.src+1))
	d.remote = p.Dev.FeatureByAddress(src)
	if d.remote == nil {
		t.Fatalf("harness: remote feature %v not announced", src)
	}
	dst := world.LA([]uint{1}, 99)
	if s.dst >= 0 {
		dst = m.feats[s.dst].Address()
	}
	var cmd model.CmdType
	var data any
	cl := model.CmdClassifierTypeReply
	if s.isResult() {
		cl = model.CmdClassifierTypeResult
		rd := &model.ResultDataType{ErrorNumber: util.Ptr(model.ErrorNumberType(s.errNo)), Description: util.Ptr(model.DescriptionType(fmt.Sprintf("s%d", d.serial)))}
		if s.bare {
			rd = &model.ResultDataType{ErrorNumber: util.Ptr(model.ErrorNumberType(1000 + d.serial))}
		}
		cmd, data = model.CmdType{ResultData: rd}, rd
	} else {
		cmd, data = payload(s.fn, d.serial, s.id, s.items)
		switch s.filter {
		case "partial":
			cmd.Function = util.Ptr(s.fn)
			cmd.Filter = []model.FilterType{*model.NewFilterTypePartial()}
		}
	}
	d.data = world.JSON(data)
	if m.byData[d.data] != nil {
		t.Fatalf("harness: payload %s is not unique", d.data)
	}
	m.dels = append(m.dels, d)
	m.byData[d.data] = d
	var ref *model.MsgCounterType
	if !s.noRef {
		ref = util.Ptr(model.MsgCounterType(s.ref))
	}
	return d, p.Msg(cl, src, dst, s.ack, ref, cmd)
}

// handle hands the message to the local feature's HandleMessage, built the way ProcessCmd builds it
// from the datagram as it comes off the wire. Whether the feature took it is HandleMessage's return value.
func (m *machine) handle(d *delivery, dg model.DatagramType) {
	var wire model.Datagram
	if err := json.Unmarshal(world.Encode(dg), &wire); err != nil {
		panic(fmt.Sprintf("harness: datagram does not decode: %v", err))
	}
	p := m.peers[d.peer]
	h := wire.Datagram
	cmd := h.Payload.Cmd[0]
	filterPartial, filterDelete := cmd.ExtractFilter()
	msg := &api.Message{
		RequestHeader: &h.Header,
		CmdClassifier: *h.Header.CmdClassifier,
		Cmd:           cmd,
		FilterPartial: filterPartial,
		FilterDelete:  filterDelete,
		FeatureRemote: d.remote,
		EntityRemote:  p.Dev.Entity(h.Header.AddressSource.Entity),
		DeviceRemote:  p.Dev,
	}
	d.accepted = m.feats[d.dst].HandleMessage(msg) == nil
}

// inject sends the datagram and observes whether the stack rejected it (an error result
// referencing it is written synchronously, before the reader returns).
func (m *machine) inject(d *delivery, dg model.DatagramType) {
	p := m.peers[d.peer]
	if d.direct && d.dst >= 0 {
		m.handle(d, dg)
		p.Cap.Drain()
		world.Label("deliver/via-HandleMessage")
	} else {
		p.Send(dg)
		d.accepted = d.dst >= 0
		for _, s := range p.Cap.Drain() {
			if s.Ref() != nil && *s.Ref() == *dg.Header.MsgCounter && s.ErrorNumber() > 0 {
				d.accepted = false
			}
		}
	}
	if d.dst >= 0 && d.accepted != (d.kind != kRejected) {
		world.Label("deliver/acceptance-not-as-constructed")
	}
	if d.bare {
		world.Label("deliver/error-result-without-description")
	}
}

// apply books a delivery against everything that was registered before it.
func (m *machine) apply(d *delivery) {
	if d.noRef {
		// references no request and no counter: nothing may be invoked for it (check: every invocation
		// carries the serial of its message, and this one is in nobody's list)
		via, had := "ship-reader", "without"
		if d.direct && d.dst >= 0 {
			via = "HandleMessage"
		}
		if d.dst >= 0 && d.isResult() && len(m.resultCBs[d.dst]) > 0 {
			had = "with"
			if via == "HandleMessage" {
				m.nontrivial = true
			}
		}
		world.Label("deliver/no-reference", "deliver/no-reference/"+d.shape()+"-via-"+via+"-feature-"+had+"-result-callbacks", "kind/"+d.kind)
		m.ops = append(m.ops, fmt.Sprintf("deliver %v [no-reference]", d.spec))
		return
	}
	k := key{d.dst, d.ref}
	matching := len(m.pending[k]) > 0
	repeated := !matching && m.consumed[k]
	other := false
	for k2, rs := range m.pending {
		if k2.counter == d.ref && k2.feat != d.dst && len(rs) > 0 {
			other = true
		}
	}
	class := "unknown"
	switch {
	case d.dst < 0:
		class = "no-such-feature"
	case matching && other:
		class = "matching+other-feature"
	case matching:
		class = "matching"
	case repeated && other:
		class = "repeated+other-feature"
	case repeated:
		class = "repeated"
	case other:
		class = "other-feature"
	}
	verdict := "accepted"
	if !d.accepted {
		verdict = "rejected"
	}
	world.Label("deliver/"+class, "kind/"+d.kind, "verdict/"+verdict)
	m.ops = append(m.ops, fmt.Sprintf("deliver %v [%s, %s]", d.spec, class, verdict))
	if !d.accepted || d.dst < 0 {
		return
	}
	if repeated || other {
		m.nontrivial = true
	}
	for _, r := range m.pending[k] {
		r.want = append(r.want, d.serial)
		r.consumed = true
		if r.reqPeer >= 0 {
			world.Label(fmt.Sprintf("deliver/answer-to-real-request-from-the-asked-peer-%v", r.reqPeer == d.peer))
			if r.reqPeer != d.peer {
				m.nontrivial = true
			}
		}
	}
	if matching {
		delete(m.pending, k)
		m.consumed[k] = true
	}
	if d.isResult() {
		for _, r := range m.resultCBs[d.dst] {
			r.want = append(r.want, d.serial)
		}
	}
}

func (m *machine) deliver(t world.TB, s spec) {
	d, dg := m.build(t, s)
	m.run(t, []*delivery{d}, func() { m.inject(d, dg) })
	m.sync(t, []*delivery{d})
	if d.kind == kReply && d.dst >= 0 && !d.noRef && !d.accepted && len(m.pending[key{d.dst, d.ref}]) > 0 {
		// the reply carries data of a function of the announced feature that sent it, goes to an existing
		// local feature and a callback is waiting for it there: refusing it leaves that callback waiting for ever
		world.Fail(t, "C14/valid-reply-refused/"+string(m.defs[d.dst].role), "%s was refused with an error result although it is the answer the callbacks %v are waiting for", m.describe(d), m.pending[key{d.dst, d.ref}])
	}
	m.apply(d)
	m.place(t, []*delivery{d}, nil)
}

// patience of the watchdog before it starts to look at the goroutines; a verdict needs two identical
// dumps 3 s apart with goroutines parked in spine-go locks and none inside spine-go able to run, so the
// value only decides how soon a wedge is looked at, never whether a slow machine is blamed.
const patience = 3 * time.Second

// run executes the bodies (deliveries, registrations) in goroutines of their own and waits for them
// under the watchdog: if the stack never comes back from handling an arrival, no callback that waits
// for a later message of that feature can ever be invoked - reported with the lock evidence.
func (m *machine) run(t world.TB, dels []*delivery, bodies ...func()) {
	panics := make([]string, len(bodies))
	var wg sync.WaitGroup
	for i, b := range bodies {
		wg.Add(1)
		go func(i int, b func()) {
			defer wg.Done()
			defer func() {
				if r := recover(); r != nil {
					panics[i] = fmt.Sprintf("%v\n%s", r, debug.Stack())
					m.abort.Store(true) // whoever polls for the progress of this goroutine gives up
				}
			}()
			b()
		}(i, b)
	}
	done := make(chan struct{})
	go func() { wg.Wait(); close(done) }()
	where, detail, inconclusive := world.AwaitOrDiagnose(done, patience, 5*time.Minute, 1)
	if where != "" || inconclusive {
		m.abort.Store(true)
		if where != "" {
			world.Fail(t, "C14/arrival/deadlock/"+where, "handling of %v does not return%s; registrations that callbacks are making from inside their invocation: %v; the stack did %s", m.describeAll(dels), m.concNote(), m.openFollowUps(), detail)
		}
		t.Fatalf("inconclusive: handling of %v was not through after 5 minutes, without evidence of a lock cycle\n%s", m.describeAll(dels), detail)
	}
	for _, p := range panics {
		if p == "" {
			continue
		}
		sig := world.PanicSignature(p)
		if sig == "" {
			panic("harness: a delivery goroutine panicked outside the stack: " + p)
		}
		world.Fail(t, "C14/"+sig, "panic while %v was handled: %s", m.describeAll(dels), p)
	}
}

// sync is the goroutine barrier after the arrivals dels: every callback the stack started has run to
// its end. Callbacks that never end (parked in a lock of the stack for good) are reported with the
// evidence; without such evidence the wait is merely slow.
func (m *machine) sync(t world.TB, dels []*delivery) {
	if m.w.SyncQuiet(10 * time.Second) {
		return
	}
	done := make(chan struct{})
	go func() { // counts itself
		for !world.WaitGoroutines(m.base+1, time.Second) {
			if m.abort.Load() {
				return
			}
		}
		close(done)
	}()
	where, detail, inconclusive := world.AwaitOrDiagnose(done, patience, 5*time.Minute, 1)
	if where != "" || inconclusive {
		m.abort.Store(true)
		if where != "" {
			world.Fail(t, "C14/callback/deadlock/"+where, "after %v%s the goroutines the stack started do not end; registrations that callbacks are making from inside their invocation: %v; the stack did %s", m.describeAll(dels), m.concNote(), m.openFollowUps(), detail)
		}
		t.Fatalf("inconclusive: the goroutines started for %v were not through after 5 minutes, without evidence of a lock cycle\n%s", m.describeAll(dels), detail)
	}
}

func (m *machine) openFollowUps() []string {
	var open []string
	for _, e := range m.log.chainsFrom(0) {
		if !e.finished {
			open = append(open, fmt.Sprintf("%v (called, not returned)", m.regs[e.child]))
		}
	}
	return open
}

func (m *machine) describeAll(dels []*delivery) []string {
	var out []string
	for _, d := range dels {
		out = append(out, m.describe(d))
	}
	return out
}

func (m *machine) concNote() string {
	if m.inConc {
		return " (messages sent while a second goroutine registers callbacks)"
	}
	return ""
}

func (m *machine) describe(d *delivery) string {
	return fmt.Sprintf("message #%d %v accepted=%v data=%s", d.serial, d.spec, d.accepted, d.data)
}

// check compares the complete invocation log with the model.
func (m *machine) check(t world.TB) {
	byReg := map[int][]invocation{}
	for _, c := range m.log.snapshot() {
		byReg[c.reg] = append(byReg[c.reg], c)
		m.invoked = true
	}
	for _, r := range m.regs {
		want := map[int]int{}
		for _, s := range r.want {
			want[s]++
		}
		suffix := r.suffix()
		for _, inv := range byReg[r.id] {
			d := m.byData[inv.data]
			if d == nil {
				world.Fail(t, "C14/data/not-of-any-message"+suffix, "%v was invoked with data %s (reference %d), which no delivered message carried", r, inv.data, inv.ref)
			}
			if want[d.serial] > 0 {
				want[d.serial]--
				if r.result {
					continue // the statement fixes only how often a result callback runs
				}
				if uint64(inv.ref) != d.ref {
					world.Fail(t, "C14/reference-field/"+d.shape()+suffix, "%v was invoked for %s but with MsgCounterReference %d", r, m.describe(d), inv.ref)
				}
				if inv.remote != d.remote {
					world.Fail(t, "C14/remote-feature/"+d.shape()+suffix, "%v was invoked for %s but FeatureRemote is %v, not the sending feature %v", r, m.describe(d), addrOf(inv.remote), addrOf(d.remote))
				}
				continue
			}
			// an invocation the statement does not allow
			switch {
			case r.refused:
				world.Fail(t, "C14/refused-registration/invoked", "%v was refused at registration but invoked for %s", r, m.describe(d))
			case r.unreg:
				world.Fail(t, "C14/never-registered/invoked", "%v was invoked for %s although the callback that registers it has not run", r, m.describe(d))
			case d.noRef && r.result && d.isResult() && d.dst == r.feat:
				world.Fail(t, "C14/result-callback/invoked-for-result-without-reference", "%v was invoked for %s, which references no request", r, m.describe(d))
			case d.noRef:
				world.Fail(t, "C14/missing-reference/"+d.shape()+suffix, "%v was invoked for %s, which carries no reference at all", r, m.describe(d))
			case d.dst != r.feat && r.result:
				world.Fail(t, "C14/result-callback/other-feature", "%v was invoked for %s, which went to another feature", r, m.describe(d))
			case d.dst != r.feat:
				world.Fail(t, "C14/other-feature/"+d.shape()+suffix, "%v was invoked for %s, which went to another feature", r, m.describe(d))
			case r.result && !d.isResult():
				world.Fail(t, "C14/result-callback/invoked-for-reply", "%v was invoked for %s, which is not a result", r, m.describe(d))
			case r.result:
				world.Fail(t, "C14/result-callback/invoked-twice"+suffix, "%v was invoked more than once for %s", r, m.describe(d))
			case d.ref != r.counter:
				world.Fail(t, "C14/other-reference/"+d.shape()+suffix, "%v was invoked for %s, which references another counter", r, m.describe(d))
			case !d.accepted:
				world.Fail(t, "C14/rejected-reply/invoked", "%v was invoked for %s, which the stack rejected", r, m.describe(d))
			default:
				world.Fail(t, "C14/exactly-once/repeated-"+d.shape()+suffix, "%v was invoked again for %s (expected invocations: messages %v)", r, m.describe(d), r.want)
			}
		}
		for _, s := range sortedKeys(want) {
			if want[s] == 0 {
				continue
			}
			d := m.dels[s-1]
			if r.result {
				world.Fail(t, "C14/result-callback/not-invoked"+suffix, "%v was not invoked for %s", r, m.describe(d))
			}
			world.Fail(t, "C14/not-invoked/"+d.shape()+suffix, "%v was not invoked for %s", r, m.describe(d))
		}
	}
}

func sortedKeys(m map[int]int) []int {
	var out []int
	for k := range m {
		out = append(out, k)
	}
	sort.Ints(out)
	return out
}

func addrOf(f api.FeatureRemoteInterface) string {
	if f == nil || reflect.ValueOf(f).IsNil() {
		return "nil"
	}
	return world.JSON(f.Address())
}

// ---------------------------------------------------------------------------------------------
// registrations concurrent with deliveries

type concReg struct {
	r    *reg
	trig int // the registration starts when delivery trig is about to be sent (len = after the last)
	spin int // ... and after this many further polls (spreads it over the processing of that message)
	fn   func(api.ResponseMessage)
	err  error
}

// concurrent lets a second goroutine perform regs (in order) while a first one sends specs
// (in order); afterwards every outcome a linearisation allows is accepted, anything else fails.
// The keys of the response registrations are not pending with the same site when the step starts
// and pairwise distinct, so none of them may be refused as a duplicate.
func (m *machine) concurrent(t world.TB, specs []spec, cregs []*concReg) {
	n := len(specs)
	dels := make([]*delivery, n)
	dgs := make([]model.DatagramType, n)
	for j, s := range specs {
		dels[j], dgs[j] = m.build(t, s)
	}
	var progress atomic.Int32 // number of the delivery that is being sent; the second goroutine polls it
	progress.Store(-1)
	for _, c := range cregs {
		c.fn = sites[c.r.site](m.log, c.r.id, nil)
		what := fmt.Sprintf("response callback site %d feature %d counter %d", c.r.site, c.r.feat, c.r.counter)
		if c.r.result {
			what = fmt.Sprintf("result callback site %d feature %d", c.r.site, c.r.feat)
		}
		m.ops = append(m.ops, fmt.Sprintf("concurrently (from delivery %d of %d on) register %s", c.trig, n, what))
	}
	var ready atomic.Bool
	registrar := func() {
		ready.Store(true)
		for _, c := range cregs {
			for i := 0; int(progress.Load()) < c.trig; i++ {
				if i%1024 == 1023 {
					runtime.Gosched()
					if m.abort.Load() {
						return
					}
				}
			}
			for i := 0; i < c.spin; i++ {
				progress.Load()
			}
			if c.r.result {
				m.feats[c.r.feat].AddResultCallback(c.fn)
			} else {
				c.err = m.feats[c.r.feat].AddResponseCallback(model.MsgCounterType(c.r.counter), c.fn)
			}
		}
	}
	sender := func() {
		for !ready.Load() { // the second goroutine is on a processor and polling
			runtime.Gosched()
		}
		for j := range specs {
			progress.Store(int32(j))
			m.inject(dels[j], dgs[j])
		}
		progress.Store(int32(n))
	}
	m.inConc = true
	m.run(t, dels, registrar, sender)
	m.sync(t, dels)
	m.inConc = false

	// registrations made before the step follow the sequential model
	for _, d := range dels {
		m.apply(d)
	}
	m.place(t, dels, cregs)
}

// place books the registrations that were made while the messages dels arrived: the ones of the
// second goroutine (cregs, made one after the other) and the follow-ups registered from inside
// callbacks that ran during the step (each by a goroutine of its own, at any time after the arrival
// that invoked its callback). For each it finds the point of the delivery sequence at which it took
// effect; every outcome a linearisation allows is accepted.
func (m *machine) place(t world.TB, dels []*delivery, cregs []*concReg) {
	n := len(dels)
	all := append([]*concReg(nil), cregs...)
	unordered := map[*concReg]bool{}
	for _, e := range m.log.chainsFrom(m.chainsAt) {
		m.chainsAt++
		r := m.regs[e.child]
		if !e.finished {
			// the goroutine barrier has been passed, so whoever ran the callback is through
			t.Fatalf("harness: the registration of %v from inside its callback has not returned although no goroutine of the stack is alive", r)
		}
		r.unreg = false
		if !r.result {
			delete(m.planned, keySite{key{r.feat, r.counter}, r.site})
		}
		c := &concReg{r: r, trig: -1, err: e.err}
		all = append(all, c)
		unordered[c] = true
		same := "same"
		if m.regs[r.parent].feat != r.feat {
			same = "other"
		}
		kind := "response"
		if r.result {
			kind = "result"
		}
		world.Label("follow-up/registered", fmt.Sprintf("follow-up/%s-callback-on-%s-feature-from-%s", kind, same, map[bool]string{true: "result-callback", false: "response-callback"}[m.regs[r.parent].result]))
		m.ops = append(m.ops, fmt.Sprintf("callback #%d ran and registered %v (error: %v)", r.parent, r, e.err))
		m.nontrivial = true
	}
	if len(all) == 0 {
		return
	}

	index := map[int]int{} // serial -> position in this step
	for j, d := range dels {
		index[d.serial] = j
	}
	got := map[int][]int{} // registration -> positions of the step's deliveries that invoked it
	foreign := map[int]bool{}
	for _, inv := range m.log.snapshot() {
		if d := m.byData[inv.data]; d != nil {
			if j, ok := index[d.serial]; ok {
				got[inv.reg] = append(got[inv.reg], j)
				continue
			}
		}
		foreign[inv.reg] = true
	}
	// A message j looks the response callbacks up at point 2j and (results only) the result
	// callbacks at point 2j+1. A registration "takes effect at slot e" if it lies between the
	// look-ups e-1 and e. The registrations of the second goroutine happen one after the other, so
	// their slots must not decrease; what was (not) invoked bounds each slot from both sides.
	cur, curBy := 0, (*reg)(nil)
	for _, c := range all {
		r := c.r
		lab, suffix := "concurrent", r.suffix()
		if unordered[c] {
			lab = "follow-up"
		}
		if foreign[r.id] {
			continue // invoked with something that is no message of this step: check reports it
		}
		var cand []int // deliveries of the step that have to invoke r if it is registered in time
		for j, d := range dels {
			if d.dst != r.feat || !d.accepted || d.noRef {
				continue
			}
			if (r.result && d.isResult()) || (!r.result && d.ref == r.counter) {
				cand = append(cand, j)
			}
		}
		g := got[r.id]
		sort.Ints(g)
		if contains(cand, c.trig) {
			// the registration was started while a message that matches it was being sent: which way the race went
			world.Label(fmt.Sprintf("race/polls-%d/served-%v", c.spin, contains(g, c.trig)))
		}
		lo, hi := 0, 2*n
		if r.result {
			m.resultCBs[r.feat] = append(m.resultCBs[r.feat], r)
			var served []int
			for _, j := range g {
				if contains(cand, j) && !contains(served, j) {
					served = append(served, j)
					r.want = append(r.want, dels[j].serial)
				}
			}
			if len(served) != len(g) {
				continue // invoked twice or for a message that is not for it: check classifies it
			}
			// once registered it sees every later result: the served ones are a suffix of the candidates
			s := len(cand) - len(served)
			for i, j := range served {
				if cand[s+i] != j {
					world.Fail(t, "C14/result-callback/not-invoked"+suffix, "%v, registered while messages arrived, was invoked for %s but not for the later %s", r, m.describe(dels[served[0]]), m.describe(dels[cand[len(cand)-1]]))
				}
			}
			if s > 0 {
				lo = 2*cand[s-1] + 2
			}
			if s < len(cand) {
				hi = 2*cand[s] + 1
			}
			world.Label(fmt.Sprintf("%s/result-callback-served-%d-of-%d", lab, len(served), len(cand)))
		} else {
			k := key{r.feat, r.counter}
			if c.err != nil {
				if !m.siteEver[keySite{k, r.site}] {
					world.Fail(t, "C14/registration-refused/fresh"+suffix, "%v was refused (%v) although this callback is not registered for that counter", r, c.err)
				}
				r.refused = true
				world.Label(lab + "/refused")
				continue
			}
			if unordered[c] && len(cand) == 0 && m.pendingSite(k, r.site) {
				// (follow-ups only; the second goroutine never registers a pending callback again.) Nothing of this
				// step touched the key, so the same callback was registered for it all the time
				world.Fail(t, "C14/duplicate-registration/accepted"+suffix, "the callback of site %d is already registered on feature %d for counter %d and not yet delivered; registering it again (%v) returned no error", r.site, r.feat, r.counter, r)
			}
			m.siteEver[keySite{k, r.site}] = true
			m.counters[r.counter] = true
			switch {
			case len(g) == 0:
				// took effect after the last candidate: still registered
				m.pending[k] = append(m.pending[k], r)
				if len(cand) > 0 {
					lo = 2*cand[len(cand)-1] + 1
					world.Label(lab + "/registered-after-arrival")
				} else {
					world.Label(lab + "/no-matching-arrival")
				}
			case len(g) == 1 && contains(cand, g[0]):
				r.want = append(r.want, dels[g[0]].serial)
				r.consumed = true
				m.consumed[k] = true
				hi = 2 * g[0]
				for _, j := range cand {
					if j < g[0] {
						lo = 2*j + 1
					}
				}
				world.Label(lab + "/registered-before-arrival")
				if len(cand) > 1 {
					m.nontrivial = true // a repeated matching delivery raced with the registration
				}
			default:
				if contains(cand, g[0]) {
					r.want = append(r.want, dels[g[0]].serial)
				}
				continue // several invocations or a non-candidate: check classifies the rest
			}
		}
		if unordered[c] {
			continue // made by a goroutine of its own: no order with the other registrations
		}
		if lo > cur {
			cur, curBy = lo, r
		}
		if cur > hi {
			world.Fail(t, "C14/not-invoked/registered-before-arrival-concurrent", "%v was invoked for %s, so it and every earlier registration of its goroutine were in place when that message was looked up; but the earlier %v was not invoked for the same or a later matching message, %s",
				r, m.describe(dels[hi/2]), curBy, m.describe(dels[(cur-1)/2]))
		}
	}
}

func contains(s []int, v int) bool {
	for _, x := range s {
		if x == v {
			return true
		}
	}
	return false
}

// ---------------------------------------------------------------------------------------------
// generators

func drawDefs(t *rapid.T) []featDef {
	n := rapid.IntRange(2, 3).Draw(t, "features")
	var defs []featDef
	used := map[featDef]bool{}
	for i := 0; i < n; i++ {
		d := featDef{ft: palette[rapid.IntRange(0, len(palette)-1).Draw(t, fmt.Sprintf("type%d", i))]}
		switch i {
		case 0:
			d.role = model.RoleTypeClient
		case 1:
			d.role = model.RoleTypeServer
		default:
			d.role = rapid.SampledFrom([]model.RoleType{model.RoleTypeClient, model.RoleTypeServer}).Draw(t, "role")
		}
		for used[d] {
			d.ft = palette[(indexOf(d.ft)+1)%len(palette)]
		}
		used[d] = true
		defs = append(defs, d)
	}
	return defs
}

func indexOf(ft model.FeatureTypeType) int {
	for i, p := range palette {
		if p == ft {
			return i
		}
	}
	return 0
}

func (m *machine) seenCounters() []uint64 {
	var out []uint64
	for c := range m.counters {
		out = append(out, c)
	}
	sort.Slice(out, func(i, j int) bool { return out[i] < out[j] })
	return out
}

func (m *machine) drawCounter(t *rapid.T, label string, max int) uint64 {
	if seen := m.seenCounters(); len(seen) > 0 && rapid.IntRange(0, 2).Draw(t, label+".known") > 0 {
		return rapid.SampledFrom(seen).Draw(t, label)
	}
	return uint64(rapid.IntRange(1, max).Draw(t, label))
}

func (m *machine) drawSpec(t *rapid.T, label string) spec {
	s := spec{
		peer: m.livePeer(rapid.IntRange(0, len(m.peers)-1).Draw(t, label+".peer")),
		src:  rapid.IntRange(0, m.nRemote-1).Draw(t, label+".src"),
		dst:  rapid.IntRange(0, len(m.feats)-1).Draw(t, label+".dst"),
		kind: rapid.SampledFrom([]string{kReply, kReply, kReply, kRejected, kResult0, kResultE}).Draw(t, label+".kind"),
		ref:  m.drawCounter(t, label+".ref", 6), // 5 and 6 are rarely registered (only by a concurrent registration aiming at them)
	}
	if rapid.IntRange(0, 19).Draw(t, label+".nofeature") == 7 {
		s.dst = -1
	}
	srcType := m.defs[s.src].ft
	switch s.kind {
	case kReply:
		s.fn = rapid.SampledFrom(functionsOf[srcType]).Draw(t, label+".fn")
	case kRejected:
		// a function that is not registered for the sending feature's type
		other := palette[(indexOf(srcType)+1+rapid.IntRange(0, len(palette)-2).Draw(t, label+".foreign"))%len(palette)]
		s.fn = rapid.SampledFrom(functionsOf[other]).Draw(t, label+".fn")
	case kResultE:
		s.errNo = uint(rapid.IntRange(1, 9).Draw(t, label+".errorNumber"))
		s.bare = rapid.IntRange(0, 2).Draw(t, label+".noDescription") == 0
	}
	if !s.isResult() {
		s.ack = rapid.Bool().Draw(t, label+".ack")
		s.id = uint(rapid.IntRange(0, 3).Draw(t, label+".id"))
		s.items = rapid.IntRange(1, 2).Draw(t, label+".items")
		if rapid.IntRange(0, 2).Draw(t, label+".partial") == 0 {
			s.filter = "partial"
		}
	}
	// how it reaches the feature and whether it references anything: through the SHIP reader a message without
	// reference is dropped before the feature (see the package comment), so most of those are handed over directly
	switch v := rapid.IntRange(0, 15).Draw(t, label+".reference"); {
	case v < 2:
		s.noRef, s.direct = true, true
	case v == 2:
		s.noRef = true
	case v < 5:
		s.direct = true
	}
	return s
}

// drawFollowUp decides whether the callback that is about to be registered (on feature feat, for
// counter; 0 = a result callback) registers a further callback from inside its invocation, and which.
func (m *machine) drawFollowUp(t *rapid.T, feat int, counter uint64) *followUp {
	if rapid.IntRange(0, 3).Draw(t, "followUp") != 0 {
		return nil
	}
	fu := &followUp{feat: feat, site: rapid.IntRange(0, len(sites)-1).Draw(t, "followUp.site")}
	if rapid.IntRange(0, 3).Draw(t, "followUp.elsewhere") == 0 {
		fu.feat = rapid.IntRange(0, len(m.feats)-1).Draw(t, "followUp.feature")
	}
	if rapid.IntRange(0, 2).Draw(t, "followUp.result") == 0 {
		fu.result = true
		have := 0
		for _, r := range m.regs {
			if r.result && r.feat == fu.feat {
				have++
			}
		}
		if have >= 4 {
			return nil // enough result callbacks on that feature
		}
		return fu
	}
	switch v := rapid.IntRange(0, 2).Draw(t, "followUp.counter"); {
	case v == 0: // the next request
		fu.counter = counter + 1
	case v == 1 && counter > 0: // the same request again
		fu.counter = counter
	default:
		fu.counter = m.drawCounter(t, "followUp.other", 6)
	}
	if m.planned[keySite{key{fu.feat, fu.counter}, fu.site}] {
		return nil // two follow-ups that may be registered at the same time must not be each other's duplicate
	}
	return fu
}

func (m *machine) anyPending(t *rapid.T, label string) *reg {
	var all []*reg
	for _, r := range m.regs {
		if !r.result && !r.refused && !r.unreg && !r.consumed && m.pendingSite(key{r.feat, r.counter}, r.site) {
			all = append(all, r)
		}
	}
	if len(all) == 0 {
		return nil
	}
	return all[rapid.IntRange(0, len(all)-1).Draw(t, label)]
}

func (m *machine) actionRegister(t *rapid.T) {
	feat := rapid.IntRange(0, len(m.feats)-1).Draw(t, "feature")
	counter := uint64(rapid.IntRange(1, 4).Draw(t, "counter"))
	site := rapid.IntRange(0, len(sites)-1).Draw(t, "site")
	switch rapid.IntRange(0, 3).Draw(t, "mode") {
	case 0: // the same callback for the same counter again
		if r := m.anyPending(t, "duplicateOf"); r != nil {
			feat, counter, site = r.feat, r.counter, r.site
		}
	case 1: // another callback for a counter that already has one
		if r := m.anyPending(t, "sameCounterAs"); r != nil {
			feat, counter = r.feat, r.counter
		}
	case 2: // the same counter on another feature
		if r := m.anyPending(t, "sameCounterElsewhere"); r != nil {
			counter = r.counter
		}
	}
	m.register(t, feat, counter, site, m.drawFollowUp(t, feat, counter))
}

// actionRequest: a client feature asks one of the connected peers and waits for the answer.
func (m *machine) actionRequest(t *rapid.T) {
	var clients []int
	for i, d := range m.defs {
		if d.role == model.RoleTypeClient {
			clients = append(clients, i)
		}
	}
	feat := clients[rapid.IntRange(0, len(clients)-1).Draw(t, "feature")]
	peer := m.livePeer(rapid.IntRange(0, len(m.peers)-1).Draw(t, "peer"))
	fn := rapid.SampledFrom(functionsOf[m.defs[feat].ft]).Draw(t, "fn")
	site := rapid.IntRange(0, len(sites)-1).Draw(t, "site")
	counter := m.request(t, feat, peer, fn)
	m.register(t, feat, counter, site, m.drawFollowUp(t, feat, counter)).reqPeer = peer
}

// actionDisconnect removes the connection of a peer nobody waits for; the other one stays.
func (m *machine) actionDisconnect(t *rapid.T) {
	if m.connected() < 2 {
		t.Skip("one peer has to stay")
	}
	peer := rapid.IntRange(0, len(m.peers)-1).Draw(t, "peer")
	if m.awaited(peer) {
		t.Skip("a pending callback waits for the answer of this peer")
	}
	m.disconnect(t, peer)
}

func (m *machine) actionReconnect(t *rapid.T) {
	for i, g := range m.gone {
		if g {
			m.reconnect(t, i)
			return
		}
	}
	t.Skip("every peer is connected")
}

func (m *machine) actionRegisterResult(t *rapid.T) {
	feat := rapid.IntRange(0, len(m.feats)-1).Draw(t, "feature")
	if len(m.resultCBs[feat]) >= 3 {
		t.Skip("enough result callbacks on this feature")
	}
	m.registerResult(feat, rapid.IntRange(0, len(sites)-1).Draw(t, "site"), m.drawFollowUp(t, feat, 0))
}

func (m *machine) actionDeliver(t *rapid.T) {
	m.deliver(t, m.drawSpec(t, "msg"))
}

// actionRepeat delivers an accepted message for a key that was already served.
func (m *machine) actionRepeat(t *rapid.T) {
	var keys []key
	for k := range m.consumed {
		keys = append(keys, k)
	}
	if len(keys) == 0 {
		t.Skip("nothing delivered yet")
	}
	sort.Slice(keys, func(i, j int) bool {
		return keys[i].feat < keys[j].feat || (keys[i].feat == keys[j].feat && keys[i].counter < keys[j].counter)
	})
	k := keys[rapid.IntRange(0, len(keys)-1).Draw(t, "key")]
	s := m.drawSpec(t, "msg")
	s.dst, s.ref, s.noRef = k.feat, k.counter, false
	m.deliver(t, s)
}

// polls between "the message is about to be sent" and the registration (no clock involved)
var spins = []int{0, 300, 1000, 3000, 10000, 30000, 100000}

func (m *machine) actionConcurrent(t *rapid.T) {
	nd := rapid.IntRange(1, 3).Draw(t, "deliveries")
	specs := make([]spec, nd)
	for j := range specs {
		specs[j] = m.drawSpec(t, fmt.Sprintf("msg%d", j))
		if j > 0 && rapid.IntRange(0, 2).Draw(t, fmt.Sprintf("msg%d.sameKey", j)) == 0 {
			specs[j].dst, specs[j].ref = specs[0].dst, specs[0].ref
		}
	}
	nr := rapid.IntRange(1, 3).Draw(t, "registrations")
	var cregs []*concReg
	seen := map[keySite]bool{}
	trig := 0
	for i := 0; i < nr; i++ {
		label := fmt.Sprintf("reg%d", i)
		if trig += rapid.SampledFrom([]int{0, 0, 0, 1, 1, 2}).Draw(t, label+".from"); trig > nd {
			trig = nd
		}
		spin := rapid.SampledFrom(spins).Draw(t, label+".spin")
		feat := rapid.IntRange(0, len(m.feats)-1).Draw(t, label+".feature")
		site := rapid.IntRange(0, len(sites)-1).Draw(t, label+".site")
		if rapid.IntRange(0, 3).Draw(t, label+".result") == 0 {
			if len(m.resultCBs[feat]) < 3 {
				cregs = append(cregs, &concReg{r: m.newReg(site, feat, 0, true, true), trig: trig, spin: spin})
				world.Label("register/result-callback-concurrent")
			}
			continue
		}
		counter := uint64(rapid.IntRange(1, 4).Draw(t, label+".counter"))
		// aim at a message of this step, mostly one that is sent while or after this registration starts
		switch aim := rapid.IntRange(0, 5).Draw(t, label+".aim"); {
		case aim < 3 && trig < nd:
			if x := rapid.IntRange(trig, nd-1).Draw(t, label+".at"); specs[x].dst >= 0 {
				feat, counter = specs[x].dst, specs[x].ref
			}
		case aim < 5:
			if x := rapid.IntRange(0, nd-1).Draw(t, label+".at"); specs[x].dst >= 0 {
				feat, counter = specs[x].dst, specs[x].ref
			}
		}
		ks := keySite{key{feat, counter}, site}
		if seen[ks] || m.pendingSite(ks.key, site) || m.planned[ks] {
			continue // would be a duplicate whose verdict depends on the interleaving
		}
		seen[ks] = true
		cregs = append(cregs, &concReg{r: m.newReg(site, feat, counter, false, true), trig: trig, spin: spin})
		world.Label("register/response-callback-concurrent")
	}
	m.concurrent(t, specs, cregs)
}

// flush serves every registration that is still open, so that "registered => invoked once a
// matching message arrives" is judged for all of them - also for the follow-ups that the callbacks
// served here register (those have no follow-ups of their own, so a second pass ends it).
func (m *machine) flush(t *rapid.T) {
	for pass := 0; pass < 3; pass++ {
		var keys []key
		for k, rs := range m.pending {
			if len(rs) > 0 {
				keys = append(keys, k)
			}
		}
		if len(keys) == 0 {
			return
		}
		sort.Slice(keys, func(i, j int) bool {
			return keys[i].feat < keys[j].feat || (keys[i].feat == keys[j].feat && keys[i].counter < keys[j].counter)
		})
		for i, k := range keys {
			if len(m.pending[k]) == 0 {
				continue
			}
			s := m.drawSpec(t, fmt.Sprintf("flush%d.%d", pass, i))
			s.dst, s.ref, s.noRef = k.feat, k.counter, false
			if s.kind == kRejected {
				s.kind = kReply
				s.fn = functionsOf[m.defs[s.src].ft][0]
			}
			m.deliver(t, s)
			world.Label("deliver/flush")
		}
	}
}

// ---------------------------------------------------------------------------------------------

func TestCallbacks(t *testing.T) {
	rapid.Check(t, world.Prop(func(t *rapid.T) {
		m := newMachine(drawDefs(t))
		defer m.w.Teardown()
		defer func() {
			labels := []string{"case/invocations-none"}
			if m.invoked {
				labels[0] = "case/invocations-some"
			}
			world.Record(world.Hash(strings.Join(m.ops, "\n")), m.nontrivial, labels...)
			if m.nontrivial && world.WantSample() {
				world.Sample(map[string]any{"history": m.ops, "registrations": len(m.regs), "messages": len(m.dels), "invocations": len(m.log.snapshot())})
			}
		}()
		t.Repeat(map[string]func(*rapid.T){
			"":                 func(t *rapid.T) { m.check(t) },
			"register":         m.actionRegister,
			"register2":        m.actionRegister,
			"registerResult":   m.actionRegisterResult,
			"request":          m.actionRequest,
			"disconnect":       m.actionDisconnect,
			"reconnect":        m.actionReconnect,
			"deliver":          m.actionDeliver,
			"deliver2":         m.actionDeliver,
			"deliverRepeated":  m.actionRepeat,
			"concurrentWindow": m.actionConcurrent,
		})
		m.flush(t)
		m.check(t)
	}))
}

// TestScenario replays the basic shapes deterministically (no rapid): a matching reply and a
// matching result are served once, the repeat and the other feature are not, a duplicate is
// refused, result callbacks see results only and only those that reference a request, a callback
// registered from inside a callback is served by the next reply. It is also the harness's vacuity
// guard: if the injected messages did not reach the callbacks at all, this test fails.
func TestScenario(t *testing.T) {
	m := newMachine([]featDef{{model.FeatureTypeTypeMeasurement, model.RoleTypeClient}, {model.FeatureTypeTypeLoadControl, model.RoleTypeServer}})
	defer m.w.Teardown()
	world.Guard(func() {
		reply := spec{peer: 1, src: 0, dst: 0, kind: kReply, fn: model.FunctionTypeMeasurementListData, ref: 1, items: 2, ack: true}
		m.register(t, 0, 1, 0, nil)
		m.register(t, 0, 1, 1, nil)
		m.register(t, 0, 1, 0, nil) // duplicate
		m.register(t, 1, 1, 0, nil) // same counter, other feature
		m.registerResult(0, 2, nil)
		m.registerResult(1, 2, nil)
		m.check(t)
		rejected := reply
		rejected.kind, rejected.fn = kRejected, model.FunctionTypeLoadControlLimitListData
		m.deliver(t, rejected)
		m.check(t)
		m.deliver(t, reply)
		m.check(t)
		m.deliver(t, reply) // repeated
		m.check(t)
		m.deliver(t, spec{peer: 0, src: 1, dst: 1, kind: kResultE, errNo: 7, ref: 1})
		m.check(t)
		m.deliver(t, spec{peer: 0, src: 1, dst: 1, kind: kResult0, ref: 1}) // repeated
		m.check(t)
		if n := len(m.log.snapshot()); n != 5 {
			t.Fatalf("harness: expected 5 invocations in the fixed scenario (2 response + 1 response + 2 result callbacks), saw %d", n)
		}
		// results that reference nothing, through both entrances: nobody is invoked
		m.deliver(t, spec{peer: 0, src: 1, dst: 1, kind: kResultE, errNo: 3, noRef: true, direct: true})
		m.deliver(t, spec{peer: 1, src: 1, dst: 1, kind: kResult0, noRef: true, direct: true})
		m.deliver(t, spec{peer: 1, src: 1, dst: 1, kind: kResult0, noRef: true})
		m.check(t)
		if n := len(m.log.snapshot()); n != 5 {
			t.Fatalf("harness: expected no invocation for results without reference, saw %d more", n-5)
		}
		// the same shapes handed to HandleMessage directly, with a reference: served like the ones off the wire
		m.register(t, 0, 2, 0, &followUp{feat: 0, counter: 3, site: 1}) // the callback of request 2 registers the one of request 3
		direct := reply
		direct.ref, direct.direct = 2, true
		m.deliver(t, direct)
		m.check(t)
		if r := m.regs[len(m.regs)-1]; r.unreg || len(m.pending[key{0, 3}]) != 1 {
			t.Fatalf("harness: the follow-up %v was not registered by its callback", r)
		}
		direct.ref, direct.direct = 3, false
		m.deliver(t, direct)
		m.check(t)
		// a result callback that registers a response callback for the retry
		m.registerResult(1, 3, &followUp{feat: 1, counter: 4, site: 3})
		m.deliver(t, spec{peer: 0, src: 1, dst: 1, kind: kResultE, errNo: 7, ref: 9, direct: true}) // result callbacks #5 and the new one
		m.check(t)
		m.deliver(t, spec{peer: 1, src: 1, dst: 1, kind: kResult0, ref: 4}) // the retry's callback and both result callbacks
		m.check(t)
		if n := len(m.log.snapshot()); n != 12 {
			t.Fatalf("harness: expected 12 invocations in the fixed scenario, saw %d", n)
		}
		// the same request to both peers (the connections number their messages alike); each is answered by the other peer
		fn := model.FunctionTypeMeasurementListData
		c0 := m.request(t, 0, 0, fn)
		m.register(t, 0, c0, 0, nil).reqPeer = 0
		c1 := m.request(t, 0, 1, fn)
		m.register(t, 0, c1, 1, nil).reqPeer = 1
		if c0 != c1 {
			t.Logf("note: the requests to the two peers got different counters (%d, %d)", c0, c1)
		}
		answer := reply
		answer.peer, answer.ref = 1, c0
		m.deliver(t, answer)
		m.check(t)
		if c0 != c1 {
			answer.peer, answer.ref = 0, c1
			m.deliver(t, answer)
			m.check(t)
		}
		if n := len(m.log.snapshot()); n != 14 {
			t.Fatalf("harness: expected 14 invocations after the answers to the real requests, saw %d", n)
		}
		// a peer nobody waits for leaves and comes back: what is registered stays registered
		m.register(t, 0, 40, 2, nil)
		m.register(t, 1, 41, 2, nil)
		m.disconnect(t, 1)
		answer.peer, answer.ref = 0, 40
		m.deliver(t, answer)
		m.check(t)
		m.reconnect(t, 1)
		m.deliver(t, spec{peer: 1, src: 1, dst: 1, kind: kResultE, errNo: 2, ref: 41}) // + both result callbacks of feature 1
		m.check(t)
		if n := len(m.log.snapshot()); n != 18 {
			t.Fatalf("harness: expected 18 invocations in the fixed scenario, saw %d", n)
		}
	})
}
