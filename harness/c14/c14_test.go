// Package c14: response and result callbacks fire exactly once for the right message.
//
// A rapid state machine registers response callbacks (per message counter) and result callbacks
// on 2-3 ordinary local features and lets two peers deliver replies and results with matching,
// other feature's, unknown and repeated references, accepted and rejected replies, partly while
// a second goroutine registers further callbacks. A model (map (feature, counter) -> registered
// callbacks, consumed on the first accepted delivery) predicts the invocation log.
//
// Every delivered message carries a unique serial inside its payload, so an invocation is
// attributed to exactly one delivery by the data it was handed.
//
// All replies and results carry a msgCounterReference: without one DatagramType.PrintMessageOverview
// dereferences nil inside ProcessCmd (a separate known defect outside this property), so the
// "missing reference" shape of DESIGN §4 is not generated.
package c14

import (
	"fmt"
	"reflect"
	"runtime"
	"sort"
	"strings"
	"sync"
	"sync/atomic"
	"testing"
	"time"

	"github.com/enbility/spine-go/api"
	"github.com/enbility/spine-go/model"
	"github.com/enbility/spine-go/util"
	"pgregory.net/rapid"

	"verifharness/world"
)

func TestMain(m *testing.M) { world.Main(m) }

// ---------------------------------------------------------------------------------------------
// callbacks: the stack identifies "the same callback" by code pointer, so every "different
// callback" is its own function literal; two closures made at one site are "the same callback".

type invocation struct {
	reg    int // registration the closure belongs to
	site   int
	ref    model.MsgCounterType
	data   string // canonical JSON of ResponseMessage.Data, taken inside the callback
	remote api.FeatureRemoteInterface
}

type callLog struct {
	mu    sync.Mutex
	calls []invocation
}

func (l *callLog) add(reg, site int, m api.ResponseMessage) {
	inv := invocation{reg: reg, site: site, ref: m.MsgCounterReference, data: world.JSON(m.Data), remote: m.FeatureRemote}
	l.mu.Lock()
	l.calls = append(l.calls, inv)
	l.mu.Unlock()
}

func (l *callLog) snapshot() []invocation {
	l.mu.Lock()
	defer l.mu.Unlock()
	return append([]invocation(nil), l.calls...)
}

var sites = []func(l *callLog, reg int) func(api.ResponseMessage){
	func(l *callLog, reg int) func(api.ResponseMessage) {
		return func(m api.ResponseMessage) { l.add(reg, 0, m) }
	},
	func(l *callLog, reg int) func(api.ResponseMessage) {
		return func(m api.ResponseMessage) { l.add(reg, 1, m) }
	},
	func(l *callLog, reg int) func(api.ResponseMessage) {
		return func(m api.ResponseMessage) { l.add(reg, 2, m) }
	},
	func(l *callLog, reg int) func(api.ResponseMessage) {
		return func(m api.ResponseMessage) { l.add(reg, 3, m) }
	},
}

// TestSites is a harness self-check: the literal sites have pairwise distinct code pointers and
// two closures of one site share theirs (the premise of the duplicate-registration model).
func TestSites(t *testing.T) {
	l := &callLog{}
	for i := range sites {
		a, b := sites[i](l, 1), sites[i](l, 2)
		if reflect.ValueOf(a).Pointer() != reflect.ValueOf(b).Pointer() {
			t.Fatalf("harness: two closures of site %d have different code pointers", i)
		}
		for j := i + 1; j < len(sites); j++ {
			if reflect.ValueOf(a).Pointer() == reflect.ValueOf(sites[j](l, 3)).Pointer() {
				t.Fatalf("harness: sites %d and %d share a code pointer", i, j)
			}
		}
	}
}

// ---------------------------------------------------------------------------------------------
// payloads

var palette = []model.FeatureTypeType{
	model.FeatureTypeTypeMeasurement,
	model.FeatureTypeTypeLoadControl,
	model.FeatureTypeTypeElectricalConnection,
}

var functionsOf = map[model.FeatureTypeType][]model.FunctionType{
	model.FeatureTypeTypeMeasurement:          {model.FunctionTypeMeasurementListData, model.FunctionTypeMeasurementDescriptionListData},
	model.FeatureTypeTypeLoadControl:          {model.FunctionTypeLoadControlLimitListData, model.FunctionTypeLoadControlLimitDescriptionListData},
	model.FeatureTypeTypeElectricalConnection: {model.FunctionTypeElectricalConnectionDescriptionListData, model.FunctionTypeElectricalConnectionParameterDescriptionListData},
}

func number(n int) *model.ScaledNumberType {
	return &model.ScaledNumberType{Number: util.Ptr(model.NumberType(n)), Scale: util.Ptr(model.ScaleType(0))}
}

// payload builds a list payload of 1-2 items (identifiers id, id+1) whose first item carries the
// serial, and the command holding it.
func payload(fn model.FunctionType, serial int, id uint, items int) (model.CmdType, any) {
	desc := func(i int) *model.DescriptionType {
		if i == 0 {
			return util.Ptr(model.DescriptionType(fmt.Sprintf("s%d", serial)))
		}
		return util.Ptr(model.DescriptionType("x"))
	}
	val := func(i int) *model.ScaledNumberType {
		if i == 0 {
			return number(serial)
		}
		return number(-1)
	}
	switch fn {
	case model.FunctionTypeMeasurementListData:
		p := &model.MeasurementListDataType{}
		for i := 0; i < items; i++ {
			p.MeasurementData = append(p.MeasurementData, model.MeasurementDataType{MeasurementId: util.Ptr(model.MeasurementIdType(id + uint(i))), Value: val(i)})
		}
		return model.CmdType{MeasurementListData: p}, p
	case model.FunctionTypeMeasurementDescriptionListData:
		p := &model.MeasurementDescriptionListDataType{}
		for i := 0; i < items; i++ {
			p.MeasurementDescriptionData = append(p.MeasurementDescriptionData, model.MeasurementDescriptionDataType{MeasurementId: util.Ptr(model.MeasurementIdType(id + uint(i))), Description: desc(i)})
		}
		return model.CmdType{MeasurementDescriptionListData: p}, p
	case model.FunctionTypeLoadControlLimitListData:
		p := &model.LoadControlLimitListDataType{}
		for i := 0; i < items; i++ {
			p.LoadControlLimitData = append(p.LoadControlLimitData, model.LoadControlLimitDataType{LimitId: util.Ptr(model.LoadControlLimitIdType(id + uint(i))), IsLimitActive: util.Ptr(i == 0), Value: val(i)})
		}
		return model.CmdType{LoadControlLimitListData: p}, p
	case model.FunctionTypeLoadControlLimitDescriptionListData:
		p := &model.LoadControlLimitDescriptionListDataType{}
		for i := 0; i < items; i++ {
			p.LoadControlLimitDescriptionData = append(p.LoadControlLimitDescriptionData, model.LoadControlLimitDescriptionDataType{LimitId: util.Ptr(model.LoadControlLimitIdType(id + uint(i))), Description: desc(i)})
		}
		return model.CmdType{LoadControlLimitDescriptionListData: p}, p
	case model.FunctionTypeElectricalConnectionDescriptionListData:
		p := &model.ElectricalConnectionDescriptionListDataType{}
		for i := 0; i < items; i++ {
			p.ElectricalConnectionDescriptionData = append(p.ElectricalConnectionDescriptionData, model.ElectricalConnectionDescriptionDataType{ElectricalConnectionId: util.Ptr(model.ElectricalConnectionIdType(id + uint(i))), Description: desc(i)})
		}
		return model.CmdType{ElectricalConnectionDescriptionListData: p}, p
	case model.FunctionTypeElectricalConnectionParameterDescriptionListData:
		p := &model.ElectricalConnectionParameterDescriptionListDataType{}
		for i := 0; i < items; i++ {
			p.ElectricalConnectionParameterDescriptionData = append(p.ElectricalConnectionParameterDescriptionData, model.ElectricalConnectionParameterDescriptionDataType{
				ElectricalConnectionId: util.Ptr(model.ElectricalConnectionIdType(id)), ParameterId: util.Ptr(model.ElectricalConnectionParameterIdType(uint(i))), Description: desc(i)})
		}
		return model.CmdType{ElectricalConnectionParameterDescriptionListData: p}, p
	}
	panic("harness: no payload builder for " + string(fn))
}

// ---------------------------------------------------------------------------------------------
// model

type key struct {
	feat    int
	counter uint64
}

type keySite struct {
	key
	site int
}

// reg is one registration attempt.
type reg struct {
	id       int
	site     int
	feat     int
	counter  uint64 // response callbacks only
	result   bool   // a result callback
	conc     bool   // registered from the second goroutine
	refused  bool   // the registration returned an error: the closure must never run
	consumed bool
	want     []int // serials of the deliveries that have to have invoked it
}

func (r *reg) String() string {
	if r.result {
		return fmt.Sprintf("result callback #%d (site %d) on feature %d", r.id, r.site, r.feat)
	}
	return fmt.Sprintf("response callback #%d (site %d) on feature %d for counter %d", r.id, r.site, r.feat, r.counter)
}

const (
	kReply    = "reply"
	kRejected = "reply-rejected"
	kResult0  = "result0"
	kResultE  = "resultErr"
)

// spec is the drawn description of one message a peer delivers.
type spec struct {
	peer, src, dst int // src/dst index the feature list; dst -1 = a local feature that does not exist
	kind           string
	fn             model.FunctionType // replies
	errNo          uint               // results
	ref            uint64
	ack            bool
	id             uint
	items          int
	filter         string // replies: "" | "partial" (restricted function exchange: the cmd carries function and filter)
	bare           bool   // error results: no description element (it is optional); the error number identifies the message
}

func (s spec) isResult() bool { return s.kind == kResult0 || s.kind == kResultE }

func (s spec) shape() string {
	if s.isResult() {
		return "result"
	}
	return "reply"
}

func (s spec) String() string {
	what := string(s.fn)
	if s.isResult() {
		what = fmt.Sprintf("errorNumber=%d", s.errNo)
	}
	if s.filter != "" {
		what += "," + s.filter
	}
	return fmt.Sprintf("%s(%s) peer%d/feature%d -> local feature %d ref=%d ack=%v", s.kind, what, s.peer, s.src, s.dst, s.ref, s.ack)
}

type delivery struct {
	spec
	serial   int
	accepted bool // observed: no error result came back (replies); results are always taken
	data     string
	remote   api.FeatureRemoteInterface
}

type featDef struct {
	ft   model.FeatureTypeType
	role model.RoleType
}

type machine struct {
	w     *world.World
	defs  []featDef
	feats []api.FeatureLocalInterface
	peers []*world.Peer
	log   *callLog

	regs      []*reg
	pending   map[key][]*reg
	consumed  map[key]bool     // a registration for this key was consumed by a delivery
	siteEver  map[keySite]bool // this site was registered successfully for this key at some time
	resultCBs map[int][]*reg
	counters  map[uint64]bool
	dels      []*delivery
	byData    map[string]*delivery

	ops        []string // abstract history (distinctness key, samples)
	nontrivial bool
	invoked    bool
}

func opposite(r model.RoleType) model.RoleType {
	if r == model.RoleTypeClient {
		return model.RoleTypeServer
	}
	return model.RoleTypeClient
}

func funcSpecs(ft model.FeatureTypeType, role model.RoleType) []world.FuncSpec {
	if role != model.RoleTypeServer {
		return nil
	}
	var out []world.FuncSpec
	for _, fn := range functionsOf[ft] {
		out = append(out, world.FuncSpec{Fn: fn, Read: true})
	}
	return out
}

// newMachine builds the world: one local entity with the given features, two peers announcing a
// matching remote feature (same type, opposite role) for each of them under identical addresses.
func newMachine(defs []featDef) *machine {
	m := &machine{
		w: world.New(), defs: defs, log: &callLog{},
		pending: map[key][]*reg{}, consumed: map[key]bool{}, siteEver: map[keySite]bool{},
		resultCBs: map[int][]*reg{}, counters: map[uint64]bool{}, byData: map[string]*delivery{},
	}
	le := m.w.AddLocalEntity([]uint{1}, model.EntityTypeTypeCEM, time.Second)
	var remote []world.FeatSpec
	for i, d := range defs {
		m.feats = append(m.feats, m.w.AddLocalFeature(le, world.FeatSpec{Type: d.ft, Role: d.role, Funcs: funcSpecs(d.ft, d.role)}))
		remote = append(remote, world.FeatSpec{ID: uint(i + 1), Type: d.ft, Role: opposite(d.role), Funcs: funcSpecs(d.ft, opposite(d.role))})
		m.ops = append(m.ops, fmt.Sprintf("feature %d: %s %s", i, d.ft, d.role))
	}
	for i := 0; i < 2; i++ {
		ents := []world.EntSpec{{Addr: []uint{1}, Type: model.EntityTypeTypeEVSE, Feats: remote}}
		m.peers = append(m.peers, m.w.AddPeer(fmt.Sprintf("ski%d", i+1), fmt.Sprintf("d:_r:peer%d", i+1), ents))
	}
	return m
}

func (m *machine) newReg(site, feat int, counter uint64, result, conc bool) *reg {
	r := &reg{id: len(m.regs), site: site, feat: feat, counter: counter, result: result, conc: conc}
	m.regs = append(m.regs, r)
	return r
}

func (m *machine) pendingSite(k key, site int) bool {
	for _, r := range m.pending[k] {
		if r.site == site {
			return true
		}
	}
	return false
}

// settle books the outcome of an AddResponseCallback call that was not concurrent with a
// delivery for its key.
func (m *machine) settle(t world.TB, r *reg, err error, dup bool) {
	k := key{r.feat, r.counter}
	ks := keySite{k, r.site}
	switch {
	case dup:
		world.Label("register/duplicate")
		if err == nil {
			world.Fail(t, "C14/duplicate-registration/accepted", "the callback of site %d is already registered on feature %d for counter %d and not yet delivered; registering it again returned no error", r.site, r.feat, r.counter)
		}
		r.refused = true
		return
	case m.siteEver[ks]:
		// same callback again after its first registration was delivered: the statement leaves
		// open whether this counts as "twice"; take the stack's answer
		world.Label("register/again-after-delivery")
		if err != nil {
			r.refused = true
			return
		}
	default:
		world.Label("register/fresh")
		if err != nil {
			world.Fail(t, "C14/registration-refused/fresh", "%v was refused (%v) although this callback is not registered for that counter", r, err)
		}
	}
	m.pending[k] = append(m.pending[k], r)
	m.siteEver[ks] = true
	m.counters[r.counter] = true
}

func (m *machine) register(t world.TB, feat int, counter uint64, site int) {
	k := key{feat, counter}
	dup := m.pendingSite(k, site)
	r := m.newReg(site, feat, counter, false, false)
	err := m.feats[feat].AddResponseCallback(model.MsgCounterType(counter), sites[site](m.log, r.id))
	m.ops = append(m.ops, fmt.Sprintf("register response callback site %d on feature %d counter %d (duplicate=%v)", site, feat, counter, dup))
	m.settle(t, r, err, dup)
}

func (m *machine) registerResult(feat, site int) {
	r := m.newReg(site, feat, 0, true, false)
	m.feats[feat].AddResultCallback(sites[site](m.log, r.id))
	m.resultCBs[feat] = append(m.resultCBs[feat], r)
	m.ops = append(m.ops, fmt.Sprintf("register result callback site %d on feature %d", site, feat))
	world.Label("register/result-callback")
}

// build turns a spec into the datagram and its bookkeeping record.
func (m *machine) build(t world.TB, s spec) (*delivery, model.DatagramType) {
	p := m.peers[s.peer]
	d := &delivery{spec: s, serial: len(m.dels) + 1}
	src := p.FA([]uint{1}, uint(s.src+1))
	d.remote = p.Dev.FeatureByAddress(src)
	if d.remote == nil {
		t.Fatalf("harness: remote feature %v not announced", src)
	}
	dst := world.LA([]uint{1}, 99)
	if s.dst >= 0 {
		dst = m.feats[s.dst].Address()
	}
	var cmd model.CmdType
	var data any
	cl := model.CmdClassifierTypeReply
	if s.isResult() {
		cl = model.CmdClassifierTypeResult
		rd := &model.ResultDataType{ErrorNumber: util.Ptr(model.ErrorNumberType(s.errNo)), Description: util.Ptr(model.DescriptionType(fmt.Sprintf("s%d", d.serial)))}
		if s.bare {
			rd = &model.ResultDataType{ErrorNumber: util.Ptr(model.ErrorNumberType(1000 + d.serial))}
		}
		cmd, data = model.CmdType{ResultData: rd}, rd
	} else {
		cmd, data = payload(s.fn, d.serial, s.id, s.items)
		switch s.filter {
		case "partial":
			cmd.Function = util.Ptr(s.fn)
			cmd.Filter = []model.FilterType{*model.NewFilterTypePartial()}
		}
	}
	d.data = world.JSON(data)
	if m.byData[d.data] != nil {
		t.Fatalf("harness: payload %s is not unique", d.data)
	}
	m.dels = append(m.dels, d)
	m.byData[d.data] = d
	ref := model.MsgCounterType(s.ref)
	return d, p.Msg(cl, src, dst, s.ack, &ref, cmd)
}

// inject sends the datagram and observes whether the stack rejected it (an error result
// referencing it is written synchronously, before the reader returns).
func (m *machine) inject(d *delivery, dg model.DatagramType) {
	p := m.peers[d.peer]
	p.Send(dg)
	d.accepted = d.dst >= 0
	for _, s := range p.Cap.Drain() {
		if s.Ref() != nil && *s.Ref() == *dg.Header.MsgCounter && s.ErrorNumber() > 0 {
			d.accepted = false
		}
	}
	if d.dst >= 0 && d.accepted != (d.kind != kRejected) {
		world.Label("deliver/acceptance-not-as-constructed")
	}
	if d.bare {
		world.Label("deliver/error-result-without-description")
	}
}

// apply books a delivery against everything that was registered before it.
func (m *machine) apply(d *delivery) {
	k := key{d.dst, d.ref}
	matching := len(m.pending[k]) > 0
	repeated := !matching && m.consumed[k]
	other := false
	for k2, rs := range m.pending {
		if k2.counter == d.ref && k2.feat != d.dst && len(rs) > 0 {
			other = true
		}
	}
	class := "unknown"
	switch {
	case d.dst < 0:
		class = "no-such-feature"
	case matching && other:
		class = "matching+other-feature"
	case matching:
		class = "matching"
	case repeated && other:
		class = "repeated+other-feature"
	case repeated:
		class = "repeated"
	case other:
		class = "other-feature"
	}
	verdict := "accepted"
	if !d.accepted {
		verdict = "rejected"
	}
	world.Label("deliver/"+class, "kind/"+d.kind, "verdict/"+verdict)
	m.ops = append(m.ops, fmt.Sprintf("deliver %v [%s, %s]", d.spec, class, verdict))
	if !d.accepted || d.dst < 0 {
		return
	}
	if repeated || other {
		m.nontrivial = true
	}
	for _, r := range m.pending[k] {
		r.want = append(r.want, d.serial)
		r.consumed = true
	}
	if matching {
		delete(m.pending, k)
		m.consumed[k] = true
	}
	if d.isResult() {
		for _, r := range m.resultCBs[d.dst] {
			r.want = append(r.want, d.serial)
		}
	}
}

func (m *machine) deliver(t world.TB, s spec) {
	d, dg := m.build(t, s)
	m.inject(d, dg)
	m.w.Sync()
	if d.kind == kReply && d.dst >= 0 && !d.accepted && len(m.pending[key{d.dst, d.ref}]) > 0 {
		// the reply carries data of a function of the announced feature that sent it, goes to an existing
		// local feature and a callback is waiting for it there: refusing it leaves that callback waiting for ever
		world.Fail(t, "C14/valid-reply-refused/"+string(m.defs[d.dst].role), "%s was refused with an error result although it is the answer the callbacks %v are waiting for", m.describe(d), m.pending[key{d.dst, d.ref}])
	}
	m.apply(d)
}

func (m *machine) describe(d *delivery) string {
	return fmt.Sprintf("message #%d %v accepted=%v data=%s", d.serial, d.spec, d.accepted, d.data)
}

// check compares the complete invocation log with the model.
func (m *machine) check(t world.TB) {
	byReg := map[int][]invocation{}
	for _, c := range m.log.snapshot() {
		byReg[c.reg] = append(byReg[c.reg], c)
		m.invoked = true
	}
	for _, r := range m.regs {
		want := map[int]int{}
		for _, s := range r.want {
			want[s]++
		}
		suffix := ""
		if r.conc {
			suffix = "-concurrent"
		}
		for _, inv := range byReg[r.id] {
			d := m.byData[inv.data]
			if d == nil {
				world.Fail(t, "C14/data/not-of-any-message"+suffix, "%v was invoked with data %s (reference %d), which no delivered message carried", r, inv.data, inv.ref)
			}
			if want[d.serial] > 0 {
				want[d.serial]--
				if r.result {
					continue // the statement fixes only how often a result callback runs
				}
				if uint64(inv.ref) != d.ref {
					world.Fail(t, "C14/reference-field/"+d.shape()+suffix, "%v was invoked for %s but with MsgCounterReference %d", r, m.describe(d), inv.ref)
				}
				if inv.remote != d.remote {
					world.Fail(t, "C14/remote-feature/"+d.shape()+suffix, "%v was invoked for %s but FeatureRemote is %v, not the sending feature %v", r, m.describe(d), addrOf(inv.remote), addrOf(d.remote))
				}
				continue
			}
			// an invocation the statement does not allow
			switch {
			case r.refused:
				world.Fail(t, "C14/refused-registration/invoked", "%v was refused at registration but invoked for %s", r, m.describe(d))
			case d.dst != r.feat && r.result:
				world.Fail(t, "C14/result-callback/other-feature", "%v was invoked for %s, which went to another feature", r, m.describe(d))
			case d.dst != r.feat:
				world.Fail(t, "C14/other-feature/"+d.shape()+suffix, "%v was invoked for %s, which went to another feature", r, m.describe(d))
			case r.result && !d.isResult():
				world.Fail(t, "C14/result-callback/invoked-for-reply", "%v was invoked for %s, which is not a result", r, m.describe(d))
			case r.result:
				world.Fail(t, "C14/result-callback/invoked-twice"+suffix, "%v was invoked more than once for %s", r, m.describe(d))
			case d.ref != r.counter:
				world.Fail(t, "C14/other-reference/"+d.shape()+suffix, "%v was invoked for %s, which references another counter", r, m.describe(d))
			case !d.accepted:
				world.Fail(t, "C14/rejected-reply/invoked", "%v was invoked for %s, which the stack rejected", r, m.describe(d))
			default:
				world.Fail(t, "C14/exactly-once/repeated-"+d.shape()+suffix, "%v was invoked again for %s (expected invocations: messages %v)", r, m.describe(d), r.want)
			}
		}
		for _, s := range sortedKeys(want) {
			if want[s] == 0 {
				continue
			}
			d := m.dels[s-1]
			if r.result {
				world.Fail(t, "C14/result-callback/not-invoked"+suffix, "%v was not invoked for %s", r, m.describe(d))
			}
			world.Fail(t, "C14/not-invoked/"+d.shape()+suffix, "%v was not invoked for %s", r, m.describe(d))
		}
	}
}

func sortedKeys(m map[int]int) []int {
	var out []int
	for k := range m {
		out = append(out, k)
	}
	sort.Ints(out)
	return out
}

func addrOf(f api.FeatureRemoteInterface) string {
	if f == nil || reflect.ValueOf(f).IsNil() {
		return "nil"
	}
	return world.JSON(f.Address())
}

// ---------------------------------------------------------------------------------------------
// registrations concurrent with deliveries

type concReg struct {
	r    *reg
	trig int // the registration starts when delivery trig is about to be sent (len = after the last)
	spin int // ... and after this many further polls (spreads it over the processing of that message)
	fn   func(api.ResponseMessage)
	err  error
}

// concurrent lets a second goroutine perform regs (in order) while this goroutine sends specs
// (in order); afterwards every outcome a linearisation allows is accepted, anything else fails.
// The keys of the response registrations are not pending with the same site when the step starts
// and pairwise distinct, so none of them may be refused as a duplicate.
func (m *machine) concurrent(t world.TB, specs []spec, cregs []*concReg) {
	n := len(specs)
	dels := make([]*delivery, n)
	dgs := make([]model.DatagramType, n)
	for j, s := range specs {
		dels[j], dgs[j] = m.build(t, s)
	}
	var progress atomic.Int32 // number of the delivery that is being sent; the second goroutine polls it
	progress.Store(-1)
	for _, c := range cregs {
		c.fn = sites[c.r.site](m.log, c.r.id)
		what := fmt.Sprintf("response callback site %d feature %d counter %d", c.r.site, c.r.feat, c.r.counter)
		if c.r.result {
			what = fmt.Sprintf("result callback site %d feature %d", c.r.site, c.r.feat)
		}
		m.ops = append(m.ops, fmt.Sprintf("concurrently (from delivery %d of %d on) register %s", c.trig, n, what))
	}
	var wg sync.WaitGroup
	wg.Add(1)
	var ready atomic.Bool
	go func() {
		defer wg.Done()
		ready.Store(true)
		for _, c := range cregs {
			for i := 0; int(progress.Load()) < c.trig; i++ {
				if i%1024 == 1023 {
					runtime.Gosched()
				}
			}
			for i := 0; i < c.spin; i++ {
				progress.Load()
			}
			if c.r.result {
				m.feats[c.r.feat].AddResultCallback(c.fn)
			} else {
				c.err = m.feats[c.r.feat].AddResponseCallback(model.MsgCounterType(c.r.counter), c.fn)
			}
		}
	}()
	for !ready.Load() { // the second goroutine is on a processor and polling
		runtime.Gosched()
	}
	for j := range specs {
		progress.Store(int32(j))
		m.inject(dels[j], dgs[j])
	}
	progress.Store(int32(n))
	wg.Wait()
	m.w.Sync()

	// registrations made before the step follow the sequential model
	for _, d := range dels {
		m.apply(d)
	}

	// the concurrent ones: find the point of the delivery sequence at which each took effect
	index := map[int]int{} // serial -> position in this step
	for j, d := range dels {
		index[d.serial] = j
	}
	got := map[int][]int{} // registration -> positions of the step's deliveries that invoked it
	foreign := map[int]bool{}
	for _, inv := range m.log.snapshot() {
		if d := m.byData[inv.data]; d != nil {
			if j, ok := index[d.serial]; ok {
				got[inv.reg] = append(got[inv.reg], j)
				continue
			}
		}
		foreign[inv.reg] = true
	}
	// A message j looks the response callbacks up at point 2j and (results only) the result
	// callbacks at point 2j+1. A registration "takes effect at slot e" if it lies between the
	// look-ups e-1 and e. The registrations of the second goroutine happen one after the other, so
	// their slots must not decrease; what was (not) invoked bounds each slot from both sides.
	cur, curBy := 0, (*reg)(nil)
	for _, c := range cregs {
		r := c.r
		if foreign[r.id] {
			continue // invoked with something that is no message of this step: check reports it
		}
		var cand []int // deliveries of the step that have to invoke r if it is registered in time
		for j, d := range dels {
			if d.dst != r.feat || !d.accepted {
				continue
			}
			if (r.result && d.isResult()) || (!r.result && d.ref == r.counter) {
				cand = append(cand, j)
			}
		}
		g := got[r.id]
		sort.Ints(g)
		if contains(cand, c.trig) {
			// the registration was started while a message that matches it was being sent: which way the race went
			world.Label(fmt.Sprintf("race/polls-%d/served-%v", c.spin, contains(g, c.trig)))
		}
		lo, hi := 0, 2*n
		if r.result {
			m.resultCBs[r.feat] = append(m.resultCBs[r.feat], r)
			var served []int
			for _, j := range g {
				if contains(cand, j) && !contains(served, j) {
					served = append(served, j)
					r.want = append(r.want, dels[j].serial)
				}
			}
			if len(served) != len(g) {
				continue // invoked twice or for a message that is not for it: check classifies it
			}
			// once registered it sees every later result: the served ones are a suffix of the candidates
			s := len(cand) - len(served)
			for i, j := range served {
				if cand[s+i] != j {
					world.Fail(t, "C14/result-callback/not-invoked-concurrent", "%v, registered while messages arrived, was invoked for %s but not for the later %s", r, m.describe(dels[served[0]]), m.describe(dels[cand[len(cand)-1]]))
				}
			}
			if s > 0 {
				lo = 2*cand[s-1] + 2
			}
			if s < len(cand) {
				hi = 2*cand[s] + 1
			}
			world.Label(fmt.Sprintf("concurrent/result-callback-served-%d-of-%d", len(served), len(cand)))
		} else {
			k := key{r.feat, r.counter}
			if c.err != nil {
				if !m.siteEver[keySite{k, r.site}] {
					world.Fail(t, "C14/registration-refused/fresh-concurrent", "%v was refused (%v) although this callback is not registered for that counter", r, c.err)
				}
				r.refused = true
				continue
			}
			m.siteEver[keySite{k, r.site}] = true
			m.counters[r.counter] = true
			switch {
			case len(g) == 0:
				// took effect after the last candidate: still registered
				m.pending[k] = append(m.pending[k], r)
				if len(cand) > 0 {
					lo = 2*cand[len(cand)-1] + 1
					world.Label("concurrent/registered-after-arrival")
				} else {
					world.Label("concurrent/no-matching-arrival")
				}
			case len(g) == 1 && contains(cand, g[0]):
				r.want = append(r.want, dels[g[0]].serial)
				r.consumed = true
				m.consumed[k] = true
				hi = 2 * g[0]
				for _, j := range cand {
					if j < g[0] {
						lo = 2*j + 1
					}
				}
				world.Label("concurrent/registered-before-arrival")
				if len(cand) > 1 {
					m.nontrivial = true // a repeated matching delivery raced with the registration
				}
			default:
				if contains(cand, g[0]) {
					r.want = append(r.want, dels[g[0]].serial)
				}
				continue // several invocations or a non-candidate: check classifies the rest
			}
		}
		if lo > cur {
			cur, curBy = lo, r
		}
		if cur > hi {
			world.Fail(t, "C14/not-invoked/registered-before-arrival-concurrent", "%v was invoked for %s, so it and every earlier registration of its goroutine were in place when that message was looked up; but the earlier %v was not invoked for the same or a later matching message, %s",
				r, m.describe(dels[hi/2]), curBy, m.describe(dels[(cur-1)/2]))
		}
	}
}

func contains(s []int, v int) bool {
	for _, x := range s {
		if x == v {
			return true
		}
	}
	return false
}

// ---------------------------------------------------------------------------------------------
// generators

func drawDefs(t *rapid.T) []featDef {
	n := rapid.IntRange(2, 3).Draw(t, "features")
	var defs []featDef
	used := map[featDef]bool{}
	for i := 0; i < n; i++ {
		d := featDef{ft: palette[rapid.IntRange(0, len(palette)-1).Draw(t, fmt.Sprintf("type%d", i))]}
		switch i {
		case 0:
			d.role = model.RoleTypeClient
		case 1:
			d.role = model.RoleTypeServer
		default:
			d.role = rapid.SampledFrom([]model.RoleType{model.RoleTypeClient, model.RoleTypeServer}).Draw(t, "role")
		}
		for used[d] {
			d.ft = palette[(indexOf(d.ft)+1)%len(palette)]
		}
		used[d] = true
		defs = append(defs, d)
	}
	return defs
}

func indexOf(ft model.FeatureTypeType) int {
	for i, p := range palette {
		if p == ft {
			return i
		}
	}
	return 0
}

func (m *machine) seenCounters() []uint64 {
	var out []uint64
	for c := range m.counters {
		out = append(out, c)
	}
	sort.Slice(out, func(i, j int) bool { return out[i] < out[j] })
	return out
}

func (m *machine) drawCounter(t *rapid.T, label string, max int) uint64 {
	if seen := m.seenCounters(); len(seen) > 0 && rapid.IntRange(0, 2).Draw(t, label+".known") > 0 {
		return rapid.SampledFrom(seen).Draw(t, label)
	}
	return uint64(rapid.IntRange(1, max).Draw(t, label))
}

func (m *machine) drawSpec(t *rapid.T, label string) spec {
	s := spec{
		peer: rapid.IntRange(0, len(m.peers)-1).Draw(t, label+".peer"),
		src:  rapid.IntRange(0, len(m.feats)-1).Draw(t, label+".src"),
		dst:  rapid.IntRange(0, len(m.feats)-1).Draw(t, label+".dst"),
		kind: rapid.SampledFrom([]string{kReply, kReply, kReply, kRejected, kResult0, kResultE}).Draw(t, label+".kind"),
		ref:  m.drawCounter(t, label+".ref", 6), // 5 and 6 are rarely registered (only by a concurrent registration aiming at them)
	}
	if rapid.IntRange(0, 19).Draw(t, label+".nofeature") == 7 {
		s.dst = -1
	}
	srcType := m.defs[s.src].ft
	switch s.kind {
	case kReply:
		s.fn = rapid.SampledFrom(functionsOf[srcType]).Draw(t, label+".fn")
	case kRejected:
		// a function that is not registered for the sending feature's type
		other := palette[(indexOf(srcType)+1+rapid.IntRange(0, len(palette)-2).Draw(t, label+".foreign"))%len(palette)]
		s.fn = rapid.SampledFrom(functionsOf[other]).Draw(t, label+".fn")
	case kResultE:
		s.errNo = uint(rapid.IntRange(1, 9).Draw(t, label+".errorNumber"))
		s.bare = rapid.IntRange(0, 2).Draw(t, label+".noDescription") == 0
	}
	if !s.isResult() {
		s.ack = rapid.Bool().Draw(t, label+".ack")
		s.id = uint(rapid.IntRange(0, 3).Draw(t, label+".id"))
		s.items = rapid.IntRange(1, 2).Draw(t, label+".items")
		if rapid.IntRange(0, 2).Draw(t, label+".partial") == 0 {
			s.filter = "partial"
		}
	}
	return s
}

func (m *machine) anyPending(t *rapid.T, label string) *reg {
	var all []*reg
	for _, r := range m.regs {
		if !r.result && !r.refused && !r.consumed && m.pendingSite(key{r.feat, r.counter}, r.site) {
			all = append(all, r)
		}
	}
	if len(all) == 0 {
		return nil
	}
	return all[rapid.IntRange(0, len(all)-1).Draw(t, label)]
}

func (m *machine) actionRegister(t *rapid.T) {
	feat := rapid.IntRange(0, len(m.feats)-1).Draw(t, "feature")
	counter := uint64(rapid.IntRange(1, 4).Draw(t, "counter"))
	site := rapid.IntRange(0, len(sites)-1).Draw(t, "site")
	switch rapid.IntRange(0, 3).Draw(t, "mode") {
	case 0: // the same callback for the same counter again
		if r := m.anyPending(t, "duplicateOf"); r != nil {
			feat, counter, site = r.feat, r.counter, r.site
		}
	case 1: // another callback for a counter that already has one
		if r := m.anyPending(t, "sameCounterAs"); r != nil {
			feat, counter = r.feat, r.counter
		}
	case 2: // the same counter on another feature
		if r := m.anyPending(t, "sameCounterElsewhere"); r != nil {
			counter = r.counter
		}
	}
	m.register(t, feat, counter, site)
}

func (m *machine) actionRegisterResult(t *rapid.T) {
	feat := rapid.IntRange(0, len(m.feats)-1).Draw(t, "feature")
	if len(m.resultCBs[feat]) >= 3 {
		t.Skip("enough result callbacks on this feature")
	}
	m.registerResult(feat, rapid.IntRange(0, len(sites)-1).Draw(t, "site"))
}

func (m *machine) actionDeliver(t *rapid.T) {
	m.deliver(t, m.drawSpec(t, "msg"))
}

// actionRepeat delivers an accepted message for a key that was already served.
func (m *machine) actionRepeat(t *rapid.T) {
	var keys []key
	for k := range m.consumed {
		keys = append(keys, k)
	}
	if len(keys) == 0 {
		t.Skip("nothing delivered yet")
	}
	sort.Slice(keys, func(i, j int) bool {
		return keys[i].feat < keys[j].feat || (keys[i].feat == keys[j].feat && keys[i].counter < keys[j].counter)
	})
	k := keys[rapid.IntRange(0, len(keys)-1).Draw(t, "key")]
	s := m.drawSpec(t, "msg")
	s.dst, s.ref = k.feat, k.counter
	m.deliver(t, s)
}

// polls between "the message is about to be sent" and the registration (no clock involved)
var spins = []int{0, 300, 1000, 3000, 10000, 30000, 100000}

func (m *machine) actionConcurrent(t *rapid.T) {
	nd := rapid.IntRange(1, 3).Draw(t, "deliveries")
	specs := make([]spec, nd)
	for j := range specs {
		specs[j] = m.drawSpec(t, fmt.Sprintf("msg%d", j))
		if j > 0 && rapid.IntRange(0, 2).Draw(t, fmt.Sprintf("msg%d.sameKey", j)) == 0 {
			specs[j].dst, specs[j].ref = specs[0].dst, specs[0].ref
		}
	}
	nr := rapid.IntRange(1, 3).Draw(t, "registrations")
	var cregs []*concReg
	seen := map[keySite]bool{}
	trig := 0
	for i := 0; i < nr; i++ {
		label := fmt.Sprintf("reg%d", i)
		if trig += rapid.SampledFrom([]int{0, 0, 0, 1, 1, 2}).Draw(t, label+".from"); trig > nd {
			trig = nd
		}
		spin := rapid.SampledFrom(spins).Draw(t, label+".spin")
		feat := rapid.IntRange(0, len(m.feats)-1).Draw(t, label+".feature")
		site := rapid.IntRange(0, len(sites)-1).Draw(t, label+".site")
		if rapid.IntRange(0, 3).Draw(t, label+".result") == 0 {
			if len(m.resultCBs[feat]) < 3 {
				cregs = append(cregs, &concReg{r: m.newReg(site, feat, 0, true, true), trig: trig, spin: spin})
				world.Label("register/result-callback-concurrent")
			}
			continue
		}
		counter := uint64(rapid.IntRange(1, 4).Draw(t, label+".counter"))
		// aim at a message of this step, mostly one that is sent while or after this registration starts
		switch aim := rapid.IntRange(0, 5).Draw(t, label+".aim"); {
		case aim < 3 && trig < nd:
			if x := rapid.IntRange(trig, nd-1).Draw(t, label+".at"); specs[x].dst >= 0 {
				feat, counter = specs[x].dst, specs[x].ref
			}
		case aim < 5:
			if x := rapid.IntRange(0, nd-1).Draw(t, label+".at"); specs[x].dst >= 0 {
				feat, counter = specs[x].dst, specs[x].ref
			}
		}
		ks := keySite{key{feat, counter}, site}
		if seen[ks] || m.pendingSite(ks.key, site) {
			continue // would be a duplicate whose verdict depends on the interleaving
		}
		seen[ks] = true
		cregs = append(cregs, &concReg{r: m.newReg(site, feat, counter, false, true), trig: trig, spin: spin})
		world.Label("register/response-callback-concurrent")
	}
	m.concurrent(t, specs, cregs)
}

// flush serves every registration that is still open, so that "registered => invoked once a
// matching message arrives" is judged for all of them.
func (m *machine) flush(t *rapid.T) {
	var keys []key
	for k, rs := range m.pending {
		if len(rs) > 0 {
			keys = append(keys, k)
		}
	}
	sort.Slice(keys, func(i, j int) bool {
		return keys[i].feat < keys[j].feat || (keys[i].feat == keys[j].feat && keys[i].counter < keys[j].counter)
	})
	for i, k := range keys {
		s := m.drawSpec(t, fmt.Sprintf("flush%d", i))
		s.dst, s.ref = k.feat, k.counter
		if s.kind == kRejected {
			s.kind = kReply
			s.fn = functionsOf[m.defs[s.src].ft][0]
		}
		m.deliver(t, s)
		world.Label("deliver/flush")
	}
}

// ---------------------------------------------------------------------------------------------

func TestCallbacks(t *testing.T) {
	rapid.Check(t, world.Prop(func(t *rapid.T) {
		m := newMachine(drawDefs(t))
		defer m.w.Teardown()
		defer func() {
			labels := []string{"case/invocations-none"}
			if m.invoked {
				labels[0] = "case/invocations-some"
			}
			world.Record(world.Hash(strings.Join(m.ops, "\n")), m.nontrivial, labels...)
			if m.nontrivial && world.WantSample() {
				world.Sample(map[string]any{"history": m.ops, "registrations": len(m.regs), "messages": len(m.dels), "invocations": len(m.log.snapshot())})
			}
		}()
		t.Repeat(map[string]func(*rapid.T){
			"":                 func(t *rapid.T) { m.check(t) },
			"register":         m.actionRegister,
			"register2":        m.actionRegister,
			"registerResult":   m.actionRegisterResult,
			"deliver":          m.actionDeliver,
			"deliver2":         m.actionDeliver,
			"deliverRepeated":  m.actionRepeat,
			"concurrentWindow": m.actionConcurrent,
		})
		m.flush(t)
		m.check(t)
	}))
}

// TestScenario replays the basic shapes deterministically (no rapid): a matching reply and a
// matching result are served once, the repeat and the other feature are not, a duplicate is
// refused, result callbacks see results only. It is also the harness's vacuity guard: if the
// injected messages did not reach the callbacks at all, this test fails.
func TestScenario(t *testing.T) {
	m := newMachine([]featDef{{model.FeatureTypeTypeMeasurement, model.RoleTypeClient}, {model.FeatureTypeTypeLoadControl, model.RoleTypeServer}})
	defer m.w.Teardown()
	world.Guard(func() {
		reply := spec{peer: 1, src: 0, dst: 0, kind: kReply, fn: model.FunctionTypeMeasurementListData, ref: 1, items: 2, ack: true}
		m.register(t, 0, 1, 0)
		m.register(t, 0, 1, 1)
		m.register(t, 0, 1, 0) // duplicate
		m.register(t, 1, 1, 0) // same counter, other feature
		m.registerResult(0, 2)
		m.registerResult(1, 2)
		m.check(t)
		rejected := reply
		rejected.kind, rejected.fn = kRejected, model.FunctionTypeLoadControlLimitListData
		m.deliver(t, rejected)
		m.check(t)
		m.deliver(t, reply)
		m.check(t)
		m.deliver(t, reply) // repeated
		m.check(t)
		m.deliver(t, spec{peer: 0, src: 1, dst: 1, kind: kResultE, errNo: 7, ref: 1})
		m.check(t)
		m.deliver(t, spec{peer: 0, src: 1, dst: 1, kind: kResult0, ref: 1}) // repeated
		m.check(t)
		if n := len(m.log.snapshot()); n != 5 {
			t.Fatalf("harness: expected 5 invocations in the fixed scenario (2 response + 1 response + 2 result callbacks), saw %d", n)
		}
	})
}
