package c20

import (
	"fmt"
	"runtime"
	"strings"
	"sync"
	"sync/atomic"
	"testing"
	"time"

	"github.com/enbility/spine-go/api"
	"pgregory.net/rapid"

	"verifharness/world"
)

// Free-running part: 2-4 goroutines, goroutine i performs its drawn list of operations on
// entity slot i only. Operations on different entities commute, so the expected final registry
// is the prefill plus, per entity, its own list applied in order - whatever the schedule was.
// Nothing here is reproducible from the rapid seed alone (the schedule is not an input), so a
// failure message carries the whole workload and both registries.

const sigLostUpdate = "C20/concurrent/lost-update"

type workload struct {
	Prefill []op   // applied sequentially before the goroutines start
	Lists   [][]op // Lists[i] is performed by goroutine i on entity slot i
}

func (wl workload) String() string {
	var b strings.Builder
	b.WriteString(" prefill (sequential, before the start):\n")
	var pre []string
	for _, o := range wl.Prefill {
		pre = append(pre, o.String())
	}
	b.WriteString(block(pre))
	for i, l := range wl.Lists {
		fmt.Fprintf(&b, "\n goroutine %d (entity %s):\n", i, entName(i))
		var ls []string
		for j, o := range l {
			ls = append(ls, fmt.Sprintf("%d. %s", j+1, o))
		}
		b.WriteString(block(ls))
	}
	return b.String()
}

func genConcurrentOp(t *rapid.T, ent int, label string) op {
	kind := rapid.SampledFrom([]string{opAdd, opAdd, opAdd, opAdd, opRemove, opRemove, opSetAvail, opSetAvail, opRemoveAll, opHas}).Draw(t, label+"kind")
	o := op{Kind: kind, Ent: ent}
	if kind == opRemoveAll {
		return o
	}
	// a narrow triple domain per entity so that removes, overwrites and availability changes hit
	o.Actor = rapid.IntRange(0, 1).Draw(t, label+"actor")
	o.Name = rapid.IntRange(0, 2).Draw(t, label+"name")
	switch kind {
	case opAdd:
		genValues(t, &o)
	case opSetAvail:
		o.Avail = rapid.Bool().Draw(t, label+"available")
	}
	return o
}

func genWorkload(t *rapid.T) workload {
	g := rapid.IntRange(2, 4).Draw(t, "goroutines")
	wl := workload{}
	nPre := rapid.IntRange(0, 4).Draw(t, "prefill")
	for i := 0; i < nPre; i++ {
		o := op{Kind: opAdd, Ent: rapid.IntRange(0, g-1).Draw(t, "prefillEntity")}
		o.Actor = rapid.IntRange(0, 1).Draw(t, "prefillActor")
		o.Name = rapid.IntRange(0, 2).Draw(t, "prefillName")
		genValues(t, &o)
		wl.Prefill = append(wl.Prefill, o)
	}
	for i := 0; i < g; i++ {
		n := rapid.IntRange(1, 8).Draw(t, fmt.Sprintf("ops%d", i))
		var l []op
		for j := 0; j < n; j++ {
			l = append(l, genConcurrentOp(t, i, fmt.Sprintf("g%d.%d.", i, j)))
		}
		wl.Lists = append(wl.Lists, l)
	}
	return wl
}

// expectation is everything the model says about a workload.
type expectation struct {
	final    registry
	has      [][]bool // expected answers of the Has operations, per goroutine in order
	changing int      // goroutines with at least one operation that changes the registry

	// Classification aid (not part of the oracle): what a use case can look like if, at any
	// moment, it may fall back to a value it had earlier in this run - which is what a lost
	// update does to the entity whose update was lost: another goroutine stores an older
	// copy. Later operations of the entity then act on the resurfaced value (a
	// set-availability on a use case that should be gone, ...), so the set is closed under
	// the entity's remaining operations. "" stands for not supported.
	reachable map[triple]map[string]bool
	hasMay    [][][2]bool // per goroutine and Has operation: may the answer be false / true under such fallbacks
}

// affect is the effect of o on one use case of o's entity; ok=false if o does not concern it.
func affect(o op, k triple, cur *support) (next *support, ok bool) {
	if o.Kind == opRemoveAll {
		return nil, true
	}
	if o.Actor != k.Actor || o.Name != k.Name {
		return cur, false
	}
	switch o.Kind {
	case opAdd:
		return &support{Version: o.Version, SubRev: o.SubRev, Avail: o.Avail, Scen: fmt.Sprint(o.Scen)}, true
	case opRemove:
		return nil, true
	case opSetAvail:
		if cur == nil {
			return nil, true
		}
		c := *cur
		c.Avail = o.Avail
		return &c, true
	}
	return cur, false
}

func expect(wl workload) expectation {
	x := expectation{final: registry{}, has: make([][]bool, len(wl.Lists)), reachable: map[triple]map[string]bool{}, hasMay: make([][][2]bool, len(wl.Lists))}
	for _, o := range wl.Prefill {
		x.final.apply(o)
	}
	// fallback closure per use case, starting from the state after the (sequential) prefill
	for e, l := range wl.Lists {
		mayAt := map[int][2]bool{} // position in l -> possible answers of that Has operation
		for a := range actors {
			for n := range names {
				k := triple{e, a, n}
				seen := map[string]*support{}
				if s, ok := x.final[k]; ok {
					c := s
					seen[k.line(s)] = &c
				} else {
					seen[""] = nil
				}
				for j, o := range l {
					if o.Kind == opHas && o.Actor == a && o.Name == n {
						may := [2]bool{}
						for _, v := range seen {
							if v == nil {
								may[0] = true
							} else {
								may[1] = true
							}
						}
						mayAt[j] = may
					}
					next := map[string]*support{}
					for _, v := range seen {
						if nv, ok := affect(o, k, v); ok {
							if nv == nil {
								next[""] = nil
							} else {
								next[k.line(*nv)] = nv
							}
						}
					}
					for id, v := range next {
						seen[id] = v
					}
				}
				x.reachable[k] = map[string]bool{}
				for id := range seen {
					x.reachable[k][id] = true
				}
			}
		}
		for j, o := range l {
			if o.Kind == opHas {
				x.hasMay[e] = append(x.hasMay[e], mayAt[j])
			}
		}
	}
	// entities are independent: applying the lists one after the other gives every entity
	// exactly the sequence of states of its own history
	for i, l := range wl.Lists {
		changes := false
		for _, o := range l {
			if o.Kind == opHas {
				_, h := x.final[triple{o.Ent, o.Actor, o.Name}]
				x.has[i] = append(x.has[i], h)
			}
			if changesRegistry(x.final.apply(o)) {
				changes = true
			}
		}
		if changes {
			x.changing++
		}
	}
	return x
}

// staleOnly reports whether every use case listed in got has a value of its fallback closure
// (see expectation.reachable), is listed once and belongs to an entity of the workload. A
// deviating registry for which this holds is classified as a lost update, anything else
// (values no operation of that entity can have produced, entries listed twice, foreign
// addresses) as a different violation.
func staleOnly(x expectation, got []string) bool {
	gotBy := map[string][]string{} // "entity actor name" -> lines present
	keyOf := func(l string) string { return l[:strings.Index(l, ": ")] }
	for _, l := range got {
		gotBy[keyOf(l)] = append(gotBy[keyOf(l)], l)
	}
	known := map[string]bool{}
	for k, vals := range x.reachable {
		id := keyOf(k.line(support{}))
		known[id] = true
		present := gotBy[id]
		if len(present) > 1 {
			return false
		}
		now := ""
		if len(present) == 1 {
			now = present[0]
		}
		if !vals[now] {
			return false
		}
	}
	for id := range gotBy {
		if !known[id] {
			return false
		}
	}
	return true
}

// round runs the workload once on a fresh device and returns what was observed.
type observation struct {
	stored   []string
	peer     []string
	peerProb string
	has      [][]bool
}

func round(wl workload) observation {
	w := world.New()
	defer w.Teardown()
	ents := make([]api.EntityLocalInterface, len(wl.Lists))
	for i := range wl.Lists {
		ents[i] = w.AddLocalEntity(entityAddrs[i], entityTypes[i], time.Second)
	}
	p := w.AddPeer("ski1", "d:_r:peer1", nil)
	for _, o := range wl.Prefill {
		run(ents[o.Ent], o)
	}

	obs := observation{has: make([][]bool, len(wl.Lists))}
	var ready atomic.Int32
	var start atomic.Bool
	var wg sync.WaitGroup
	for i := range wl.Lists {
		wg.Add(1)
		go func(i int) {
			defer wg.Done()
			ready.Add(1)
			for !start.Load() {
				runtime.Gosched()
			}
			for _, o := range wl.Lists[i] {
				h := run(ents[i], o)
				if o.Kind == opHas {
					// obs.has[i] is written by goroutine i only and read after wg.Wait()
					obs.has[i] = append(obs.has[i], h)
				}
			}
		}(i)
	}
	for int(ready.Load()) < len(wl.Lists) {
		runtime.Gosched()
	}
	start.Store(true)
	wg.Wait()
	w.Sync()

	obs.stored = stored(w)
	obs.peer, obs.peerProb = peerRead(w, p)
	return obs
}

var printOnce sync.Once

// judge compares what one round observed with the expectation. where names the round. Shared by
// the drawn workloads, the pair sweep and (later) the enumerated schedules.
func judge(t world.TB, wl workload, x expectation, obs observation, where string) {
	want := x.final.lines()
	fail := func(sig, msg string) {
		world.Label("concurrent/" + strings.TrimPrefix(sig, "C20/concurrent/"))
		// the schedule is not an input, so rapid may be unable to reproduce the failure:
		// the first one of a process is printed right away with the whole workload
		printOnce.Do(func() { fmt.Printf("VERIF-HISTORY sig=%s :: %s\n", sig, msg) })
		world.Fail(t, sig, "%s", msg)
	}
	registry := func(what string, got []string) {
		d := diff(want, got)
		if len(d) == 0 {
			return
		}
		sig := "C20/concurrent/foreign-value"
		if staleOnly(x, got) {
			sig = sigLostUpdate
		}
		fail(sig, fmt.Sprintf("%s: after all goroutines were joined %s differs from the operations applied per entity (- missing, + unexpected):\n%s\n workload:\n%s\n expected registry:\n%s\n actual registry:\n%s",
			where, what, block(d), wl, block(want), block(got)))
	}
	registry("DataCopy(nodeManagementUseCaseData)", obs.stored)
	if obs.peerProb != "" {
		fail("C20/concurrent/peer-read", fmt.Sprintf("%s: read of nodeManagementUseCaseData after the join: %s\n workload:\n%s", where, obs.peerProb, wl))
	}
	registry("the reply to a peer's read of nodeManagementUseCaseData", obs.peer)
	// the final registry is as expected; a Has answer that deviates in between saw a registry
	// in which an update of its own entity was (temporarily) lost
	for i := range wl.Lists {
		if fmt.Sprint(obs.has[i]) == fmt.Sprint(x.has[i]) {
			continue
		}
		sig := sigLostUpdate
		for j, h := range obs.has[i] {
			if j >= len(x.hasMay[i]) || (h && !x.hasMay[i][j][1]) || (!h && !x.hasMay[i][j][0]) {
				sig = "C20/concurrent/has-foreign-answer"
			}
		}
		fail(sig, fmt.Sprintf("%s: goroutine %d got the HasUseCaseSupport answers %v, its own operations imply %v (no other goroutine touches entity %s)\n workload:\n%s",
			where, i, obs.has[i], x.has[i], entName(i), wl))
	}
}

func TestUseCaseConcurrent(t *testing.T) {
	rounds := world.EnvInt("VERIF_C20_ROUNDS", 20)
	world.SetExtra("concurrent_gomaxprocs", runtime.GOMAXPROCS(0))
	rapid.Check(t, world.Prop(func(t *rapid.T) {
		wl := genWorkload(t)
		x := expect(wl)

		var keys []string
		for _, o := range wl.Prefill {
			keys = append(keys, "pre/"+o.key())
		}
		for i, l := range wl.Lists {
			for _, o := range l {
				keys = append(keys, fmt.Sprintf("g%d/%s", i, o.key()))
			}
		}
		nt := x.changing >= 2
		world.Record(world.Hash(keys), nt, fmt.Sprintf("goroutines/%d", len(wl.Lists)), fmt.Sprintf("changing-goroutines/%d", x.changing))
		if nt && world.WantSample() {
			world.Sample(map[string]any{"kind": "concurrent", "workload": strings.Split(wl.String(), "\n"), "expected": x.final.lines()})
		}

		// the same workload several times: every round is another schedule
		for r := 0; r < rounds; r++ {
			obs := round(wl)
			world.AddExtra("concurrent_rounds", 1)
			judge(t, wl, x, obs, fmt.Sprintf("round %d of %d", r+1, rounds))
		}
	}))
}

// TestUseCaseConcurrentPairs is the smallest concurrent shape, free-running: [1] and [1 1] hold
// two use cases each, then one operation on [1] races one operation on [1 1], for every pair of
// operation kinds ([2] only asks Has). The controlled-interleaving check enumerates the same
// pairs through the yield points; this one needs no build tag and is the seconds-long replay of
// a lost update.
func TestUseCaseConcurrentPairs(t *testing.T) {
	rounds := world.EnvInt("VERIF_C20_PAIR_ROUNDS", 100)
	const a, b = 0, 2 // entity slots [1] and [1 1]
	mk := func(kind string, ent int) op {
		o := op{Kind: kind, Ent: ent, Actor: 0, Name: 0}
		switch kind {
		case opAdd:
			o.Actor, o.Name, o.Version, o.SubRev, o.Avail, o.Scen = 1, 2, "1.1.0", "release", true, []uint{1, 2}
		case opSetAvail:
			o.Avail = false
		}
		return o
	}
	kinds := []string{opAdd, opRemove, opSetAvail, opRemoveAll}
	for _, ka := range kinds {
		for _, kb := range kinds {
			wl := workload{Lists: make([][]op, 3)}
			for _, e := range []int{a, b} {
				wl.Prefill = append(wl.Prefill,
					op{Kind: opAdd, Ent: e, Actor: 0, Name: 0, Version: "1.0.0", SubRev: "release", Avail: true, Scen: []uint{1}},
					op{Kind: opAdd, Ent: e, Actor: 0, Name: 1, Version: "1.0.0", SubRev: "release", Avail: true, Scen: []uint{1, 2, 3}})
			}
			wl.Lists[a] = []op{mk(ka, a)}
			wl.Lists[1] = []op{{Kind: opHas, Ent: 1}}
			wl.Lists[b] = []op{mk(kb, b)}
			x := expect(wl)
			world.Record(world.Hash("pair", ka, kb), true, "pair/"+ka+"+"+kb)
			// a known finding ends this pair only
			world.Guard(func() {
				for r := 0; r < rounds; r++ {
					obs := round(wl)
					world.AddExtra("pair_rounds", 1)
					judge(t, wl, x, obs, fmt.Sprintf("pair %s + %s, round %d of %d", ka, kb, r+1, rounds))
				}
			})
		}
	}
	// the very first use case operations on a fresh device, at the same moment on different entities
	// (nothing is set up sequentially before: whatever the stack creates lazily is created under contention)
	fresh := workload{Lists: make([][]op, 3)}
	for e := 0; e < 3; e++ {
		fresh.Lists[e] = []op{{Kind: opAdd, Ent: e, Actor: e % 2, Name: e, Version: "1.0.0", SubRev: "release", Avail: true, Scen: []uint{1, 2}}}
	}
	xf := expect(fresh)
	world.Record(world.Hash("pair", "fresh-device"), true, "pair/first-operations-on-a-fresh-device")
	world.Guard(func() {
		for r := 0; r < rounds*8; r++ {
			obs := round(fresh)
			world.AddExtra("pair_rounds", 1)
			judge(t, fresh, xf, obs, fmt.Sprintf("first operations on a fresh device (add on three entities at once), round %d of %d", r+1, rounds*8))
		}
	})
}
