//go:build verif

package c20

import (
	"fmt"
	"testing"
	"time"

	"github.com/enbility/spine-go/api"

	"verifharness/sched"
	"verifharness/world"
)

const useCasePoint = "UseCase.afterCopy"

// schedWorkloads: every pair of registry-changing operations on two different entities (the 16
// pairs of TestUseCaseConcurrentPairs) plus add || add || remove on two entities.
func schedWorkloads() map[string]workload {
	const a, b = 0, 2
	mk := func(kind string, ent int) op {
		o := op{Kind: kind, Ent: ent, Actor: 0, Name: 0}
		switch kind {
		case opAdd:
			o.Actor, o.Name, o.Version, o.SubRev, o.Avail, o.Scen = 1, 2, "1.1.0", "release", true, []uint{1, 2}
		case opSetAvail:
			o.Avail = false
		}
		return o
	}
	prefill := func() []op {
		var out []op
		for _, e := range []int{a, b} {
			out = append(out,
				op{Kind: opAdd, Ent: e, Actor: 0, Name: 0, Version: "1.0.0", SubRev: "release", Avail: true, Scen: []uint{1}},
				op{Kind: opAdd, Ent: e, Actor: 0, Name: 1, Version: "1.0.0", SubRev: "release", Avail: true, Scen: []uint{1, 2, 3}})
		}
		return out
	}
	out := map[string]workload{}
	kinds := []string{opAdd, opRemove, opSetAvail, opRemoveAll}
	for _, ka := range kinds {
		for _, kb := range kinds {
			wl := workload{Prefill: prefill(), Lists: make([][]op, 3)}
			wl.Lists[a] = []op{mk(ka, a)}
			wl.Lists[b] = []op{mk(kb, b)}
			out[ka+"||"+kb] = wl
		}
	}
	// three threads: add on [1], add then remove on [1 1], set-availability on [2]
	wl := workload{Prefill: prefill(), Lists: make([][]op, 3)}
	wl.Prefill = append(wl.Prefill, op{Kind: opAdd, Ent: 1, Actor: 0, Name: 0, Version: "1.0.0", SubRev: "release", Avail: true, Scen: []uint{1}})
	wl.Lists[a] = []op{mk(opAdd, a)}
	wl.Lists[b] = []op{mk(opAdd, b), mk(opRemove, b)}
	wl.Lists[1] = []op{{Kind: opSetAvail, Ent: 1, Actor: 0, Name: 0, Avail: false}}
	out["add||add;remove||set-availability"] = wl
	return out
}

// TestUseCaseInterleavings enumerates every interleaving of the read-modify-write cycles of
// operations on different entities over the yield point between the copy and the store.
func TestUseCaseInterleavings(t *testing.T) {
	replay := sched.LoadReplay("TestUseCaseInterleavings")
	reached := 0
	idx := 0
	wls := schedWorkloads()
	var names []string
	for n := range wls {
		names = append(names, n)
	}
	sortStrings(names)
	for _, name := range names {
		wl := wls[name]
		idx++
		if replay != nil && replay.Params["workload"] != idx {
			continue
		}
		x := expect(wl)
		world.Guard(func() {
			scenario := func() ([]sched.Op, func(*sched.Result)) {
				w := world.New()
				ents := make([]api.EntityLocalInterface, len(wl.Lists))
				for i := range wl.Lists {
					ents[i] = w.AddLocalEntity(entityAddrs[i], entityTypes[i], time.Second)
				}
				p := w.AddPeer("ski1", "d:_r:peer1", nil)
				for _, o := range wl.Prefill {
					run(ents[o.Ent], o)
				}
				obs := observation{has: make([][]bool, len(wl.Lists))}
				var ops []sched.Op
				for i := range wl.Lists {
					if len(wl.Lists[i]) == 0 {
						continue
					}
					i := i
					ops = append(ops, sched.Op{Name: "entity" + entName(i), Fn: func() {
						for _, o := range wl.Lists[i] {
							h := run(ents[i], o)
							if o.Kind == opHas {
								obs.has[i] = append(obs.has[i], h)
							}
						}
					}})
				}
				return ops, func(r *sched.Result) {
					defer w.Teardown()
					defer func() {
						if t.Failed() {
							world.SaveReplay("TestUseCaseInterleavings.json", sched.ReplaySpec{Test: "TestUseCaseInterleavings", Params: map[string]int{"workload": idx}, Choices: r.Choices, Trace: r.Trace})
						}
					}()
					w.Sync()
					nt := r.Parked[useCasePoint] >= 2
					if r.Parked[useCasePoint] > 0 {
						reached++
					}
					world.Record(world.Hash("sched", name, r.Choices), nt, "sched/"+name)
					if nt && world.WantSample() {
						world.Sample(map[string]any{"kind": "schedule", "workload": name, "trace": r.Trace})
					}
					if len(r.Panics) > 0 || r.Deadlock {
						world.Fail(t, "C20/concurrent/panic-or-deadlock", "schedule %s: panics=%v deadlock=%v", r, r.Panics, r.Deadlock)
					}
					obs.stored = stored(w)
					obs.peer, obs.peerProb = peerRead(w, p)
					judge(t, wl, x, obs, fmt.Sprintf("workload %s, schedule [%s]", name, r))
				}
			}
			if replay != nil {
				ops, j := scenario()
				j(sched.RunChoices(ops, []string{useCasePoint}, replay.Choices))
				return
			}
			n := sched.Enumerate([]string{useCasePoint}, 300, scenario)
			world.AddExtra("schedules", int64(n))
		})
	}
	world.SetExtra("schedule_enumeration_exhaustive", true)
	world.SetExtra("yield_point_reached", reached > 0)
}

func sortStrings(s []string) {
	for i := range s {
		for j := i + 1; j < len(s); j++ {
			if s[j] < s[i] {
				s[i], s[j] = s[j], s[i]
			}
		}
	}
}
