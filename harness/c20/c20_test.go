// Package c20: the use-case registry reflects exactly what the application declared.
//
// Files: c20_test.go (domain, reference model, decoding of the three observation points,
// the sequential state machine), concurrent_test.go (free-running goroutines on different
// entities). The controlled-interleaving part (yield points between DataCopy and SetData)
// is meant to be added as sched_test.go on top of the helpers op / registry / run /
// observe of this file.
package c20

import (
	"fmt"
	"sort"
	"strings"
	"testing"
	"time"

	"github.com/enbility/spine-go/api"
	"github.com/enbility/spine-go/model"
	"github.com/enbility/spine-go/spine"
	"pgregory.net/rapid"

	"verifharness/world"
)

func TestMain(m *testing.M) { world.Main(m) }

// ---------------------------------------------------------------------------------------------
// domain

// entity slots: two top-level entities, one nested below the first (so that a comparison on a
// prefix or on the first address element only is visible), a fourth one for the concurrent part.
var entityAddrs = [][]uint{{1}, {2}, {1, 1}, {2, 1}}

var entityTypes = []model.EntityTypeType{
	model.EntityTypeTypeCEM, model.EntityTypeTypeEVSE, model.EntityTypeTypeEV, model.EntityTypeTypeEV,
}

var actors = []model.UseCaseActorType{
	model.UseCaseActorTypeCEM, model.UseCaseActorTypeEVSE, model.UseCaseActorTypeEV,
}

var names = []model.UseCaseNameType{
	model.UseCaseNameTypeLimitationOfPowerConsumption,
	model.UseCaseNameTypeMonitoringOfPowerConsumption,
	model.UseCaseNameTypeEVCommissioningAndConfiguration,
	model.UseCaseNameTypeCoordinatedEVCharging,
	// names are texts and compared as such: one that differs from a known name in the capitalisation only
	// (as it varies between releases of the use case documents) is another name
	model.UseCaseNameType("EVCommissioningAndConfiguration"),
}

var versions = []string{"1.0.0", "1.0.1", "1.1.0", "2.0.0"}

var subRevisions = []string{model.UseCaseDocumentSubRevisionRelease, "RC1", "RC2"}

const seqEntities = 3 // entity slots used by the sequential state machine

const (
	opAdd          = "add"
	opRemove       = "remove"
	opSetAvail     = "set-availability"
	opRemoveAll    = "remove-all"
	opHas          = "has"
	opRemoveEntity = "remove-entity"
	opAddEntity    = "add-entity"
	opNewEntity    = "new-entity"    // created (use cases can be declared) but not handed to the device yet
	opAttachEntity = "attach-entity" // device.AddEntity of such an entity
)

// op is one application call. Ent/Actor/Name are indices into the domain tables.
type op struct {
	Kind    string
	Ent     int
	Actor   int
	Name    int
	Version string
	SubRev  string
	Avail   bool
	Scen    []uint // mostly ascending and distinct (the way callers write scenario lists), see genValues
	NilScen bool   // pass nil instead of an empty slice when Scen is empty
}

func entName(i int) string { return fmt.Sprint(entityAddrs[i]) }

func (o op) String() string {
	e := entName(o.Ent)
	switch o.Kind {
	case opAdd:
		scen := fmt.Sprint(o.Scen)
		if len(o.Scen) == 0 && o.NilScen {
			scen = "nil"
		}
		return fmt.Sprintf("%s.AddUseCaseSupport(%s, %s, version=%s, subRevision=%s, available=%v, scenarios=%s)", e, actors[o.Actor], names[o.Name], o.Version, o.SubRev, o.Avail, scen)
	case opRemove:
		return fmt.Sprintf("%s.RemoveUseCaseSupport(%s, %s)", e, actors[o.Actor], names[o.Name])
	case opSetAvail:
		return fmt.Sprintf("%s.SetUseCaseAvailability(%s, %s, %v)", e, actors[o.Actor], names[o.Name], o.Avail)
	case opRemoveAll:
		return fmt.Sprintf("%s.RemoveAllUseCaseSupports()", e)
	case opHas:
		return fmt.Sprintf("%s.HasUseCaseSupport(%s, %s)", e, actors[o.Actor], names[o.Name])
	case opRemoveEntity:
		return fmt.Sprintf("device.RemoveEntity(%s)", e)
	case opAddEntity:
		return fmt.Sprintf("device.AddEntity(new %s)", e)
	case opNewEntity:
		return fmt.Sprintf("NewEntityLocal(%s), not added to the device yet", e)
	case opAttachEntity:
		return fmt.Sprintf("device.AddEntity(%s)", e)
	}
	return o.Kind
}

// key is what identifies the operation for distinctness (values left out).
func (o op) key() string { return fmt.Sprintf("%s/%d/%d/%d", o.Kind, o.Ent, o.Actor, o.Name) }

// ---------------------------------------------------------------------------------------------
// reference model

type triple struct{ Ent, Actor, Name int }

type support struct {
	Version, SubRev string
	Avail           bool
	Scen            string // rendered, "[]" for none
}

func (s support) String() string {
	return fmt.Sprintf("version=%s subRevision=%s available=%v scenarios=%s", s.Version, s.SubRev, s.Avail, s.Scen)
}

type registry map[triple]support

func line(ent, actor, name, value string) string {
	return fmt.Sprintf("%s %s %s: %s", ent, actor, name, value)
}

func (t triple) line(s support) string {
	return line(entName(t.Ent), string(actors[t.Actor]), string(names[t.Name]), s.String())
}

// effects of an operation on the model
const (
	fxAddNew       = "add-new"
	fxAddOverwrite = "add-overwrite"
	fxAddSame      = "add-same" // re-add with identical values
	fxRemove       = "remove-known"
	fxRemoveLast   = "remove-last-of-actor"
	fxRemoveMiss   = "remove-unknown"
	fxAvail        = "set-availability-known"
	fxAvailSame    = "set-availability-same"
	fxAvailMiss    = "set-availability-unknown"
	fxRemoveAll    = "remove-all"
	fxRemoveAllNop = "remove-all-empty"
	fxHas          = "has"
	fxRemoveEntity = "remove-entity"
	fxAddEntity    = "add-entity"
	fxInitial      = "initial"
)

// removesOrOverwrites reports whether the effect took something away from the registry or replaced it.
func removesOrOverwrites(fx string, hadUseCases bool) bool {
	switch fx {
	case fxAddOverwrite, fxRemove, fxRemoveLast, fxAvail, fxRemoveAll:
		return true
	case fxRemoveEntity:
		return hadUseCases
	}
	return false
}

// changesRegistry reports whether the effect left the registry different from before.
func changesRegistry(fx string) bool {
	switch fx {
	case fxAddNew, fxAddOverwrite, fxRemove, fxRemoveLast, fxAvail, fxRemoveAll:
		return true
	}
	return false
}

func (r registry) holds(ent int) bool {
	for k := range r {
		if k.Ent == ent {
			return true
		}
	}
	return false
}

func (r registry) holders() int {
	seen := map[int]bool{}
	for k := range r {
		seen[k.Ent] = true
	}
	return len(seen)
}

// apply folds one operation into the model and names its effect.
func (r registry) apply(o op) string {
	k := triple{o.Ent, o.Actor, o.Name}
	switch o.Kind {
	case opAdd:
		v := support{Version: o.Version, SubRev: o.SubRev, Avail: o.Avail, Scen: fmt.Sprint(o.Scen)}
		old, ok := r[k]
		r[k] = v
		switch {
		case !ok:
			return fxAddNew
		case old == v:
			return fxAddSame
		}
		return fxAddOverwrite
	case opRemove:
		if _, ok := r[k]; !ok {
			return fxRemoveMiss
		}
		delete(r, k)
		for k2 := range r {
			if k2.Ent == k.Ent && k2.Actor == k.Actor {
				return fxRemove
			}
		}
		return fxRemoveLast
	case opSetAvail:
		old, ok := r[k]
		if !ok {
			return fxAvailMiss
		}
		if old.Avail == o.Avail {
			return fxAvailSame
		}
		old.Avail = o.Avail
		r[k] = old
		return fxAvail
	case opRemoveAll, opRemoveEntity:
		had := false
		for k2 := range r {
			if k2.Ent == o.Ent {
				delete(r, k2)
				had = true
			}
		}
		if o.Kind == opRemoveEntity {
			return fxRemoveEntity
		}
		if had {
			return fxRemoveAll
		}
		return fxRemoveAllNop
	case opHas:
		return fxHas
	case opAddEntity, opNewEntity, opAttachEntity:
		return fxAddEntity
	}
	panic("harness: unknown op " + o.Kind)
}

func (r registry) clone() registry {
	c := registry{}
	for k, v := range r {
		c[k] = v
	}
	return c
}

func (r registry) keys() []triple {
	ks := make([]triple, 0, len(r))
	for k := range r {
		ks = append(ks, k)
	}
	sort.Slice(ks, func(i, j int) bool {
		a, b := ks[i], ks[j]
		if a.Ent != b.Ent {
			return a.Ent < b.Ent
		}
		if a.Actor != b.Actor {
			return a.Actor < b.Actor
		}
		return a.Name < b.Name
	})
	return ks
}

// lines renders the registry canonically: one sorted line per supported use case.
func (r registry) lines() []string {
	out := make([]string, 0, len(r))
	for k, v := range r {
		out = append(out, k.line(v))
	}
	sort.Strings(out)
	return out
}

// ---------------------------------------------------------------------------------------------
// driving the stack

// run performs one registry operation on the entity. Everything handed to the stack is built
// freshly here and never touched again (the stack keeps the scenario slice).
func run(e api.EntityLocalInterface, o op) (has bool) {
	a, n := actors[o.Actor], names[o.Name]
	switch o.Kind {
	case opAdd:
		var scen []model.UseCaseScenarioSupportType
		if len(o.Scen) > 0 || !o.NilScen {
			scen = make([]model.UseCaseScenarioSupportType, 0, len(o.Scen))
			for _, s := range o.Scen {
				scen = append(scen, model.UseCaseScenarioSupportType(s))
			}
		}
		e.AddUseCaseSupport(a, n, model.SpecificationVersionType(o.Version), o.SubRev, o.Avail, scen)
	case opRemove:
		e.RemoveUseCaseSupport(a, n)
	case opSetAvail:
		e.SetUseCaseAvailability(a, n, o.Avail)
	case opRemoveAll:
		e.RemoveAllUseCaseSupports()
	case opHas:
		return e.HasUseCaseSupport(a, n)
	default:
		panic("harness: run cannot perform " + o.Kind)
	}
	return false
}

func ptrStr[T ~string](p *T) string {
	if p == nil {
		return "<absent>"
	}
	return string(*p)
}

// decode renders use-case data in the canonical form of registry.lines. Only values are kept,
// no reference into data survives the call. Groups without supports carry no (entity, actor,
// name) fact and are skipped: the statement speaks about supported use cases only, so an empty
// group is neither required nor forbidden. A use case listed twice yields two lines and thus a
// mismatch (the registry has one value per entity, actor and name).
func decode(data *model.NodeManagementUseCaseDataType) []string {
	out := []string{}
	if data == nil {
		return out
	}
	for _, info := range data.UseCaseInformation {
		ent := "<no address>"
		if info.Address != nil {
			ids := make([]uint, 0, len(info.Address.Entity))
			for _, id := range info.Address.Entity {
				ids = append(ids, uint(id))
			}
			ent = fmt.Sprint(ids)
			if info.Address.Entity == nil {
				ent = "<no entity>"
			}
			if info.Address.Device == nil || string(*info.Address.Device) != world.LocalAddr {
				ent = "device=" + ptrStr(info.Address.Device) + " " + ent
			}
		}
		actor := ptrStr(info.Actor)
		for _, uc := range info.UseCaseSupport {
			avail := "<absent>"
			if uc.UseCaseAvailable != nil {
				avail = fmt.Sprint(*uc.UseCaseAvailable)
			}
			scen := make([]uint, 0, len(uc.ScenarioSupport))
			for _, s := range uc.ScenarioSupport {
				scen = append(scen, uint(s))
			}
			value := fmt.Sprintf("version=%s subRevision=%s available=%s scenarios=%v", ptrStr(uc.UseCaseVersion), ptrStr(uc.UseCaseDocumentSubRevision), avail, scen)
			out = append(out, line(ent, actor, ptrStr(uc.UseCaseName), value))
		}
	}
	sort.Strings(out)
	return out
}

// stored decodes what the local NodeManagement feature holds.
func stored(w *world.World) []string {
	d, _ := w.Local.NodeManagement().DataCopy(model.FunctionTypeNodeManagementUseCaseData).(*model.NodeManagementUseCaseDataType)
	return decode(d)
}

// peerRead lets the peer read nodeManagementUseCaseData and decodes the reply. problem is
// non-empty if the read was not answered by exactly one reply carrying use-case data.
func peerRead(w *world.World, p *world.Peer) (lines []string, problem string) {
	d := p.Msg(model.CmdClassifierTypeRead, p.NM(), world.LocalNM(), false, nil,
		model.CmdType{NodeManagementUseCaseData: &model.NodeManagementUseCaseDataType{}})
	p.Send(d)
	w.Sync()
	var replies []world.Sent
	for _, s := range p.Cap.Drain() {
		if s.Ref() != nil && *s.Ref() == *d.Header.MsgCounter {
			replies = append(replies, s)
		}
	}
	if len(replies) != 1 {
		return nil, fmt.Sprintf("%d datagrams answer the read", len(replies))
	}
	r := replies[0]
	if r.Err != nil {
		return nil, "the answer does not decode: " + r.Err.Error()
	}
	if r.Classifier() != model.CmdClassifierTypeReply {
		return nil, fmt.Sprintf("the read was answered with classifier %q: %s", r.Classifier(), r.Raw)
	}
	if r.Cmd().NodeManagementUseCaseData == nil {
		return nil, fmt.Sprintf("the reply carries no nodeManagementUseCaseData: %s", r.Raw)
	}
	return decode(r.Cmd().NodeManagementUseCaseData), ""
}

// diff lists the lines only in want ("-") and only in got ("+"), as multisets.
func diff(want, got []string) []string {
	count := map[string]int{}
	for _, l := range want {
		count[l]++
	}
	for _, l := range got {
		count[l]--
	}
	var out []string
	for l, c := range count {
		for ; c > 0; c-- {
			out = append(out, "- "+l)
		}
		for ; c < 0; c++ {
			out = append(out, "+ "+l)
		}
	}
	sort.Slice(out, func(i, j int) bool { return out[i][2:] < out[j][2:] || (out[i][2:] == out[j][2:] && out[i] < out[j]) })
	return out
}

func block(lines []string) string {
	if len(lines) == 0 {
		return "   (nothing)"
	}
	return "   " + strings.Join(lines, "\n   ")
}

// touchesOther reports whether a difference concerns an entity other than ent.
func touchesOther(d []string, ent int) bool {
	if ent < 0 {
		return false
	}
	prefix := entName(ent) + " "
	for _, l := range d {
		if !strings.HasPrefix(l[2:], prefix) {
			return true
		}
	}
	return false
}

// ---------------------------------------------------------------------------------------------
// generators

func genValues(t *rapid.T, o *op) {
	o.Version = rapid.SampledFrom(versions).Draw(t, "version")
	o.SubRev = rapid.SampledFrom(subRevisions).Draw(t, "subRevision")
	o.Avail = rapid.Bool().Draw(t, "available")
	scen := rapid.SliceOfNDistinct(rapid.UintRange(1, 6), 0, 4, rapid.ID[uint]).Draw(t, "scenarios")
	// mostly ascending and distinct (the way callers write scenario lists) - but "the scenarios last given" are
	// the list as given: now and then it is left in the drawn order, or names a scenario twice
	switch rapid.IntRange(0, 5).Draw(t, "scenarioListForm") {
	case 0, 1:
		world.Label("scenarios/as-drawn")
	case 2:
		if len(scen) > 0 {
			scen = append(scen, scen[rapid.IntRange(0, len(scen)-1).Draw(t, "repeated")])
			world.Label("scenarios/one-named-twice")
		}
	default:
		sort.Slice(scen, func(i, j int) bool { return scen[i] < scen[j] })
	}
	o.Scen = scen
	if len(scen) == 0 {
		o.NilScen = rapid.Bool().Draw(t, "nilScenarios")
	}
}

func genTriple(t *rapid.T, o *op) {
	o.Actor = rapid.IntRange(0, len(actors)-1).Draw(t, "actor")
	o.Name = rapid.IntRange(0, len(names)-1).Draw(t, "name")
}

// ---------------------------------------------------------------------------------------------
// sequential state machine

type machine struct {
	w     *world.World
	peer  *world.Peer
	ents  [seqEntities]api.EntityLocalInterface
	alive [seqEntities]bool
	// created with NewEntityLocal and not yet handed to the device: its use cases are declared all the same
	detached [seqEntities]bool
	reg   registry

	hist    []string // the history written out
	keys    []string // distinctness key
	lastFx  string
	lastEnt int // entity the last operation was issued on (-1: none)
	nt      bool
}

func (m *machine) aliveSlots() []int {
	var out []int
	for i, a := range m.alive {
		if a {
			out = append(out, i)
		}
	}
	return out
}

func (m *machine) drawAlive(t *rapid.T) int {
	slots := m.aliveSlots()
	if len(slots) == 0 {
		t.Skip("no entity left")
	}
	return rapid.SampledFrom(slots).Draw(t, "entity")
}

// drawKnown picks a use case the model holds on an entity that still exists.
func (m *machine) drawKnown(t *rapid.T) triple {
	ks := m.reg.keys()
	if len(ks) == 0 {
		t.Skip("registry empty")
	}
	return ks[rapid.IntRange(0, len(ks)-1).Draw(t, "known")]
}

// step performs o on the stack and on the model (has: the answer of a Has operation).
func (m *machine) step(o op) (has bool) {
	holders, had := m.reg.holders(), m.reg.holds(o.Ent)
	switch o.Kind {
	case opRemoveEntity:
		m.w.Local.RemoveEntity(m.ents[o.Ent])
		m.alive[o.Ent] = false
	case opAddEntity:
		m.ents[o.Ent] = m.w.AddLocalEntity(entityAddrs[o.Ent], entityTypes[o.Ent], time.Second)
		m.alive[o.Ent] = true
	case opNewEntity:
		m.ents[o.Ent] = spine.NewEntityLocal(m.w.Local, entityTypes[o.Ent], spine.NewAddressEntityType(entityAddrs[o.Ent]), time.Second)
		m.alive[o.Ent], m.detached[o.Ent] = true, true
	case opAttachEntity:
		m.w.Local.AddEntity(m.ents[o.Ent])
		m.detached[o.Ent] = false
	default:
		has = run(m.ents[o.Ent], o)
	}
	m.w.Sync()
	fx := m.reg.apply(o)
	m.lastFx, m.lastEnt = fx, o.Ent
	m.hist = append(m.hist, fmt.Sprintf("%2d. %s   (%s)", len(m.hist)+1, o, fx))
	m.keys = append(m.keys, o.key()+"/"+fx)
	world.Label("op/" + fx)
	if holders >= 2 && removesOrOverwrites(fx, had) {
		m.nt = true
	}
	return has
}

func (m *machine) describe() string {
	return fmt.Sprintf("\n history:\n%s\n registry expected after the last operation:\n%s", block(m.hist), block(m.reg.lines()))
}

// check is the invariant: the three observation points agree with the model.
func (m *machine) check(t *rapid.T) {
	want := m.reg.lines()

	// what NodeManagement stores
	if got := stored(m.w); len(diff(want, got)) > 0 {
		d := diff(want, got)
		clause := "stored-data"
		if touchesOther(d, m.lastEnt) {
			clause = "isolation"
		}
		world.Fail(t, "C20/"+clause+"/"+m.lastFx, "DataCopy(nodeManagementUseCaseData) differs from the declared use cases (- missing, + unexpected):\n%s\n stored:\n%s%s", block(d), block(got), m.describe())
	}

	// HasUseCaseSupport for every triple of the domain (also on entities that were removed)
	for e := 0; e < seqEntities; e++ {
		for a := range actors {
			for n := range names {
				_, wantHas := m.reg[triple{e, a, n}]
				if got := m.ents[e].HasUseCaseSupport(actors[a], names[n]); got != wantHas {
					clause := "has"
					if m.lastEnt >= 0 && e != m.lastEnt {
						clause = "isolation"
					}
					world.Fail(t, "C20/"+clause+"/"+m.lastFx, "%s.HasUseCaseSupport(%s, %s) = %v, expected %v%s", entName(e), actors[a], names[n], got, wantHas, m.describe())
				}
			}
		}
	}

	// what a peer reads
	got, problem := peerRead(m.w, m.peer)
	if problem != "" {
		world.Fail(t, "C20/peer-read/"+m.lastFx, "read of nodeManagementUseCaseData: %s%s", problem, m.describe())
	}
	if d := diff(want, got); len(d) > 0 {
		world.Fail(t, "C20/peer-read/"+m.lastFx, "the reply to a read of nodeManagementUseCaseData differs from the declared use cases (- missing, + unexpected):\n%s\n reply:\n%s%s", block(d), block(got), m.describe())
	}
}

func TestUseCaseRegistry(t *testing.T) {
	rapid.Check(t, world.Prop(func(t *rapid.T) {
		w := world.New()
		defer w.Teardown()
		m := &machine{w: w, reg: registry{}, lastFx: fxInitial, lastEnt: -1}
		for i := 0; i < seqEntities; i++ {
			m.ents[i] = w.AddLocalEntity(entityAddrs[i], entityTypes[i], time.Second)
			m.alive[i] = true
		}
		m.peer = w.AddPeer("ski1", "d:_r:peer1", nil)
		subscribed := rapid.Bool().Draw(t, "peerSubscribed")
		if subscribed {
			// like every real peer: subscribed to NodeManagement, so every change is also notified
			if !m.peer.CallOK(world.SubscribeCall(m.peer.NM(), world.LocalNM(), model.FeatureTypeTypeNodeManagement)) {
				t.Fatalf("harness: subscription to NodeManagement not granted")
			}
		}
		defer func() {
			label := "peer/unsubscribed"
			if subscribed {
				label = "peer/subscribed"
			}
			world.Record(world.Hash(m.keys), m.nt, label)
			if m.nt && world.WantSample() {
				world.Sample(map[string]any{"kind": "sequential", "history": append([]string(nil), m.hist...), "final": m.reg.lines()})
			}
		}()

		addEntity := func(t *rapid.T) {
			var dead []int
			for i, a := range m.alive {
				if !a {
					dead = append(dead, i)
				}
			}
			if len(dead) == 0 {
				t.Skip("all entities exist")
			}
			kind := opAddEntity
			if rapid.IntRange(0, 2).Draw(t, "notAddedYet") == 0 {
				kind = opNewEntity
			}
			m.step(op{Kind: kind, Ent: rapid.SampledFrom(dead).Draw(t, "entity")})
		}
		attachEntity := func(t *rapid.T) {
			var cands []int
			for i := range m.detached {
				if m.detached[i] {
					cands = append(cands, i)
				}
			}
			if len(cands) == 0 {
				t.Skip("every entity is part of the device")
			}
			m.step(op{Kind: opAttachEntity, Ent: rapid.SampledFrom(cands).Draw(t, "entity")})
		}
		add := func(t *rapid.T) {
			if len(m.aliveSlots()) == 0 {
				// every entity was removed: all other actions skip, so bring one back here
				// (keeps the chance of not finding a valid action negligible)
				addEntity(t)
				return
			}
			o := op{Kind: opAdd, Ent: m.drawAlive(t)}
			genTriple(t, &o)
			genValues(t, &o)
			m.step(o)
		}
		anyTriple := func(kind string) func(t *rapid.T) {
			return func(t *rapid.T) {
				o := op{Kind: kind, Ent: m.drawAlive(t)}
				genTriple(t, &o)
				if kind == opSetAvail {
					o.Avail = rapid.Bool().Draw(t, "available")
				}
				got := m.step(o)
				if kind == opHas {
					_, want := m.reg[triple{o.Ent, o.Actor, o.Name}]
					if got != want {
						world.Fail(t, "C20/has/has", "%s = %v, expected %v%s", o, got, want, m.describe())
					}
					world.Label(fmt.Sprintf("has/%v", want))
				}
			}
		}
		known := func(kind string) func(t *rapid.T) {
			return func(t *rapid.T) {
				k := m.drawKnown(t)
				o := op{Kind: kind, Ent: k.Ent, Actor: k.Actor, Name: k.Name}
				switch kind {
				case opAdd:
					genValues(t, &o)
				case opSetAvail:
					o.Avail = rapid.Bool().Draw(t, "available")
				}
				m.step(o)
			}
		}
		t.Repeat(map[string]func(*rapid.T){
			"":       m.check,
			"Add1":   add,
			"Add2":   add,
			"Add3":   add,
			"Add4":   add,
			"ReAdd":  known(opAdd),
			"Remove": known(opRemove),
			// a drawn triple is mostly an unknown one while the registry is sparse
			"RemoveAny":       anyTriple(opRemove),
			"SetAvailability": known(opSetAvail),
			"SetAvailAny":     anyTriple(opSetAvail),
			"Has":             anyTriple(opHas),
			"RemoveAll": func(t *rapid.T) {
				m.step(op{Kind: opRemoveAll, Ent: m.drawAlive(t)})
			},
			"RemoveEntity": func(t *rapid.T) {
				e := m.drawAlive(t)
				if m.detached[e] {
					t.Skip("not part of the device")
				}
				m.step(op{Kind: opRemoveEntity, Ent: e})
			},
			"AddEntity":    addEntity,
			"AttachEntity": attachEntity,
		})
	}))
}
