package c10

import (
	"testing"

	"verifharness/scen"
)

// see scen.RemovalDuringPublication
func TestRemovalDuringPublication(t *testing.T) { scen.RemovalDuringPublication(t, "C10") }
